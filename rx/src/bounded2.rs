// Bounded stand-ins, part 2: C04 C09 C10 C11 C13 C15 C16 (see bounded.rs for the rules; never counted as proof).
use crate::bounded::*;
use ommx::v1::{self, decision_variable::Kind, Equality, Function, Instance};
use ommx::Evaluate;
use std::collections::{BTreeMap, BTreeSet, HashMap};
use v1::function::Function as F;

macro_rules! fail { ($n:expr, $d:expr, $($a:tt)*) => { return Outcome { cases: $n, distinct: $d.len(), fail: Some(format!($($a)*)) } } }
fn close(a: f64, b: f64) -> bool { (a - b).abs() <= 1e-9 * (1.0 + a.abs().max(b.abs())) }

// functions without tiny coefficients (epsilon-dropping is documented behaviour of the operator layer)
fn plain_functions() -> Vec<Function> {
    vec![
        f_of(F::Constant(1.5)),
        f_of(F::Linear(lin(&[(1, 2.0), (2, 3.0), (1, 5.0)], 1.0))),
        f_of(F::Linear(lin(&[(3, -0.5)], -2.0))),
        f_of(F::Quadratic(quad(&[(1, 2, 3.0), (2, 1, -1.0), (2, 2, 0.5)], None))),
        f_of(F::Quadratic(quad(&[(2, 1, 4.0), (3, 3, 1.0)], Some(lin(&[(3, 1.0), (1, 0.25)], 2.0))))),
        f_of(F::Polynomial(poly(&[(&[1, 1, 2], 2.0), (&[], 1.0), (&[2, 1, 1], -1.0), (&[3], 0.5)]))),
        f_of(F::Polynomial(poly(&[(&[3, 3, 3], 0.5), (&[1], -4.0), (&[1, 2, 3], 1.0)]))),
    ]
}
fn replacements() -> Vec<Function> {
    vec![
        f_of(F::Constant(2.0)),
        f_of(F::Linear(lin(&[(4, 1.0)], 0.0))),
        f_of(F::Linear(lin(&[(4, 2.0), (5, -1.0)], 0.5))),
        f_of(F::Linear(lin(&[(1, 1.0), (2, 1.0)], 0.0))),                       // mentions replaced variables (function level only)
        f_of(F::Quadratic(quad(&[(4, 5, 1.0), (4, 4, -0.5)], Some(lin(&[(5, 1.0)], 1.0))))),
    ]
}
fn states5() -> Vec<HashMap<u64, f64>> {
    vec![
        (1..=5u64).map(|i| (i, i as f64 * 0.5 - 1.0)).collect(),
        (1..=5u64).map(|i| (i, if i % 2 == 0 { -2.0 } else { 0.25 })).collect(),
        (1..=5u64).map(|i| (i, (6 - i) as f64)).collect(),
    ]
}

pub fn c04() -> Outcome {
    let mut n = 0; let mut d = BTreeSet::new();
    let fs = plain_functions(); let rs = replacements();
    // (a) function level: simultaneous substitution of 1..3 variables
    for (fi, f) in fs.iter().enumerate() { for r1 in 0..rs.len() { for r2 in 0..=rs.len() { for which in 0..3usize {
        let mut map: HashMap<u64, Function> = HashMap::new();
        let ids = [[1u64, 2], [2, 3], [3, 1]][which];
        map.insert(ids[0], rs[r1].clone());
        if r2 < rs.len() { map.insert(ids[1], rs[r2].clone()); }
        n += 1; d.insert((0, fi, r1, r2, which));
        if fi == 3 && r1 == 2 && r2 == 4 { note(|| format!("Function::substitute f={f:?} with {map:?}")); }
        trace(|| format!("Function::substitute f={f:?} with {map:?}"));
        let g = match f.substitute(&map) { Ok(g) => g, Err(e) => fail!(n, d, "Function::substitute failed ({e}): f={f:?} map={map:?}") };
        for s in states5() {
            let mut s2 = s.clone();
            for (id, r) in &map { s2.insert(*id, ref_val(r, &s).unwrap()); }
            let want = ref_val(f, &s2).unwrap();
            let got = match g.evaluate(&s.clone().into_iter().collect()) { Ok(v) => v.0, Err(e) => fail!(n, d, "evaluating the substituted function failed ({e}): f={f:?} map={map:?}") };
            if !close(got, want) { fail!(n, d, "Function::substitute: f={f:?} replacements={map:?} at {s:?}: substituted function gives {got}, composition gives {want}"); }
        }
    } } } }
    // (b0) a replaced variable keeps its declared kind and bound, but only the REMAINING variables are inputs: at an in-bound state of those, evaluation reports the value of the
    // replacement for it even when that value lies outside the bound still declared on the replaced variable
    for (kind, bound) in [(Kind::Integer, Some((0.0, 1.0))), (Kind::Binary, None), (Kind::Continuous, Some((-1.0, 0.5))), (Kind::Integer, Some((0.0, 5.0)))] {
        n += 1; d.insert((7, n, 0, 0, 0));
        let dvs = vec![dv(1, kind, bound), dv(2, Kind::Binary, None), dv(3, Kind::Integer, Some((0.0, 4.0)))];
        let mut i = inst(dvs, f_of(F::Linear(lin(&[(1, 1.0), (2, 1.0)], 0.0))), vec![con(10, Equality::LessThanOrEqualToZero, f_of(F::Linear(lin(&[(1, 1.0)], -10.0))))]);
        if let Err(e) = i.substitute([(1u64, f_of(F::Linear(lin(&[(2, 1.0), (3, 2.0)], 0.0))))].into_iter().collect()) { fail!(n, d, "Instance::substitute failed: {e}"); }
        for (x2, x3) in [(1.0, 1.0), (0.0, 4.0), (1.0, 0.0)] {
            let x1 = x2 + 2.0 * x3;
            match i.evaluate(&state(&[(2, x2), (3, x3)])) {
                Ok((sol, _)) => {
                    let got = sol.state.as_ref().and_then(|s| s.entries.get(&1).copied());
                    if got != Some(x1) || !close(sol.objective, x1 + x2) { fail!(n, d, "x1 := x2 + 2*x3 (x1 declared {kind:?} {bound:?}) at x2={x2}, x3={x3}: reported x1={got:?}, objective {}; expected {x1} and {}", sol.objective, x1 + x2); }
                }
                Err(e) => fail!(n, d, "x1 := x2 + 2*x3 (x1 declared {kind:?} {bound:?}): evaluating the in-bound state x2={x2}, x3={x3} of the remaining variables failed: {e}"),
            }
        }
    }
    // (b) instance level, chains by successive substitution: x1 := r(x4,x5), then x4 := 2*x5 + 1
    for (fi, f) in fs.iter().enumerate() { for r1 in [0usize, 1, 2, 4] {
        n += 1; d.insert((1, fi, r1, 0, 0));
        let dvs = (1..=5u64).map(|i| dv(i, Kind::Continuous, None)).collect();
        let c1 = con(10, Equality::LessThanOrEqualToZero, fs[(fi + 1) % fs.len()].clone());
        let c2 = con(11, Equality::EqualToZero, fs[(fi + 2) % fs.len()].clone());
        let mut i = inst(dvs, f.clone(), vec![c1, c2]);
        i.relax_constraint(11, "r".into(), HashMap::new()).unwrap();
        let orig = i.clone();
        if let Err(e) = i.substitute([(1u64, rs[r1].clone())].into_iter().collect()) { fail!(n, d, "Instance::substitute failed: {e}"); }
        if let Err(e) = i.substitute([(4u64, f_of(F::Linear(lin(&[(5, 2.0)], 1.0))))].into_iter().collect()) { fail!(n, d, "second Instance::substitute failed: {e}"); }
        for x in [[0.5, -1.0, 2.0], [1.0, 0.25, -0.5]] {
            let given = state(&[(2, x[0]), (3, x[1]), (5, x[2])]);
            let x4 = 2.0 * x[2] + 1.0;
            let mut full: HashMap<u64, f64> = [(2u64, x[0]), (3, x[1]), (5, x[2]), (4, x4)].into_iter().collect();
            let x1 = ref_val(&rs[r1], &full).unwrap();
            full.insert(1, x1);
            let (sol, _) = match i.evaluate(&given) { Ok(s) => s, Err(e) => fail!(n, d, "evaluate after substitute failed ({e}) with objective {f:?}, x1 := {:?}", rs[r1]) };
            let (want, _) = orig.evaluate(&full.clone().into_iter().collect()).unwrap();
            let st = sol.state.as_ref().unwrap();
            if !close(*st.entries.get(&1).unwrap_or(&f64::NAN), x1) || !close(*st.entries.get(&4).unwrap_or(&f64::NAN), x4) {
                fail!(n, d, "after x1 := {:?} then x4 := 2*x5+1, evaluating at {given:?} reports x1={:?} x4={:?}, expected {x1} and {x4}", rs[r1], st.entries.get(&1), st.entries.get(&4));
            }
            if !close(sol.objective, want.objective) || sol.feasible != want.feasible || sol.feasible_relaxed != want.feasible_relaxed {
                fail!(n, d, "after substitution objective/feasibility = {}/{}/{:?}, original at the combined assignment = {}/{}/{:?} (objective {f:?}, x1 := {:?})", sol.objective, sol.feasible, sol.feasible_relaxed, want.objective, want.feasible, want.feasible_relaxed, rs[r1]);
            }
            for (a, b) in sol.evaluated_constraints.iter().zip(want.evaluated_constraints.iter()) {
                if a.id != b.id || !close(a.evaluated_value, b.evaluated_value) { fail!(n, d, "constraint {} value {} after substitution, {} on the original", a.id, a.evaluated_value, b.evaluated_value); }
            }
        }
    } }
    // (c) dependency graphs: chains in every insertion order, cycles and dangling references fail cleanly
    let perms: Vec<Vec<u64>> = vec![vec![6, 7, 8], vec![6, 8, 7], vec![7, 6, 8], vec![7, 8, 6], vec![8, 6, 7], vec![8, 7, 6]];
    for (pi, p) in perms.iter().enumerate() { for kind in 0..7 {
        n += 1; d.insert((2, pi, kind, 0, 0));
        // kinds 5 and 6: variable 8 refers to the undefined 99 inside a PRODUCT whose other factor is 0 at the given state (x1 = 0): still a variable without a value
        let dvs = [1u64, 6, 7, 8].iter().map(|&i| dv(i, Kind::Continuous, None)).collect();
        let mut i = inst(dvs, f_of(F::Linear(lin(&[(1, 1.0)], 0.0))), vec![]);
        // 6 := x1 + 1 ; 7 := 2*x6 ; 8 := x6*x7   (kind 0);  kind 1: cycle 6 -> 8 -> 7 -> 6;  kind 2: 8 refers to undefined 99; kind 3: self-cycle
        let defs: HashMap<u64, Function> = [
            (6u64, if kind == 4 { f_of(F::Linear(lin(&[(1, 1.0)], 1.0))) } else if kind == 1 { f_of(F::Linear(lin(&[(8, 1.0)], 1.0))) } else if kind == 3 { f_of(F::Linear(lin(&[(6, 1.0)], 1.0))) } else { f_of(F::Linear(lin(&[(1, 1.0)], 1.0))) }),
            (7, f_of(F::Linear(lin(&[(6, 2.0)], 0.0)))),
            (8, if kind == 4 { f_of(F::Linear(lin(&[(8, 1.0), (6, 1.0)], 0.0))) } else if kind == 2 { f_of(F::Linear(lin(&[(99, 1.0)], 0.0))) }
                else if kind == 5 { f_of(F::Quadratic(quad(&[(1, 99, 1.0)], Some(lin(&[(6, 1.0)], 0.0))))) } else if kind == 6 { f_of(F::Polynomial(poly(&[(&[1, 99, 6], 2.0), (&[6], 1.0)]))) }
                else { f_of(F::Quadratic(quad(&[(6, 7, 1.0)], None))) }),
        ].into_iter().collect();
        for id in p { i.decision_variable_dependency.insert(*id, defs[id].clone()); }
        let (tx, rx_) = std::sync::mpsc::channel();
        let i2 = i.clone();
        let x1 = if kind >= 5 { 0.0 } else { 2.0 };
        std::thread::spawn(move || { let _ = tx.send(i2.evaluate(&state(&[(1, x1)])).map_err(|e| e.to_string())); });
        let r = match rx_.recv_timeout(std::time::Duration::from_secs(10)) { Ok(r) => r, Err(_) => fail!(n, d, "Instance::evaluate did not return within 10 s (hang) on dependencies kind {kind} (0 chain, 1 cycle 6->8->7->6, 2 dangling reference, 3 self-cycle), insertion order {p:?}") };
        match (kind, r) {
            (0, Ok((sol, _))) => { let e = sol.state.unwrap().entries; if e.get(&6) != Some(&3.0) || e.get(&7) != Some(&6.0) || e.get(&8) != Some(&18.0) { fail!(n, d, "dependency chain 6:=x1+1, 7:=2*x6, 8:=x6*x7 at x1=2 (insertion order {p:?}) reports {e:?}, expected 3, 6, 18"); } }
            (0, Err(e)) => fail!(n, d, "acyclic dependency chain failed: {e}"),
            (_, Ok((sol, _))) => fail!(n, d, "cyclic/dangling dependencies (kind {kind}) produced an answer: {:?}", sol.state),
            (_, Err(_)) => {}
        }
    } }
    Outcome { cases: n, distinct: d.len(), fail: None }
}

fn small_instances() -> Vec<Instance> {
    let fs = plain_functions();
    let mut v = vec![];
    for k in 0..fs.len() {
        // id layouts: sorted, unsorted (largest id not last), non-contiguous
        let order: [u64; 4] = [[1, 2, 3, 9], [9, 3, 1, 2], [2, 9, 1, 3]][k % 3];
        let dvs = order.iter().map(|&i| dv(i, if i == 9 { Kind::Integer } else { Kind::Continuous }, None)).collect();
        let mut cs = vec![con(5, Equality::EqualToZero, fs[(k + 1) % fs.len()].clone()), con(20, Equality::LessThanOrEqualToZero, fs[(k + 3) % fs.len()].clone()), con(7, Equality::LessThanOrEqualToZero, f_of(F::Constant(0.5)))];
        if k % 3 == 1 { cs.push({ let mut c = con(8, Equality::EqualToZero, Function::default()); c.function = None; c }); }
        let mut i = inst(dvs, fs[k].clone(), cs);
        if k % 2 == 0 { i.relax_constraint(20, "pre".into(), [("a".to_string(), "b".to_string())].into_iter().collect()).unwrap(); }
        if k % 4 == 3 { i.objective = None; }
        i.sense = if k % 2 == 0 { v1::instance::Sense::Minimize } else { v1::instance::Sense::Maximize } as i32;
        i.decision_variable_dependency.insert(9, f_of(F::Linear(lin(&[(1, 1.0)], 0.0))));
        v.push(i);
    }
    v
}
fn cfun(c: &v1::Constraint) -> Function { c.function.clone().unwrap_or_default() }

pub fn c09() -> Outcome {
    let mut n = 0; let mut d = BTreeSet::new();
    // every instance also with its largest-id variable fixed (substituted_value set, as partial_evaluate leaves it): it stays a decision variable of the instance
    let mut insts = small_instances();
    for mut i in small_instances() { let m = i.decision_variables.iter().map(|v| v.id).max().unwrap(); for v in i.decision_variables.iter_mut() { if v.id == m { v.substituted_value = Some(1.0); } } i.decision_variable_dependency.clear(); insts.push(i); }
    // ... and with one more variable, fixed, whose id is the next free one (exactly where a careless "next id" would put the first weight)
    for mut i in small_instances() { let m = i.decision_variables.iter().map(|v| v.id).max().unwrap(); let mut v = dv(m + 1, Kind::Continuous, None); v.substituted_value = Some(2.0); i.decision_variables.insert(0, v); insts.push(i); }
    for (ii, i) in insts.into_iter().enumerate() { for uniform in [false, true] {
        n += 1; d.insert((ii, uniform));
        if ii == 2 { note(|| format!("{} on instance with active ids {:?}, removed ids {:?}", if uniform { "uniform_penalty_method" } else { "penalty_method" }, i.constraints.iter().map(|c| c.id).collect::<Vec<_>>(), i.removed_constraints.iter().map(|c| c.constraint.as_ref().unwrap().id).collect::<Vec<_>>())); }
        let p = match if uniform { i.clone().uniform_penalty_method() } else { i.clone().penalty_method() } { Ok(p) => p, Err(e) => fail!(n, d, "penalty method failed: {e}") };
        if !p.constraints.is_empty() { fail!(n, d, "penalty result still has active constraints"); }
        let mut want: Vec<v1::Constraint> = i.removed_constraints.iter().map(|r| r.constraint.clone().unwrap()).chain(i.constraints.iter().cloned()).collect();
        let mut got: Vec<v1::Constraint> = p.removed_constraints.iter().filter_map(|r| r.constraint.clone()).collect();
        want.sort_by_key(|c| c.id); got.sort_by_key(|c| c.id);
        if want != got { fail!(n, d, "penalty method (uniform={uniform}): removed constraints of the result {:?} are not the input's active+removed constraints {:?}", got.iter().map(|c| c.id).collect::<Vec<_>>(), want.iter().map(|c| c.id).collect::<Vec<_>>()); }
        if p.decision_variables != i.decision_variables || p.sense != i.sense || p.decision_variable_dependency != i.decision_variable_dependency { fail!(n, d, "variables/sense/dependencies not carried over"); }
        let dv_ids: BTreeSet<u64> = i.decision_variables.iter().map(|v| v.id).collect();
        let pids: Vec<u64> = p.parameters.iter().map(|q| q.id).collect();
        let pset: BTreeSet<u64> = pids.iter().cloned().collect();
        if pset.len() != pids.len() || pset.iter().any(|q| dv_ids.contains(q)) { fail!(n, d, "weight parameter ids {pids:?} collide with each other or with decision variables {dv_ids:?}"); }
        if uniform { if pids.len() != 1 { fail!(n, d, "uniform penalty: {} parameters", pids.len()); } }
        else {
            let tags: Vec<i64> = p.parameters.iter().map(|q| q.subscripts.first().copied().unwrap_or(-1)).collect();
            let mut t2 = tags.clone(); t2.sort();
            let mut c2: Vec<i64> = i.constraints.iter().map(|c| c.id as i64).collect(); c2.sort();
            if t2 != c2 { fail!(n, d, "per-constraint penalty: parameters are tagged {tags:?}, active constraint ids were {c2:?}"); }
        }
        // objective value
        for (si, s) in states5().into_iter().enumerate() {
            let f0 = ref_val(&i.objective.clone().unwrap_or_default(), &s).unwrap();
            let mut want = f0;
            let mut full = s.clone();
            for (k, q) in p.parameters.iter().enumerate() { full.insert(q.id, 0.5 * (k as f64 + 1.0) + si as f64); }
            if uniform { let w = full[&pids[0]]; for c in &i.constraints { let g = ref_val(&cfun(c), &s).unwrap(); want += w * g * g; } }
            else { for q in &p.parameters { let cid = q.subscripts[0] as u64; let c = i.constraints.iter().find(|c| c.id == cid).unwrap(); let g = ref_val(&cfun(c), &s).unwrap(); want += full[&q.id] * g * g; } }
            let got = match p.objective.clone().unwrap_or_default().evaluate(&full.clone().into_iter().collect()) { Ok(v) => v.0, Err(e) => fail!(n, d, "penalty objective cannot be evaluated: {e}") };
            if !close(got, want) { fail!(n, d, "penalty objective (uniform={uniform}) at x={s:?} weights={:?}: got {got}, expected f + weighted squared violations = {want}", p.parameters.iter().map(|q| (q.id, full[&q.id])).collect::<Vec<_>>()); }
        }
    } }
    Outcome { cases: n, distinct: d.len(), fail: None }
}

pub fn c10() -> Outcome {
    let mut n = 0; let mut d = BTreeSet::new();
    let fs = plain_functions();
    // variables 1,2 are decision variables; ids 3 (and 4,5 via replacement functions) are parameters
    for k in 0..fs.len() { for mode in 0..5 {
        n += 1; d.insert((k, mode));
        let mut p = v1::ParametricInstance::default();
        p.decision_variables = vec![dv(1, Kind::Continuous, None), dv(2, Kind::Integer, Some((-3.0, 3.0)))];
        p.parameters = [3u64, 4].iter().map(|&i| { let mut q = v1::Parameter::default(); q.id = i; q }).collect();
        p.objective = Some(fs[k].clone());
        p.constraints = vec![con(5, Equality::EqualToZero, fs[(k + 1) % fs.len()].clone()), con(6, Equality::LessThanOrEqualToZero, f_of(F::Quadratic(quad(&[(1, 3, 1.0), (4, 4, 2.0)], Some(lin(&[(2, 1.0)], 0.0)))))),
                             con(7, Equality::LessThanOrEqualToZero, f_of(F::Linear(lin(&[(4, 1.0), (1, 1.0), (3, -2.0)], 0.0)))), con(9, Equality::EqualToZero, f_of(F::Polynomial(poly(&[(&[3, 4, 1], 1.0), (&[2], 1.0)])))),
                             // explicit zero entries on parameter rows / columns (a dense Q matrix): the parameter ids must disappear with them
                             con(10, Equality::LessThanOrEqualToZero, f_of(F::Quadratic(quad(&[(3, 1, 2.0), (3, 2, 0.0), (1, 4, 0.0), (4, 2, -1.0), (3, 4, 0.0)], None)))),
                             con(11, Equality::EqualToZero, f_of(F::Linear(lin(&[(3, 0.0), (1, 1.0), (4, 0.0)], 0.0)))), con(12, Equality::EqualToZero, f_of(F::Polynomial(poly(&[(&[3, 1], 0.0), (&[2], 1.0), (&[4], 0.0)]))))];
        p.removed_constraints = vec![{ let mut r = v1::RemovedConstraint::default(); r.constraint = Some(con(8, Equality::EqualToZero, fs[(k + 2) % fs.len()].clone())); r.removed_reason = "x".into(); r }];
        p.sense = v1::instance::Sense::Maximize as i32;
        let mut h = v1::ConstraintHints::default(); let mut oh = v1::OneHot::default(); oh.constraint_id = 5; oh.decision_variables = vec![1, 2]; h.one_hot_constraints = vec![oh];
        p.constraint_hints = Some(h);
        let mut params = v1::Parameters::default();
        let (pa, pb) = if mode == 4 { (2f64.powi(-60), 2f64.powi(60)) } else { (0.5, -2.0) };   // mode 4: a tiny and a huge parameter value (their product is 1)
        params.entries = match mode { 0 | 4 => [(3u64, pa), (4, pb)].into_iter().collect(), 1 => [(3u64, 0.5), (4, -2.0), (77, 9.0)].into_iter().collect(), 2 => [(3u64, 0.5)].into_iter().collect(), _ => HashMap::new() /* every declared parameter omitted */ };
        if k == 3 { note(|| format!("with_parameters {:?} on objective {:?}", params.entries, fs[k])); }
        match p.clone().with_parameters(params.clone()) {
            Err(e) => { if mode < 2 || mode == 4 { fail!(n, d, "with_parameters failed although all parameters were given: {e}"); } }
            Ok(i) => {
                if mode == 2 || mode == 3 { fail!(n, d, "with_parameters succeeded although a declared parameter was omitted (given: {:?})", params.entries); }
                if i.decision_variables != p.decision_variables || i.sense != p.sense || i.removed_constraints != p.removed_constraints || i.constraint_hints != p.constraint_hints { fail!(n, d, "with_parameters changed variables, sense, removed constraints or hints"); }
                if i.parameters.as_ref().map(|q| &q.entries) != Some(&params.entries) { fail!(n, d, "supplied parameter values are not recorded on the result"); }
                if i.constraints.iter().map(|c| (c.id, c.equality)).collect::<Vec<_>>() != p.constraints.iter().map(|c| (c.id, c.equality)).collect::<Vec<_>>() { fail!(n, d, "constraint ids/equalities changed"); }
                for x in [[0.5, 1.0], [-1.0, 2.0], [3.0, -3.0]] {
                    let xs: HashMap<u64, f64> = [(1u64, x[0]), (2, x[1])].into_iter().collect();
                    let mut full = xs.clone(); full.insert(3, pa); full.insert(4, pb);
                    let pairs: Vec<(Function, Function)> = std::iter::once((i.objective.clone().unwrap(), p.objective.clone().unwrap())).chain(i.constraints.iter().zip(p.constraints.iter()).map(|(a, b)| (cfun(a), cfun(b)))).collect();
                    for (a, b) in pairs {
                        let want = ref_val(&b, &full).unwrap();
                        match a.evaluate(&xs.clone().into_iter().collect()) {
                            Ok((v, _)) => if !close(v, want) { fail!(n, d, "instantiated function gives {v} at x={xs:?}, the parametric function {b:?} at (x, p={:?}) gives {want}", params.entries); },
                            Err(e) => fail!(n, d, "instantiated function still needs a non-decision variable ({e}): {a:?}"),
                        }
                    }
                }
            }
        }
    } }
    // instance -> parametric -> instance (no parameters)
    // (every second instance carries recorded parameter values, as the result of an earlier with_parameters does)
    for (ii, mut i) in small_instances().into_iter().enumerate() {
        n += 1; d.insert((100 + ii, 0));
        if ii % 2 == 1 { let mut q = v1::Parameters::default(); q.entries = [(100u64, 3.0), (101, 1.0), (555, 0.25)].into_iter().collect(); i.parameters = Some(q); }
        let p: v1::ParametricInstance = i.clone().into();
        let back = match p.with_parameters(v1::Parameters::default()) { Ok(b) => b, Err(e) => fail!(n, d, "round trip through ParametricInstance failed: {e}") };
        if back.decision_variable_dependency != i.decision_variable_dependency || back.constraint_hints != i.constraint_hints || back.description != i.description { fail!(n, d, "round trip through ParametricInstance lost or changed the dependency map, the constraint hints or the description: dependencies {:?} -> {:?}", i.decision_variable_dependency.keys().collect::<Vec<_>>(), back.decision_variable_dependency.keys().collect::<Vec<_>>()); }
        if back.decision_variables != i.decision_variables || back.sense != i.sense || back.removed_constraints != i.removed_constraints || back.constraints.len() != i.constraints.len() { fail!(n, d, "round trip changed the instance structure"); }
        for s in states5() {
            let pairs: Vec<(Function, Function)> = std::iter::once((back.objective.clone().unwrap_or_default(), i.objective.clone().unwrap_or_default())).chain(back.constraints.iter().zip(i.constraints.iter()).map(|(a, b)| (cfun(a), cfun(b)))).collect();
            for (a, b) in pairs { let (x, y) = (ref_val(&a, &s).unwrap(), ref_val(&b, &s).unwrap()); if !close(x, y) { fail!(n, d, "round trip changed a function value: {x} vs {y}"); } }
        }
    }
    Outcome { cases: n, distinct: d.len(), fail: None }
}

pub fn c11() -> Outcome {
    let mut n = 0; let mut d = BTreeSet::new();
    let objs: Vec<Function> = vec![
        f_of(F::Constant(1.5)),
        f_of(F::Linear(lin(&[(1, 2.0), (2, 3.0), (1, 5.0)], 1.0))),
        f_of(F::Quadratic(quad(&[(1, 2, 3.0), (2, 1, -1.0), (2, 2, 0.5), (3, 3, -2.0)], Some(lin(&[(3, 1.0), (1, 0.25)], 2.0))))),
        f_of(F::Quadratic(quad(&[(1, 2, 3.0), (2, 1, -3.0), (4, 1, 1.0)], None))),                                        // cancelling terms
        f_of(F::Polynomial(poly(&[(&[1, 1, 2], 2.0), (&[], 1.0), (&[2, 1, 1], -1.0), (&[3], 0.5), (&[2, 1], 4.0)]))),   // degree 3 text, two distinct variables
        f_of(F::Polynomial(poly(&[(&[], 1.0), (&[1, 2], 2.0), (&[], 0.5), (&[2], -1.0), (&[], -3.0)]))),                         // several constant monomials
        f_of(F::Polynomial(poly(&[(&[1, 2, 3], 2.0), (&[3, 3, 3, 3], 0.5), (&[4, 1, 4, 2], -1.0), (&[1, 2], -2.0), (&[2, 1, 1], 2.0)]))), // three distinct variables
        // a key whose running sum passes through zero and comes back: x1 x2 - x1^2 x2 + 2 x1 x2^2 = 2 x1 x2 on binaries
        f_of(F::Polynomial(poly(&[(&[1, 2], 1.0), (&[1, 1, 2], -1.0), (&[1, 2, 2], 2.0), (&[3], 1.0), (&[3, 3], -1.0), (&[3], -0.5)]))),
        f_of(F::Quadratic(quad(&[(1, 2, 1.5), (2, 1, -1.5), (1, 2, 0.25), (4, 4, 2.0), (4, 4, -2.0)], Some(lin(&[(4, 1.0), (4, -1.0), (4, 3.0)], 0.0))))),
    ];
    for (oi, o) in objs.iter().enumerate() {
        n += 1; d.insert((oi, 0));
        let i = inst((1..=4u64).map(|k| dv(k, Kind::Binary, None)).collect(), o.clone(), vec![]);
        if oi == 5 { note(|| format!("as_pubo_format/as_qubo_format on objective {o:?} over binaries 1..4, all 16 assignments")); }
        let pubo = match i.as_pubo_format() { Ok(p) => p, Err(e) => fail!(n, d, "as_pubo_format refused a valid binary minimisation instance: {e}") };
        let pubo: Vec<(Vec<u64>, f64)> = pubo.iter().map(|(k, v)| (k.iter().cloned().collect::<Vec<u64>>(), *v)).collect();
        for (k, v) in &pubo { if *v == 0.0 { fail!(n, d, "PUBO stores a zero coefficient for {k:?}"); } if k.windows(2).any(|w| w[0] >= w[1]) { fail!(n, d, "PUBO key {k:?} is not a duplicate-free sorted set"); } }
        let distinct3 = oi == 6;
        let qubo = i.as_qubo_format();
        match (&qubo, distinct3) { (Ok(_), true) => fail!(n, d, "as_qubo_format accepted a term with three distinct variables: {o:?}"), (Err(e), false) => fail!(n, d, "as_qubo_format refused an objective with at most two distinct variables per term: {e}"), _ => {} }
        if let Ok((q, _)) = &qubo { for (k, v) in q.iter() { if *v == 0.0 || k.0 > k.1 { fail!(n, d, "QUBO entry {k:?} -> {v} is zero or not canonical (i<=j)"); } } }
        for bits in 0u32..16 {
            let s: HashMap<u64, f64> = (1..=4u64).map(|k| (k, (bits >> (k - 1) & 1) as f64)).collect();
            let want = ref_val(o, &s).unwrap();
            let pv: f64 = pubo.iter().map(|(k, v)| v * k.iter().map(|id| s[id]).product::<f64>()).sum();
            if !close(pv, want) { fail!(n, d, "PUBO of {o:?} evaluates to {pv} at {s:?}, objective is {want}"); }
            if let Ok((q, off)) = &qubo { let qv: f64 = off + q.iter().map(|(k, v)| v * s[&k.0] * s[&k.1]).sum::<f64>(); if !close(qv, want) { fail!(n, d, "QUBO of {o:?} evaluates to {qv} at {s:?}, objective is {want}"); } }
        }
    }
    // refusals
    let base = || inst((1..=4u64).map(|k| dv(k, Kind::Binary, None)).collect(), objs[2].clone(), vec![]);
    let cases: Vec<(&str, Instance)> = vec![
        ("active constraint", { let mut i = base(); i.constraints.push(con(1, Equality::EqualToZero, f_of(F::Linear(lin(&[(1, 1.0)], 0.0))))); i }),
        ("maximisation", { let mut i = base(); i.sense = v1::instance::Sense::Maximize as i32; i }),
        // an instance whose objective field is unset (a feasibility problem) is refused for the same reasons
        ("active constraint, objective unset", { let mut i = base(); i.objective = None; i.constraints.push(con(1, Equality::EqualToZero, f_of(F::Linear(lin(&[(1, 1.0), (2, 1.0)], -1.0))))); i }),
        ("maximisation, objective unset", { let mut i = base(); i.objective = None; i.sense = v1::instance::Sense::Maximize as i32; i }),
        ("active constraint, constant objective", { let mut i = base(); i.objective = Some(f_of(F::Constant(0.0))); i.constraints.push(con(1, Equality::LessThanOrEqualToZero, f_of(F::Linear(lin(&[(1, 1.0)], 0.0))))); i }),
        ("maximisation, zero objective", { let mut i = base(); i.objective = Some(f_of(F::Constant(0.0))); i.sense = v1::instance::Sense::Maximize as i32; i }),
        ("integer variable used", { let mut i = base(); i.decision_variables[2] = dv(3, Kind::Integer, Some((0.0, 1.0))); i }),
        ("continuous variable used", { let mut i = base(); i.decision_variables[0] = dv(1, Kind::Continuous, Some((0.0, 1.0))); i }),
        // a used id that is not declared at all is not a binary variable of the instance either
        ("objective uses an undeclared id", { let mut i = base(); i.objective = Some(f_of(F::Polynomial(poly(&[(&[1, 2], 2.0), (&[1], -1.0), (&[7], 3.0), (&[], 0.5)])))); i }),
        ("objective (linear) uses an undeclared id", { let mut i = base(); i.objective = Some(f_of(F::Linear(lin(&[(1, 1.0), (9, 2.0)], 0.0)))); i }),
        // the non-binary variable is used although its monomials would cancel under x^k = x (which does not hold for it): x1*x1 - x1 is 2 at x1 = 2
        ("integer variable used in x1*x1 - x1 + x2 (polynomial)", { let mut i = base(); i.decision_variables[0] = dv(1, Kind::Integer, Some((0.0, 3.0)));
            i.objective = Some(f_of(F::Polynomial(poly(&[(&[1, 1], 1.0), (&[1], -1.0), (&[2], 1.0)])))); i }),
        ("integer variable used in x1*x1 - x1 (quadratic)", { let mut i = base(); i.decision_variables[0] = dv(1, Kind::Integer, Some((0.0, 3.0)));
            i.objective = Some(f_of(F::Quadratic(quad(&[(1, 1, 1.0)], Some(lin(&[(1, -1.0)], 0.0)))))); i }),
        ("continuous variable used in x3*x3*x3 - x3*x3 (polynomial)", { let mut i = base(); i.decision_variables[2] = dv(3, Kind::Continuous, Some((0.0, 1.0)));
            i.objective = Some(f_of(F::Polynomial(poly(&[(&[3, 3, 3], 1.0), (&[3, 3], -1.0), (&[1, 2], 2.0)])))); i }),
    ];
    for (k, (name, i)) in cases.iter().enumerate() {
        n += 1; d.insert((100 + k, 0));
        if i.as_pubo_format().is_ok() { fail!(n, d, "as_pubo_format accepted: {name}"); }
        if i.as_qubo_format().is_ok() { fail!(n, d, "as_qubo_format accepted: {name}"); }
    }
    // a removed constraint or an unused non-binary variable is no reason to refuse
    { n += 1; let mut i = base(); i.decision_variables.push(dv(9, Kind::Continuous, None)); i.constraints.push(con(1, Equality::EqualToZero, f_of(F::Linear(lin(&[(1, 1.0), (9, 1.0)], 0.0))))); i.relax_constraint(1, "r".into(), HashMap::new()).unwrap();   // the removed constraint mentions the continuous x9
      if i.as_pubo_format().is_err() || i.as_qubo_format().is_err() { fail!(n, d, "export refused although only a removed constraint / unused continuous variable is present"); } }
    Outcome { cases: n, distinct: d.len(), fail: None }
}

pub fn c13() -> Outcome {
    let mut n = 0; let mut d = BTreeSet::new();
    // f over x1 in [0,3] integer, x2 binary, x3 in [-2,2] integer
    let fs: Vec<Function> = vec![
        f_of(F::Linear(lin(&[(1, 1.0), (2, 2.0)], -3.0))),
        f_of(F::Linear(lin(&[(1, 0.5)], -1.5))),                              // content factor 2
        f_of(F::Linear(lin(&[(1, 0.25), (3, 0.75)], -1.0))),                 // content factor 4
        f_of(F::Linear(lin(&[(1, -1.0), (3, 1.0)], 0.0))),
        f_of(F::Linear(lin(&[(1, 1.0)], 1.0))),                               // never holds (lower bound 1 > 0)
        f_of(F::Linear(lin(&[(1, -1.0)], -1.0))),                             // always holds
        f_of(F::Quadratic(quad(&[(1, 3, 1.0), (2, 2, 1.0)], Some(lin(&[(1, 0.5)], -2.0))))),
        f_of(F::Quadratic(quad(&[(3, 3, 1.0)], Some(lin(&[], -3.0))))),
        f_of(F::Linear(lin(&[(1, 1.5), (2, -0.5)], -2.5))),
        f_of(F::Linear(lin(&[(1, 1.0), (3, 1.0)], -2.0))),                    // integer coefficients: range [-4, 3], the slack range is exactly 4
        f_of(F::Linear(lin(&[(1, 1.0), (2, 1.0), (3, 1.0)], -10.0))),         // always holds, range [-12, -4]: far below every limit tried
        f_of(F::Linear(lin(&[(1, 1.0)], -3.0))),                              // always holds with equality at the corner (max f = 0)
    ];
    let unit_linear = |f: &Function| match f.function.as_ref() { Some(F::Linear(l)) => l.constant.fract() == 0.0 && l.terms.iter().all(|t| t.coefficient.fract() == 0.0), _ => false };
    let mk = |f: &Function| {
        // variables listed in an order that is not ascending (the largest id is not last)
        let mut i = inst(vec![dv(3, Kind::Integer, Some((-2.0, 2.0))), dv(7, Kind::Continuous, Some((0.0, 1.0))), dv(1, Kind::Integer, Some((0.0, 3.0))), dv(2, Kind::Binary, None)], Function::default(),
            vec![con(4, Equality::LessThanOrEqualToZero, f.clone()), con(5, Equality::EqualToZero, f_of(F::Linear(lin(&[(1, 1.0)], 0.0)))), con(6, Equality::LessThanOrEqualToZero, f_of(F::Linear(lin(&[(7, 1.0), (1, 1.0)], -1.0))))]);
        i.objective = Some(f_of(F::Constant(0.0))); i
    };
    // the constraint list is in user order (restore_constraint appends): the same instance with its constraints listed as [4,5,6], [6,5,4], [5,6,4]
    let mk_o = |f: &Function, order: usize| { let mut i = mk(f); match order % 3 { 1 => i.constraints.reverse(), 2 => i.constraints.rotate_left(1), _ => {} } i };
    let lattice = || { let mut v = vec![]; for a in 0..=3 { for b in 0..=1 { for c in -2..=2 { v.push([a as f64, b as f64, c as f64]); } } } v };
    let fv = |f: &Function, x: &[f64; 3], extra: Option<(u64, f64)>| { let mut s: HashMap<u64, f64> = [(1u64, x[0]), (2, x[1]), (3, x[2])].into_iter().collect(); if let Some((k, v)) = extra { s.insert(k, v); } ref_val(f, &s).unwrap() };
    for (fi, f) in fs.iter().enumerate() { for which in 0..2 { for limit in [3u64, 4, 1000] {
        n += 1; d.insert((fi, which, limit));
        if fi == 2 && limit == 1000 { note(|| format!("{} on f={f:?} <= 0 with x1 in [0,3], x2 binary, x3 in [-2,2]; every lattice point and slack value", if which == 0 { "convert_inequality_to_equality_with_integer_slack" } else { "add_integer_slack_to_inequality" })); }
        let mut i = mk_o(f, fi + which + limit as usize); let before = i.clone();
        let lo = lattice().iter().map(|x| fv(f, x, None)).fold(f64::INFINITY, f64::min);
        let hi = lattice().iter().map(|x| fv(f, x, None)).fold(f64::NEG_INFINITY, f64::max);
        let r: Result<Option<f64>, String> = if which == 0 { i.convert_inequality_to_equality_with_integer_slack(4, limit).map(|_| None).map_err(|e| e.to_string()) } else { i.add_integer_slack_to_inequality(4, limit).map_err(|e| e.to_string()) };
        match r {
            Err(e) => {
                if i != before { fail!(n, d, "the rejected conversion modified the instance ({e})"); }
                if lo <= 0.0 && which == 1 { fail!(n, d, "add_integer_slack_to_inequality rejected a satisfiable inequality {f:?}: {e}"); }
                // interval analysis is exact for these forms: f <= 0 on the whole box means "always satisfied" - moved to the removed constraints, never rejected for its slack range
                if which == 0 && unit_linear(f) && hi <= 0.0 { fail!(n, d, "convert_inequality_to_equality_with_integer_slack rejected {f:?} (limit {limit}) although the inequality holds on the whole box (max f = {hi}): it must be moved to the removed constraints unchanged: {e}"); }
                if lo <= 0.0 && which == 0 && limit == 1000 { fail!(n, d, "convert_inequality_to_equality_with_integer_slack rejected {f:?} with a generous limit: {e}"); }
                // integer coefficients, every variable once: the content factor is 1 and interval analysis is exact, so the slack range is -min f; it is rejected only ABOVE the limit
                if which == 0 && unit_linear(f) && lo <= 0.0 && hi > 0.0 && -lo <= limit as f64 { fail!(n, d, "convert_inequality_to_equality_with_integer_slack rejected {f:?} although its slack range {} is within the caller's limit {limit}: {e}", -lo); }
            }
            Ok(b) => {
                let removed = i.constraints.iter().all(|c| c.id != 4);
                if removed {
                    // only allowed when the inequality holds on the whole box
                    if hi > 0.0 && lattice().iter().any(|x| fv(f, x, None) > 1e-9) { fail!(n, d, "constraint {f:?} <= 0 was moved to removed_constraints as 'always satisfied' but it is violated at a lattice point (max f = {hi})"); }
                    let rc = i.removed_constraints.iter().find(|r| r.constraint.as_ref().map(|c| c.id) == Some(4));
                    if rc.and_then(|r| r.constraint.clone()) != before.constraints.iter().find(|c| c.id == 4).cloned() { fail!(n, d, "the removed constraint is not the unchanged original"); }
                    if i.decision_variables != before.decision_variables { fail!(n, d, "a slack variable was added although the constraint was removed"); }
                    continue;
                }
                // an undetected never-satisfiable inequality is allowed only if interval analysis cannot see it: for these single-occurrence linear forms it is exact
                if lo > 0.0 && fi == 4 { fail!(n, d, "{f:?} <= 0 can never hold on the box (min f = {lo}, visible to interval analysis) but no infeasibility error was returned"); }
                let c = i.constraints.iter().find(|c| c.id == 4).unwrap();
                let s = match i.decision_variables.iter().find(|v| !before.decision_variables.iter().any(|w| w.id == v.id)) { Some(s) => s, None => fail!(n, d, "no slack variable was added") };
                let sb = s.bound.clone().unwrap();
                if s.kind != Kind::Integer as i32 || sb.lower != 0.0 || sb.upper.fract() != 0.0 || [1u64, 2, 3, 7].contains(&s.id) { fail!(n, d, "slack variable {s:?} is not a fresh integer variable with integer bounds from 0"); }
                if which == 0 && sb.upper > limit as f64 { fail!(n, d, "slack range {} exceeds the caller's limit {limit}", sb.upper); }
                if which == 0 && c.equality != Equality::EqualToZero as i32 { fail!(n, d, "converted constraint is not an equality"); }
                if which == 1 && c.equality != Equality::LessThanOrEqualToZero as i32 { fail!(n, d, "constraint with added slack is no longer an inequality"); }
                let g = cfun(c);
                if which == 1 { // reported b is the slack coefficient
                    let bb = b.unwrap();
                    let x0 = [0.0, 0.0, 0.0];
                    let coef = fv(&g, &x0, Some((s.id, 1.0))) - fv(&g, &x0, Some((s.id, 0.0)));
                    if !close(coef, bb) { fail!(n, d, "add_integer_slack_to_inequality reported b={bb} but the slack coefficient in the constraint is {coef}"); }
                }
                for x in lattice() {
                    let orig = fv(f, &x, None) <= 1e-9;
                    let mut any = false;
                    for sv in 0..=(sb.upper as i64) {
                        let v = fv(&g, &x, Some((s.id, sv as f64)));
                        if if which == 0 { v.abs() < 1e-9 } else { v <= 1e-9 } { any = true; break; }
                    }
                    if which == 0 && orig != any { fail!(n, d, "convert_inequality_to_equality_with_integer_slack on {f:?} <= 0: x={x:?} is {} for the inequality but {} for the equality with slack in [0,{}] (new function {g:?})", if orig { "feasible" } else { "infeasible" }, if any { "feasible" } else { "infeasible" }, sb.upper); }
                    if which == 1 && !orig && any { fail!(n, d, "add_integer_slack_to_inequality on {f:?} <= 0: infeasible x={x:?} became feasible with some slack (new function {g:?})"); }
                    if which == 1 && orig && !any { fail!(n, d, "add_integer_slack_to_inequality on {f:?} <= 0: feasible x={x:?} has no slack value in [0,{}] satisfying the new constraint {g:?}", sb.upper); }
                }
            }
        }
    } } }
    // rejections leave the instance unchanged
    for (k, (id, name)) in [(99u64, "unknown id"), (5, "not an inequality"), (6, "continuous variable")].iter().enumerate() { for which in 0..2 {
        n += 1; d.insert((100 + k, which, 0));
        let mut i = mk(&fs[0]); let before = i.clone();
        let ok = if which == 0 { i.convert_inequality_to_equality_with_integer_slack(*id, 1000).is_ok() } else { i.add_integer_slack_to_inequality(*id, 4).is_ok() };
        if ok || i != before { fail!(n, d, "slack conversion (which={which}) must be rejected without modifying the instance: {name}"); }
    } }
    // an inequality that mentions a variable id which is not defined ("unknown IDs ... are rejected without modifying the instance"): linear and quadratic occurrences
    for (k, f) in [f_of(F::Linear(lin(&[(1, 1.0), (77, 1.0)], -2.0))), f_of(F::Quadratic(quad(&[(77, 77, 1.0)], Some(lin(&[(1, 1.0)], -3.0))))), f_of(F::Quadratic(quad(&[(77, 77, -1.0)], Some(lin(&[(1, 1.0)], -3.0)))))].into_iter().enumerate() { for which in 0..2 {
        n += 1; d.insert((200 + k, which, 0));
        let mut i = mk(&fs[0]); i.constraints.push(con(70, Equality::LessThanOrEqualToZero, f.clone())); let before = i.clone();
        let ok = if which == 0 { i.convert_inequality_to_equality_with_integer_slack(70, 1000).is_ok() } else { i.add_integer_slack_to_inequality(70, 4).is_ok() };
        if ok || i != before { fail!(n, d, "slack conversion (which={which}) of {f:?} <= 0, which mentions the undefined variable 77, must be rejected without modifying the instance (returned ok={ok})"); }
    } }
    Outcome { cases: n, distinct: d.len(), fail: None }
}

pub fn c15() -> Outcome {
    let mut n = 0; let mut d = BTreeSet::new();
    // every instance shape under BOTH senses (the objective kinds of small_instances() alternate with the sense otherwise)
    for (ii, i0) in small_instances().into_iter().enumerate() { for sense in [v1::instance::Sense::Minimize, v1::instance::Sense::Maximize] {
        let mut i = i0.clone(); i.sense = sense as i32;
        n += 1; d.insert((ii, sense as u64, 0u64));
        let mut m = i.clone(); m.as_minimization_problem();
        let was_max = i.sense == v1::instance::Sense::Maximize as i32;
        if m.sense != v1::instance::Sense::Minimize as i32 || m.constraints != i.constraints || m.decision_variables != i.decision_variables || m.removed_constraints != i.removed_constraints { fail!(n, d, "as_minimization_problem: sense not minimise or constraints/variables touched"); }
        for s in states5() {
            let a = ref_val(&i.objective.clone().unwrap_or_default(), &s).unwrap();
            let b = ref_val(&m.objective.clone().unwrap_or_default(), &s).unwrap();
            if !close(b, if was_max { -a } else { a }) { fail!(n, d, "as_minimization_problem (was_max={was_max}): objective {a} became {b}"); }
        }
        let mut m2 = m.clone(); m2.as_minimization_problem();
        if m2 != m { fail!(n, d, "as_minimization_problem is not idempotent"); }
    } }
    // best feasible: all objective / feasibility patterns over 3 samples with ties, both senses, new and legacy feasibility fields
    // objective values: well separated with a tie; one unit in the last place apart (0.1 + 0.2 vs 0.3); tiny magnitudes around zero - "beats" is the plain order of f64, no tolerance
    for (oi, objs) in [[1.0f64, -2.0, 1.0, 3.0], [0.1 + 0.2, 0.3, 0.1 + 0.2, 0.29999999999999993], [1e-16, 3e-17, 0.0, -1e-17]].into_iter().enumerate() {
    for sense in [v1::instance::Sense::Minimize, v1::instance::Sense::Maximize] { for pat in 0u64..256 { for legacy in [false, true] {
        n += 1; d.insert((1000 + 10 * oi + sense as usize, pat, legacy as u64));
        let mut ss = v1::SampleSet::default();
        ss.sense = sense as i32;
        let ids = [10u64, 4, 7, 30];
        let mut sv = v1::SampledValues::default();
        // compressed representation: samples with an equal value share one entry; the id list of an entry is in insertion order (not ascending)
        if pat % 2 == 0 { for (k, id) in ids.iter().enumerate() { if let Some(e) = sv.entries.iter_mut().find(|e| e.value == objs[k]) { e.ids.push(*id); } else { let mut e = v1::sampled_values::SampledValuesEntry::default(); e.value = objs[k]; e.ids = vec![*id]; sv.entries.push(e); } } }
        else { for (k, id) in ids.iter().enumerate() { let mut e = v1::sampled_values::SampledValuesEntry::default(); e.value = objs[k]; e.ids = vec![*id]; sv.entries.push(e); } }
        ss.objectives = Some(sv);
        let feas_all: HashMap<u64, bool> = ids.iter().enumerate().map(|(k, id)| (*id, pat >> k & 1 == 1)).collect();
        let feas_rel: HashMap<u64, bool> = ids.iter().enumerate().map(|(k, id)| (*id, (pat >> k & 1 == 1) || (pat >> (4 + k) & 1 == 1))).collect();
        if legacy { #[allow(deprecated)] { ss.feasible = feas_rel.clone(); ss.feasible_unrelaxed = feas_all.clone(); } } else { ss.feasible = feas_all.clone(); ss.feasible_relaxed = feas_rel.clone(); }
        if pat == 37 { note(|| format!("best_feasible_id on objectives {objs:?} sense {sense:?} feasible(all)={feas_all:?} feasible(relaxed)={feas_rel:?} legacy-fields={legacy}")); }
        for (which, feas) in [(0, &feas_rel), (1, &feas_all)] {
            let r = if which == 0 { ss.best_feasible_id() } else { ss.best_feasible_unrelaxed_id() };
            let cands: Vec<usize> = (0..4).filter(|k| feas[&ids[*k]]).collect();
            match r {
                Err(e) => if !cands.is_empty() { fail!(n, d, "best feasible (unrelaxed={which}) failed ({e}) although samples {:?} are feasible", cands.iter().map(|k| ids[*k]).collect::<Vec<_>>()); },
                Ok(id) => {
                    if cands.is_empty() { fail!(n, d, "best feasible (unrelaxed={which}) returned {id} although no sample is feasible"); }
                    let k = match ids.iter().position(|x| *x == id) { Some(k) => k, None => fail!(n, d, "returned unknown sample id {id}") };
                    if !feas[&id] { fail!(n, d, "best feasible (unrelaxed={which}, sense {sense:?}, legacy={legacy}) returned sample {id} which is not feasible in that sense: {feas:?}"); }
                    // the Solution-returning call agrees with the id-returning one (also on the legacy field layout)
                    match if which == 0 { ss.best_feasible() } else { ss.best_feasible_unrelaxed() } {
                        Err(e) => fail!(n, d, "best_feasible{} (sense {sense:?}, legacy={legacy}) failed ({e}) although best_feasible{}_id returned sample {id}", if which == 0 { "" } else { "_unrelaxed" }, if which == 0 { "" } else { "_unrelaxed" }),
                        Ok(sol) => if sol.objective != objs[k] || sol.feasible != feas_all[&id] || sol.feasible_relaxed != Some(feas_rel[&id]) { fail!(n, d, "best_feasible{} (sense {sense:?}, legacy={legacy}) returned objective {} feasible {} relaxed {:?}; sample {id} has objective {} feasible {} relaxed {}", if which == 0 { "" } else { "_unrelaxed" }, sol.objective, sol.feasible, sol.feasible_relaxed, objs[k], feas_all[&id], feas_rel[&id]); },
                    }
                    let beaten = cands.iter().any(|c| if sense == v1::instance::Sense::Minimize { objs[*c] < objs[k] } else { objs[*c] > objs[k] });
                    if beaten { fail!(n, d, "best feasible (unrelaxed={which}, sense {sense:?}) returned sample {id} with objective {} but another feasible sample is better: objectives {objs:?}, feasible {feas:?}", objs[k]); }
                }
            }
        }
    } } }
    }
    Outcome { cases: n, distinct: d.len(), fail: None }
}

pub fn c16() -> Outcome {
    let mut n = 0; let mut d = BTreeSet::new();
    let inf = f64::INFINITY;
    let ends = [-inf, -2.0, -0.5, 0.0, 0.5, 3.0, inf];
    let mut boxes: Vec<(f64, f64)> = vec![];
    for a in ends { for b in ends { if a <= b && !(a == inf) && !(b == -inf) { boxes.push((a, b)); } } }
    let pts = |b: (f64, f64)| -> Vec<f64> { let mut v = vec![]; let lo = if b.0.is_finite() { b.0 } else { -8.0 }; let hi = if b.1.is_finite() { b.1 } else { 8.0 }; let (lo, hi) = (lo.min(hi), hi.max(lo)); v.push(lo); v.push(hi); v.push((lo + hi) / 2.0); if b.0 <= 0.0 && 0.0 <= b.1 { v.push(0.0); } if !b.0.is_finite() { v.push(-1024.0f64.min(hi)); } if !b.1.is_finite() { v.push(1024.0f64.max(lo)); } v.retain(|x| *x >= b.0 && *x <= b.1); v };
    let inside = |b: &ommx::Bound, v: f64| -> bool { b.lower() <= v + 1e-9 * (1.0 + v.abs()) && v - 1e-9 * (1.0 + v.abs()) <= b.upper() };
    let valid = |b: &ommx::Bound| -> bool { !(b.lower().is_nan() || b.upper().is_nan() || b.lower() > b.upper() || b.lower() == inf || b.upper() == -inf) };
    for (ai, a) in boxes.iter().enumerate() {
        let ba = ommx::Bound::new(a.0, a.1).unwrap();
        for (bi, b) in boxes.iter().enumerate() {
            n += 1; d.insert((ai, bi));
            let bb = ommx::Bound::new(b.0, b.1).unwrap();
            if ai == 9 && bi % 7 == 3 { note(|| format!("Bound [{}, {}] +,* [{}, {}] checked on corner/interior points", a.0, a.1, b.0, b.1)); }
            let sum = ba + bb;
            if !valid(&sum) { fail!(n, d, "[{}, {}] + [{}, {}] = {sum:?} is not a valid interval", a.0, a.1, b.0, b.1); }
            for x in pts(*a) { for y in pts(*b) { if !inside(&sum, x + y) { fail!(n, d, "[{}, {}] + [{}, {}] = {sum:?} does not contain {x} + {y}", a.0, a.1, b.0, b.1); } } }
            // product: skip 0 * unbounded (documented panic, outside the quantifier)
            let zero_times_unbounded = (a.0 == 0.0 && a.1 == 0.0 && !(b.0.is_finite() && b.1.is_finite())) || (b.0 == 0.0 && b.1 == 0.0 && !(a.0.is_finite() && a.1.is_finite()));
            if !zero_times_unbounded {
                let prod = match std::panic::catch_unwind(|| ba * bb) { Ok(p) => p, Err(_) => fail!(n, d, "[{}, {}] * [{}, {}] panicked", a.0, a.1, b.0, b.1) };
                if !valid(&prod) { fail!(n, d, "[{}, {}] * [{}, {}] = {prod:?} is not a valid interval", a.0, a.1, b.0, b.1); }
                for x in pts(*a) { for y in pts(*b) { if !inside(&prod, x * y) { fail!(n, d, "[{}, {}] * [{}, {}] = {prod:?} does not contain {x} * {y}", a.0, a.1, b.0, b.1); } } }
            }
        }
        for e in 0u8..=5 {
            n += 1; d.insert((1000 + ai, e as usize));
            let p = ba.pow(e);
            if !valid(&p) { fail!(n, d, "[{}, {}].pow({e}) = {p:?} is not a valid interval", a.0, a.1); }
            for x in pts(*a) { if !inside(&p, x.powi(e as i32)) { fail!(n, d, "[{}, {}].pow({e}) = {p:?} does not contain {x}^{e} = {}", a.0, a.1, x.powi(e as i32)); } }
        }
        for c in [-3.0, -0.5, 0.25, 2.0] {
            n += 1; d.insert((2000 + ai, (c * 4.0) as i64 as usize));
            let s = ba * c;
            if !valid(&s) { fail!(n, d, "{c} * [{}, {}] = {s:?} is not a valid interval", a.0, a.1); }
            for x in pts(*a) { if !inside(&s, c * x) { fail!(n, d, "{c} * [{}, {}] = {s:?} does not contain {c} * {x}", a.0, a.1); } }
        }
        // integer rounding keeps every integer
        let has_int = a.0.ceil() <= a.1.floor();
        if has_int {
            n += 1; d.insert((3000 + ai, 0));
            let ib = ba.as_integer_bound();
            let lo = if a.0.is_finite() { a.0.ceil() } else { -5.0 }; let hi = if a.1.is_finite() { a.1.floor() } else { 5.0 };
            let mut k = lo; while k <= hi { if !(ib.lower() <= k && k <= ib.upper()) { fail!(n, d, "[{}, {}].as_integer_bound() = {ib:?} lost the integer {k}", a.0, a.1); } k += 1.0; }
            if (ib.lower().is_finite() && ib.lower().fract() != 0.0) || (ib.upper().is_finite() && ib.upper().fract() != 0.0) { fail!(n, d, "[{}, {}].as_integer_bound() = {ib:?} has non-integer endpoints", a.0, a.1); }
        }
    }
    // integer rounding of intervals with LARGE finite endpoints (big-M style bounds, beyond the range of i64): every float of that size is an integer
    for (k, (lo, hi)) in [(-1e30, 1e30), (1e19, 2e19), (-3e19, 5.5), (-0.5, 4e25), (1.5e19, f64::INFINITY)].iter().enumerate() {
        n += 1; d.insert((3500 + k, 0));
        let ib = ommx::Bound::new(*lo, *hi).unwrap().as_integer_bound();
        for v in [*lo, *hi, lo / 2.0 + hi / 2.0, 0.0, 5.0, 1e19, 2e19, -2e19] {
            if v.is_finite() && v.fract() == 0.0 && *lo <= v && v <= *hi && !(ib.lower() <= v && v <= ib.upper()) { fail!(n, d, "[{lo}, {hi}].as_integer_bound() = {ib:?} lost the integer {v}"); }
        }
        if !valid(&ib) || ib.lower() < lo.floor() || ib.upper() > hi.ceil() { fail!(n, d, "[{lo}, {hi}].as_integer_bound() = {ib:?} is not a valid interval inside the rounded hull"); }
    }
    // evaluate_bound encloses f on the box
    let mut fs = plain_functions();
    // explicit zero coefficients (legal on the wire): such a term contributes nothing, whatever the bounds of its variables are
    fs.push(f_of(F::Quadratic(quad(&[(1, 3, 0.0), (2, 2, 1.5)], Some(lin(&[(3, 0.0), (1, -1.0)], 0.5))))));
    fs.push(f_of(F::Polynomial(poly(&[(&[1, 3], 0.0), (&[3, 3, 1], 0.0), (&[2], 2.0), (&[], 0.0)]))));
    fs.push(f_of(F::Linear(lin(&[(3, 0.0), (2, 1.0)], 0.0))));
    // every multiplicity pattern of degree <= 4 (and one of degree 5): x^4, x^3 y, x^2 y^2, x^2 y z, mixed with lower-degree terms, ids in any order
    fs.push(f_of(F::Polynomial(poly(&[(&[1, 1, 1, 1], 1.0)]))));
    fs.push(f_of(F::Polynomial(poly(&[(&[3, 3, 3, 3], -1.0), (&[1, 1, 2, 2], 2.0), (&[2], 1.0), (&[], -1.0)]))));
    fs.push(f_of(F::Polynomial(poly(&[(&[1, 3, 1, 1], 0.5), (&[2, 2, 2], -1.0)]))));
    fs.push(f_of(F::Polynomial(poly(&[(&[2, 1, 2, 3], -1.5), (&[1, 1, 1], 1.0), (&[3, 3], 0.5)]))));
    fs.push(f_of(F::Polynomial(poly(&[(&[2, 2, 2, 2, 2], 1.0), (&[1, 1, 1, 1], -0.25)]))));
    let bxs: Vec<[(f64, f64); 3]> = vec![[(-1.0, 2.0), (0.0, 1.0), (-2.0, -0.5)], [(-inf, 0.0), (0.5, 0.5), (-1.0, inf)], [(0.0, 0.0), (-3.0, 3.0), (1.0, 2.0)], [(-inf, inf), (0.0, 1.0), (0.0, 3.0)],
                                         [(1.0, 2.0), (0.0, 1.0), (0.0, inf)], [(0.0, 0.0), (0.0, 1.0), (-inf, inf)]];
    // the one documented panic (outside the quantifier): a monomial with a NON-ZERO coefficient multiplies the interval [0, 0] of one variable with an unbounded interval of another
    let zero_times_unbounded = |f: &Function, bx: &[(f64, f64); 3]| -> bool {
        f.into_iter().any(|(ids, c)| c != 0.0 && ids.iter().any(|i| (1..=3).contains(i) && bx[*i as usize - 1] == (0.0, 0.0)) && ids.iter().any(|i| (1..=3).contains(i) && !(bx[*i as usize - 1].0.is_finite() && bx[*i as usize - 1].1.is_finite())))
    };
    for (fi, f) in fs.iter().enumerate() { for (bi, bx) in bxs.iter().enumerate() {
        n += 1; d.insert((4000 + fi, bi));
        let bounds: HashMap<ommx::VariableID, ommx::Bound> = (0..3).map(|k| (ommx::VariableID::from(k as u64 + 1), ommx::Bound::new(bx[k].0, bx[k].1).unwrap())).collect();
        let fb = match std::panic::catch_unwind(|| f.evaluate_bound(&bounds)) { Ok(b) => b, Err(_) => { if zero_times_unbounded(f, bx) { continue; } fail!(n, d, "evaluate_bound of {f:?} on the box {bx:?} panicked instead of returning an interval") } };
        if !valid(&fb) { fail!(n, d, "evaluate_bound of {f:?} on {bx:?} = {fb:?} is not a valid interval"); }
        for x in pts(bx[0]) { for y in pts(bx[1]) { for z in pts(bx[2]) {
            let s: HashMap<u64, f64> = [(1u64, x), (2, y), (3, z)].into_iter().collect();
            let v = ref_val(f, &s).unwrap();
            if v.is_finite() && !inside(&fb, v) { fail!(n, d, "evaluate_bound of {f:?} on the box {bx:?} is {fb:?}, which does not contain f({x}, {y}, {z}) = {v}"); }
        } } }
    } }
    // content factor: a * every coefficient integral, and minimal
    let rat: Vec<(Vec<(i64, i64)>, f64)> = vec![(vec![(1, 2), (3, 2)], 2.0), (vec![(1, 3), (1, 6)], 6.0), (vec![(2, 1), (4, 1)], 0.5), (vec![(3, 4), (5, 6), (1, 1)], 12.0), (vec![(7, 60), (1, 4)], 60.0), (vec![(1, 1)], 1.0), (vec![(-3, 5), (9, 10)], 10.0 / 3.0)];
    for (k, (cs, want)) in rat.iter().enumerate() {
        n += 1; d.insert((5000 + k, 0));
        let terms: Vec<(u64, f64)> = cs.iter().enumerate().skip(1).map(|(j, (p, q))| (j as u64, *p as f64 / *q as f64)).collect();
        let f = f_of(F::Linear(lin(&terms, cs[0].0 as f64 / cs[0].1 as f64)));
        match f.content_factor() {
            Err(e) => fail!(n, d, "content_factor failed on coefficients {cs:?}: {e}"),
            Ok(a) => {
                for (p, q) in cs { let v = a * (*p as f64 / *q as f64); if (v - v.round()).abs() > 1e-6 { fail!(n, d, "content_factor({cs:?}) = {a}: {a} * {p}/{q} = {v} is not an integer"); } }
                if !close(a.abs(), *want) { fail!(n, d, "content_factor({cs:?}) = {a}, the minimal multiplier is {want}"); }
            }
        }
    }
    // the same for quadratic and polynomial functions, and for every pair of denominators up to 60 that share a factor or not
    {
        let gcd = |mut a: i64, mut b: i64| { while b != 0 { let t = a % b; a = b; b = t; } a.abs() };
        let mut fs2: Vec<(Function, Vec<(i64, i64)>)> = vec![
            (f_of(F::Quadratic(quad(&[(1, 2, 0.25), (2, 2, 1.0 / 6.0)], Some(lin(&[(1, 1.5)], 0.0))))), vec![(1, 4), (1, 6), (3, 2)]),
            (f_of(F::Quadratic(quad(&[(1, 1, 2.0 / 3.0)], None))), vec![(2, 3)]),
            (f_of(F::Polynomial(poly(&[(&[1, 2, 3], 2.0 / 3.0), (&[1], 5.0 / 7.0), (&[], 1.0)]))), vec![(2, 3), (5, 7), (1, 1)]),
            (f_of(F::Polynomial(poly(&[(&[1, 1, 2, 2], 3.0 / 8.0), (&[3, 3], -5.0 / 12.0)]))), vec![(3, 8), (-5, 12)]),
        ];
        for (q1, q2) in [(59i64, 60i64), (49, 56), (60, 45), (32, 48), (7, 11), (60, 60), (53, 59), (27, 36), (1, 60), (25, 40)] {
            fs2.push((f_of(F::Linear(lin(&[(1, 1.0 / q1 as f64), (2, 7.0 / q2 as f64)], 0.0))), vec![(1, q1), (7, q2)]));
        }
        for (k, (f, cs)) in fs2.iter().enumerate() {
            n += 1; d.insert((5500 + k, 0));
            // minimal multiplier of p1/q1, p2/q2, ... (lowest terms): lcm(q) / gcd(p)
            let red: Vec<(i64, i64)> = cs.iter().map(|(p, q)| { let g = gcd(*p, *q); (p / g, q / g) }).collect();
            let l = red.iter().fold(1i64, |a, (_, q)| a / gcd(a, *q) * q); let g = red.iter().fold(0i64, |a, (p, _)| gcd(a, *p));
            let want = l as f64 / g as f64;
            match f.content_factor() {
                Err(e) => fail!(n, d, "content_factor failed on {f:?} (coefficients {cs:?}): {e}"),
                Ok(a) => {
                    for (p, q) in cs { let v = a * (*p as f64 / *q as f64); if (v - v.round()).abs() > 1e-6 { fail!(n, d, "content_factor({f:?}) = {a}: {a} * {p}/{q} = {v} is not an integer"); } }
                    if !close(a.abs(), want) { fail!(n, d, "content_factor({f:?}) = {a}, the minimal multiplier for the coefficients {cs:?} is {want}"); }
                }
            }
        }
    }
    Outcome { cases: n, distinct: d.len(), fail: None }
}

pub fn c02() -> Outcome {
    let mut n = 0; let mut d = BTreeSet::new();
    let mut ops: Vec<Function> = plain_functions();
    ops.push(f_of(F::Constant(0.0))); ops.push(f_of(F::Constant(-2.0)));
    ops.push(f_of(F::Linear(lin(&[(2, -3.0), (1, -7.0)], -1.0))));                       // cancels against plain_functions()[1]
    ops.push(f_of(F::Polynomial(poly(&[(&[2, 1], 1.0), (&[2, 2], -0.5), (&[3, 3, 3], -0.5)]))));
    ops.push(f_of(F::Polynomial(poly(&[(&[], 2.0), (&[], 3.0)]))));                                  // a degree-0 polynomial stored as two constant monomials
    ops.push(f_of(F::Polynomial(poly(&[(&[], 0.5), (&[1], 1.0), (&[], -1.5), (&[1], 2.0)]))));        // repeated constant and repeated linear monomials
    let deg = |f: &Function| -> usize { match f.function.as_ref() { Some(F::Constant(_)) | None => 0, Some(F::Linear(_)) => 1, Some(F::Quadratic(_)) => 2, Some(F::Polynomial(p)) => p.terms.iter().map(|t| t.ids.len()).max().unwrap_or(0), Some(_) => 0 } };
    let check = |what: &str, r: &Function, a: &Function, b: Option<&Function>, f: &dyn Fn(f64, f64) -> f64| -> Result<(), String> {
        let allowed: BTreeSet<u64> = ref_ids(a).union(&b.map(ref_ids).unwrap_or_default()).cloned().collect();
        if !ref_ids(r).is_subset(&allowed) { return Err(format!("{what}: result mentions ids {:?} outside the operands' ids {allowed:?}", ref_ids(r))); }
        for s in states5() {
            let va = ref_val(a, &s).unwrap(); let vb = b.map(|b| ref_val(b, &s).unwrap()).unwrap_or(0.0);
            let want = f(va, vb); let got = ref_val(r, &s).ok_or("result cannot be evaluated")?;
            if !close(got, want) { return Err(format!("{what}: a={a:?} b={b:?}: result {r:?} evaluates to {got} at {s:?}, the polynomial {what} of the operands is {want}")); }
            // term iterator: (sorted ids, coefficient) pairs summing to the polynomial
            let mut it = 0.0; for (ids, c) in r { if ids.windows(2).any(|w| w[0] > w[1]) { return Err(format!("{what}: term iterator yields unsorted ids {:?}", &ids[..])); } it += c * ids.iter().map(|i| s[i]).product::<f64>(); }
            if !close(it, got) { return Err(format!("{what}: the term iterator of {r:?} sums to {it} at {s:?}, the function evaluates to {got}")); }
        }
        Ok(())
    };
    for (ai, a) in ops.iter().enumerate() {
        n += 1; d.insert((ai, usize::MAX));
        if let Err(e) = check("negation", &(-a.clone()), a, None, &|x, _| -x) { fail!(n, d, "{e}"); }
        if let Err(e) = check("scalar multiple (2.5 * a)", &(2.5 * a.clone()), a, None, &|x, _| 2.5 * x) { fail!(n, d, "{e}"); }
        if let Err(e) = check("scalar multiple (a * -0.5)", &(a.clone() * -0.5), a, None, &|x, _| -0.5 * x) { fail!(n, d, "{e}"); }
        if let Err(e) = check("scalar sum (a + 1.5)", &(a.clone() + 1.5), a, None, &|x, _| x + 1.5) { fail!(n, d, "{e}"); }
        // typed operators with an f64 on either side (every impl of linear.rs / quadratic.rs / polynomial.rs, incl. the macro-generated ones)
        match a.function.clone().unwrap() {
            F::Linear(x) => {
                if let Err(e) = check("Linear - f64", &Function::from(x.clone() - 1.5), a, None, &|p, _| p - 1.5) { fail!(n, d, "{e}"); }
                if let Err(e) = check("Linear + f64", &Function::from(x.clone() + 1.5), a, None, &|p, _| p + 1.5) { fail!(n, d, "{e}"); }
                if let Err(e) = check("f64 + Linear", &Function::from(1.5 + x.clone()), a, None, &|p, _| 1.5 + p) { fail!(n, d, "{e}"); }
                if let Err(e) = check("f64 * Linear", &Function::from(-2.0 * x.clone()), a, None, &|p, _| -2.0 * p) { fail!(n, d, "{e}"); }
                if let Err(e) = check("-Linear", &Function::from(-x.clone()), a, None, &|p, _| -p) { fail!(n, d, "{e}"); }
            }
            F::Quadratic(x) => {
                if let Err(e) = check("Quadratic - f64", &Function::from(x.clone() - 1.5), a, None, &|p, _| p - 1.5) { fail!(n, d, "{e}"); }
                if let Err(e) = check("Quadratic + f64", &Function::from(x.clone() + 1.5), a, None, &|p, _| p + 1.5) { fail!(n, d, "{e}"); }
                if let Err(e) = check("f64 + Quadratic", &Function::from(1.5 + x.clone()), a, None, &|p, _| 1.5 + p) { fail!(n, d, "{e}"); }
                if let Err(e) = check("f64 * Quadratic", &Function::from(-2.0 * x.clone()), a, None, &|p, _| -2.0 * p) { fail!(n, d, "{e}"); }
                if let Err(e) = check("-Quadratic", &Function::from(-x.clone()), a, None, &|p, _| -p) { fail!(n, d, "{e}"); }
            }
            F::Polynomial(x) => {
                if let Err(e) = check("Polynomial + f64", &Function::from(x.clone() + 1.5), a, None, &|p, _| p + 1.5) { fail!(n, d, "{e}"); }
                if let Err(e) = check("f64 + Polynomial", &Function::from(1.5 + x.clone()), a, None, &|p, _| 1.5 + p) { fail!(n, d, "{e}"); }
                if let Err(e) = check("f64 * Polynomial", &Function::from(-2.0 * x.clone()), a, None, &|p, _| -2.0 * p) { fail!(n, d, "{e}"); }
                if let Err(e) = check("-Polynomial", &Function::from(-x.clone()), a, None, &|p, _| -p) { fail!(n, d, "{e}"); }
            }
            _ => {}
        }
        for (bi, b) in ops.iter().enumerate() {
            n += 1; d.insert((ai, bi));
            if ai == 3 && bi == 5 { note(|| format!("a + b, a - b, a * b, b * a for a={a:?} b={b:?}")); }
            if let Err(e) = check("sum", &(a.clone() + b.clone()), a, Some(b), &|x, y| x + y) { fail!(n, d, "{e}"); }
            if let Err(e) = check("difference", &(a.clone() - b.clone()), a, Some(b), &|x, y| x - y) { fail!(n, d, "{e}"); }
            if deg(a) + deg(b) <= 6 {
                let p = a.clone() * b.clone();
                if let Err(e) = check("product", &p, a, Some(b), &|x, y| x * y) { fail!(n, d, "{e}"); }
                let q = b.clone() * a.clone();
                for s in states5() { if !close(ref_val(&p, &s).unwrap(), ref_val(&q, &s).unwrap()) { fail!(n, d, "a*b and b*a differ for a={a:?} b={b:?}"); } }
            }
            // typed leaves
            match (a.function.clone().unwrap(), b.function.clone().unwrap()) {
                (F::Linear(x), F::Linear(y)) => {
                    if let Err(e) = check("Linear - Linear", &Function::from(x.clone() - y.clone()), a, Some(b), &|p, q| p - q) { fail!(n, d, "{e}"); }
                    if let Err(e) = check("Linear + Linear", &Function::from(x.clone() + y.clone()), a, Some(b), &|p, q| p + q) { fail!(n, d, "{e}"); }
                    if let Err(e) = check("Linear * Linear", &Function::from(x * y), a, Some(b), &|p, q| p * q) { fail!(n, d, "{e}"); }
                }
                (F::Quadratic(x), F::Linear(y)) => {
                    if let Err(e) = check("Quadratic - Linear", &Function::from(x.clone() - y.clone()), a, Some(b), &|p, q| p - q) { fail!(n, d, "{e}"); }
                    if let Err(e) = check("Linear + Quadratic", &Function::from(y.clone() + x.clone()), a, Some(b), &|p, q| p + q) { fail!(n, d, "{e}"); }
                    if let Err(e) = check("Linear * Quadratic", &Function::from(y.clone() * x.clone()), a, Some(b), &|p, q| p * q) { fail!(n, d, "{e}"); }
                    if let Err(e) = check("Quadratic + Linear", &Function::from(x.clone() + y.clone()), a, Some(b), &|p, q| p + q) { fail!(n, d, "{e}"); }
                    if let Err(e) = check("Quadratic * Linear", &Function::from(x * y), a, Some(b), &|p, q| p * q) { fail!(n, d, "{e}"); }
                }
                (F::Quadratic(x), F::Quadratic(y)) => {
                    if let Err(e) = check("Quadratic - Quadratic", &Function::from(x.clone() - y.clone()), a, Some(b), &|p, q| p - q) { fail!(n, d, "{e}"); }
                    if let Err(e) = check("Quadratic + Quadratic", &Function::from(x.clone() + y.clone()), a, Some(b), &|p, q| p + q) { fail!(n, d, "{e}"); }
                    if let Err(e) = check("Quadratic * Quadratic", &Function::from(x * y), a, Some(b), &|p, q| p * q) { fail!(n, d, "{e}"); }
                }
                (F::Polynomial(x), F::Linear(y)) => {
                    if let Err(e) = check("Linear + Polynomial", &Function::from(y.clone() + x.clone()), a, Some(b), &|p, q| p + q) { fail!(n, d, "{e}"); }
                    if deg(a) + deg(b) <= 6 { if let Err(e) = check("Linear * Polynomial", &Function::from(y.clone() * x.clone()), a, Some(b), &|p, q| p * q) { fail!(n, d, "{e}"); } }
                    if let Err(e) = check("Polynomial + Linear", &Function::from(x.clone() + y.clone()), a, Some(b), &|p, q| p + q) { fail!(n, d, "{e}"); }
                    if let Err(e) = check("Polynomial * Linear", &Function::from(x * y), a, Some(b), &|p, q| p * q) { fail!(n, d, "{e}"); }
                }
                (F::Polynomial(x), F::Quadratic(y)) => {
                    if let Err(e) = check("Quadratic + Polynomial", &Function::from(y.clone() + x.clone()), a, Some(b), &|p, q| p + q) { fail!(n, d, "{e}"); }
                    if deg(a) + deg(b) <= 6 { if let Err(e) = check("Quadratic * Polynomial", &Function::from(y.clone() * x.clone()), a, Some(b), &|p, q| p * q) { fail!(n, d, "{e}"); } }
                    if let Err(e) = check("Polynomial + Quadratic", &Function::from(x.clone() + y.clone()), a, Some(b), &|p, q| p + q) { fail!(n, d, "{e}"); }
                    if let Err(e) = check("Polynomial * Quadratic", &Function::from(x * y), a, Some(b), &|p, q| p * q) { fail!(n, d, "{e}"); }
                }
                (F::Polynomial(x), F::Polynomial(y)) => {
                    if let Err(e) = check("Polynomial - Polynomial", &Function::from(x.clone() - y.clone()), a, Some(b), &|p, q| p - q) { fail!(n, d, "{e}"); }
                    if let Err(e) = check("Polynomial + Polynomial", &Function::from(x.clone() + y.clone()), a, Some(b), &|p, q| p + q) { fail!(n, d, "{e}"); }
                    if let Err(e) = check("Polynomial * Polynomial", &Function::from(x * y), a, Some(b), &|p, q| p * q) { fail!(n, d, "{e}"); }
                }
                _ => {}
            }
        }
    }
    // decision variables and parameters as operands
    {
        n += 1;
        let x = dv(1, Kind::Continuous, None); let y = dv(2, Kind::Continuous, None);
        let mut p = v1::Parameter::default(); p.id = 3;
        let fx = f_of(F::Linear(lin(&[(1, 1.0)], 0.0))); let fp = f_of(F::Linear(lin(&[(3, 1.0)], 0.0)));
        let fy = f_of(F::Linear(lin(&[(2, 1.0)], 0.0)));
        let g = ops[4].clone();
        if let Err(e) = check("parameter * function", &(&p * g.clone()), &fp, Some(&g), &|a, b| a * b) { fail!(n, d, "{e}"); }
        if let Err(e) = check("variable + variable", &Function::from(&x + &y), &fx, Some(&fy), &|a, b| a + b) { fail!(n, d, "{e}"); }
        if let Err(e) = check("variable * variable", &Function::from(&x * &y), &fx, Some(&fy), &|a, b| a * b) { fail!(n, d, "{e}"); }
        if let Err(e) = check("parameter + variable", &Function::from(&p + &x), &fp, Some(&fx), &|a, b| a + b) { fail!(n, d, "{e}"); }
    }
    // every operator that v1_ext/decision_variable.rs and parameter.rs define: a variable / parameter on either side of +, * with f64, Linear, Quadratic, Polynomial, Function
    // (typed operands with a non-zero constant, a linear part, a term in the variable itself), negation, and the conversions into each function type
    {
        let x = dv(1, Kind::Continuous, None); let mut p = v1::Parameter::default(); p.id = 3;
        let fx = f_of(F::Linear(lin(&[(1, 1.0)], 0.0))); let fp = f_of(F::Linear(lin(&[(3, 1.0)], 0.0)));
        let tl = lin(&[(1, 2.0), (2, -1.0)], 3.0);
        let tq = quad(&[(1, 2, 1.5), (2, 2, -1.0), (3, 1, 0.5)], Some(lin(&[(1, 0.5), (3, 2.0)], -2.0)));
        let tp = poly(&[(&[1, 2, 3], 1.0), (&[2], 2.0), (&[3, 3], -1.0), (&[], 4.0)]);
        macro_rules! both { ($v:expr, $fv:expr, $vn:expr, $t:expr, $ft:expr, $tn:expr) => {{
            n += 1;
            let ft: Function = $ft;
            if let Err(e) = check(&format!("{} + {}", $vn, $tn), &Function::from($v + $t.clone()), $fv, Some(&ft), &|a, b| a + b) { fail!(n, d, "{e}"); }
            if let Err(e) = check(&format!("{} + {}", $tn, $vn), &Function::from($t.clone() + $v), $fv, Some(&ft), &|a, b| a + b) { fail!(n, d, "{e}"); }
            if let Err(e) = check(&format!("{} * {}", $vn, $tn), &Function::from($v * $t.clone()), $fv, Some(&ft), &|a, b| a * b) { fail!(n, d, "{e}"); }
            if let Err(e) = check(&format!("{} * {}", $tn, $vn), &Function::from($t.clone() * $v), $fv, Some(&ft), &|a, b| a * b) { fail!(n, d, "{e}"); }
        }}; }
        both!(&x, &fx, "variable", 2.5f64, f_of(F::Constant(2.5)), "f64");
        both!(&x, &fx, "variable", tl, f_of(F::Linear(tl.clone())), "Linear");
        both!(&x, &fx, "variable", tq, f_of(F::Quadratic(tq.clone())), "Quadratic");
        both!(&x, &fx, "variable", tp, f_of(F::Polynomial(tp.clone())), "Polynomial");
        both!(&p, &fp, "parameter", 2.5f64, f_of(F::Constant(2.5)), "f64");
        both!(&p, &fp, "parameter", tl, f_of(F::Linear(tl.clone())), "Linear");
        both!(&p, &fp, "parameter", tq, f_of(F::Quadratic(tq.clone())), "Quadratic");
        both!(&p, &fp, "parameter", tp, f_of(F::Polynomial(tp.clone())), "Polynomial");
        for g in [f_of(F::Constant(-1.5)), f_of(F::Linear(tl.clone())), f_of(F::Quadratic(tq.clone())), f_of(F::Polynomial(tp.clone()))] {
            both!(&x, &fx, "variable", g, g.clone(), "Function");
            both!(&p, &fp, "parameter", g, g.clone(), "Function");
        }
        n += 1;
        if let Err(e) = check("variable + parameter", &Function::from(&x + &p), &fx, Some(&fp), &|a, b| a + b) { fail!(n, d, "{e}"); }
        if let Err(e) = check("variable * parameter", &Function::from(&x * &p), &fx, Some(&fp), &|a, b| a * b) { fail!(n, d, "{e}"); }
        if let Err(e) = check("parameter * variable", &Function::from(&p * &x), &fx, Some(&fp), &|a, b| a * b) { fail!(n, d, "{e}"); }
        if let Err(e) = check("parameter + parameter", &Function::from(&p + &p), &fp, Some(&fp), &|a, b| a + b) { fail!(n, d, "{e}"); }
        if let Err(e) = check("parameter * parameter", &Function::from(&p * &p), &fp, Some(&fp), &|a, b| a * b) { fail!(n, d, "{e}"); }
        if let Err(e) = check("variable * itself", &Function::from(&x * &x), &fx, Some(&fx), &|a, b| a * b) { fail!(n, d, "{e}"); }
        if let Err(e) = check("-variable", &Function::from(-&x), &fx, None, &|a, _| -a) { fail!(n, d, "{e}"); }
        if let Err(e) = check("-parameter", &Function::from(-&p), &fp, None, &|a, _| -a) { fail!(n, d, "{e}"); }
        if let Err(e) = check("Linear::from(variable)", &Function::from(v1::Linear::from(&x)), &fx, None, &|a, _| a) { fail!(n, d, "{e}"); }
        if let Err(e) = check("Quadratic::from(variable)", &Function::from(v1::Quadratic::from(&x)), &fx, None, &|a, _| a) { fail!(n, d, "{e}"); }
        if let Err(e) = check("Polynomial::from(variable)", &Function::from(v1::Polynomial::from(&x)), &fx, None, &|a, _| a) { fail!(n, d, "{e}"); }
        if let Err(e) = check("Function::from(variable)", &Function::from(&x), &fx, None, &|a, _| a) { fail!(n, d, "{e}"); }
        if let Err(e) = check("Quadratic::from(parameter)", &Function::from(v1::Quadratic::from(&p)), &fp, None, &|a, _| a) { fail!(n, d, "{e}"); }
        if let Err(e) = check("Polynomial::from(parameter)", &Function::from(v1::Polynomial::from(&p)), &fp, None, &|a, _| a) { fail!(n, d, "{e}"); }
        if let Err(e) = check("Function::from(parameter)", &Function::from(&p), &fp, None, &|a, _| a) { fail!(n, d, "{e}"); }
    }
    // n-ary sums and products through the Sum / Product impls (Linear, Function): the polynomial sum / product of the items, nothing else (D15: Sum for Linear started from the variable x0)
    {
        let ls = [lin(&[(1, 2.0), (2, -1.0)], 3.0), lin(&[(3, 0.5)], -1.0), lin(&[(1, -2.0)], 0.25)];
        for k in 0..=3usize {
            n += 1; d.insert((2500, k));
            let got = Function::from(ls[..k].iter().cloned().sum::<v1::Linear>());
            let gf: Function = ls[..k].iter().cloned().map(|l| f_of(F::Linear(l))).sum();
            let gp: Function = ls[..k].iter().cloned().map(|l| f_of(F::Linear(l))).product();
            for s in states5() {
                let vals: Vec<f64> = ls[..k].iter().map(|l| ref_val(&f_of(F::Linear(l.clone())), &s).unwrap()).collect();
                let (ws, wp): (f64, f64) = (vals.iter().sum(), vals.iter().product());
                for (what, g, w) in [("Iterator::sum::<Linear>", &got, ws), ("Iterator::sum::<Function>", &gf, ws), ("Iterator::product::<Function>", &gp, wp)] {
                    if !ref_ids(g).is_subset(&[1u64, 2, 3].into_iter().collect()) { fail!(n, d, "{what} over the {k} items {:?} mentions ids outside the items: {g:?}", &ls[..k]); }
                    let v = ref_val(g, &s).unwrap();
                    if !close(v, w) { fail!(n, d, "{what} over the {k} items {:?} gives {g:?}, which evaluates to {v} at {s:?}; the polynomial result is {w}", &ls[..k]); }
                }
            }
        }
    }
    // coefficients between machine epsilon and 1e-8 are coefficients ("the documented dropping of coefficients below machine epsilon" is the only dropping):
    // compared coefficient by coefficient against an independent expansion of the operands' term lists
    {
        fn terms_of(f: &Function) -> BTreeMap<Vec<u64>, f64> {
            let mut m: BTreeMap<Vec<u64>, f64> = BTreeMap::new();
            let mut add = |mut ids: Vec<u64>, c: f64| { ids.sort(); *m.entry(ids).or_insert(0.0) += c; };
            match f.function.as_ref() {
                None => {}
                Some(F::Constant(c)) => add(vec![], *c),
                Some(F::Linear(l)) => { add(vec![], l.constant); for t in &l.terms { add(vec![t.id], t.coefficient); } }
                Some(F::Quadratic(q)) => { if let Some(l) = &q.linear { add(vec![], l.constant); for t in &l.terms { add(vec![t.id], t.coefficient); } } for k in 0..q.values.len() { add(vec![q.rows[k], q.columns[k]], q.values[k]); } }
                Some(F::Polynomial(p)) => { for t in &p.terms { add(t.ids.clone(), t.coefficient); } }
                Some(_) => {}
            }
            m
        }
        let comb = |a: &BTreeMap<Vec<u64>, f64>, b: &BTreeMap<Vec<u64>, f64>, op: u8| -> BTreeMap<Vec<u64>, f64> {
            let mut m: BTreeMap<Vec<u64>, f64> = BTreeMap::new();
            match op { 0 | 1 => { for (k, v) in a { *m.entry(k.clone()).or_insert(0.0) += v; } for (k, v) in b { *m.entry(k.clone()).or_insert(0.0) += if op == 0 { *v } else { -*v }; } }
                       _ => { for (ka, va) in a { for (kb, vb) in b { let mut k = ka.clone(); k.extend(kb.iter().cloned()); k.sort(); *m.entry(k).or_insert(0.0) += va * vb; } } } }
            m
        };
        let small: Vec<Function> = vec![
            f_of(F::Linear(lin(&[(1, 1e-9)], 2.0))), f_of(F::Linear(lin(&[(3, 2.5e-9), (2, 1.0)], 1.0))), f_of(F::Linear(lin(&[(4, 1e-4)], 1.0))),
            f_of(F::Quadratic(quad(&[(2, 4, 3e-10)], Some(lin(&[(1, 1.0)], 0.0))))), f_of(F::Quadratic(quad(&[(1, 2, 1.0), (3, 3, 4e-12)], None))),
            f_of(F::Polynomial(poly(&[(&[1, 2, 3], 1.0)]))), f_of(F::Polynomial(poly(&[(&[1, 2, 3], 1e-5), (&[], 1.0)]))), f_of(F::Polynomial(poly(&[(&[1, 2, 3], 7e-13), (&[2], 1e-10), (&[], 1.0)]))),
        ];
        for (ai, a) in small.iter().enumerate() { for (bi, b) in small.iter().enumerate() { for op in 0u8..3 {
            n += 1; d.insert((3000 + ai, bi * 3 + op as usize));
            let r = match op { 0 => a.clone() + b.clone(), 1 => a.clone() - b.clone(), _ => a.clone() * b.clone() };
            let want = comb(&terms_of(a), &terms_of(b), op); let got = terms_of(&r);
            let mut it: BTreeMap<Vec<u64>, f64> = BTreeMap::new(); for (ids, c) in &r { *it.entry(ids.iter().cloned().collect()).or_insert(0.0) += c; }
            for (k, w) in &want {
                if w.abs() <= 4.0 * f64::EPSILON { continue; }     // at or near the documented threshold: may be dropped
                for (src, m) in [("result message", &got), ("term iterator", &it)] {
                    let g = m.get(k).copied().unwrap_or(0.0);
                    if (g - w).abs() > 1e-9 * w.abs() { fail!(n, d, "{} of a={a:?} and b={b:?}: the coefficient of the monomial {k:?} is {w:e} in the exact result but {g:e} in the {src} of {r:?} (only coefficients below machine epsilon may be dropped)", ["sum", "difference", "product"][op as usize]); }
                }
            }
        } } }
    }
    // operands of very different scale, same kind on both sides (no upcast, whose collect drops coefficients <= EPSILON - the documented dropping): a coefficient
    // below machine epsilon is still a coefficient of the operand, the product's coefficient (1.0) is not small, and a * b must equal b * a
    {
        let tiny = 1e-16; let huge = 1e16;
        let small: Vec<Function> = vec![
            f_of(F::Linear(lin(&[(1, tiny)], 0.0))),
            f_of(F::Quadratic(quad(&[(1, 2, tiny)], None))),
            f_of(F::Quadratic(quad(&[(1, 2, tiny)], Some(lin(&[], 0.0))))),
            f_of(F::Polynomial(poly(&[(&[1, 2, 3], tiny)]))),
        ];
        let large: Vec<Function> = vec![
            f_of(F::Linear(lin(&[(2, huge)], 0.0))),
            f_of(F::Quadratic(quad(&[(3, 3, huge)], None))),
            f_of(F::Polynomial(poly(&[(&[1, 1, 1], huge)]))),
        ];
        // a scalar below machine epsilon is still a scalar: tiny * (huge coefficients) has ordinary coefficients
        for (bi, b) in large.iter().enumerate() {
            n += 1; d.insert((2000, bi));
            if let Err(e) = check("scalar multiple (1e-16 * b)", &(tiny * b.clone()), b, None, &|x, _| tiny * x) { fail!(n, d, "{e}"); }
            if let Err(e) = check("scalar multiple (b * 1e-16)", &(b.clone() * tiny), b, None, &|x, _| x * tiny) { fail!(n, d, "{e}"); }
        }
        for (ai, a) in small.iter().enumerate() {
            for (bi, b) in large.iter().enumerate() {
                if deg(a) != deg(b) { continue; }
                n += 1; d.insert((1000 + ai, bi));
                if let Err(e) = check("product (tiny * huge)", &(a.clone() * b.clone()), a, Some(b), &|x, y| x * y) { fail!(n, d, "{e}"); }
                if let Err(e) = check("product (huge * tiny)", &(b.clone() * a.clone()), b, Some(a), &|x, y| x * y) { fail!(n, d, "{e}"); }
                if let (Some(F::Linear(x)), Some(F::Linear(y))) = (a.function.clone(), b.function.clone()) {
                    if let Err(e) = check("Linear * Linear (tiny * huge)", &Function::from(x.clone() * y.clone()), a, Some(b), &|p, q| p * q) { fail!(n, d, "{e}"); }
                    if let Err(e) = check("Linear * Linear (huge * tiny)", &Function::from(y * x), b, Some(a), &|p, q| p * q) { fail!(n, d, "{e}"); }
                }
            }
        }
    }
    Outcome { cases: n, distinct: d.len(), fail: None }
}
