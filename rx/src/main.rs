//! Replay crate: runs the REAL compiled code of /repo on concrete inputs.
//! `rx demo <Dxx>` exits 1 (and prints the failing input) when the defect manifests, 0 when the code behaves as the property demands.
//! It is not a verifier; it exists so a VIOLATION / finding can carry a failing input replayed against the real code.
mod bounded;
mod bounded2;
mod bounded3;
mod bounded4;
mod audit;
use ommx::v1::{self, decision_variable::Kind, Constraint, DecisionVariable, Equality, Function, Instance, Linear};
use std::collections::HashMap;

fn dv(id: u64, kind: Kind, bound: Option<(f64, f64)>) -> DecisionVariable {
    let mut d = DecisionVariable::default();
    d.id = id;
    d.kind = kind as i32;
    d.bound = bound.map(|(l, u)| {
        let mut b = v1::Bound::default();
        b.lower = l;
        b.upper = u;
        b
    });
    d
}
fn inst(dvs: Vec<DecisionVariable>, obj: Function, cs: Vec<Constraint>) -> Instance {
    let mut i = Instance::default();
    i.decision_variables = dvs;
    i.objective = Some(obj);
    i.constraints = cs;
    i.sense = v1::instance::Sense::Minimize as i32;
    i
}
fn con(id: u64, eq: Equality, f: Function) -> Constraint {
    let mut c = Constraint::default();
    c.id = id;
    c.equality = eq as i32;
    c.function = Some(f);
    c
}

fn demo(which: &str) -> i32 {
    match which {
        // D1 (C12): log_encode with an infinite bound must be an error, not a hang / OOM.
        // Run under a time and memory limit by the caller (tools/demo.sh); here a watchdog thread aborts after 5 s.
        "D1" => {
            std::thread::spawn(|| {
                std::thread::sleep(std::time::Duration::from_secs(5));
                println!("D1 MANIFESTS: log_encode(x in [0, +inf), integer) did not return within 5 s (expected: Err)");
                std::process::exit(1);
            });
            let mut i = inst(vec![dv(0, Kind::Integer, Some((0.0, f64::INFINITY)))], Function::from(0.0), vec![]);
            match i.log_encode(0) {
                Err(e) => { println!("D1 ok: Err({e})"); 0 }
                Ok(l) => { println!("D1 MANIFESTS: Ok with {} terms", l.terms.len()); 1 }
            }
        }
        // D2 (C13): an EQUALITY constraint must be rejected by convert_inequality_to_equality_with_integer_slack
        "D2" => {
            let mut i = inst(vec![dv(0, Kind::Integer, Some((0.0, 3.0)))], Function::from(0.0),
                vec![con(7, Equality::EqualToZero, Function::from(Linear::single_term(0, 1.0) + (-2.0)))]);
            let before = i.clone();
            let r = i.convert_inequality_to_equality_with_integer_slack(7, 100);
            if r.is_ok() || i != before {
                println!("D2 MANIFESTS: constraint 7 is `x0 - 2 = 0` (equality); result={:?}; variables {} -> {}; function now {:?}",
                    r.is_ok(), before.decision_variables.len(), i.decision_variables.len(), i.constraints[0].function);
                1
            } else { println!("D2 ok: rejected, instance unchanged"); 0 }
        }
        // D3 (C08): typed view of an unset bound must be (-inf, +inf) ([0,1] for binaries)
        "D3" => {
            let i = inst(vec![dv(0, Kind::Continuous, None), dv(1, Kind::Binary, None)], Function::from(0.0), vec![]);
            let typed: ommx::Instance = match i.try_into() { Ok(t) => t, Err(e) => { println!("D3: parse error {e}"); return 1; } };
            let s = format!("{:?}", typed);
            let bad = s.matches("Bound { lower: 0.0, upper: 0.0 }").count();
            if bad > 0 { println!("D3 MANIFESTS: {} unset bound(s) became [0,0] in the typed view: {}", bad, s); 1 } else { println!("D3 ok"); 0 }
        }
        // D13 (C09): penalty methods must keep constraints that were already removed
        "D13" | "D13u" => {
            let mut i = inst(vec![dv(0, Kind::Integer, Some((0.0, 3.0)))], Function::from(0.0),
                vec![con(7, Equality::EqualToZero, Function::from(Linear::single_term(0, 1.0) + (-2.0))),
                     con(8, Equality::LessThanOrEqualToZero, Function::from(Linear::single_term(0, 1.0)))]);
            i.relax_constraint(8, "r".to_string(), HashMap::new()).unwrap();
            let total = i.constraints.len() + i.removed_constraints.len();
            let p = if which == "D13" { i.penalty_method().unwrap() } else { i.uniform_penalty_method().unwrap() };
            if p.removed_constraints.len() != total {
                println!("{which} MANIFESTS: input has 1 active + 1 removed constraint, output has {} active + {} removed", p.constraints.len(), p.removed_constraints.len());
                1
            } else { println!("{which} ok"); 0 }
        }
        // D5b (C17): FR = free variable
        "D5b" => {
            let mps = "NAME t\nROWS\n N COST\n L R1\nCOLUMNS\n    Y COST 1 R1 1\nRHS\n    RHS R1 4\nBOUNDS\n FR BND Y\nENDATA\n";
            let m = ommx::mps::load_raw_reader(mps.as_bytes()).unwrap();
            let b = m.decision_variables[0].bound.clone().unwrap();
            if b.lower != f64::NEG_INFINITY || b.upper != f64::INFINITY { println!("D5b MANIFESTS: `FR BND Y` gives bound [{}, {}], expected (-inf, +inf)", b.lower, b.upper); 1 } else { println!("D5b ok"); 0 }
        }
        // D5a/D5c/D5d (C17)
        "D5a" | "D5c" | "D5d" => {
            let mps = "NAME t\nROWS\n N COST\n L R1\nCOLUMNS\n    X COST 1 R1 1\n    Z COST 1 R1 1\nRHS\n    RHS COST -5 R1 4\nBOUNDS\n UP BND X 0\n BV BND Z\nENDATA\n";
            let m = ommx::mps::load_raw_reader(mps.as_bytes()).unwrap();
            let x = m.decision_variables.iter().find(|v| v.name.as_deref() == Some("X")).unwrap();
            let z = m.decision_variables.iter().find(|v| v.name.as_deref() == Some("Z")).unwrap();
            match which {
                "D5a" => { let b = x.bound.clone().unwrap(); if b.lower != 0.0 { println!("D5a MANIFESTS: `UP BND X 0` (not negative) gives bound [{}, {}], expected [0, 0]", b.lower, b.upper); 1 } else { println!("D5a ok"); 0 } }
                "D5d" => { let b = z.bound.clone().unwrap(); if b.upper != 1.0 { println!("D5d MANIFESTS: `BV BND Z` gives kind={} bound [{}, {}], expected [0, 1]", z.kind, b.lower, b.upper); 1 } else { println!("D5d ok"); 0 } }
                _ => { let c = m.objective.as_ref().map(|f| f.get_constant()).unwrap_or(0.0);
                       if c != 5.0 { println!("D5c MANIFESTS: objective row is COST with RHS -5, objective constant should be 5, got {c}"); 1 } else { println!("D5c ok"); 0 } }
            }
        }
        // D14 (C17): an RHS entry for a row that ROWS does not declare is an error (it was dropped silently, the intended row kept RHS 0)
        "D14" => {
            let mps = "NAME t\nROWS\n N COST\n L LIM1\nCOLUMNS\n    X COST 1 LIM1 1\nRHS\n    RHS LIM_1 4\nENDATA\n";
            match ommx::mps::load_raw_reader(mps.as_bytes()) {
                Ok(m) => { println!("D14 MANIFESTS: `RHS LIM_1 4` names a row that ROWS does not declare (LIM1 is declared); the file was accepted with {} constraint(s) and the RHS dropped", m.constraints.len()); 1 }
                Err(e) => { println!("D14 ok (rejected: {e})"); 0 }
            }
        }
        // D15 (C02): the n-ary sum of linear functions is the polynomial sum of the items (it started from the variable x0)
        "D15" => {
            let items = vec![ommx::v1::Linear::single_term(1, 2.0), ommx::v1::Linear::single_term(2, 1.0) + 3.0];
            let s: ommx::v1::Linear = items.into_iter().sum();
            let x0 = s.terms.iter().find(|t| t.id == 0).map(|t| t.coefficient);
            let empty: ommx::v1::Linear = Vec::<ommx::v1::Linear>::new().into_iter().sum();
            if x0.is_some() || !empty.terms.is_empty() { println!("D15 MANIFESTS: [2*x1, x2 + 3].into_iter().sum::<Linear>() = {s:?} (an extra term in x0); the empty sum is {empty:?}"); 1 } else { println!("D15 ok ({s:?})"); 0 }
        }
        // D6 (C19): diagonal entries of the lower triangle of Q0 enter 1/2 x'Qx with factor 1/2
        "D6" => {
            let q = "t\nQCN\nminimize\n2\n2\n1 1 4.0\n2 1 3.0\n0.0\n0\n0.0\n1e30\n-10.0\n0\n10.0\n0\n0.0\n0\n0.0\n0\n0\n0\n";
            let path = std::env::temp_dir().join(format!("rx-probe-{}.qplib", std::process::id()));
            std::fs::write(&path, q).unwrap();
            let r = ommx::qplib::load_file(&path);
            let _ = std::fs::remove_file(&path);
            match r {
                Ok(i) => {
                    use ommx::Evaluate;
                    let st: v1::State = [(0u64, 1.0), (1u64, 0.0)].into_iter().collect();
                    let (v, _) = i.objective.as_ref().unwrap().evaluate(&st).unwrap();
                    // x = (1, 0): 1/2 * Q11 * 1 = 2
                    if v != 2.0 { println!("D6 MANIFESTS: Q0 lower triangle (1,1)=4 (2,1)=3; objective at x=(1,0) should be 1/2*4 = 2, got {v}"); 1 } else { println!("D6 ok"); 0 }
                }
                Err(e) => { println!("D6: load error {e:?}"); 2 }
            }
        }
        // D7 (C08): the typed conversion must reject a message whose functions use an undefined variable id
        "O1" => {
            // observation (precondition `fn_coo_ok` of the operator / term-iterator contracts): a Quadratic whose COO arrays differ in length makes the operators panic
            use v1::function::Function as F;
            let mut q = v1::Quadratic::default(); q.rows = vec![1, 2]; q.columns = vec![1]; q.values = vec![1.0];
            let f = bounded::f_of(F::Quadratic(q));
            let g = bounded::f_of(F::Linear(bounded::lin(&[(1, 1.0)], 0.0)));
            let r1 = std::panic::catch_unwind(|| f.clone() * g.clone()).is_err();
            let r2 = std::panic::catch_unwind(|| f.clone() + f.clone()).is_err();
            let r3 = std::panic::catch_unwind(|| (&f).into_iter().count()).is_err();
            let i = bounded::inst(vec![bounded::dv(1, Kind::Continuous, None), bounded::dv(2, Kind::Continuous, None)], g.clone(), vec![bounded::con(1, Equality::EqualToZero, f.clone())]);
            let r4 = std::panic::catch_unwind(move || i.penalty_method().is_ok()).is_err();
            println!("O1 observation: malformed COO quadratic: f*g panics={r1}, f+f panics={r2}, term iterator panics={r3}, penalty_method panics={r4}");
            if r1 && r2 && r3 && r4 { 0 } else { 1 }
        }
        "O2" => {
            // observation: Polynomial::partial_evaluate skips a monomial with |coefficient| <= EPSILON together with its ids, so a fixed variable that occurs only there is not
            // in the returned set ("only fixed variables that occurred" holds, "exactly" does not) - the reason why the shared relation pe_rel says subset
            use v1::function::Function as F;
            use ommx::Evaluate;
            let mut f = bounded::f_of(F::Polynomial(bounded::poly(&[(&[7], 1e-17), (&[1, 1, 1], 2.0)])));
            let st: v1::State = [(7u64, 3.0)].into_iter().collect::<HashMap<u64, f64>>().into();
            let used = f.partial_evaluate(&st).unwrap();
            println!("O2 observation: partial_evaluate of 1e-17*x7 + 2*x1^3 fixing x7: returned ids {used:?}, result {f:?}");
            if used.is_empty() { 0 } else { 1 }
        }
        "D7" => {
            let i = inst(vec![dv(0, Kind::Continuous, Some((0.0, 1.0)))], Function::from(Linear::single_term(5, 1.0)), vec![]);
            let raw_ok = i.validate().is_ok();
            match ommx::Instance::try_from(i) {
                Ok(_) => { println!("D7 MANIFESTS: objective uses variable id 5, only id 0 is defined; v1::Instance::validate() ok={raw_ok}, but TryFrom<v1::Instance> accepted the message"); 1 }
                Err(e) => { println!("D7 ok: rejected: {e}"); 0 }
            }
        }
        _ => { println!("unknown demo {which}"); 2 }
    }
}

fn main() {
    let a: Vec<String> = std::env::args().collect();
    if a.len() >= 3 && a[1] == "demo" {
        std::process::exit(demo(&a[2]));
    }
    if a.len() >= 3 && a[1] == "bounded" && std::env::var("RX_CHILD").is_err() {
        // the family runs in a child process: panics are caught there, but a stack overflow or abort in the real code kills the process - the parent reports it
        let dir = std::env::var("RX_TMP").unwrap_or_else(|_| ".".to_string());
        let tr = format!("{dir}/trace.{}", std::process::id());
        let _ = std::fs::remove_file(&tr);
        let st = std::process::Command::new(std::env::current_exe().unwrap()).args(&a[1..]).env("RX_CHILD", "1").env("RX_TRACE", &tr).status();
        let last = std::fs::read_to_string(&tr).unwrap_or_else(|_| "(case not recorded by this family)".to_string());
        let _ = std::fs::remove_file(&tr);
        match st {
            Ok(s) if matches!(s.code(), Some(0) | Some(1) | Some(4)) => std::process::exit(s.code().unwrap()),
            Ok(s) => {
                use std::os::unix::process::ExitStatusExt;
                println!("BOUNDED property={} cases=1 distinct=1 FAIL", a[2]);
                println!("FAILING-INPUT the process running the real code died ({}) - stack overflow, abort or kill instead of a result; last case started: {}",
                    s.signal().map(|n| format!("signal {n}")).unwrap_or_else(|| format!("exit code {:?}", s.code())), last);
                std::process::exit(1);
            }
            Err(e) => { println!("cannot start the child process: {e}"); std::process::exit(2); }
        }
    }
    if a.len() >= 3 && a[1] == "bounded" {
        let prop = a[2].clone();
        let res = std::panic::catch_unwind(move || bounded::run(&prop));
        let res = match res { Ok(r) => r, Err(e) => {
            let msg = e.downcast_ref::<String>().cloned().or_else(|| e.downcast_ref::<&str>().map(|s| s.to_string())).unwrap_or_default();
            Some(bounded::Outcome { cases: 1, distinct: 2, fail: Some(format!("panic while running the family - in the real code, or in a harness expectation (an unwrap of a result that is Ok on the unchanged tree): {msg}")) }) } };
        match res {
            None => { println!("BOUNDED-NONE property={}", a[2]); std::process::exit(4); }
            Some(o) => {
                println!("BOUNDED property={} cases={} distinct={} {}", a[2], o.cases, o.distinct, if o.fail.is_some() { "FAIL" } else { "pass" });
                for sm in bounded::samples() { println!("SAMPLE {}", sm); }
                if let Some(f) = o.fail { println!("FAILING-INPUT {}", f); std::process::exit(1); }
                std::process::exit(0);
            }
        }
    }
    println!("usage: rx bounded <Cxx> | rx demo <D1|D2|D3|D7|D13|D13u|D5a|D5b|D5c|D5d|D6|D14|D15|O1|O2>");
    std::process::exit(2);
}
