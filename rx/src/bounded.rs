// Bounded stand-ins: executable forms of the contracts, run on the REAL compiled code over small deterministic input families.
// They are used (a) when the deductive route cannot decide (code left the verifier's dialect) and (b) to cover callees whose
// contracts are only assumed.  A failing case is a concrete input replayed against the real code.  They are never counted as proof.
// All numbers are small dyadic rationals, so every expected value is exact in f64.
use ommx::v1::{self, decision_variable::Kind, Constraint, DecisionVariable, Equality, Function, Instance, Linear, Monomial, Polynomial, Quadratic, State};
use ommx::Evaluate;
use std::collections::{BTreeSet, HashMap};

static SAMPLES: std::sync::Mutex<Vec<String>> = std::sync::Mutex::new(Vec::new());
pub fn note(f: impl FnOnce() -> String) { let mut g = SAMPLES.lock().unwrap(); if g.len() < 3 { let s = f(); g.push(s); } }
pub fn samples() -> Vec<String> { SAMPLES.lock().unwrap().clone() }
// the case about to run, recorded for the parent process: if the real code kills the process (stack overflow, abort) the parent reports this input
pub fn trace(f: impl FnOnce() -> String) { if let Ok(p) = std::env::var("RX_TRACE") { let _ = std::fs::write(p, f()); } }
pub struct Outcome { pub cases: usize, pub distinct: usize, pub fail: Option<String> }

pub fn dv(id: u64, kind: Kind, bound: Option<(f64, f64)>) -> DecisionVariable {
    let mut d = DecisionVariable::default();
    d.id = id;
    d.kind = kind as i32;
    d.bound = bound.map(|(l, u)| { let mut b = v1::Bound::default(); b.lower = l; b.upper = u; b });
    d
}
pub fn lin(terms: &[(u64, f64)], c: f64) -> Linear {
    let mut l = Linear::default();
    l.terms = terms.iter().map(|&(id, k)| { let mut t = v1::linear::Term::default(); t.id = id; t.coefficient = k; t }).collect();
    l.constant = c;
    l
}
pub fn quad(entries: &[(u64, u64, f64)], l: Option<Linear>) -> Quadratic {
    let mut q = Quadratic::default();
    for &(r, c, v) in entries { q.rows.push(r); q.columns.push(c); q.values.push(v); }
    q.linear = l;
    q
}
pub fn poly(terms: &[(&[u64], f64)]) -> Polynomial {
    let mut p = Polynomial::default();
    p.terms = terms.iter().map(|(ids, c)| { let mut m = Monomial::default(); m.ids = ids.to_vec(); m.coefficient = *c; m }).collect();
    p
}
pub fn f_of(e: v1::function::Function) -> Function { let mut f = Function::default(); f.function = Some(e); f }
pub fn con(id: u64, eq: Equality, f: Function) -> Constraint { let mut c = Constraint::default(); c.id = id; c.equality = eq as i32; c.function = Some(f); c }
pub fn inst(dvs: Vec<DecisionVariable>, obj: Function, cs: Vec<Constraint>) -> Instance {
    let mut i = Instance::default();
    i.decision_variables = dvs; i.objective = Some(obj); i.constraints = cs; i.sense = v1::instance::Sense::Minimize as i32;
    i
}
pub fn state(e: &[(u64, f64)]) -> State { e.iter().cloned().collect() }

// independent reference value of a function message (plain sum over the wire representation)
pub fn ref_val(f: &Function, s: &HashMap<u64, f64>) -> Option<f64> {
    use v1::function::Function as F;
    let g = |id: &u64| s.get(id).copied();
    Some(match f.function.as_ref() {
        None => 0.0,
        Some(F::Constant(c)) => *c,
        Some(F::Linear(l)) => { let mut v = l.constant; for t in &l.terms { v += t.coefficient * g(&t.id)?; } v }
        Some(F::Quadratic(q)) => {
            let mut v = 0.0;
            if let Some(l) = &q.linear { v += l.constant; for t in &l.terms { v += t.coefficient * g(&t.id)?; } }
            for k in 0..q.rows.len().min(q.columns.len()).min(q.values.len()) { v += q.values[k] * g(&q.rows[k])? * g(&q.columns[k])?; }
            v
        }
        Some(F::Polynomial(p)) => { let mut v = 0.0; for t in &p.terms { let mut m = t.coefficient; for id in &t.ids { m *= g(id)?; } v += m; } v }
        Some(_) => return None,
    })
}
pub fn ref_ids(f: &Function) -> BTreeSet<u64> {
    use v1::function::Function as F;
    let mut s = BTreeSet::new();
    match f.function.as_ref() {
        None | Some(F::Constant(_)) => {}
        Some(F::Linear(l)) => { for t in &l.terms { s.insert(t.id); } }
        Some(F::Quadratic(q)) => { if let Some(l) = &q.linear { for t in &l.terms { s.insert(t.id); } } for k in 0..q.rows.len().min(q.columns.len()).min(q.values.len()) { s.insert(q.rows[k]); s.insert(q.columns[k]); } }
        Some(F::Polynomial(p)) => { for t in &p.terms { for id in &t.ids { s.insert(*id); } } }
        Some(_) => {}
    }
    s
}

fn sample_functions() -> Vec<Function> {
    use v1::function::Function as F;
    let tiny = 2f64.powi(-60);
    vec![
        Function::default(),
        f_of(F::Constant(1.5)),
        f_of(F::Linear(lin(&[(1, 2.0), (2, 3.0), (1, 5.0)], 1.0))),          // repeated id, unsorted
        f_of(F::Linear(lin(&[(7, 0.0), (2, -0.5)], -2.0))),                   // explicit zero coefficient
        f_of(F::Linear(lin(&[(3, tiny)], 0.0))),
        f_of(F::Quadratic(quad(&[(1, 2, 3.0), (2, 1, -1.0), (2, 2, 0.5)], None))),   // non-symmetric, no linear part
        f_of(F::Quadratic(quad(&[(2, 1, 4.0), (1, 1, 0.0)], Some(lin(&[(3, 1.0), (1, 0.25)], 2.0))))),
        f_of(F::Quadratic(quad(&[(7, 8, tiny)], Some(lin(&[(9, 0.0)], 0.0))))),
        f_of(F::Polynomial(poly(&[(&[1, 2], tiny), (&[3], 3.0)]))),           // tiny coefficient, large values matter
        f_of(F::Polynomial(poly(&[(&[1, 1, 2], 2.0), (&[], 1.0), (&[2, 1, 1], -1.0), (&[7, 8, 9], 0.0)]))),   // repeated monomial, zero-coefficient term with own ids
        f_of(F::Polynomial(poly(&[(&[3, 3, 3, 3], 0.5), (&[1], -4.0)]))),
    ]
}
fn sample_states() -> Vec<HashMap<u64, f64>> {
    let big = 2f64.powi(31);
    let ids = [1u64, 2, 3, 7, 8, 9];
    let mut v = vec![];
    v.push(ids.iter().map(|&i| (i, (i as f64) * 0.5 - 1.0)).collect::<HashMap<_, _>>());
    v.push(ids.iter().map(|&i| (i, if i <= 2 { big } else { 1.0 })).collect());
    v.push(ids.iter().map(|&i| (i, if i % 2 == 0 { -2.0 } else { 0.25 })).collect());
    // one id missing at a time
    for miss in ids { v.push(ids.iter().filter(|&&i| i != miss).map(|&i| (i, 1.0 + i as f64)).collect()); }
    // one id missing while every other value is zero (a product with a zero factor must still notice the missing variable)
    for miss in ids { v.push(ids.iter().filter(|&&i| i != miss).map(|&i| (i, if i % 2 == 0 { 0.0 } else { -0.0 })).collect()); }
    v
}

pub fn c01() -> Outcome {
    let mut n = 0; let mut d = BTreeSet::new();
    for (fi, f) in sample_functions().iter().enumerate() {
        for (si, s) in sample_states().iter().enumerate() {
            n += 1; d.insert((fi, si));
            if si == 1 && fi % 4 == 2 { note(|| format!("evaluate f={f:?} at {s:?}")); }
            let st: State = s.clone().into_iter().collect();
            let want = ref_val(f, s);
            match (f.evaluate(&st), want) {
                (Ok((v, ids)), Some(w)) => {
                    if v != w || ids != ref_ids(f) {
                        return Outcome { cases: n, distinct: d.len(), fail: Some(format!("Function::evaluate: f={f:?} state={s:?}: got value {v} ids {ids:?}, expected value {w} ids {:?}", ref_ids(f))) };
                    }
                }
                (Err(_), None) => {}
                (Ok((v, _)), None) => return Outcome { cases: n, distinct: d.len(), fail: Some(format!("Function::evaluate returned Ok({v}) although the state lacks a variable of the function: f={f:?} state={s:?}")) },
                (Err(e), Some(w)) => return Outcome { cases: n, distinct: d.len(), fail: Some(format!("Function::evaluate failed ({e}) although every variable has a value (expected {w}): f={f:?} state={s:?}")) },
            }
        }
    }
    // state values of tiny magnitude against huge coefficients (all dyadic, every partial sum exact): a value below machine epsilon is still a value
    {
        use v1::function::Function as F;
        let t60 = 2f64.powi(-60); let b60 = 2f64.powi(60);
        let cases: Vec<(Function, Vec<(u64, f64)>, f64)> = vec![
            (f_of(F::Linear(lin(&[(1, b60)], 3.0))), vec![(1, t60)], 4.0),
            (f_of(F::Linear(lin(&[(1, b60), (2, 1.0)], 0.0))), vec![(1, t60), (2, -1.0)], 0.0),
            (f_of(F::Quadratic(quad(&[(1, 2, b60)], Some(lin(&[(2, 2f64.powi(55))], 0.0))))), vec![(1, 4.0), (2, t60)], 4.0 + 2f64.powi(-5)),
            (f_of(F::Quadratic(quad(&[(1, 1, b60 * b60)], None))), vec![(1, t60)], 1.0),
            (f_of(F::Polynomial(poly(&[(&[1, 2, 3], b60), (&[3], 1.0)]))), vec![(1, t60), (2, 0.5), (3, 2.0)], 3.0),
            (f_of(F::Polynomial(poly(&[(&[1, 1, 1, 1], 2f64.powi(200))]))), vec![(1, 2f64.powi(-50))], 1.0),
        ];
        for (k, (f, st, want)) in cases.iter().enumerate() {
            n += 1; d.insert((2000 + k, 0));
            match f.evaluate(&state(st)) {
                Ok((v, _)) => if v != *want { return Outcome { cases: n, distinct: d.len(), fail: Some(format!("Function::evaluate: f={f:?} at {st:?} (exact in binary arithmetic): got {v}, expected {want}")) }; },
                Err(e) => return Outcome { cases: n, distinct: d.len(), fail: Some(format!("Function::evaluate failed ({e}): f={f:?} at {st:?}")) },
            }
        }
    }
    // extreme ids: 0 and u64::MAX are legal uint64 ids, in every position of every representation
    {
        use v1::function::Function as F;
        let m = u64::MAX;
        let fs: Vec<Function> = vec![
            f_of(F::Linear(lin(&[(m, 2.0), (0, -1.0)], 0.5))),
            f_of(F::Quadratic(quad(&[(m, 1, 3.0)], None))),
            f_of(F::Quadratic(quad(&[(1, m, 3.0), (m, m, -1.0), (0, m, 2.0)], Some(lin(&[(m, 1.0)], 0.0))))),
            f_of(F::Polynomial(poly(&[(&[m, 1, 0], 2.0), (&[m], -1.0), (&[0, 0, m], 0.5)]))),
        ];
        let ss: Vec<HashMap<u64, f64>> = vec![
            [(m, 2.0), (1, 5.0), (0, -1.5)].into_iter().collect(),
            [(1, 5.0), (0, -1.5)].into_iter().collect(),
            [(m, 2.0), (1, 5.0)].into_iter().collect(),
        ];
        for (fi, f) in fs.iter().enumerate() { for (si, s) in ss.iter().enumerate() {
            n += 1; d.insert((1000 + fi, si));
            let st: State = s.clone().into_iter().collect();
            match (f.evaluate(&st), ref_val(f, s)) {
                (Ok((v, ids)), Some(w)) => if v != w || ids != ref_ids(f) { return Outcome { cases: n, distinct: d.len(), fail: Some(format!("Function::evaluate: f={f:?} state={s:?}: got value {v} ids {ids:?}, expected value {w} ids {:?}", ref_ids(f))) }; },
                (Err(_), None) => {}
                (Ok((v, _)), None) => return Outcome { cases: n, distinct: d.len(), fail: Some(format!("Function::evaluate returned Ok({v}) although the state lacks a variable of the function: f={f:?} state={s:?}")) },
                (Err(e), Some(w)) => return Outcome { cases: n, distinct: d.len(), fail: Some(format!("Function::evaluate failed ({e}) although every variable has a value (expected {w}): f={f:?} state={s:?}")) },
            }
        } }
    }
    Outcome { cases: n, distinct: d.len(), fail: None }
}

pub fn c03() -> Outcome {
    let mut n = 0; let mut d = BTreeSet::new();
    let full: HashMap<u64, f64> = [(1u64, 2.0), (2, 1.0), (3, -0.5), (7, 4.0), (8, 0.5), (9, -1.0)].into_iter().collect();
    let keys: Vec<u64> = { let mut k: Vec<u64> = full.keys().cloned().collect(); k.sort(); k };
    for (fi, f) in sample_functions().iter().enumerate() {
        let want = ref_val(f, &full).unwrap();
        let used = ref_ids(f);
        for mask in 0u32..(1 << keys.len()) {
            n += 1; d.insert((fi, mask));
            let fixed: HashMap<u64, f64> = keys.iter().enumerate().filter(|(k, _)| mask >> k & 1 == 1).map(|(_, id)| (*id, full[id])).collect();
            let rest: HashMap<u64, f64> = keys.iter().enumerate().filter(|(k, _)| mask >> k & 1 == 0).map(|(_, id)| (*id, full[id])).collect();
            if mask == 5 && fi % 4 == 2 { note(|| format!("partial_evaluate f={f:?} fixing {fixed:?}, then evaluate at {rest:?}")); }
            let mut g = f.clone();
            let r = g.partial_evaluate(&fixed.clone().into_iter().collect());
            let ids = match r { Ok(ids) => ids, Err(e) => return Outcome { cases: n, distinct: d.len(), fail: Some(format!("partial_evaluate failed ({e}): f={f:?} fixed={fixed:?}")) } };
            let expect_ids: BTreeSet<u64> = used.iter().filter(|i| fixed.contains_key(i)).cloned().collect();
            if !ids.is_subset(&expect_ids) { return Outcome { cases: n, distinct: d.len(), fail: Some(format!("partial_evaluate returned ids {ids:?}, expected a subset of {expect_ids:?} (fixed variables that occur): f={f:?} fixed={fixed:?}")) }; }
            if ref_ids(&g).iter().any(|i| fixed.contains_key(i)) && ref_ids(&g).iter().any(|i| fixed.contains_key(i) && nonzero_occurrence(&g, *i)) {
                return Outcome { cases: n, distinct: d.len(), fail: Some(format!("a fixed variable is still mentioned after partial_evaluate: f={f:?} fixed={fixed:?} result={g:?}")) };
            }
            match g.evaluate(&rest.clone().into_iter().collect()) {
                Ok((v, _)) => { if (v - want).abs() > 1e-9 * (1.0 + want.abs()) { return Outcome { cases: n, distinct: d.len(), fail: Some(format!("partial_evaluate then evaluate gives {v}, evaluating the original at the combined assignment gives {want}: f={f:?} fixed={fixed:?} rest={rest:?}")) }; } }
                Err(e) => return Outcome { cases: n, distinct: d.len(), fail: Some(format!("evaluating the partially evaluated function at the remaining values failed ({e}): f={f:?} fixed={fixed:?} rest={rest:?} result={g:?}")) },
            }
        }
    }
    // fixed values of tiny magnitude (below machine epsilon) against huge coefficients: the folded coefficient is of order one and must stay
    {
        use v1::function::Function as F;
        let t60 = 2f64.powi(-60); let b60 = 2f64.powi(60);
        let cases: Vec<(Function, Vec<(u64, f64)>, Vec<(u64, f64)>, f64)> = vec![
            (f_of(F::Polynomial(poly(&[(&[1, 2, 3], b60), (&[2], 1.0)]))), vec![(1, t60)], vec![(2, 0.5), (3, 4.0)], 2.5),
            (f_of(F::Polynomial(poly(&[(&[1, 4, 2, 3], 1.0), (&[3], -1.0)]))), vec![(1, t60), (4, b60)], vec![(2, 0.5), (3, 4.0)], -2.0),
            (f_of(F::Quadratic(quad(&[(1, 2, b60)], Some(lin(&[(1, b60)], 0.0))))), vec![(1, t60)], vec![(2, 3.0)], 4.0),
            (f_of(F::Linear(lin(&[(1, b60), (2, 1.0)], 0.0))), vec![(1, t60)], vec![(2, 3.0)], 4.0),
        ];
        for (k, (f, fixed, rest, want)) in cases.iter().enumerate() {
            n += 1; d.insert((3000 + k, 0));
            let mut g = f.clone();
            if let Err(e) = g.partial_evaluate(&state(fixed)) { return Outcome { cases: n, distinct: d.len(), fail: Some(format!("partial_evaluate failed ({e}): f={f:?} fixed={fixed:?}")) }; }
            match g.evaluate(&state(rest)) {
                Ok((v, _)) => if v != *want { return Outcome { cases: n, distinct: d.len(), fail: Some(format!("f={f:?}: fixing {fixed:?} and evaluating the remainder {g:?} at {rest:?} gives {v}, the original at the combined assignment gives {want} (exact in binary arithmetic)")) }; },
                Err(e) => return Outcome { cases: n, distinct: d.len(), fail: Some(format!("evaluating the partially evaluated function failed ({e}): f={f:?} fixed={fixed:?} result={g:?}")) },
            }
        }
    }
    // two steps = at once, every sample function, several splits of the fixed part (values and returned ids)
    for (fi, f) in sample_functions().iter().enumerate() { for (ma, mb) in [(0b000011u32, 0b001100u32), (0b010101, 0b101010), (0b000001, 0b111110), (0b100100, 0b000011), (0b000111, 0)] {
        n += 1; d.insert((1000 + fi, ma * 64 + mb));
        let pick = |m: u32| -> HashMap<u64, f64> { keys.iter().enumerate().filter(|(k, _)| m >> k & 1 == 1).map(|(_, id)| (*id, full[id])).collect() };
        let (a, b) = (pick(ma), pick(mb)); let both: HashMap<u64, f64> = a.iter().chain(b.iter()).map(|(k, v)| (*k, *v)).collect();
        let rest: HashMap<u64, f64> = keys.iter().filter(|id| !both.contains_key(id)).map(|id| (*id, full[id])).collect();
        let mut g2 = f.clone();
        let i1 = match g2.partial_evaluate(&a.clone().into_iter().collect()) { Ok(x) => x, Err(e) => return Outcome { cases: n, distinct: d.len(), fail: Some(format!("partial_evaluate failed ({e}): f={f:?} fixed={a:?}")) } };
        let i2 = match g2.partial_evaluate(&b.clone().into_iter().collect()) { Ok(x) => x, Err(e) => return Outcome { cases: n, distinct: d.len(), fail: Some(format!("second partial_evaluate failed ({e}): f={f:?} fixed={a:?} then {b:?}")) } };
        let mut g1 = f.clone();
        let i0 = match g1.partial_evaluate(&both.clone().into_iter().collect()) { Ok(x) => x, Err(e) => return Outcome { cases: n, distinct: d.len(), fail: Some(format!("partial_evaluate failed ({e}): f={f:?} fixed={both:?}")) } };
        let used = ref_ids(f);
        if i1.iter().any(|i| !(a.contains_key(i) && used.contains(i))) || i2.iter().any(|i| !(b.contains_key(i) && used.contains(i))) || i0.iter().any(|i| !(both.contains_key(i) && used.contains(i))) {
            return Outcome { cases: n, distinct: d.len(), fail: Some(format!("returned ids {i1:?} then {i2:?} (at once: {i0:?}) are not fixed variables occurring in f={f:?}; fixed {a:?} then {b:?}")) };
        }
        let st: State = rest.clone().into_iter().collect();
        let (v2, v1_) = (g2.evaluate(&st).map(|x| x.0).map_err(|e| e.to_string()), g1.evaluate(&st).map(|x| x.0).map_err(|e| e.to_string()));
        let want = ref_val(f, &full).unwrap();
        match (&v2, &v1_) { (Ok(x), Ok(y)) if (x - want).abs() <= 1e-9 * (1.0 + want.abs()) && (y - want).abs() <= 1e-9 * (1.0 + want.abs()) => {}
            _ => return Outcome { cases: n, distinct: d.len(), fail: Some(format!("fixing {a:?} then {b:?} gives {v2:?}, fixing both at once gives {v1_:?}, the original at the combined assignment gives {want}: f={f:?}")) } }
        if ref_ids(&g2).iter().any(|i| both.contains_key(i)) { return Outcome { cases: n, distinct: d.len(), fail: Some(format!("after fixing {a:?} then {b:?} the function still mentions a fixed variable: {g2:?}")) }; }
    } }
    // two steps = at once (linear with a repeated id, both orders)
    {
        use v1::function::Function as F;
        let f = f_of(F::Linear(lin(&[(1, 2.0), (2, 3.0), (1, 5.0)], 1.0)));
        for order in [[1u64, 2], [2, 1]] {
            n += 1;
            let mut a = f.clone();
            for id in order { a.partial_evaluate(&state(&[(id, full[&id])])).unwrap(); }
            let mut b = f.clone();
            b.partial_evaluate(&state(&[(1, full[&1]), (2, full[&2])])).unwrap();
            let va = a.evaluate(&State::default()).map(|x| x.0).ok();
            let vb = b.evaluate(&State::default()).map(|x| x.0).ok();
            if va != vb || va != Some(18.0) { return Outcome { cases: n, distinct: d.len(), fail: Some(format!("fixing {order:?} in two steps gives {va:?}, at once {vb:?}, expected 18: f={f:?}")) }; }
        }
    }
    Outcome { cases: n, distinct: d.len(), fail: None }
}
fn nonzero_occurrence(f: &Function, id: u64) -> bool {
    // the id occurs in a term at all (partial evaluation must remove every occurrence)
    ref_ids(f).contains(&id)
}

pub fn c05() -> Outcome {
    use v1::function::Function as F;
    let mut n = 0; let mut d = BTreeSet::new();
    let kinds_bounds: Vec<(Kind, Option<(f64, f64)>)> = vec![
        (Kind::Continuous, Some((-1.0, 2.0))), (Kind::Continuous, None), (Kind::Integer, Some((0.0, 3.0))), (Kind::Binary, None), (Kind::Binary, Some((0.0, 1.0))),
        (Kind::Continuous, Some((2.0, 5.0))), (Kind::Continuous, Some((-5.0, -2.0))), (Kind::Integer, Some((f64::NEG_INFINITY, 4.0))),
        // an explicit bound equal to the protobuf default [0, 0] is a bound, not an unset field
        (Kind::Continuous, Some((0.0, 0.0))), (Kind::Integer, Some((0.0, 0.0))), (Kind::Binary, Some((0.0, 0.0))), (Kind::Binary, Some((1.0, 1.0))),
    ];
    let deltas = [0.0, 5e-8, -5e-8, 1e-6, -1e-6, 3.0, -3.0];
    for (ki, (kind, bound)) in kinds_bounds.iter().enumerate() {
        // variable 0 is used by the objective, variable 1 (same kind/bound) is irrelevant and omitted from the state
        let (lo, up) = bound.unwrap_or(if *kind == Kind::Binary { (0.0, 1.0) } else { (f64::NEG_INFINITY, f64::INFINITY) });
        let anchors: Vec<f64> = [lo, up].into_iter().filter(|x| x.is_finite()).collect();
        let anchors = if anchors.is_empty() { vec![0.0] } else { anchors };
        for a in &anchors { for dl in deltas {
            n += 1; d.insert((ki, (a + dl).to_bits()));
            let x = a + dl;
            if dl == 1e-6 { note(|| format!("Instance::evaluate with x0={x} for a {kind:?} variable with bound {bound:?}")); }
            let i = inst(vec![dv(0, *kind, *bound), dv(1, *kind, *bound)], f_of(F::Linear(lin(&[(0, 1.0)], 0.0))), vec![]);
            let inside = x >= lo - 1e-7 && x <= up + 1e-7;
            let far = x < lo - 2e-7 || x > up + 2e-7;
            match i.evaluate(&state(&[(0, x)])) {
                Ok((sol, _)) => {
                    if far { return Outcome { cases: n, distinct: d.len(), fail: Some(format!("Instance::evaluate accepted value {x} for a {kind:?} variable with bound {bound:?} (effective [{lo}, {up}], tolerance 1e-7)")) }; }
                    let st = sol.state.unwrap().entries;
                    let want1 = if lo >= 0.0 { lo } else if up <= 0.0 { up } else { 0.0 };
                    if st.get(&0) != Some(&x) || st.get(&1) != Some(&want1) { return Outcome { cases: n, distinct: d.len(), fail: Some(format!("reported state {st:?}: expected x0={x} and the unused x1 at the point of [{lo},{up}] nearest to zero ({want1})")) }; }
                    if sol.objective != x { return Outcome { cases: n, distinct: d.len(), fail: Some(format!("objective {} != {x}", sol.objective)) }; }
                }
                Err(e) => { if inside && !far && (x >= lo && x <= up) { return Outcome { cases: n, distinct: d.len(), fail: Some(format!("Instance::evaluate rejected the in-bound value {x} for bound [{lo},{up}]: {e}")) }; } }
            }
        } }
    }
    // feasibility flags: values on both sides of 1e-6, infeasible followed by feasible, removed constraints
    let vals = [0.0, 5e-7, -5e-7, 2e-6, -2e-6, 1.0, -1.0];
    for (a, va) in vals.iter().enumerate() { for (b, vb) in vals.iter().enumerate() { for (c, vc) in vals.iter().enumerate() {
        n += 1; d.insert((100 + a, ((b * 10 + c) as u64)));
        // c1: x0 - va' = 0 (equality), c2: x1 <= 0 (inequality), removed c3: x2 <= 0
        let mut i = inst(vec![dv(0, Kind::Continuous, None), dv(1, Kind::Continuous, None), dv(2, Kind::Continuous, None)], f_of(F::Constant(0.0)),
            vec![con(11, Equality::EqualToZero, f_of(F::Linear(lin(&[(0, 1.0)], 0.0)))), con(12, Equality::LessThanOrEqualToZero, f_of(F::Linear(lin(&[(1, 1.0)], 0.0)))),
                 con(13, Equality::LessThanOrEqualToZero, f_of(F::Linear(lin(&[(2, 1.0)], 0.0))))]);
        // metadata of each constraint (name, description, subscripts, parameters) is reported with it
        for (k, c) in i.constraints.iter_mut().enumerate() { c.name = Some(format!("con{k}")); c.description = Some(format!("the constraint number {k}")); c.subscripts = vec![k as i64, -7]; c.parameters = [("p".to_string(), format!("q{k}"))].into_iter().collect(); }
        let meta: Vec<(u64, Option<String>, Option<String>, Vec<i64>, HashMap<String, String>)> = i.constraints.iter().map(|c| (c.id, c.name.clone(), c.description.clone(), c.subscripts.clone(), c.parameters.clone())).collect();
        i.relax_constraint(13, "why".to_string(), [("k".to_string(), "v".to_string())].into_iter().collect()).unwrap();
        let (sol, _) = match i.evaluate(&state(&[(0, *va), (1, *vb), (2, *vc)])) { Ok(s) => s, Err(e) => return Outcome { cases: n, distinct: d.len(), fail: Some(format!("evaluate failed: {e}")) } };
        let h1 = va.abs() < 1e-6; let h2 = *vb < 1e-6; let h3 = *vc < 1e-6;
        let mut ecs = sol.evaluated_constraints.clone(); ecs.sort_by_key(|c| c.id);
        let sol = { let mut s2 = sol.clone(); s2.evaluated_constraints = ecs; s2 };
        let ids: Vec<u64> = sol.evaluated_constraints.iter().map(|c| c.id).collect();
        if ids != vec![11, 12, 13] { return Outcome { cases: n, distinct: d.len(), fail: Some(format!("evaluated constraints {ids:?}, expected each of 11, 12, 13 exactly once")) }; }
        let ev: Vec<f64> = sol.evaluated_constraints.iter().map(|c| c.evaluated_value).collect();
        if ev != vec![*va, *vb, *vc] { return Outcome { cases: n, distinct: d.len(), fail: Some(format!("constraint values {ev:?}, expected {:?}", [va, vb, vc])) }; }
        if sol.feasible_relaxed != Some(h1 && h2) || sol.feasible != (h1 && h2 && h3) {
            return Outcome { cases: n, distinct: d.len(), fail: Some(format!("values ({va}, {vb}, removed {vc}): feasible_relaxed={:?} feasible={}, expected {:?} / {}", sol.feasible_relaxed, sol.feasible, Some(h1 && h2), h1 && h2 && h3)) };
        }
        for (ec, m) in sol.evaluated_constraints.iter().zip(meta.iter()) {
            if (ec.id, &ec.name, &ec.description, &ec.subscripts, &ec.parameters) != (m.0, &m.1, &m.2, &m.3, &m.4) { return Outcome { cases: n, distinct: d.len(), fail: Some(format!("constraint {} is reported with name {:?} description {:?} subscripts {:?} parameters {:?}; the instance says {m:?}", ec.id, ec.name, ec.description, ec.subscripts, ec.parameters)) }; }
        }
        let rc = &sol.evaluated_constraints[2];
        if rc.removed_reason.as_deref() != Some("why") || rc.removed_reason_parameters.get("k").map(|s| s.as_str()) != Some("v") || sol.evaluated_constraints[0].removed_reason.is_some() {
            return Outcome { cases: n, distinct: d.len(), fail: Some("removal reason / parameters not reported correctly".to_string()) };
        }
    } } }
    // previously fixed value and dependent value are reported
    {
        n += 1;
        let mut i = inst(vec![dv(0, Kind::Continuous, None), dv(1, Kind::Continuous, None), dv(2, Kind::Continuous, None)], f_of(F::Linear(lin(&[(0, 1.0)], 0.0))), vec![]);
        i.decision_variables[1].substituted_value = Some(4.0);
        i.decision_variable_dependency.insert(2, f_of(F::Linear(lin(&[(0, 2.0)], 1.0))));
        // a chain of dependent variables x10 := x2 + 1, x11 := x10 + 1, ... x16 := x15 + 1 (every HashMap order must give the same answer)
        for k in 10..=16u64 { i.decision_variables.push(dv(k, Kind::Continuous, None)); i.decision_variable_dependency.insert(k, f_of(F::Linear(lin(&[(if k == 10 { 2 } else { k - 1 }, 1.0)], 1.0)))); }
        let (sol, _) = i.evaluate(&state(&[(0, 3.0)])).unwrap();
        let st = sol.state.unwrap().entries;
        for k in 10..=16u64 { if st.get(&k) != Some(&(7.0 + (k - 9) as f64)) { return Outcome { cases: n, distinct: d.len(), fail: Some(format!("dependent chain x10 := x2+1, x11 := x10+1, ...: reported state {st:?}, expected x{k} = {}", 7.0 + (k - 9) as f64)) }; } }
        if st.get(&0) != Some(&3.0) || st.get(&1) != Some(&4.0) || st.get(&2) != Some(&7.0) { return Outcome { cases: n, distinct: d.len(), fail: Some(format!("reported state {st:?}, expected x0=3 (given), x1=4 (fixed), x2=7 (dependent = 2*x0+1)")) }; }
    }
    // dependency graphs of depth >= 3 whose ids do not follow the evaluation order: a diamond, a descending chain, random DAGs (every HashMap order must give the answer)
    {
        let eval_deps = |base: &[(u64, f64)], defs: &[(u64, Vec<(u64, f64)>, f64)]| -> Result<(), String> {
            let mut dvs: Vec<DecisionVariable> = base.iter().map(|(i, _)| dv(*i, Kind::Continuous, None)).collect();
            for (k, _, _) in defs { dvs.push(dv(*k, Kind::Continuous, None)); }
            let mut i = inst(dvs, f_of(F::Linear(lin(&[(base[0].0, 1.0)], 0.0))), vec![]);
            for (k, t, c) in defs { i.decision_variable_dependency.insert(*k, f_of(F::Linear(lin(t, *c)))); }
            // reference: definitions are listed in a valid evaluation order
            let mut val: HashMap<u64, f64> = base.iter().cloned().collect();
            for (k, t, c) in defs { let v = c + t.iter().map(|(j, a)| a * val[j]).sum::<f64>(); val.insert(*k, v); }
            let (sol, _) = i.evaluate(&state(base)).map_err(|e| format!("evaluate failed on the acyclic dependencies {defs:?} at {base:?}: {e}"))?;
            let st = sol.state.unwrap().entries;
            for (k, v) in &val { if st.get(k) != Some(v) { return Err(format!("dependencies {defs:?} at {base:?}: reported x{k} = {:?}, expected {v}", st.get(k))); } }
            Ok(())
        };
        let shapes: Vec<(Vec<(u64, f64)>, Vec<(u64, Vec<(u64, f64)>, f64)>)> = vec![
            (vec![(1, 3.0), (2, 2.0)], vec![(3, vec![(1, 1.0), (2, 1.0)], 0.0), (4, vec![(1, 1.0), (2, -1.0)], 0.0), (5, vec![(3, 1.0), (4, 1.0)], 0.0), (6, vec![(5, 2.0)], 1.0)]),          // diamond
            (vec![(10, 1.0)], vec![(9, vec![(10, 1.0)], 1.0), (8, vec![(9, 2.0)], 0.0), (7, vec![(8, 1.0)], -1.0), (6, vec![(7, 0.5)], 0.0)]),                                    // descending chain
            (vec![(1, 1.0), (2, -1.0)], vec![(30, vec![(1, 1.0)], 0.0), (20, vec![(30, 1.0), (2, 1.0)], 1.0), (25, vec![(20, 2.0), (30, 1.0), (1, 1.0)], 0.0), (21, vec![(25, 1.0)], 0.0), (40, vec![(21, 1.0), (20, 1.0), (30, 1.0), (25, 1.0)], 0.5)]),   // one definition refers to four others
        ];
        for (k, (base, defs)) in shapes.iter().enumerate() { n += 1; d.insert((300 + k, 0)); if let Err(e) = eval_deps(base, defs) { return Outcome { cases: n, distinct: d.len(), fail: Some(e) }; } }
        let mut r = Rng::new(505);
        for k in 0..40 {
            n += 1; d.insert((320 + k, 0));
            let mut ids: Vec<u64> = vec![11, 12, 13, 14, 15, 16, 17]; r.shuffle(&mut ids); ids.truncate(3 + r.below(5));
            let base = vec![(1u64, r.value()), (2u64, r.value())];
            let mut known: Vec<u64> = vec![1, 2]; let mut defs = vec![];
            for id in &ids { let nt = 1 + r.below(3); let mut t: Vec<(u64, f64)> = vec![]; for _ in 0..nt { let j = if r.chance(2, 3) { *known.last().unwrap() } else { r.pick(&known) }; if !t.iter().any(|x| x.0 == j) { t.push((j, r.pick(&[-1.0, 0.5, 1.0, 2.0]))); } } defs.push((*id, t, r.pick(&[0.0, 1.0, -0.5]))); known.push(*id); }
            if let Err(e) = eval_deps(&base, &defs) { return Outcome { cases: n, distinct: d.len(), fail: Some(e) }; }
        }
    }
    // a state that also carries (stale) entries for dependent variables - as a solver adapter returns them -: the reported value is the one the dependency defines
    {
        n += 1;
        let mut i = inst(vec![dv(1, Kind::Continuous, None), dv(2, Kind::Continuous, None), dv(3, Kind::Continuous, None), dv(4, Kind::Continuous, None)], f_of(F::Linear(lin(&[(1, 1.0), (2, 1.0)], 0.0))), vec![]);
        i.decision_variable_dependency.insert(3, f_of(F::Linear(lin(&[(1, 1.0), (2, 1.0)], 0.0))));
        i.decision_variable_dependency.insert(4, f_of(F::Linear(lin(&[(3, 2.0)], 0.0))));
        // (only LEAF dependents: a stale value for x3, which x4 is computed from, makes the answer depend on the HashMap order in the real code - observation O3, outside the
        //  precondition `disj` of the eval_dependencies contract)
        for extra in [vec![(4u64, 0.0)], vec![(4u64, 100.0)]] {
            let mut given = vec![(1u64, 1.0), (2u64, 2.0)]; given.extend(extra.iter().cloned());
            match i.evaluate(&state(&given)) {
                Ok((sol, _)) => { let st = sol.state.unwrap().entries; if st.get(&3) != Some(&3.0) || st.get(&4) != Some(&6.0) { return Outcome { cases: n, distinct: d.len(), fail: Some(format!("x3 := x1 + x2, x4 := 2*x3 at x1=1, x2=2 with stale entries {extra:?} in the given state: reported x3={:?}, x4={:?}; expected 3 and 6", st.get(&3), st.get(&4))) }; } }
                Err(e) => return Outcome { cases: n, distinct: d.len(), fail: Some(format!("evaluate with stale entries {extra:?} for dependent variables failed: {e}")) },
            }
        }
    }
    Outcome { cases: n, distinct: d.len(), fail: None }
}

pub fn c12() -> Outcome {
    let mut n = 0; let mut d = BTreeSet::new();
    let ranges: Vec<(f64, f64)> = { let mut r = vec![]; for l in [-5.0f64, -1.5, 0.0, 0.5, 3.0] { for w in [0.0, 0.4, 1.0, 2.0, 3.0, 4.0, 7.0, 8.0, 9.0, 15.0, 16.0, 17.0] { r.push((l, l + w)); } } r };
    let layouts: Vec<Vec<u64>> = vec![vec![3], vec![7, 3], vec![3, 7], vec![1, 3, 2], vec![3, 100, 5]];
    for (li, layout) in layouts.iter().enumerate() { for (ri, (l, u)) in ranges.iter().enumerate() {
        n += 1; d.insert((li, ri));
        if ri % 17 == 5 { note(|| format!("log_encode(3) with variables {layout:?}, integer range [{l}, {u}]")); }
        let dvs: Vec<DecisionVariable> = layout.iter().map(|&id| if id == 3 { dv(3, Kind::Integer, Some((*l, *u))) } else { dv(id, Kind::Continuous, None) }).collect();
        let mut i = inst(dvs, Function::default(), vec![]);
        if ri % 2 == 1 { let m = layout.iter().cloned().max().unwrap(); let mut v = dv(m + 1, Kind::Continuous, None); v.substituted_value = Some(0.0); i.decision_variables.insert(0, v); }   // a fixed variable keeps its id (the next free one is m + 2)
        let before = i.clone();
        let lo = l.ceil(); let up = u.floor();
        match i.log_encode(3) {
            Err(e) => { if lo <= up { return Outcome { cases: n, distinct: d.len(), fail: Some(format!("log_encode failed ({e}) for integer range [{l}, {u}] which contains an integer")) }; }
                        if i != before { return Outcome { cases: n, distinct: d.len(), fail: Some("log_encode failed but modified the instance".to_string()) }; } }
            Ok(enc) => {
                if lo > up { return Outcome { cases: n, distinct: d.len(), fail: Some(format!("log_encode succeeded for [{l}, {u}] which contains no integer")) }; }
                let new: Vec<&DecisionVariable> = i.decision_variables[before.decision_variables.len()..].iter().collect();
                if i.decision_variables[..before.decision_variables.len()] != before.decision_variables[..] { return Outcome { cases: n, distinct: d.len(), fail: Some("existing variables changed".to_string()) }; }
                let old_ids: BTreeSet<u64> = before.decision_variables.iter().map(|v| v.id).collect();
                let mut seen = BTreeSet::new();
                for v in &new {
                    if old_ids.contains(&v.id) || !seen.insert(v.id) || v.kind != Kind::Binary as i32 || v.bound.as_ref().map(|b| (b.lower, b.upper)) != Some((0.0, 1.0)) || !v.subscripts.contains(&3) {
                        return Outcome { cases: n, distinct: d.len(), fail: Some(format!("variables {layout:?}, range [{l}, {u}]: new variable {v:?} is not a fresh binary in [0,1] tagged with the encoded id (existing ids {old_ids:?})")) };
                    }
                }
                let term_ids: BTreeSet<u64> = enc.terms.iter().map(|t| t.id).collect();
                if term_ids != seen || enc.terms.len() != new.len() { return Outcome { cases: n, distinct: d.len(), fail: Some(format!("encoding uses ids {term_ids:?} but registered {seen:?}")) }; }
                // value set over all bit patterns == lo..=up
                let k = enc.terms.len();
                let mut vals = BTreeSet::new();
                for bits in 0u32..(1 << k) { let mut v = enc.constant; for (j, t) in enc.terms.iter().enumerate() { if bits >> j & 1 == 1 { v += t.coefficient; } } vals.insert(v as i64); if v.fract() != 0.0 { vals.insert(i64::MIN); } }
                let want: BTreeSet<i64> = ((lo as i64)..=(up as i64)).collect();
                if vals != want { return Outcome { cases: n, distinct: d.len(), fail: Some(format!("range [{l}, {u}]: the encoding takes the values {vals:?}, expected exactly {want:?}")) }; }
                if lo == up && k != 0 { return Outcome { cases: n, distinct: d.len(), fail: Some("single-integer range added variables".to_string()) }; }
            }
        }
    } }
    // wide ranges (up to the quantifier's |l|, |u| <= 2^20, i.e. widths up to 2^21) through the complete-sequence criterion: with the coefficients sorted ascending,
    // c_1 = 1 and c_{k+1} <= 1 + c_1 + ... + c_k  <=>  the subset sums are exactly 0 ..= sum(c); then constant = lo and sum(c) = up - lo give exactly lo ..= up
    {
        let mut wide: Vec<(f64, f64)> = vec![];
        for k in 5..=21u32 { let w = 2f64.powi(k as i32); for dw in [-1.0, 0.0, 1.0] { let w = w + dw; if w <= 2f64.powi(21) { let l = -(w / 2.0).floor(); wide.push((l, l + w)); if w <= 2f64.powi(20) { wide.push((0.0, w)); wide.push((-w, 0.0)); wide.push((3.0 - 0.5, 3.0 + w + 0.25)); } } } }
        wide.push((-1048576.0, 1048576.0)); wide.push((-1048575.5, 1048575.5)); wide.push((-1048576.0, 1048575.0)); wide.push((1.0, 1048576.0));
        for (wi, (l, u)) in wide.iter().enumerate() {
            n += 1; d.insert((1000 + wi, 0));
            let mut i = inst(vec![dv(7, Kind::Continuous, None), dv(3, Kind::Integer, Some((*l, *u)))], Function::default(), vec![]);
            let (lo, up) = (l.ceil(), u.floor());
            let enc = match i.log_encode(3) { Ok(e) => e, Err(e) => return Outcome { cases: n, distinct: d.len(), fail: Some(format!("log_encode failed ({e}) for the integer range [{l}, {u}]")) } };
            let mut cs: Vec<f64> = enc.terms.iter().map(|t| t.coefficient).collect(); cs.sort_by(|a, b| a.partial_cmp(b).unwrap());
            let mut sum = 0.0; let mut complete = cs.iter().all(|c| *c >= 1.0 && c.fract() == 0.0);
            for c in &cs { if *c > sum + 1.0 { complete = false; } sum += c; }
            if !complete || enc.constant != lo || enc.constant + sum != up {
                return Outcome { cases: n, distinct: d.len(), fail: Some(format!("range [{l}, {u}] (integers {lo} ..= {up}): the encoding {} + subset sums of {cs:?} does not take exactly these values (complete-sequence criterion: every coefficient a positive integer, each at most 1 + the sum of the smaller ones; total {} expected {})", enc.constant, sum, up - lo)) };
            }
        }
    }
    // error conditions
    for (what, mut i, id) in [
        ("unknown id", inst(vec![dv(3, Kind::Integer, Some((0.0, 3.0)))], Function::default(), vec![]), 4u64),
        ("unknown id: instance without variables", inst(vec![], Function::default(), vec![]), 3u64),
        ("unknown id: instance without variables, id 0", inst(vec![], Function::default(), vec![]), 0u64),
        ("unknown id below the defined ones", inst(vec![dv(3, Kind::Integer, Some((0.0, 3.0))), dv(9, Kind::Integer, Some((0.0, 3.0)))], Function::default(), vec![]), 1u64),
        ("unknown id between the defined ones", inst(vec![dv(3, Kind::Integer, Some((0.0, 3.0))), dv(9, Kind::Integer, Some((0.0, 3.0)))], Function::default(), vec![]), 5u64),
        ("not integer", inst(vec![dv(3, Kind::Continuous, Some((0.0, 3.0)))], Function::default(), vec![]), 3),
        ("no bound", inst(vec![dv(3, Kind::Integer, None)], Function::default(), vec![]), 3),
        ("not integer: semi-integer", inst(vec![dv(3, Kind::SemiInteger, Some((1.0, 3.0)))], Function::default(), vec![]), 3),
        ("not integer: semi-continuous", inst(vec![dv(3, Kind::SemiContinuous, Some((1.0, 3.0)))], Function::default(), vec![]), 3),
        ("not integer: binary", inst(vec![dv(3, Kind::Binary, Some((0.0, 1.0)))], Function::default(), vec![]), 3),
        ("not integer: unspecified kind", inst(vec![dv(3, Kind::Unspecified, Some((0.0, 3.0)))], Function::default(), vec![]), 3),
        ("infinite upper bound", inst(vec![dv(3, Kind::Integer, Some((0.0, f64::INFINITY)))], Function::default(), vec![]), 3),
        ("infinite lower bound", inst(vec![dv(3, Kind::Integer, Some((f64::NEG_INFINITY, 4.0)))], Function::default(), vec![]), 3),
        ("no integer inside", inst(vec![dv(3, Kind::Integer, Some((0.25, 0.75)))], Function::default(), vec![]), 3),
    ] {
        n += 1;
        let before = i.clone();
        let r = std::panic::catch_unwind(move || { let r = i.log_encode(id).is_ok(); (r, i) });
        match r {
            Err(_) => return Outcome { cases: n, distinct: d.len(), fail: Some(format!("log_encode panicked instead of returning an error: {what}")) },
            Ok((ok, i)) => if ok || i != before { return Outcome { cases: n, distinct: d.len(), fail: Some(format!("log_encode must fail and change nothing: {what}")) }; }
        }
    }
    Outcome { cases: n, distinct: d.len(), fail: None }
}

pub fn c14() -> Outcome {
    use v1::function::Function as F;
    let mut n = 0; let mut d = BTreeSet::new();
    let base = inst(vec![dv(0, Kind::Continuous, None)], f_of(F::Constant(0.0)),
        vec![con(1, Equality::EqualToZero, f_of(F::Linear(lin(&[(0, 1.0)], -1.0)))), con(2, Equality::LessThanOrEqualToZero, f_of(F::Linear(lin(&[(0, 1.0)], 0.0)))),
             con(3, Equality::LessThanOrEqualToZero, f_of(F::Linear(lin(&[(0, -1.0)], 0.5))))]);
    // all operation sequences of length <= 4 over relax/restore of ids {1, 2, 3, 42}
    let ops: Vec<(bool, u64)> = [true, false].into_iter().flat_map(|r| [1u64, 2, 3, 42].into_iter().map(move |i| (r, i))).collect();
    let mut seqs: Vec<Vec<(bool, u64)>> = vec![vec![]];
    // every operation sequence up to length 4 (quick) / 5 (thorough: 37449 sequences)
    let maxlen = if budget() >= 5000 { 5 } else { 4 };
    let mut frontier: Vec<Vec<(bool, u64)>> = vec![vec![]];
    for _ in 0..maxlen { let mut nx = vec![]; for s in &frontier { for o in &ops { let mut t = s.clone(); t.push(*o); nx.push(t); } } seqs.extend(nx.iter().cloned()); frontier = nx; }
    for s in seqs.iter() {
        n += 1; d.insert(s.clone());
        if s.len() == 4 && n % 997 == 0 { note(|| format!("(relax?, id) sequence {s:?}")); }
        let mut i = base.clone();
        let mut active: Vec<u64> = vec![1, 2, 3]; let mut removed: Vec<u64> = vec![];
        let mut reasons: HashMap<u64, (String, HashMap<String, String>)> = HashMap::new();
        for (k, (relax, id)) in s.iter().enumerate() {
            let before = i.clone();
            let params: HashMap<String, String> = [("step".to_string(), format!("p{k}"))].into_iter().collect();
            let r = if *relax { i.relax_constraint(*id, format!("r{k}"), params.clone()) } else { i.restore_constraint(*id) };
            let (from, to) = if *relax { (&mut active, &mut removed) } else { (&mut removed, &mut active) };
            let expect_ok = from.contains(id);
            if expect_ok { from.retain(|x| x != id); to.push(*id); if *relax { reasons.insert(*id, (format!("r{k}"), params.clone())); } else { reasons.remove(id); } }
            if r.is_ok() != expect_ok { return Outcome { cases: n, distinct: d.len(), fail: Some(format!("sequence {s:?} step {k}: result ok={} but expected ok={expect_ok}", r.is_ok())) }; }
            if !expect_ok && i != before { return Outcome { cases: n, distinct: d.len(), fail: Some(format!("sequence {s:?} step {k}: the failing operation changed the instance (active {:?}, removed {:?})", i.constraints.iter().map(|c| c.id).collect::<Vec<_>>(), i.removed_constraints.iter().filter_map(|c| c.constraint.as_ref().map(|c| c.id)).collect::<Vec<_>>())) }; }
            let mut got_a: Vec<u64> = i.constraints.iter().map(|c| c.id).collect(); got_a.sort();
            let mut got_r: Vec<u64> = i.removed_constraints.iter().filter_map(|c| c.constraint.as_ref().map(|c| c.id)).collect(); got_r.sort();
            from.sort(); to.sort();
            let (a_ref, r_ref): (&Vec<u64>, &Vec<u64>) = if *relax { (from, to) } else { (to, from) };
            if &got_a != a_ref || &got_r != r_ref { return Outcome { cases: n, distinct: d.len(), fail: Some(format!("sequence {s:?} step {k}: active {got_a:?} removed {got_r:?}, expected active {a_ref:?} removed {r_ref:?}")) }; }
            if *relax && expect_ok && i.removed_constraints.iter().find(|c| c.constraint.as_ref().map(|c| c.id) == Some(*id)).map(|c| c.removed_reason.clone()) != Some(format!("r{k}")) { return Outcome { cases: n, distinct: d.len(), fail: Some(format!("sequence {s:?} step {k}: reason not recorded")) }; }
            // every removed constraint still carries the reason and parameters given when IT was relaxed
            for rc in i.removed_constraints.iter() {
                let cid = rc.constraint.as_ref().map(|c| c.id).unwrap_or(u64::MAX);
                let want = reasons.get(&cid);
                if want.map(|w| (&w.0, &w.1)) != Some((&rc.removed_reason, &rc.removed_reason_parameters)) { return Outcome { cases: n, distinct: d.len(), fail: Some(format!("sequence {s:?} step {k}: removed constraint {cid} carries reason {:?} parameters {:?}, but it was relaxed with {want:?}", rc.removed_reason, rc.removed_reason_parameters)) }; }
            }
            // constraints themselves unchanged
            for c in i.constraints.iter().chain(i.removed_constraints.iter().filter_map(|c| c.constraint.as_ref())) {
                if Some(c) != base.constraints.iter().find(|b| b.id == c.id) { return Outcome { cases: n, distinct: d.len(), fail: Some(format!("sequence {s:?}: constraint {} was altered", c.id)) }; }
            }
        }
    }
    // "the per-constraint values and overall feasibility of any state are invariant under such sequences, while relaxed feasibility depends only on the currently active
    // constraints": evaluate the same state before a relax, after it and after the restore - also for values inside the feasibility tolerance and just outside it
    {
        let vals = [0.0, 5e-7, -5e-7, 2e-6, -2e-6, 0.5];
        for (ai, va) in vals.iter().enumerate() { for (bi, vb) in vals.iter().enumerate() {
            n += 1; d.insert(vec![(true, 1000 + ai as u64), (true, bi as u64)]);
            // c1: x0 <= 0 (inequality), c2: x1 == 0 (equality)
            let i0 = inst(vec![dv(0, Kind::Continuous, None), dv(1, Kind::Continuous, None)], f_of(F::Constant(0.0)),
                vec![con(1, Equality::LessThanOrEqualToZero, f_of(F::Linear(lin(&[(0, 1.0)], 0.0)))), con(2, Equality::EqualToZero, f_of(F::Linear(lin(&[(1, 1.0)], 0.0))))]);
            let st = state(&[(0, *va), (1, *vb)]);
            let h1 = *va < 1e-6; let h2 = vb.abs() < 1e-6;
            let eval = |i: &Instance, what: &str| -> Result<(bool, Option<bool>, Vec<(u64, f64)>), String> {
                let (sol, _) = i.evaluate(&st).map_err(|e| format!("evaluate {what} failed: {e}"))?;
                let mut vs: Vec<(u64, f64)> = sol.evaluated_constraints.iter().map(|c| (c.id, c.evaluated_value)).collect(); vs.sort_by_key(|x| x.0);
                Ok((sol.feasible, sol.feasible_relaxed, vs))
            };
            let base = match eval(&i0, "before") { Ok(x) => x, Err(e) => return Outcome { cases: n, distinct: d.len(), fail: Some(e) } };
            if base.0 != (h1 && h2) { return Outcome { cases: n, distinct: d.len(), fail: Some(format!("values ({va}, {vb}): feasible={} before any relax, expected {}", base.0, h1 && h2)) }; }
            for which in [1u64, 2] {
                let mut i = i0.clone();
                i.relax_constraint(which, "r".to_string(), HashMap::new()).unwrap();
                let mid = match eval(&i, "after relax") { Ok(x) => x, Err(e) => return Outcome { cases: n, distinct: d.len(), fail: Some(e) } };
                let rel = if which == 1 { h2 } else { h1 };
                if mid.0 != base.0 || mid.2 != base.2 || mid.1 != Some(rel) {
                    return Outcome { cases: n, distinct: d.len(), fail: Some(format!("values ({va}, {vb}): relaxing constraint {which} changed feasible {} -> {} or the constraint values {:?} -> {:?}, or feasible_relaxed is {:?} (expected {rel}: only the active constraint counts)", base.0, mid.0, base.2, mid.2, mid.1)) };
                }
                i.restore_constraint(which).unwrap();
                let end = match eval(&i, "after restore") { Ok(x) => x, Err(e) => return Outcome { cases: n, distinct: d.len(), fail: Some(e) } };
                if end.0 != base.0 || end.2 != base.2 || end.1 != base.1 { return Outcome { cases: n, distinct: d.len(), fail: Some(format!("values ({va}, {vb}): relax + restore of constraint {which} changed the evaluation: {base:?} -> {end:?}")) }; }
            }
        } }
    }
    // several samples at once (evaluate_samples): per-sample feasibility, relaxed feasibility and constraint values before a relax, after it and after the restore
    // (which changes the ORDER of the active list), and each sample agrees with evaluate on its own state
    {
        let i0 = inst(vec![dv(0, Kind::Continuous, Some((-10.0, 10.0))), dv(1, Kind::Continuous, Some((-10.0, 10.0)))], f_of(F::Linear(lin(&[(0, 1.0), (1, 1.0)], 0.0))),
            vec![con(1, Equality::LessThanOrEqualToZero, f_of(F::Linear(lin(&[(0, 1.0)], -1.0)))), con(2, Equality::LessThanOrEqualToZero, f_of(F::Linear(lin(&[(0, -1.0)], -1.0)))), con(3, Equality::EqualToZero, f_of(F::Linear(lin(&[(1, 1.0)], 0.0))))]);
        let sts: Vec<(u64, Vec<(u64, f64)>)> = vec![(10, vec![(0, 5.0), (1, 0.0)]), (4, vec![(0, -5.0), (1, 0.0)]), (7, vec![(0, 0.0), (1, 0.0)]), (30, vec![(0, 0.0), (1, 2.0)]), (2, vec![(0, 5.0), (1, 2.0)])];
        type Row = (bool, bool, Vec<(u64, f64)>);
        let table = |i: &Instance, ids: &[usize]| -> Result<Vec<(u64, Row)>, String> {
            let mut samples = v1::Samples::default();
            for k in ids { samples.add_sample(sts[*k].0, state(&sts[*k].1)); }
            let (ss, _) = i.evaluate_samples(&samples).map_err(|e| format!("evaluate_samples failed: {e}"))?;
            let mut out = vec![];
            for k in ids {
                let sid = sts[*k].0;
                let fa = *ss.feasible_unrelaxed().get(&sid).ok_or(format!("no feasibility entry for sample {sid}"))?; let fr = *ss.feasible_relaxed().get(&sid).ok_or(format!("no relaxed feasibility entry for sample {sid}"))?;
                if ss.feasible_unrelaxed_ids().contains(&sid) != fa || ss.feasible_ids().contains(&sid) != fr { return Err(format!("sample {sid}: feasible_unrelaxed_ids() = {:?} and feasible_ids() = {:?} disagree with the feasibility tables (feasible for all constraints {fa}, for the active ones {fr})", ss.feasible_unrelaxed_ids(), ss.feasible_ids())); }
                let mut vs: Vec<(u64, f64)> = vec![]; for c in &ss.constraints { vs.push((c.id, c.evaluated_values.as_ref().and_then(|v| v.get(sid)).ok_or(format!("constraint {} has no value for sample {sid}", c.id))?)); } vs.sort_by_key(|x| x.0);
                // the same state through evaluate
                let (sol, _) = i.evaluate(&state(&sts[*k].1)).map_err(|e| format!("evaluate failed: {e}"))?;
                let mut ws: Vec<(u64, f64)> = sol.evaluated_constraints.iter().map(|c| (c.id, c.evaluated_value)).collect(); ws.sort_by_key(|x| x.0);
                if sol.feasible != fa || sol.feasible_relaxed != Some(fr) || ws != vs { return Err(format!("sample {sid} (state {:?}) among samples {:?}: evaluate_samples says feasible {fa} relaxed {fr} values {vs:?}, evaluate on the same state says feasible {} relaxed {:?} values {ws:?}", sts[*k].1, ids.iter().map(|k| sts[*k].0).collect::<Vec<_>>(), sol.feasible, sol.feasible_relaxed)); }
                out.push((sid, (fa, fr, vs)));
            }
            Ok(out)
        };
        for (gi, ids) in [vec![0usize, 1, 2], vec![2, 0, 1, 3], vec![1, 4, 3, 0, 2], vec![3, 2], vec![0]].iter().enumerate() {
            n += 1; d.insert(vec![(false, 3000 + gi as u64)]);
            let base = match table(&i0, ids) { Ok(t) => t, Err(e) => return Outcome { cases: n, distinct: d.len(), fail: Some(e) } };
            for which in [1u64, 2, 3] {
                let mut i = i0.clone();
                i.relax_constraint(which, "r".to_string(), HashMap::new()).unwrap();
                let mid = match table(&i, ids) { Ok(t) => t, Err(e) => return Outcome { cases: n, distinct: d.len(), fail: Some(format!("after relaxing constraint {which}: {e}")) } };
                for (b, m) in base.iter().zip(mid.iter()) { if b.1 .0 != m.1 .0 || b.1 .2 != m.1 .2 { return Outcome { cases: n, distinct: d.len(), fail: Some(format!("sample {}: relaxing constraint {which} changed feasible {} -> {} or the constraint values {:?} -> {:?}", b.0, b.1 .0, m.1 .0, b.1 .2, m.1 .2)) }; } }
                i.restore_constraint(which).unwrap();
                let end = match table(&i, ids) { Ok(t) => t, Err(e) => return Outcome { cases: n, distinct: d.len(), fail: Some(format!("after relax + restore of constraint {which}: {e}")) } };
                if end != base { return Outcome { cases: n, distinct: d.len(), fail: Some(format!("relax + restore of constraint {which} changed the sample table {base:?} -> {end:?}")) }; }
            }
        }
    }
    // a state that gives no value to a variable of a constraint: whatever evaluate answers (an error) it answers before the relax, after it and after the restore;
    // and a variable that only a relaxed constraint mentions is treated like any other (values / feasibility of the relaxed constraint included)
    {
        let mk = |b1: (f64, f64)| inst(vec![dv(0, Kind::Continuous, Some((-10.0, 10.0))), dv(1, Kind::Continuous, Some(b1))], f_of(F::Linear(lin(&[(0, 1.0)], 0.0))),
            vec![con(10, Equality::LessThanOrEqualToZero, f_of(F::Linear(lin(&[(0, 1.0)], -1.0)))), con(11, Equality::LessThanOrEqualToZero, f_of(F::Linear(lin(&[(1, 1.0)], -1.0))))]);
        let show = |r: &Result<(bool, Option<bool>, Vec<(u64, f64)>), String>| match r { Ok(x) => format!("Ok{x:?}"), Err(_) => "Err".to_string() };
        for (bi, b1) in [(-10.0, 10.0), (2.0, 10.0), (-10.0, 0.0)].into_iter().enumerate() { for (si, st) in [state(&[(0, 0.0)]), state(&[(0, 0.0), (1, 3.0)]), state(&[(0, 0.0), (1, 0.5)]), state(&[(1, 0.5)]), state(&[])].into_iter().enumerate() {
            n += 1; d.insert(vec![(false, 2000 + bi as u64), (false, si as u64)]);
            let eval = |i: &Instance| -> Result<(bool, Option<bool>, Vec<(u64, f64)>), String> {
                let (sol, _) = i.evaluate(&st).map_err(|e| e.to_string())?;
                let mut vs: Vec<(u64, f64)> = sol.evaluated_constraints.iter().map(|c| (c.id, c.evaluated_value)).collect(); vs.sort_by_key(|x| x.0);
                Ok((sol.feasible, sol.feasible_relaxed, vs))
            };
            let i0 = mk(b1);
            let base = eval(&i0);
            for which in [10u64, 11] {
                let mut i = i0.clone();
                i.relax_constraint(which, "r".to_string(), HashMap::new()).unwrap();
                let mid = eval(&i);
                let same = match (&base, &mid) { (Ok(a), Ok(b)) => a.0 == b.0 && a.2 == b.2, (Err(_), Err(_)) => true, _ => false };
                if !same { return Outcome { cases: n, distinct: d.len(), fail: Some(format!("x1 in {b1:?}, state {st:?}: evaluate answers {} with both constraints active and {} after relaxing constraint {which} (feasibility and per-constraint values must not depend on the list a constraint is in)", show(&base), show(&mid))) }; }
                i.restore_constraint(which).unwrap();
                let end = eval(&i);
                let same = match (&base, &end) { (Ok(a), Ok(b)) => a == b, (Err(_), Err(_)) => true, _ => false };
                if !same { return Outcome { cases: n, distinct: d.len(), fail: Some(format!("x1 in {b1:?}, state {st:?}: evaluate answers {} before and {} after relax + restore of constraint {which}", show(&base), show(&end))) }; }
            }
        } }
    }
    Outcome { cases: n, distinct: d.len(), fail: None }
}

pub fn c08() -> Outcome {
    use v1::function::Function as F;
    let mut n = 0; let mut d = BTreeSet::new();
    let valid = || {
        let mut i = inst(vec![dv(1, Kind::Binary, None), dv(2, Kind::Binary, Some((0.0, 1.0))), dv(3, Kind::Integer, Some((0.0, 5.0)))],
            f_of(F::Linear(lin(&[(1, 1.0), (3, 2.0)], 0.0))),
            vec![con(10, Equality::EqualToZero, f_of(F::Linear(lin(&[(1, 1.0), (2, 1.0)], -1.0)))), con(11, Equality::LessThanOrEqualToZero, f_of(F::Linear(lin(&[(3, 1.0)], -4.0)))),
                 con(12, Equality::LessThanOrEqualToZero, f_of(F::Quadratic(quad(&[(1, 2, 1.0)], None))))]);
        i.relax_constraint(12, "x".to_string(), HashMap::new()).unwrap();
        i.constraints.push(con(13, Equality::LessThanOrEqualToZero, f_of(F::Linear(lin(&[(2, 1.0)], -1.0)))));
        i.relax_constraint(13, "y".to_string(), HashMap::new()).unwrap();
        let mut h = v1::ConstraintHints::default();
        let mut oh = v1::OneHot::default(); oh.constraint_id = 10; oh.decision_variables = vec![1, 2];
        let mut s1 = v1::Sos1::default(); s1.binary_constraint_id = 10; s1.big_m_constraint_ids = vec![11, 10]; s1.decision_variables = vec![1, 2];
        h.one_hot_constraints = vec![oh]; h.sos1_constraints = vec![s1];
        i.constraint_hints = Some(h);
        i.decision_variable_dependency.insert(3, f_of(F::Linear(lin(&[(1, 1.0)], 0.0))));
        i
    };
    type Mutation = (&'static str, Box<dyn Fn(&mut Instance)>, bool /*validate must fail*/, bool /*try_from must fail*/);
    let muts: Vec<Mutation> = vec![
        ("valid", Box::new(|_| {}), false, false),
        ("duplicate variable id", Box::new(|i| i.decision_variables[1].id = 1), true, true),
        ("duplicate id active/active", Box::new(|i| i.constraints[1].id = 10), true, true),
        ("duplicate id active/removed", Box::new(|i| i.removed_constraints[0].constraint.as_mut().unwrap().id = 11), true, true),
        ("duplicate id removed/removed", Box::new(|i| i.removed_constraints[1].constraint.as_mut().unwrap().id = 12), true, true),
        ("duplicate id active/active (last two)", Box::new(|i| i.constraints[0].id = 11), true, true),
        ("undefined id in active constraint", Box::new(|i| i.constraints[1].function = Some(f_of(F::Quadratic(quad(&[(3, 9, 1.0)], None))))), true, false),
        ("undefined id in objective", Box::new(|i| i.objective = Some(f_of(F::Linear(lin(&[(9, 1.0)], 0.0))))), true, false /* D7 known finding: try_from accepts */),
        ("undefined id in removed constraint", Box::new(|i| i.removed_constraints[0].constraint.as_mut().unwrap().function = Some(f_of(F::Linear(lin(&[(9, 1.0)], 0.0))))), true, false),
        ("sense unspecified", Box::new(|i| i.sense = 0), false, true),
        ("objective missing", Box::new(|i| i.objective = None), false, true),
        ("objective oneof unset", Box::new(|i| i.objective = Some(Function::default())), false, true),
        ("constraint function missing", Box::new(|i| i.constraints[0].function = None), false, true),
        ("equality unspecified", Box::new(|i| i.constraints[1].equality = 0), false, true),
        ("kind unspecified", Box::new(|i| i.decision_variables[2].kind = 0), false, true),
        ("bound lower > upper", Box::new(|i| { let b = i.decision_variables[2].bound.as_mut().unwrap(); b.lower = 6.0; }), false, true),
        ("bound NaN", Box::new(|i| { let b = i.decision_variables[2].bound.as_mut().unwrap(); b.upper = f64::NAN; }), false, true),
        ("bound NaN lower", Box::new(|i| { let b = i.decision_variables[2].bound.as_mut().unwrap(); b.lower = f64::NAN; }), false, true),
        ("bound lower = +inf", Box::new(|i| { let b = i.decision_variables[2].bound.as_mut().unwrap(); b.lower = f64::INFINITY; b.upper = f64::INFINITY; }), false, true),
        ("bound upper = -inf", Box::new(|i| { let b = i.decision_variables[2].bound.as_mut().unwrap(); b.lower = f64::NEG_INFINITY; b.upper = f64::NEG_INFINITY; }), false, true),
        ("bound lower = +inf only", Box::new(|i| { let b = i.decision_variables[2].bound.as_mut().unwrap(); b.lower = f64::INFINITY; }), false, true),
        ("bound upper = -inf only", Box::new(|i| { let b = i.decision_variables[2].bound.as_mut().unwrap(); b.upper = f64::NEG_INFINITY; }), false, true),
        ("bound on a binary variable inverted", Box::new(|i| { let mut b = v1::Bound::default(); b.lower = 1.0; b.upper = 0.0; i.decision_variables[0].bound = Some(b); }), false, true),
        // well-formed shapes that must NOT be rejected
        ("bound half-infinite (valid)", Box::new(|i| { let b = i.decision_variables[2].bound.as_mut().unwrap(); b.lower = f64::NEG_INFINITY; }), false, false),
        ("bound unbounded (valid)", Box::new(|i| { let b = i.decision_variables[2].bound.as_mut().unwrap(); b.lower = f64::NEG_INFINITY; b.upper = f64::INFINITY; }), false, false),
        ("bound degenerate (valid)", Box::new(|i| { let b = i.decision_variables[2].bound.as_mut().unwrap(); b.lower = 2.0; b.upper = 2.0; }), false, false),
        ("removed constraint without constraint", Box::new(|i| i.removed_constraints[0].constraint = None), false, true),
        ("one-hot undefined variable", Box::new(|i| i.constraint_hints.as_mut().unwrap().one_hot_constraints[0].decision_variables = vec![1, 9]), false, true),
        ("one-hot repeated variable", Box::new(|i| i.constraint_hints.as_mut().unwrap().one_hot_constraints[0].decision_variables = vec![1, 2, 1]), false, true),
        ("one-hot undefined constraint", Box::new(|i| i.constraint_hints.as_mut().unwrap().one_hot_constraints[0].constraint_id = 99), false, true),
        ("sos1 repeated big-M id", Box::new(|i| i.constraint_hints.as_mut().unwrap().sos1_constraints[0].big_m_constraint_ids = vec![11, 10, 11]), false, true),
        ("sos1 undefined big-M id", Box::new(|i| i.constraint_hints.as_mut().unwrap().sos1_constraints[0].big_m_constraint_ids = vec![11, 99]), false, true),
        ("sos1 repeated variable", Box::new(|i| i.constraint_hints.as_mut().unwrap().sos1_constraints[0].decision_variables = vec![2, 2]), false, true),
        ("sos1 undefined binary constraint", Box::new(|i| i.constraint_hints.as_mut().unwrap().sos1_constraints[0].binary_constraint_id = 99), false, true),
        ("dependency key undefined", Box::new(|i| { i.decision_variable_dependency.insert(77, f_of(F::Constant(1.0))); }), false, true),
        ("dependency function unset", Box::new(|i| { i.decision_variable_dependency.insert(2, Function::default()); }), false, true),
    ];
    for (k, (name, m, vfail, tfail)) in muts.iter().enumerate() {
        n += 1; d.insert(k);
        if k % 7 == 3 { note(|| format!("single-fault mutation of a valid instance: {name}")); }
        let mut i = valid();
        m(&mut i);
        let v = i.validate();
        if v.is_err() != *vfail { return Outcome { cases: n, distinct: d.len(), fail: Some(format!("Instance::validate on '{name}': ok={}, expected ok={}", v.is_ok(), !vfail)) }; }
        let t = ommx::Instance::try_from(i.clone());
        if t.is_err() != *tfail { return Outcome { cases: n, distinct: d.len(), fail: Some(format!("TryFrom<v1::Instance> on '{name}': ok={}, expected ok={}{}", t.is_ok(), !tfail, t.err().map(|e| format!(" ({e})")).unwrap_or_default())) }; }
        // "reports the violated rule with the path to the offending field": the traceback names the field of ommx.v1.Instance the fault sits in
        if let Err(e) = &t {
            let field = if name.starts_with("duplicate variable") || name.starts_with("kind") || name.starts_with("bound") { "decision_variables" }
                else if name.contains("active/removed") || name.contains("removed/removed") || name.starts_with("removed constraint") { "removed_constraints" }
                else if name.starts_with("duplicate id") || name.starts_with("constraint function") || name.starts_with("equality") { "constraints" }
                else if name.starts_with("sense") { "sense" } else if name.starts_with("objective") { "objective" }
                else if name.starts_with("one-hot") || name.starts_with("sos1") { "constraint_hints" } else if name.starts_with("dependency") { "decision_variable_dependency" } else { "" };
            let shown = format!("{e}");
            // (either as a traceback line `ommx.v1.Instance[field]` or, for a missing field, in the rule itself: "Field objective in ommx.v1.Instance is missing")
            if !field.is_empty() && !(shown.contains(&format!("ommx.v1.Instance[{field}]")) || shown.contains(&format!("Field {field} in ommx.v1.Instance"))) {
                return Outcome { cases: n, distinct: d.len(), fail: Some(format!("TryFrom<v1::Instance> on '{name}': the error does not carry the path to the offending field ommx.v1.Instance[{field}]: {shown}")) };
            }
        }
    }
    // parametric instances: decision-variable and parameter ids jointly unique and covering every id used by the objective and active constraints
    {
        let pvalid = || { let mut p: v1::ParametricInstance = valid().into(); p.constraint_hints = None;
            p.parameters = [20u64, 21, 22].iter().map(|&i| { let mut q = v1::Parameter::default(); q.id = i; q }).collect();
            p.objective = Some(f_of(F::Quadratic(quad(&[(1, 20, 1.0)], Some(lin(&[(3, 2.0), (21, 1.0)], 0.0)))))); p };
        type PM = (&'static str, Box<dyn Fn(&mut v1::ParametricInstance)>, bool);
        let pm: Vec<PM> = vec![
            ("valid parametric instance", Box::new(|_| {}), false),
            ("parameter id equals a decision-variable id", Box::new(|p| p.parameters[2].id = 2), true),
            ("duplicate parameter id", Box::new(|p| p.parameters[2].id = 20), true),
            ("duplicate decision-variable id", Box::new(|p| p.decision_variables[2].id = 1), true),
            ("undefined id in the objective", Box::new(|p| p.objective = Some(f_of(F::Linear(lin(&[(77, 1.0)], 0.0))))), true),
            ("undefined id in an active constraint", Box::new(|p| p.constraints[0].function = Some(f_of(F::Linear(lin(&[(1, 1.0), (78, 1.0)], 0.0))))), true),
            ("duplicate constraint id", Box::new(|p| p.constraints[1].id = 10), true),
            ("duplicate constraint id active/removed", Box::new(|p| p.removed_constraints[0].constraint.as_mut().unwrap().id = 10), true),
            ("id defined only as a parameter", Box::new(|p| p.constraints[1].function = Some(f_of(F::Linear(lin(&[(20, 1.0)], 0.0))))), false),
        ];
        for (k, (name, m, vfail)) in pm.iter().enumerate() {
            n += 1; d.insert(100 + k);
            let mut p = pvalid(); m(&mut p);
            let v = p.validate();
            if v.is_err() != *vfail { return Outcome { cases: n, distinct: d.len(), fail: Some(format!("ParametricInstance::validate on '{name}': ok={}, expected ok={}{}", v.is_ok(), !vfail, v.err().map(|e| format!(" ({e})")).unwrap_or_default())) }; }
        }
    }
    // typed view of an explicit bound equal to the protobuf default: [0, 0] stays [0, 0] for every kind
    for kind in [Kind::Continuous, Kind::Integer, Kind::Binary] {
        n += 1; d.insert(200 + kind as usize);
        let i = inst(vec![dv(1, kind, Some((0.0, 0.0)))], f_of(F::Linear(lin(&[(1, 1.0)], 0.0))), vec![]);
        let t = match ommx::Instance::try_from(i) { Ok(t) => t, Err(e) => return Outcome { cases: n, distinct: d.len(), fail: Some(format!("a {kind:?} variable with the explicit bound [0, 0] was rejected: {e}")) } };
        let s = format!("{t:?}");
        if !s.contains("Bound { lower: 0.0, upper: 0.0 }") && !s.contains("Bound { lower: -0.0, upper: 0.0 }") { return Outcome { cases: n, distinct: d.len(), fail: Some(format!("typed view of a {kind:?} variable with the explicit bound [0, 0] does not carry that bound: {s}")) }; }
    }
    // typed view of unset bounds
    {
        n += 1;
        let t = ommx::Instance::try_from(valid()).unwrap();
        let s = format!("{t:?}");
        if !s.contains("Bound { lower: 0.0, upper: 1.0 }") || s.contains("Bound { lower: 0.0, upper: 0.0 }") { return Outcome { cases: n, distinct: d.len(), fail: Some(format!("typed view of an unset binary bound is not [0,1]: {s}")) }; }
    }
    Outcome { cases: n, distinct: d.len(), fail: None }
}

pub fn run(prop: &str) -> Option<Outcome> {
    // first the audit of the callee contracts the property's Verus file only assumes (rx/src/audit.rs)
    let au = crate::audit::audit(prop);
    if let Some(o) = &au { if o.fail.is_some() { return au; } }
    let a = run_a(prop).map(|o| match &au { Some(x) => Outcome { cases: o.cases + x.cases, distinct: o.distinct + x.distinct, fail: o.fail }, None => o });
    match a {
        Some(o) if o.fail.is_none() => match crate::bounded4::run(prop) { Some(b) => Some(Outcome { cases: o.cases + b.cases, distinct: o.distinct + b.distinct, fail: b.fail }), None => Some(o) },
        other => other,
    }
}
fn run_a(prop: &str) -> Option<Outcome> {
    Some(match prop { "C01" => c01(), "C03" => c03(), "C05" => c05(), "C08" => c08(), "C12" => c12(), "C14" => c14(),
        "C02" => crate::bounded2::c02(), "C04" => crate::bounded2::c04(), "C09" => crate::bounded2::c09(), "C10" => crate::bounded2::c10(), "C11" => crate::bounded2::c11(),
        "C13" => crate::bounded2::c13(), "C15" => crate::bounded2::c15(), "C16" => crate::bounded2::c16(),
        "C17" => crate::bounded3::c17(), "C19" => crate::bounded3::c19(), _ => return None })
}

// ------------------------------------------------------------------------------------------------------------------
// Random structured part of the families ("part B"): deterministic PRNG (seed = VERIF_SEED), budget = RX_BUDGET cases
// (200 in the quick tier, 5000 in the thorough tier).  Numbers stay small dyadic rationals so reference values are exact.
pub struct Rng(pub u64);
impl Rng {
    pub fn new(salt: u64) -> Rng { let s: u64 = std::env::var("VERIF_SEED").ok().and_then(|v| v.parse().ok()).unwrap_or(0); Rng((s.wrapping_mul(0x9E3779B97F4A7C15) ^ salt.wrapping_mul(0xD1B54A32D192ED03)) | 1) }
    pub fn next(&mut self) -> u64 { let mut x = self.0; x ^= x >> 12; x ^= x << 25; x ^= x >> 27; self.0 = x; x.wrapping_mul(0x2545F4914F6CDD1D) >> 11 }
    pub fn below(&mut self, n: usize) -> usize { (self.next() % n.max(1) as u64) as usize }
    pub fn pick<T: Copy>(&mut self, v: &[T]) -> T { v[self.below(v.len())] }
    pub fn chance(&mut self, num: usize, den: usize) -> bool { self.below(den) < num }
    pub fn coef(&mut self, exotic: bool) -> f64 {
        if exotic && self.chance(1, 12) { return if self.chance(1, 2) { 0.0 } else { 2f64.powi(-60) }; }
        self.pick(&[-3.0, -2.0, -1.5, -1.0, -0.5, 0.25, 0.5, 1.0, 2.0, 3.0])
    }
    pub fn value(&mut self) -> f64 { self.pick(&[-2.0, -1.0, -0.5, 0.0, 0.25, 0.5, 1.0, 2.0, 3.0]) }
    pub fn shuffle<T>(&mut self, v: &mut Vec<T>) { for i in (1..v.len()).rev() { let j = self.below(i + 1); v.swap(i, j); } }
}
pub fn budget() -> usize { std::env::var("RX_BUDGET").ok().and_then(|v| v.parse().ok()).unwrap_or(200) }

/// a raw (un-normalised) function message over `ids`: unsorted and repeated terms, any triangle, explicit zeros, absent linear part, several constants
pub fn rand_function(r: &mut Rng, ids: &[u64], max_deg: usize, exotic: bool) -> Function {
    use v1::function::Function as F;
    let kind = if max_deg == 0 { 0 } else { r.below(max_deg.min(3) + 1) };
    match kind {
        0 => f_of(F::Constant(r.coef(false))),
        1 => { let n = r.below(5); let t: Vec<(u64, f64)> = (0..n).map(|_| (r.pick(ids), r.coef(exotic))).collect(); f_of(F::Linear(lin(&t, r.coef(false)))) }
        2 => {
            // the schema forbids duplicated (row, column) positions in a quadratic: keep positions distinct, but any triangle / order
            let n = r.below(5); let mut seen = BTreeSet::new(); let mut e = vec![];
            for _ in 0..n { let p = (r.pick(ids), r.pick(ids)); if seen.insert(p) { e.push((p.0, p.1, r.coef(exotic))); } }
            let l = if r.chance(2, 3) { let k = r.below(4); let t: Vec<(u64, f64)> = (0..k).map(|_| (r.pick(ids), r.coef(exotic))).collect(); Some(lin(&t, r.coef(false))) } else { None };
            f_of(F::Quadratic(quad(&e, l)))
        }
        _ => {
            let n = r.below(6); let mut p = Polynomial::default();
            for _ in 0..n { let d = r.below(max_deg + 1); let mut m = Monomial::default(); m.ids = (0..d).map(|_| r.pick(ids)).collect(); m.coefficient = r.coef(exotic); p.terms.push(m); }
            f_of(F::Polynomial(p))
        }
    }
}
pub fn rand_state(r: &mut Rng, ids: &[u64]) -> HashMap<u64, f64> { ids.iter().map(|i| (*i, r.value())).collect() }

/// a random valid instance: variable ids in random order (not sorted, not contiguous), every kind, optional bounds, active and removed constraints
pub fn rand_instance(r: &mut Rng, max_deg: usize) -> Instance {
    let pool = [1u64, 2, 3, 5, 8, 13, 40];
    let mut ids: Vec<u64> = pool.to_vec(); r.shuffle(&mut ids); let nv = 2 + r.below(4); ids.truncate(nv);
    let dvs: Vec<DecisionVariable> = ids.iter().map(|&i| {
        let kind = r.pick(&[Kind::Continuous, Kind::Integer, Kind::Binary]);
        let bound = if kind == Kind::Binary { r.pick(&[None, None, Some((0.0, 1.0)), Some((0.0, 0.0)), Some((1.0, 1.0))]) } else { r.pick(&[None, Some((-3.0, 3.0)), Some((0.0, 4.0)), Some((f64::NEG_INFINITY, 5.0)), Some((-2.0, f64::INFINITY)), Some((0.0, 0.0)), Some((2.0, 2.0))]) };
        dv(i, kind, bound) }).collect();
    let obj = rand_function(r, &ids, max_deg, false);
    let nc = r.below(4); let mut cids: Vec<u64> = vec![7, 3, 21, 4, 100]; r.shuffle(&mut cids);
    let cs: Vec<Constraint> = (0..nc).map(|k| con(cids[k], if r.chance(1, 2) { Equality::EqualToZero } else { Equality::LessThanOrEqualToZero }, rand_function(r, &ids, max_deg, false))).collect();
    let mut i = inst(dvs, obj, cs);
    if r.chance(1, 2) { i.sense = v1::instance::Sense::Maximize as i32; }
    for k in 0..nc { if r.chance(1, 3) { let _ = i.relax_constraint(cids[k], format!("why{k}"), HashMap::new()); } }
    i
}
/// a state inside the bounds of the instance's variables (integral for integer/binary kinds)
pub fn rand_instance_state(r: &mut Rng, i: &Instance) -> HashMap<u64, f64> {
    i.decision_variables.iter().map(|v| {
        let (lo, up) = v.bound.as_ref().map(|b| (b.lower, b.upper)).unwrap_or(if v.kind == Kind::Binary as i32 { (0.0, 1.0) } else { (f64::NEG_INFINITY, f64::INFINITY) });
        let cands: Vec<f64> = [-3.0, -2.0, -1.0, 0.0, 1.0, 2.0, 3.0, 4.0, -0.5, 0.5, 2.5].iter().cloned().filter(|x| *x >= lo && *x <= up && (v.kind == Kind::Continuous as i32 || x.fract() == 0.0)).collect();
        (v.id, cands[r.below(cands.len())]) }).collect()
}
