// Audit of the ASSUMED callee contracts of the deductive route: executable forms of exactly the clauses the Verus files assume for callees they do not verify
// (vx/units/*.py, `external_body` stubs), run on the real compiled code over random structured inputs.  Part of the bounded stand-in of every property that
// assumes them; a failure here means "an assumption of the proof is false on the real code", reported like any other failing input.
use crate::bounded::*;
use ommx::v1::{self, decision_variable::Kind, Function, Instance};
use std::collections::{BTreeSet, HashMap};
use v1::function::Function as F;

fn close(a: f64, b: f64) -> bool { (a - b).abs() <= 1e-9 * (1.0 + a.abs().max(b.abs())) }
fn states(ids: &BTreeSet<u64>, r: &mut Rng) -> Vec<HashMap<u64, f64>> { (0..3).map(|_| ids.iter().map(|i| (*i, r.value())).collect()).collect() }
fn coo_ok(f: &Function) -> bool { match f.function.as_ref() { Some(F::Quadratic(q)) => q.rows.len() == q.columns.len() && q.rows.len() == q.values.len(), _ => true } }

/// term iterator of &Function (assumed in C02, C04, C11, C16): (sorted ids, finite coefficient) pairs over the ids of the function whose sum is the represented polynomial
fn terms(f: &Function, r: &mut Rng) -> Result<(), String> {
    if !coo_ok(f) { return Ok(()); }
    let ids = ref_ids(f);
    let mut list: Vec<(Vec<u64>, f64)> = vec![];
    for (t, c) in f { let v: Vec<u64> = t.iter().cloned().collect(); list.push((v, c)); }
    for (t, c) in &list {
        if t.windows(2).any(|w| w[0] > w[1]) { return Err(format!("term iterator yields unsorted ids {t:?} for {f:?}")); }
        if t.iter().any(|i| !ids.contains(i)) { return Err(format!("term iterator yields ids {t:?} outside the ids {ids:?} of {f:?}")); }
        if !c.is_finite() { return Err(format!("term iterator yields a non-finite coefficient {c} for {f:?}")); }
    }
    for s in states(&ids, r) {
        let want = ref_val(f, &s).unwrap();
        let got: f64 = list.iter().map(|(t, c)| c * t.iter().map(|i| s[i]).product::<f64>()).sum();
        if !close(got, want) { return Err(format!("the term iterator of {f:?} sums to {got} at {s:?}, the function evaluates to {want}")); }
    }
    // the list is a function of the message (assumed by naming it fn_terms(f))
    let again: Vec<(Vec<u64>, f64)> = f.into_iter().map(|(t, c)| (t.iter().cloned().collect(), c)).collect();
    if again != list { return Err(format!("two enumerations of the terms of {f:?} differ")); }
    // chunks(): (id, multiplicity) pairs whose powers multiply to the monomial, multiplicities between 1 and the degree (assumed in C16)
    for (t, _) in f {
        let ch = t.chunks(); let v: Vec<u64> = t.iter().cloned().collect();
        let mut expanded: Vec<u64> = vec![]; for (id, k) in &ch { if *k < 1 || *k > v.len() { return Err(format!("chunks() of {v:?} has multiplicity {k}")); } for _ in 0..*k { expanded.push(*id); } }
        let mut sorted = v.clone(); sorted.sort();
        if expanded != sorted { return Err(format!("chunks() of {v:?} = {ch:?} does not expand to the ids")); }
    }
    Ok(())
}
/// used_decision_variable_ids (assumed in C08, C11, C13)
fn used_ids(f: &Function) -> Result<(), String> {
    if !coo_ok(f) { return Ok(()); }
    let got = f.used_decision_variable_ids();
    if got != ref_ids(f) { return Err(format!("used_decision_variable_ids of {f:?} = {got:?}, the ids of the function are {:?}", ref_ids(f))); }
    Ok(())
}
/// f64 * Function, Function + Linear, &Parameter * Function (assumed in C09 / C13): value, ids, and monomials keep their id lists under a scalar multiple
fn operators(f: &Function, r: &mut Rng) -> Result<(), String> {
    if !coo_ok(f) || f.function.is_none() { return Ok(()); }
    let a = r.pick(&[-2.0, 0.5, 3.0, 0.0]);
    let g = a * f.clone();
    let deg = |h: &Function| -> usize { match h.function.as_ref() { Some(F::Polynomial(p)) => p.terms.iter().map(|t| t.ids.len()).max().unwrap_or(0), _ => 0 } };
    if deg(&g) > deg(f) { return Err(format!("{a} * f has a monomial of higher degree than f = {f:?}")); }
    if !ref_ids(&g).is_subset(&ref_ids(f)) { return Err(format!("{a} * f mentions ids outside f = {f:?}")); }
    let mut p = v1::Parameter::default(); p.id = 77;
    let h = &p * f.clone();
    let mut ids = ref_ids(f); ids.insert(77);
    if !ref_ids(&h).is_subset(&ids) { return Err(format!("&Parameter * f mentions ids {:?} outside {ids:?}", ref_ids(&h))); }
    for s in states(&ids, r) {
        let v = ref_val(f, &s).unwrap();
        if !close(ref_val(&g, &s).unwrap(), a * v) { return Err(format!("{a} * f evaluates to {} at {s:?}, expected {}: f = {f:?}", ref_val(&g, &s).unwrap(), a * v)); }
        if !close(ref_val(&h, &s).unwrap(), s[&77] * v) { return Err(format!("&Parameter(77) * f evaluates to {} at {s:?}, expected {}: f = {f:?}", ref_val(&h, &s).unwrap(), s[&77] * v)); }
    }
    Ok(())
}
/// Instance::get_kinds, binary_ids, defined_ids (assumed in C09 / C11 / C12 / C13)
fn instance_tables(i: &Instance) -> Result<(), String> {
    let kinds = i.get_kinds();
    let all: BTreeSet<u64> = i.decision_variables.iter().map(|v| v.id).collect();
    if i.defined_ids() != all { return Err(format!("defined_ids() = {:?}, the declared ids are {all:?}", i.defined_ids())); }
    let keys: BTreeSet<u64> = kinds.keys().map(|k| **k).collect();
    if keys != all { return Err(format!("get_kinds() has keys {keys:?}, the declared ids are {all:?}")); }
    for (k, kind) in &kinds { if !i.decision_variables.iter().any(|v| v.id == **k && v.kind() == *kind) { return Err(format!("get_kinds()[{k:?}] = {kind:?} is not the kind of a declaration of that id")); } }
    let bin: BTreeSet<u64> = i.decision_variables.iter().filter(|v| v.kind == Kind::Binary as i32).map(|v| v.id).collect();
    if i.binary_ids() != bin { return Err(format!("binary_ids() = {:?}, the ids declared binary are {bin:?}", i.binary_ids())); }
    Ok(())
}

/// which audits belong to which property: exactly the callees that property's Verus file assumes
pub fn audit(prop: &str) -> Option<Outcome> {
    let (t, u, o, i) = match prop { "C02" => (true, false, false, false), "C04" => (true, false, false, false), "C08" => (false, true, false, true), "C09" => (false, false, true, true),
        "C11" => (true, true, false, true), "C12" => (false, false, false, true), "C13" => (false, true, true, true), "C16" => (true, false, false, false), _ => return None };
    let mut r = Rng::new(0xA0D17); let mut n = 0;
    let pool = [1u64, 2, 3, 5, 8];
    // hand-built corner messages: ids that occur only under zero / tiny coefficients, an absent linear part, several constants
    if u {
        for f in [f_of(F::Quadratic(quad(&[(9, 9, 0.0)], None))), f_of(F::Quadratic(quad(&[(4, 9, 1e-17), (9, 2, 0.0)], Some(lin(&[], 0.0))))),
                  f_of(F::Polynomial(poly(&[(&[7, 7, 3], 0.0), (&[], 2.0)]))), f_of(F::Linear(lin(&[(6, 0.0)], 1.0))), f_of(F::Polynomial(poly(&[(&[5], 1e-300)])))] {
            n += 1;
            if let Err(e) = used_ids(&f) { return Some(Outcome { cases: n, distinct: n, fail: Some(format!("an ASSUMED callee contract of the deductive route is false on the real code: {e}")) }); }
        }
    }
    for k in 0..(budget().min(2000) / 4 + 40) {
        n += 1;
        let f = rand_function(&mut r, &pool, 3, true);
        if k == 1 { note(|| format!("audit of assumed callee contracts on f={f:?}")); }
        let res = (|| -> Result<(), String> { if t { terms(&f, &mut r)?; } if u { used_ids(&f)?; } if o { operators(&f, &mut r)?; } Ok(()) })();
        if let Err(e) = res { return Some(Outcome { cases: n, distinct: n, fail: Some(format!("an ASSUMED callee contract of the deductive route is false on the real code: {e}")) }); }
        if i && k % 4 == 0 {
            let mut inst = rand_instance(&mut r, 2);
            if r.chance(1, 3) && !inst.decision_variables.is_empty() { let mut d = inst.decision_variables[0].clone(); d.kind = Kind::Binary as i32; inst.decision_variables.push(d); }   // a repeated id with another kind
            if let Err(e) = instance_tables(&inst) { return Some(Outcome { cases: n, distinct: n, fail: Some(format!("an ASSUMED callee contract of the deductive route is false on the real code: {e}")) }); }
        }
    }
    Some(Outcome { cases: n, distinct: n, fail: None })
}
