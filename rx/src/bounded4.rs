// Bounded stand-ins, part B: randomly generated structured inputs (deterministic PRNG seeded by VERIF_SEED, RX_BUDGET cases).
// Same rules as part A: executable contracts vs an independent reference on the REAL compiled code; never counted as proof.
use crate::bounded::*;
use ommx::v1::{self, decision_variable::Kind, Equality, Function, Instance};
use ommx::Evaluate;
use std::collections::{BTreeSet, HashMap};
use v1::function::Function as F;

macro_rules! fail { ($n:expr, $($a:tt)*) => { return Outcome { cases: $n, distinct: $n, fail: Some(format!($($a)*)) } } }
fn close(a: f64, b: f64) -> bool { (a - b).abs() <= 1e-9 * (1.0 + a.abs().max(b.abs())) }
const IDS: [u64; 4] = [1, 2, 3, 7];
fn st(s: &HashMap<u64, f64>) -> v1::State { s.clone().into_iter().collect() }
fn cfun(c: &v1::Constraint) -> Function { c.function.clone().unwrap_or_default() }
fn ok(n: usize) -> Outcome { Outcome { cases: n, distinct: n, fail: None } }

fn c01() -> Outcome {
    let mut r = Rng::new(1); let mut n = 0;
    for _ in 0..budget() {
        n += 1;
        let f = rand_function(&mut r, &IDS, 4, true);
        let mut s = rand_state(&mut r, &IDS);
        if r.chance(1, 4) { let k = r.pick(&IDS); s.remove(&k); }
        if n == 3 { note(|| format!("random: evaluate {f:?} at {s:?}")); }
        match (f.evaluate(&st(&s)), ref_val(&f, &s)) {
            (Ok((v, ids)), Some(w)) => { if !close(v, w) || ids != ref_ids(&f) { fail!(n, "Function::evaluate: f={f:?} state={s:?}: got value {v} ids {ids:?}, expected value {w} ids {:?}", ref_ids(&f)); } }
            (Err(_), None) => {}
            (Ok((v, _)), None) => fail!(n, "Function::evaluate returned Ok({v}) although the state lacks a variable of the function: f={f:?} state={s:?}"),
            (Err(e), Some(w)) => fail!(n, "Function::evaluate failed ({e}) although every variable has a value (expected {w}): f={f:?} state={s:?}"),
        }
    }
    ok(n)
}

fn c02() -> Outcome {
    let mut r = Rng::new(2); let mut n = 0;
    for _ in 0..budget() {
        n += 1;
        let a = rand_function(&mut r, &IDS, 3, true); let b = rand_function(&mut r, &IDS, 3, true);
        if n == 3 { note(|| format!("random: a + b, a - b, a * b, -a for a={a:?} b={b:?}")); }
        let rs: Vec<(&str, Function, Box<dyn Fn(f64, f64) -> f64>)> = vec![
            ("sum", a.clone() + b.clone(), Box::new(|x, y| x + y)), ("difference", a.clone() - b.clone(), Box::new(|x, y| x - y)),
            ("product", a.clone() * b.clone(), Box::new(|x, y| x * y)), ("negation", -a.clone(), Box::new(|x, _| -x)), ("scalar multiple", a.clone() * 2.5, Box::new(|x, _| 2.5 * x))];
        let allowed: BTreeSet<u64> = ref_ids(&a).union(&ref_ids(&b)).cloned().collect();
        for (what, res, f) in rs {
            if !ref_ids(&res).is_subset(&allowed) { fail!(n, "{what}: result mentions ids outside the operands: a={a:?} b={b:?} result={res:?}"); }
            for _ in 0..3 {
                let s = rand_state(&mut r, &IDS);
                let want = f(ref_val(&a, &s).unwrap(), ref_val(&b, &s).unwrap());
                let got = ref_val(&res, &s).unwrap();
                if !close(got, want) { fail!(n, "{what}: a={a:?} b={b:?}: result {res:?} evaluates to {got} at {s:?}, the polynomial {what} of the operands is {want}"); }
                let mut it = 0.0; for (ids, c) in &res { if ids.windows(2).any(|w| w[0] > w[1]) { fail!(n, "{what}: term iterator yields unsorted ids {:?}", &ids[..]); } it += c * ids.iter().map(|i| s[i]).product::<f64>(); }
                if !close(it, got) { fail!(n, "{what}: the term iterator of {res:?} sums to {it} at {s:?}, the function evaluates to {got}"); }
            }
        }
    }
    ok(n)
}

fn c03() -> Outcome {
    let mut r = Rng::new(3); let mut n = 0;
    for _ in 0..budget() {
        n += 1;
        // function level
        let f = rand_function(&mut r, &IDS, 4, true);
        let full = rand_state(&mut r, &IDS);
        let fixed: HashMap<u64, f64> = full.iter().filter(|_| r.chance(1, 2)).map(|(k, v)| (*k, *v)).collect();
        let rest: HashMap<u64, f64> = full.iter().filter(|(k, _)| !fixed.contains_key(k)).map(|(k, v)| (*k, *v)).collect();
        let mut g = f.clone();
        let ids = match g.partial_evaluate(&st(&fixed)) { Ok(i) => i, Err(e) => fail!(n, "partial_evaluate failed ({e}): f={f:?} fixed={fixed:?}") };
        if !ids.iter().all(|i| fixed.contains_key(i) && ref_ids(&f).contains(i)) { fail!(n, "partial_evaluate returned ids {ids:?} that are not fixed variables occurring in f={f:?} fixed={fixed:?}"); }
        if ref_ids(&g).iter().any(|i| fixed.contains_key(i)) { fail!(n, "a fixed variable is still mentioned after partial_evaluate: f={f:?} fixed={fixed:?} result={g:?}"); }
        let want = ref_val(&f, &full).unwrap();
        match g.evaluate(&st(&rest)) { Ok((v, _)) => if !close(v, want) { fail!(n, "partial_evaluate then evaluate gives {v}, the original at the combined assignment gives {want}: f={f:?} fixed={fixed:?} rest={rest:?}"); }, Err(e) => fail!(n, "evaluating the partially evaluated function failed ({e}): f={f:?} fixed={fixed:?} result={g:?}") }
        // instance level, in one and in two steps
        let mut i = rand_instance(&mut r, 3);
        let s = rand_instance_state(&mut r, &i);
        // half of the instances carry a dependent variable (as left behind by Instance::substitute): id 77 := a random function of the other variables
        if r.chance(1, 2) {
            let free: Vec<u64> = i.decision_variables.iter().map(|v| v.id).collect();
            i.decision_variables.push(dv(77, Kind::Continuous, None));
            i.decision_variable_dependency.insert(77, rand_function(&mut r, &free, 2, false));
        }
        let fixed: HashMap<u64, f64> = s.iter().filter(|_| r.chance(1, 2)).map(|(k, v)| (*k, *v)).collect();
        let fixed2: HashMap<u64, f64> = s.iter().filter(|(k, _)| !fixed.contains_key(k) && r.chance(1, 3)).map(|(k, v)| (*k, *v)).collect();
        let rest: HashMap<u64, f64> = s.iter().filter(|(k, _)| !fixed.contains_key(k) && !fixed2.contains_key(k)).map(|(k, v)| (*k, *v)).collect();
        if n == 3 { note(|| format!("random: instance with variables {:?}, fix {fixed:?} then {fixed2:?}, evaluate the rest {rest:?}", i.decision_variables.iter().map(|v| v.id).collect::<Vec<_>>())); }
        let (want, _) = match i.evaluate(&st(&s)) { Ok(x) => x, Err(e) => fail!(n, "reference evaluation of a valid instance at an in-bound state failed: {e}") };
        let mut j = i.clone();
        // "the returned ID set contains only fixed variables that actually occurred" (in some function of the instance, before the call)
        let occurring = |x: &Instance| -> BTreeSet<u64> {
            let mut o: BTreeSet<u64> = BTreeSet::new();
            if let Some(f) = x.objective.as_ref() { o.extend(ref_ids(f)); }
            for c in &x.constraints { if let Some(f) = c.function.as_ref() { o.extend(ref_ids(f)); } }
            for rc in &x.removed_constraints { if let Some(c) = rc.constraint.as_ref() { if let Some(f) = c.function.as_ref() { o.extend(ref_ids(f)); } } }
            for (_, f) in &x.decision_variable_dependency { o.extend(ref_ids(f)); }
            o
        };
        let occ1 = occurring(&j);
        let ids1 = match j.partial_evaluate(&st(&fixed)) { Ok(x) => x, Err(e) => fail!(n, "Instance::partial_evaluate failed: {e}") };
        if let Some(bad) = ids1.iter().find(|id| !fixed.contains_key(id) || !occ1.contains(id)) { fail!(n, "Instance::partial_evaluate({fixed:?}) returned id {bad}, which is not a fixed variable occurring in a function of the instance (occurring: {occ1:?}, returned: {ids1:?})"); }
        let occ2 = occurring(&j);
        let ids2 = match j.partial_evaluate(&st(&fixed2)) { Ok(x) => x, Err(e) => fail!(n, "second Instance::partial_evaluate failed: {e}") };
        if let Some(bad) = ids2.iter().find(|id| !fixed2.contains_key(id) || !occ2.contains(id)) { fail!(n, "second Instance::partial_evaluate({fixed2:?}) returned id {bad}, which is not a fixed variable still occurring in a function of the instance (occurring: {occ2:?}, returned: {ids2:?})"); }
        // "the partially evaluated object no longer mentions any fixed variable": objective, active and removed constraints, and the dependency functions
        {
            let mut fs: Vec<(String, &Function)> = vec![];
            if let Some(f) = j.objective.as_ref() { fs.push(("objective".into(), f)); }
            for c in &j.constraints { if let Some(f) = c.function.as_ref() { fs.push((format!("constraint {}", c.id), f)); } }
            for rc in &j.removed_constraints { if let Some(c) = rc.constraint.as_ref() { if let Some(f) = c.function.as_ref() { fs.push((format!("removed constraint {}", c.id), f)); } } }
            for (k, f) in &j.decision_variable_dependency { fs.push((format!("dependency of variable {k}"), f)); }
            for (what, f) in fs { if let Some(id) = ref_ids(f).into_iter().find(|id| fixed.contains_key(id) || fixed2.contains_key(id)) { fail!(n, "after fixing {fixed:?} then {fixed2:?} the {what} still mentions the fixed variable {id}: {f:?}"); } }
        }
        for v in &j.decision_variables { let w = fixed.get(&v.id).or(fixed2.get(&v.id)); if v.substituted_value != w.copied() { fail!(n, "variable {} carries substituted_value {:?}, expected {:?} after fixing {fixed:?} then {fixed2:?}", v.id, v.substituted_value, w); } }
        let (got, _) = match j.evaluate(&st(&rest)) { Ok(x) => x, Err(e) => fail!(n, "evaluating the partially evaluated instance at the remaining values failed ({e}); fixed {fixed:?} then {fixed2:?}, rest {rest:?}") };
        if !close(got.objective, want.objective) || got.feasible != want.feasible || got.feasible_relaxed != want.feasible_relaxed { fail!(n, "after fixing {fixed:?} then {fixed2:?}: objective/feasible/relaxed {}/{}/{:?}, original at the combined assignment {}/{}/{:?}", got.objective, got.feasible, got.feasible_relaxed, want.objective, want.feasible, want.feasible_relaxed); }
        let mut a = got.evaluated_constraints.clone(); let mut b = want.evaluated_constraints.clone(); a.sort_by_key(|c| c.id); b.sort_by_key(|c| c.id);
        if a.len() != b.len() || a.iter().zip(b.iter()).any(|(x, y)| x.id != y.id || !close(x.evaluated_value, y.evaluated_value) || x.equality != y.equality) { fail!(n, "constraint values differ after partial evaluation (fixed {fixed:?} then {fixed2:?})"); }
        if got.state.as_ref().map(|x| &x.entries) != want.state.as_ref().map(|x| &x.entries) { fail!(n, "reported variable values differ: {:?} vs {:?} (fixed {fixed:?} then {fixed2:?})", got.state.map(|x| x.entries), want.state.map(|x| x.entries)); }
    }
    ok(n)
}

fn c04() -> Outcome {
    let mut r = Rng::new(4); let mut n = 0;
    for _ in 0..budget() {
        n += 1;
        let f = rand_function(&mut r, &IDS, 3, false);
        let k = 1 + r.below(4); let mut map: HashMap<u64, Function> = HashMap::new();   // 1..4 entries
        for _ in 0..k { let id = r.pick(&IDS); map.insert(id, rand_function(&mut r, &IDS, 2, false)); }
        if n == 3 { note(|| format!("random: substitute {map:?} into {f:?}")); }
        trace(|| format!("Function::substitute f={f:?} with {map:?}"));
        let g = match f.substitute(&map) { Ok(g) => g, Err(e) => fail!(n, "Function::substitute failed ({e}): f={f:?} map={map:?}") };
        for _ in 0..3 {
            let s = rand_state(&mut r, &IDS);
            let mut s2 = s.clone(); for (id, rep) in &map { s2.insert(*id, ref_val(rep, &s).unwrap()); }
            let want = ref_val(&f, &s2).unwrap();
            let got = match g.evaluate(&st(&s)) { Ok(v) => v.0, Err(e) => fail!(n, "evaluating the substituted function failed ({e})") };
            if !close(got, want) { fail!(n, "Function::substitute: f={f:?} replacements={map:?} at {s:?}: substituted function gives {got}, composition gives {want}"); }
        }
    }
    ok(n)
}

fn c05() -> Outcome {
    let mut r = Rng::new(5); let mut n = 0;
    for _ in 0..budget() {
        n += 1;
        let i = rand_instance(&mut r, 3);
        let s = rand_instance_state(&mut r, &i);
        if n == 3 { note(|| format!("random: evaluate instance (objective {:?}, {} active, {} removed constraints) at {s:?}", i.objective, i.constraints.len(), i.removed_constraints.len())); }
        let (sol, _) = match i.evaluate(&st(&s)) { Ok(x) => x, Err(e) => fail!(n, "Instance::evaluate rejected an in-bound complete state ({e}): variables {:?} state {s:?}", i.decision_variables) };
        let want_obj = ref_val(&i.objective.clone().unwrap_or_default(), &s).unwrap();
        if !close(sol.objective, want_obj) { fail!(n, "objective {} but the objective function evaluates to {want_obj} at {s:?}", sol.objective); }
        let holds = |c: &v1::Constraint| { let v = ref_val(&cfun(c), &s).unwrap(); if c.equality == Equality::EqualToZero as i32 { v.abs() < 1e-6 } else { v < 1e-6 } };
        let rel = i.constraints.iter().all(|c| holds(c)); let all = rel && i.removed_constraints.iter().all(|c| holds(c.constraint.as_ref().unwrap()));
        if sol.feasible_relaxed != Some(rel) || sol.feasible != all { fail!(n, "feasible_relaxed={:?} feasible={} but by the 1e-6 rule they are {rel} / {all} at {s:?}", sol.feasible_relaxed, sol.feasible); }
        let mut want_ids: Vec<u64> = i.constraints.iter().map(|c| c.id).chain(i.removed_constraints.iter().map(|c| c.constraint.as_ref().unwrap().id)).collect(); want_ids.sort();
        let mut got_ids: Vec<u64> = sol.evaluated_constraints.iter().map(|c| c.id).collect(); got_ids.sort();
        if want_ids != got_ids { fail!(n, "evaluated constraints {got_ids:?}, expected every active and removed constraint exactly once: {want_ids:?}"); }
        for ec in &sol.evaluated_constraints {
            let (c, reason) = i.constraints.iter().map(|c| (c, None)).chain(i.removed_constraints.iter().map(|c| (c.constraint.as_ref().unwrap(), Some(c.removed_reason.clone())))).find(|(c, _)| c.id == ec.id).unwrap();
            if !close(ec.evaluated_value, ref_val(&cfun(c), &s).unwrap()) || ec.equality != c.equality || ec.removed_reason != reason { fail!(n, "constraint {} reported as value {} equality {} reason {:?}", ec.id, ec.evaluated_value, ec.equality, ec.removed_reason); }
        }
        if sol.state.as_ref().map(|x| &x.entries) != Some(&s) { fail!(n, "reported state {:?} differs from the given complete state {s:?}", sol.state.map(|x| x.entries)); }
        // incomplete and out-of-bound states: "the reported state contains ... for variables the problem does not use, the value inside their bound nearest to zero;
        // a state that violates a variable's bound by more than 1e-7 or lacks a variable the problem uses is rejected"
        let mut used: BTreeSet<u64> = ref_ids(&i.objective.clone().unwrap_or_default());
        for c in &i.constraints { used.extend(ref_ids(&cfun(c))); }
        for c in &i.removed_constraints { used.extend(ref_ids(&cfun(c.constraint.as_ref().unwrap()))); }
        let bound_of = |v: &v1::DecisionVariable| v.bound.as_ref().map(|b| (b.lower, b.upper)).unwrap_or(if v.kind == Kind::Binary as i32 { (0.0, 1.0) } else { (f64::NEG_INFINITY, f64::INFINITY) });
        for v in &i.decision_variables {
            let mut t = s.clone(); t.remove(&v.id);
            let r2 = i.evaluate(&st(&t));
            if used.contains(&v.id) {
                if let Ok((sol2, _)) = r2 { fail!(n, "Instance::evaluate accepted a state without a value for variable {}, which the problem uses (objective / active / removed constraints): state {t:?}, reported {:?}", v.id, sol2.state.map(|x| x.entries)); }
            } else {
                let (lo, up) = bound_of(v);
                let want = if lo >= 0.0 { lo } else if up <= 0.0 { up } else { 0.0 };
                match r2 {
                    Err(e) => fail!(n, "Instance::evaluate rejected a state that omits only the unused variable {} ({e}): state {t:?}", v.id),
                    Ok((sol2, _)) => {
                        let got = sol2.state.as_ref().and_then(|x| x.entries.get(&v.id).copied());
                        if got != Some(want) { fail!(n, "unused variable {} with bound [{lo}, {up}] omitted from the state: reported value {got:?}, the point of the bound nearest to zero is {want}", v.id); }
                        if !close(sol2.objective, want_obj) || sol2.feasible != all || sol2.feasible_relaxed != Some(rel) { fail!(n, "omitting the unused variable {} from the state changed objective / feasibility", v.id); }
                        for (k, x) in &t { if sol2.state.as_ref().and_then(|y| y.entries.get(k)) != Some(x) { fail!(n, "omitting the unused variable {} from the state changed the reported value of variable {k}", v.id); } }
                    }
                }
            }
            let (lo, up) = bound_of(v);
            for bad in [up + 0.5, lo - 0.5, up + 3e-7, lo - 3e-7] {
                if !bad.is_finite() { continue; }
                let mut t = s.clone(); t.insert(v.id, bad);
                if let Ok(_) = i.evaluate(&st(&t)) { fail!(n, "Instance::evaluate accepted the value {bad} for variable {} (kind {}, used={}) whose bound is [{lo}, {up}]", v.id, v.kind, used.contains(&v.id)); }
            }
        }
    }
    ok(n)
}

fn c08() -> Outcome {
    let mut r = Rng::new(8); let mut n = 0;
    for _ in 0..budget() {
        n += 1;
        let base = rand_instance(&mut r, 3);
        // (name, mutation, validate must fail, try_from must fail (None = not asserted: known finding D7))
        let nfaults = if r.chance(1, 5) { 0 } else if r.chance(1, 4) { 2 } else { 1 };
        let mut i = base.clone(); let mut names = vec![]; let mut vfail = false; let mut tfail: Option<bool> = Some(false);
        for _ in 0..nfaults {
            let ncons = i.constraints.len() + i.removed_constraints.len();
            match r.below(11) {
                0 => { let a = r.below(i.decision_variables.len()); let b = (a + 1 + r.below(i.decision_variables.len() - 1)) % i.decision_variables.len(); i.decision_variables[a].id = i.decision_variables[b].id; names.push("duplicate decision-variable id"); vfail = true; tfail = Some(true); }
                1 if ncons >= 2 => {
                    let ids: Vec<u64> = i.constraints.iter().map(|c| c.id).chain(i.removed_constraints.iter().map(|c| c.constraint.as_ref().unwrap().id)).collect();
                    let a = r.below(ncons); let b = (a + 1 + r.below(ncons - 1)) % ncons;
                    let na = i.constraints.len();
                    if a < na { i.constraints[a].id = ids[b]; } else { i.removed_constraints[a - na].constraint.as_mut().unwrap().id = ids[b]; }
                    names.push("duplicate constraint id (active/removed, any pair)"); vfail = true; tfail = Some(true);
                }
                2 => { let bad = f_of(F::Linear(lin(&[(999, 1.0)], 0.0)));
                       let na = i.constraints.len(); let nr = i.removed_constraints.len();
                       match r.below(3) { 0 => { i.objective = Some(bad); } 1 if na > 0 => { let k = r.below(na); i.constraints[k].function = Some(bad); } 2 if nr > 0 => { let k = r.below(nr); i.removed_constraints[k].constraint.as_mut().unwrap().function = Some(bad); } _ => { i.objective = Some(bad); } }
                       names.push("undefined variable id used"); vfail = true; if tfail == Some(false) { tfail = None; } }
                3 => { i.sense = 0; names.push("sense unspecified"); tfail = Some(true); }
                4 => { i.objective = None; names.push("objective missing"); tfail = Some(true); }
                5 if !i.constraints.is_empty() => { let k = r.below(i.constraints.len()); i.constraints[k].function = None; names.push("constraint function missing"); tfail = Some(true); }
                6 if !i.constraints.is_empty() => { let k = r.below(i.constraints.len()); i.constraints[k].equality = 0; names.push("equality unspecified"); tfail = Some(true); }
                7 => { let k = r.below(i.decision_variables.len()); i.decision_variables[k].kind = 0; names.push("kind unspecified"); tfail = Some(true); }
                8 => { let k = r.below(i.decision_variables.len()); let mut b = v1::Bound::default(); b.lower = 2.0; b.upper = 1.0; i.decision_variables[k].bound = Some(b); names.push("bound lower > upper"); tfail = Some(true); }
                9 => { let k = r.below(i.decision_variables.len()); let mut b = v1::Bound::default(); b.lower = f64::NAN; b.upper = 1.0; i.decision_variables[k].bound = Some(b); names.push("bound NaN"); tfail = Some(true); }
                _ if !i.removed_constraints.is_empty() && nfaults == 1 => { let k = r.below(i.removed_constraints.len()); i.removed_constraints[k].constraint = None; names.push("removed constraint without constraint"); tfail = Some(true); if k < 1000 { /* validate ignores an absent constraint */ } }
                _ => {}
            }
        }
        // a fault may have been undone by a later one touching the same field (e.g. objective replaced): recompute nothing, but only assert what is still certain
        let overwritten = names.contains(&"undefined variable id used") && (names.contains(&"objective missing") || names.contains(&"constraint function missing") || names.contains(&"removed constraint without constraint"));
        if overwritten { continue; }   // one fault replaced the field the other had damaged: no certain expectation
        if n == 3 { note(|| format!("random: faults {names:?} injected into a valid instance")); }
        let v = i.validate();
        if !overwritten && v.is_err() != vfail { fail!(n, "Instance::validate with faults {names:?}: ok={}, expected ok={} ({:?}); variables {:?}, active {:?}, removed {:?}", v.is_ok(), !vfail, v.err().map(|e| e.to_string()), i.decision_variables.iter().map(|v| v.id).collect::<Vec<_>>(), i.constraints.iter().map(|c| c.id).collect::<Vec<_>>(), i.removed_constraints.iter().map(|c| c.constraint.as_ref().map(|c| c.id)).collect::<Vec<_>>()); }
        let t = ommx::Instance::try_from(i.clone());
        if let Some(tf) = tfail { if t.is_err() != tf { fail!(n, "TryFrom<v1::Instance> with faults {names:?}: ok={}, expected ok={} ({:?})", t.is_ok(), !tf, t.err().map(|e| e.to_string())); } }
    }
    ok(n)
}

fn c15() -> Outcome {
    let mut r = Rng::new(15); let mut n = 0;
    for _ in 0..budget() {
        n += 1;
        let mut i = rand_instance(&mut r, 2);
        if r.chance(1, 2) { i.as_minimization_problem(); }
        // 1..8 samples, several ids sharing one state, ids in non-ascending insertion order
        let mut samples = v1::Samples::default();
        let k = 1 + r.below(8); let mut ids: Vec<u64> = vec![3, 17, 4, 9, 100, 1, 42, 8]; r.shuffle(&mut ids);
        let mut states: Vec<HashMap<u64, f64>> = vec![];
        // every third instance has one variable fixed by partial_evaluate (substituted value, no samples for it): the sample states give the remaining variables
        let fixed: Option<u64> = if r.chance(1, 3) { let v = i.decision_variables[r.below(i.decision_variables.len())].id; let s0 = rand_instance_state(&mut r, &i);
            match i.partial_evaluate(&st(&[(v, s0[&v])].into_iter().collect())) { Ok(_) => Some(v), Err(e) => fail!(n, "partial_evaluate of an in-bound value for variable {v} failed: {e}") } } else { None };
        for j in 0..k { let mut s = if j > 0 && r.chance(1, 3) { states[r.below(j)].clone() } else { rand_instance_state(&mut r, &i) }; if let Some(v) = fixed { s.remove(&v); } states.push(s.clone()); samples.add_sample(ids[j], st(&s)); }
        let ss = match i.evaluate_samples(&samples) { Ok((ss, _)) => ss, Err(e) => fail!(n, "evaluate_samples failed on in-bound states: {e}") };
        if n == 3 { note(|| format!("random: best feasible of a sample set with ids {:?} (sense {})", &ids[..k], ss.sense)); }
        for unrelaxed in [false, true] {
            let feas = if unrelaxed { ss.feasible_unrelaxed().clone() } else { ss.feasible_relaxed().clone() };
            let obj = |id: u64| ss.objectives.as_ref().and_then(|o| o.get(id));
            let cands: Vec<u64> = ids[..k].iter().cloned().filter(|id| feas.get(id) == Some(&true)).collect();
            let res = if unrelaxed { ss.best_feasible_unrelaxed_id() } else { ss.best_feasible_id() };
            match res {
                Err(e) => if !cands.is_empty() { fail!(n, "best feasible (unrelaxed={unrelaxed}) failed ({e}) although samples {cands:?} are feasible") },
                Ok(id) => {
                    if !cands.contains(&id) { fail!(n, "best feasible (unrelaxed={unrelaxed}) returned sample {id}, which is not feasible in that sense ({feas:?})"); }
                    let best = obj(id).unwrap_or(f64::NAN);
                    for c in &cands { let o = obj(*c).unwrap_or(f64::NAN); let better = if ss.sense == v1::instance::Sense::Maximize as i32 { o > best } else { o < best }; if better { fail!(n, "best feasible (unrelaxed={unrelaxed}, sense {}) returned sample {id} with objective {best}, but feasible sample {c} has objective {o}", ss.sense); } }
                    let sol = if unrelaxed { ss.best_feasible_unrelaxed() } else { ss.best_feasible() };
                    match sol { Ok(sol) => { if !close(sol.objective, best) || (unrelaxed && !sol.feasible) || (!unrelaxed && sol.feasible_relaxed == Some(false)) { fail!(n, "the returned best solution (unrelaxed={unrelaxed}) has objective {} feasible {} relaxed {:?}, table says objective {best}", sol.objective, sol.feasible, sol.feasible_relaxed); } }, Err(e) => fail!(n, "best_feasible (unrelaxed={unrelaxed}) failed to assemble sample {id}: {e}") }
                }
            }
        }
    }
    ok(n)
}

fn c09() -> Outcome {
    let mut r = Rng::new(9); let mut n = 0;
    for _ in 0..budget() { for uniform in [false, true] {
        n += 1;
        let i = rand_instance(&mut r, 2);
        let p = match if uniform { i.clone().uniform_penalty_method() } else { i.clone().penalty_method() } { Ok(p) => p, Err(e) => fail!(n, "penalty method failed: {e}") };
        if !p.constraints.is_empty() { fail!(n, "penalty result still has active constraints"); }
        let mut want: Vec<v1::Constraint> = i.removed_constraints.iter().map(|r| r.constraint.clone().unwrap()).chain(i.constraints.iter().cloned()).collect();
        let mut got: Vec<v1::Constraint> = p.removed_constraints.iter().filter_map(|r| r.constraint.clone()).collect();
        want.sort_by_key(|c| c.id); got.sort_by_key(|c| c.id);
        if want != got { fail!(n, "penalty method (uniform={uniform}): the removed constraints of the result are not the input's active+removed constraints"); }
        if p.decision_variables != i.decision_variables || p.sense != i.sense { fail!(n, "variables / sense not carried over"); }
        let dv_ids: BTreeSet<u64> = i.decision_variables.iter().map(|v| v.id).collect();
        let pset: BTreeSet<u64> = p.parameters.iter().map(|q| q.id).collect();
        if pset.len() != p.parameters.len() || pset.iter().any(|q| dv_ids.contains(q)) { fail!(n, "weight parameter ids {pset:?} collide with each other or with decision variables {dv_ids:?} (variable order {:?})", i.decision_variables.iter().map(|v| v.id).collect::<Vec<_>>()); }
        let s: HashMap<u64, f64> = rand_state(&mut r, &dv_ids.iter().cloned().collect::<Vec<_>>());
        let mut full = s.clone(); for q in &p.parameters { full.insert(q.id, r.pick(&[0.0, 0.5, 1.0, 2.0])); }
        let mut want_v = ref_val(&i.objective.clone().unwrap_or_default(), &s).unwrap();
        if uniform { if p.parameters.len() != 1 { fail!(n, "uniform penalty has {} parameters", p.parameters.len()); } let w = full[&p.parameters[0].id]; for c in &i.constraints { let g = ref_val(&cfun(c), &s).unwrap(); want_v += w * g * g; } }
        else { if p.parameters.len() != i.constraints.len() { fail!(n, "{} weight parameters for {} constraints", p.parameters.len(), i.constraints.len()); }
               for q in &p.parameters { let c = match i.constraints.iter().find(|c| Some(c.id as i64) == q.subscripts.first().copied()) { Some(c) => c, None => fail!(n, "weight parameter {q:?} is not tagged with a constraint id") }; let g = ref_val(&cfun(c), &s).unwrap(); want_v += full[&q.id] * g * g; } }
        let got_v = match p.objective.clone().unwrap_or_default().evaluate(&st(&full)) { Ok(v) => v.0, Err(e) => fail!(n, "penalty objective cannot be evaluated: {e}") };
        if !close(got_v, want_v) { fail!(n, "penalty objective (uniform={uniform}) at x={s:?}: got {got_v}, expected f + weighted squared violations = {want_v}"); }
    } }
    ok(n)
}

fn c10() -> Outcome {
    let mut r = Rng::new(10); let mut n = 0;
    for _ in 0..budget() {
        n += 1;
        let i = rand_instance(&mut r, 3);
        if i.decision_variables.len() < 3 { continue; }
        // the last two listed variables become parameters
        let mut p: v1::ParametricInstance = i.clone().into();
        let pv: Vec<v1::DecisionVariable> = p.decision_variables.split_off(p.decision_variables.len() - 2);
        p.parameters = pv.iter().map(|v| { let mut q = v1::Parameter::default(); q.id = v.id; q }).collect();
        p.removed_constraints.clear();
        let mut params = v1::Parameters::default();
        for q in &p.parameters { params.entries.insert(q.id, r.value()); }
        let missing = r.chance(1, 5);
        if missing { if r.chance(1, 2) { params.entries.clear(); } else { let k = p.parameters[0].id; params.entries.remove(&k); } }
        match p.clone().with_parameters(params.clone()) {
            Err(e) => if !missing { fail!(n, "with_parameters failed although every parameter was given: {e}") },
            Ok(j) => {
                if missing { fail!(n, "with_parameters succeeded although a declared parameter was omitted"); }
                if j.decision_variables != p.decision_variables || j.sense != p.sense || j.parameters.as_ref().map(|q| &q.entries) != Some(&params.entries) { fail!(n, "variables / sense changed or the supplied values are not recorded"); }
                let xs: HashMap<u64, f64> = p.decision_variables.iter().map(|v| (v.id, r.value())).collect();
                let mut full = xs.clone(); full.extend(params.entries.iter().map(|(k, v)| (*k, *v)));
                let pairs: Vec<(Function, Function)> = std::iter::once((j.objective.clone().unwrap_or_default(), p.objective.clone().unwrap_or_default())).chain(j.constraints.iter().zip(p.constraints.iter()).map(|(a, b)| (cfun(a), cfun(b)))).collect();
                if j.constraints.len() != p.constraints.len() { fail!(n, "number of constraints changed"); }
                for (a, b) in pairs { let want = ref_val(&b, &full).unwrap(); match a.evaluate(&st(&xs)) { Ok((v, _)) => if !close(v, want) { fail!(n, "instantiated function gives {v} at x={xs:?}, the parametric function {b:?} at (x, p={:?}) gives {want}", params.entries); }, Err(e) => fail!(n, "instantiated function {a:?} still needs a non-decision variable ({e}); parameters {:?}", params.entries) } }
            }
        }
    }
    ok(n)
}

fn c11() -> Outcome {
    let mut r = Rng::new(11); let mut n = 0;
    for _ in 0..budget() {
        n += 1;
        let o = rand_function(&mut r, &IDS, 4, true);
        let i = inst(IDS.iter().map(|k| dv(*k, Kind::Binary, None)).collect(), o.clone(), vec![]);
        let pubo = match i.as_pubo_format() { Ok(p) => p, Err(e) => fail!(n, "as_pubo_format refused a valid binary minimisation instance ({e}): {o:?}") };
        let pubo: Vec<(Vec<u64>, f64)> = pubo.iter().map(|(k, v)| (k.iter().cloned().collect::<Vec<u64>>(), *v)).collect();
        for (k, v) in &pubo { if *v == 0.0 || k.windows(2).any(|w| w[0] >= w[1]) { fail!(n, "PUBO entry {k:?} -> {v} is zero or not a canonical key"); } }
        let max_distinct = { let mut m = 0; for (ids, c) in &o { if c.abs() > f64::EPSILON { let s: BTreeSet<u64> = ids.iter().cloned().collect(); m = m.max(s.len()); } } m };
        let qubo = i.as_qubo_format();
        if max_distinct <= 2 && qubo.is_err() { fail!(n, "as_qubo_format refused an objective with at most two distinct variables per term: {o:?}"); }
        if max_distinct > 2 && qubo.is_ok() { fail!(n, "as_qubo_format accepted a term with more than two distinct variables: {o:?}"); }
        for bits in 0u32..16 {
            let s: HashMap<u64, f64> = IDS.iter().enumerate().map(|(k, id)| (*id, (bits >> k & 1) as f64)).collect();
            let want = ref_val(&o, &s).unwrap();
            let pv: f64 = pubo.iter().map(|(k, v)| v * k.iter().map(|id| s[id]).product::<f64>()).sum();
            if !close(pv, want) { fail!(n, "PUBO of {o:?} evaluates to {pv} at {s:?}, objective is {want}"); }
            if let Ok((q, off)) = &qubo { for (k, v) in q.iter() { if *v == 0.0 || k.0 > k.1 { fail!(n, "QUBO entry {k:?} -> {v} zero or not canonical"); } } let qv: f64 = off + q.iter().map(|(k, v)| v * s[&k.0] * s[&k.1]).sum::<f64>(); if !close(qv, want) { fail!(n, "QUBO of {o:?} evaluates to {qv} at {s:?}, objective is {want}"); } }
        }
    }
    ok(n)
}


// generic executable contract of the two slack conversions on constraint id 4 of `i` (all used variables integer/binary with small finite boxes)
fn check_slack(i0: &Instance, which: usize, limit: u64) -> Result<(), String> {
    let f = cfun(i0.constraints.iter().find(|c| c.id == 4).unwrap());
    let used: Vec<u64> = ref_ids(&f).into_iter().collect();
    let boxes: Vec<(u64, i64, i64)> = used.iter().map(|id| { let v = i0.decision_variables.iter().find(|v| v.id == *id).unwrap(); let (l, u) = v.bound.as_ref().map(|b| (b.lower, b.upper)).unwrap_or((0.0, 1.0)); (*id, l as i64, u as i64) }).collect();
    let mut lattice: Vec<HashMap<u64, f64>> = vec![HashMap::new()];
    for (id, l, u) in &boxes { let mut nx = vec![]; for s in &lattice { for v in *l..=*u { let mut t = s.clone(); t.insert(*id, v as f64); nx.push(t); } } lattice = nx; }
    let fv = |g: &Function, x: &HashMap<u64, f64>, extra: Option<(u64, f64)>| { let mut s = x.clone(); if let Some((k, v)) = extra { s.insert(k, v); } ref_val(g, &s).unwrap() };
    let lo = lattice.iter().map(|x| fv(&f, x, None)).fold(f64::INFINITY, f64::min);
    let mut i = i0.clone();
    let r: Result<Option<f64>, String> = if which == 0 { i.convert_inequality_to_equality_with_integer_slack(4, limit).map(|_| None).map_err(|e| e.to_string()) } else { i.add_integer_slack_to_inequality(4, limit).map_err(|e| e.to_string()) };
    let what = if which == 0 { "convert_inequality_to_equality_with_integer_slack" } else { "add_integer_slack_to_inequality" };
    let ctx = format!("{what}(4, {limit}) on {f:?} <= 0, variables {:?}", i0.decision_variables.iter().map(|v| (v.id, v.kind, v.bound.as_ref().map(|b| (b.lower, b.upper)))).collect::<Vec<_>>());
    match r {
        Err(e) => {
            if i != *i0 { return Err(format!("{ctx}: the rejected conversion modified the instance ({e})")); }
            if lo <= 0.0 && (which == 1 || limit >= 1000) { return Err(format!("{ctx}: rejected although the inequality is satisfiable and the limit generous: {e}")); }
        }
        Ok(b) => {
            if i.constraints.iter().all(|c| c.id != 4) {
                if let Some(x) = lattice.iter().find(|x| fv(&f, x, None) > 1e-9) { return Err(format!("{ctx}: moved to removed_constraints as always satisfied, but violated at {x:?}")); }
                if i.removed_constraints.iter().find(|r| r.constraint.as_ref().map(|c| c.id) == Some(4)).and_then(|r| r.constraint.clone()) != i0.constraints.iter().find(|c| c.id == 4).cloned() { return Err(format!("{ctx}: the removed constraint is not the unchanged original")); }
                if i.decision_variables != i0.decision_variables { return Err(format!("{ctx}: a variable was added although the constraint was removed")); }
                return Ok(());
            }
            // (an inequality that can never hold need not be detected: interval analysis is conservative; the lattice equivalence below still has to hold)
            let c = i.constraints.iter().find(|c| c.id == 4).unwrap();
            if i.decision_variables.len() != i0.decision_variables.len() + 1 || i.decision_variables[..i0.decision_variables.len()] != i0.decision_variables[..] { return Err(format!("{ctx}: existing variables changed or not exactly one variable was appended")); }
            let s = i.decision_variables.last().unwrap();
            let sb = s.bound.clone().ok_or("slack without bound")?;
            if s.kind != Kind::Integer as i32 || sb.lower != 0.0 || sb.upper.fract() != 0.0 || i0.decision_variables.iter().any(|v| v.id == s.id) { return Err(format!("{ctx}: slack variable {s:?} is not a fresh integer variable with integer bounds from 0")); }
            if which == 0 && (sb.upper > limit as f64 || c.equality != Equality::EqualToZero as i32) { return Err(format!("{ctx}: slack range {} above the limit or constraint not an equality", sb.upper)); }
            if which == 1 && c.equality != Equality::LessThanOrEqualToZero as i32 { return Err(format!("{ctx}: the constraint is no longer an inequality")); }
            let g = cfun(c);
            if which == 1 { let x0 = &lattice[0]; let coef = fv(&g, x0, Some((s.id, 1.0))) - fv(&g, x0, Some((s.id, 0.0))); if !close(coef, b.unwrap_or(f64::NAN)) { return Err(format!("{ctx}: reported b={b:?} but the slack coefficient is {coef}")); } }
            for x in &lattice {
                let orig = fv(&f, x, None) <= 1e-9;
                let any = (0..=(sb.upper as i64)).any(|sv| { let v = fv(&g, x, Some((s.id, sv as f64))); if which == 0 { v.abs() < 1e-9 } else { v <= 1e-9 } });
                if orig != any { return Err(format!("{ctx}: x={x:?} is {} for the inequality but {} for the new constraint {g:?} with slack in [0,{}]", if orig { "feasible" } else { "infeasible" }, if any { "feasible" } else { "infeasible" }, sb.upper)); }
            }
        }
    }
    Ok(())
}

fn c13() -> Outcome {
    let mut r = Rng::new(13); let mut n = 0;
    for _ in 0..budget() {
        n += 1;
        let mut ids = vec![1u64, 2, 3, 9]; r.shuffle(&mut ids);
        let dvs: Vec<v1::DecisionVariable> = ids.iter().map(|&id| match id { 9 => dv(9, Kind::Continuous, Some((0.0, 1.0))), 2 => dv(2, Kind::Binary, if r.chance(1, 2) { None } else { Some((0.0, 1.0)) }), _ => { let l = r.pick(&[-2.0, 0.0, 1.0]); dv(id, Kind::Integer, Some((l, l + r.pick(&[1.0, 2.0, 3.0])))) } }).collect();
        // dyadic coefficients only: every value on the lattice is exact, so feasibility at the boundary f(x) = 0 is unambiguous
        let cf = |r: &mut Rng| r.pick(&[-2.0, -1.0, -0.5, 0.25, 0.5, 1.0, 1.5, 2.0, 3.0, -0.75, 1.25]);
        let nt = 1 + r.below(3); let terms: Vec<(u64, f64)> = (0..nt).map(|_| (r.pick(&[1u64, 2, 3]), cf(&mut r))).collect();
        let f = if r.chance(1, 3) { let q: Vec<(u64, u64, f64)> = (0..1 + r.below(2)).map(|_| (r.pick(&[1u64, 2, 3]), r.pick(&[1u64, 2, 3]), r.pick(&[-1.0, 0.5, 1.0, 2.0]))).collect(); let mut seen = BTreeSet::new(); let q: Vec<(u64, u64, f64)> = q.into_iter().filter(|e| seen.insert((e.0, e.1))).collect(); f_of(F::Quadratic(quad(&q, Some(lin(&terms, cf(&mut r) * 2.0))))) } else { f_of(F::Linear(lin(&terms, cf(&mut r) * 2.0))) };
        let mut i = inst(dvs, f_of(F::Constant(0.0)), vec![con(7, Equality::EqualToZero, f_of(F::Linear(lin(&[(1, 1.0)], 0.0)))), con(4, Equality::LessThanOrEqualToZero, f.clone())]);
        // the constraint list is in user order: a third constraint, ids in any order
        i.constraints.push(con(if r.chance(1, 2) { 2 } else { 12 }, Equality::LessThanOrEqualToZero, f_of(F::Linear(lin(&[(2, 1.0)], -1.0)))));
        r.shuffle(&mut i.constraints);
        let which = r.below(2); let limit = r.pick(&[2u64, 5, 1000]);
        if n == 3 { note(|| format!("random: slack conversion which={which} limit={limit} on {f:?} <= 0")); }
        if let Err(e) = check_slack(&i, which, limit) { fail!(n, "{e}"); }
    }
    ok(n)
}

fn c14() -> Outcome {
    let mut r = Rng::new(14); let mut n = 0;
    for _ in 0..budget() {
        n += 1;
        let base = rand_instance(&mut r, 2);
        let s = rand_instance_state(&mut r, &base);
        let (ref_sol, _) = match base.evaluate(&st(&s)) { Ok(x) => x, Err(e) => fail!(n, "reference evaluation failed: {e}") };
        let all_ids: Vec<u64> = base.constraints.iter().map(|c| c.id).chain(base.removed_constraints.iter().map(|c| c.constraint.as_ref().unwrap().id)).chain([999u64]).collect();
        let mut i = base.clone();
        let mut ops = vec![];
        for k in 0..8 {
            let relax = r.chance(1, 2); let id = r.pick(&all_ids); ops.push((relax, id));
            let before = i.clone();
            let in_list = if relax { i.constraints.iter().any(|c| c.id == id) } else { i.removed_constraints.iter().any(|c| c.constraint.as_ref().map(|c| c.id) == Some(id)) };
            let res = if relax { i.relax_constraint(id, format!("r{k}"), HashMap::new()) } else { i.restore_constraint(id) };
            if res.is_ok() != in_list { fail!(n, "sequence {ops:?}: step {k} ok={} but the id is{} in the expected list", res.is_ok(), if in_list { "" } else { " not" }); }
            if !in_list && i != before { fail!(n, "sequence {ops:?}: the failing step {k} changed the instance"); }
            let mut now: Vec<v1::Constraint> = i.constraints.iter().cloned().chain(i.removed_constraints.iter().filter_map(|c| c.constraint.clone())).collect();
            let mut orig: Vec<v1::Constraint> = base.constraints.iter().cloned().chain(base.removed_constraints.iter().filter_map(|c| c.constraint.clone())).collect();
            now.sort_by_key(|c| c.id); orig.sort_by_key(|c| c.id);
            if now != orig { fail!(n, "sequence {ops:?}: after step {k} the collection of active plus removed constraints changed"); }
            let (sol, _) = match i.evaluate(&st(&s)) { Ok(x) => x, Err(e) => fail!(n, "evaluation after sequence {ops:?} failed: {e}") };
            let mut a = sol.evaluated_constraints.clone(); let mut b = ref_sol.evaluated_constraints.clone(); a.sort_by_key(|c| c.id); b.sort_by_key(|c| c.id);
            if sol.feasible != ref_sol.feasible || a.len() != b.len() || a.iter().zip(b.iter()).any(|(x, y)| x.id != y.id || x.evaluated_value != y.evaluated_value) { fail!(n, "sequence {ops:?}: per-constraint values or overall feasibility changed after step {k}"); }
        }
    }
    ok(n)
}

fn c16() -> Outcome {
    let mut r = Rng::new(16); let mut n = 0;
    let inf = f64::INFINITY;
    let ends = [-inf, -2.0, -0.5, 0.0, 0.5, 3.0, inf];
    for _ in 0..budget() {
        n += 1;
        let f = rand_function(&mut r, &IDS, 4, true);
        let mut bounds: HashMap<ommx::VariableID, ommx::Bound> = HashMap::new(); let mut bx: HashMap<u64, (f64, f64)> = HashMap::new();
        for id in IDS { if r.chance(1, 6) { bx.insert(id, (-inf, inf)); continue; } let (a, b) = loop { let a = r.pick(&ends); let b = r.pick(&ends); if a <= b && a != inf && b != -inf { break (a, b); } }; bx.insert(id, (a, b)); bounds.insert(ommx::VariableID::from(id), ommx::Bound::new(a, b).unwrap()); }
        if n == 3 { note(|| format!("random: evaluate_bound of {f:?} on the box {bx:?}, checked at corner and interior points")); }
        let fb = match std::panic::catch_unwind(std::panic::AssertUnwindSafe(|| f.evaluate_bound(&bounds))) { Ok(b) => b, Err(_) => continue /* 0 * unbounded / overflow: documented panics outside the quantifier */ };
        if fb.lower().is_nan() || fb.upper().is_nan() || fb.lower() > fb.upper() { fail!(n, "evaluate_bound of {f:?} on {bx:?} = {fb:?} is not a valid interval"); }
        for _ in 0..6 {
            let s: HashMap<u64, f64> = IDS.iter().map(|id| { let (a, b) = bx[id]; let lo = if a.is_finite() { a } else { b.min(0.0) - 1024.0 }; let hi = if b.is_finite() { b } else { a.max(0.0) + 1024.0 }; (*id, match r.below(3) { 0 => lo, 1 => hi, _ => (lo + hi) / 2.0 }) }).collect();
            let v = ref_val(&f, &s).unwrap();
            let tol = 1e-9 * (1.0 + v.abs());
            if v.is_finite() && !(fb.lower() <= v + tol && v - tol <= fb.upper()) { fail!(n, "evaluate_bound of {f:?} on the box {bx:?} is {fb:?}, which does not contain f({s:?}) = {v}"); }
        }
    }
    ok(n)
}

fn c12() -> Outcome {
    // every width up to the budget-dependent limit (quick: 64, thorough: 4096), brute force over all bit patterns
    let mut n = 0; let mut r = Rng::new(12);
    let maxw: i64 = if budget() >= 5000 { 4096 } else { 64 };
    for w in 0..=maxw {
        n += 1;
        let l = r.pick(&[-5.0, 0.0, 3.0, -1000.0, 0.5, -2.5]); let u = l + w as f64 + r.pick(&[0.0, 0.25]);
        let mut order = vec![9u64, 3, 40]; r.shuffle(&mut order);
        let dvs = order.iter().map(|&id| if id == 3 { dv(3, Kind::Integer, Some((l, u))) } else { dv(id, Kind::Continuous, None) }).collect();
        let mut i = inst(dvs, Function::default(), vec![]);
        let (lo, up) = (l.ceil() as i64, u.floor() as i64);
        let enc = match i.log_encode(3) { Ok(e) => e, Err(e) => { if lo <= up { fail!(n, "log_encode failed ({e}) on [{l}, {u}]"); } continue; } };
        if lo > up { fail!(n, "log_encode succeeded on [{l}, {u}] which contains no integer"); }
        let k = enc.terms.len();
        if k > 13 { fail!(n, "log_encode used {k} bits for the range [{l}, {u}]"); }
        let new_ids: BTreeSet<u64> = i.decision_variables[3..].iter().map(|v| v.id).collect();
        if new_ids.len() != k || enc.terms.iter().any(|t| !new_ids.contains(&t.id)) || new_ids.iter().any(|x| order.contains(x)) || i.decision_variables[3..].iter().any(|v| v.kind != Kind::Binary as i32) { fail!(n, "log_encode on [{l}, {u}] with variables {order:?}: encoding terms {:?} vs registered binaries {new_ids:?}", enc.terms); }
        let mut seen = vec![false; (up - lo + 1) as usize];
        for bits in 0u32..(1u32 << k) { let mut v = enc.constant; for (j, t) in enc.terms.iter().enumerate() { if bits >> j & 1 == 1 { v += t.coefficient; } } if v.fract() != 0.0 || (v as i64) < lo || (v as i64) > up { fail!(n, "log_encode on [{l}, {u}]: bit pattern {bits:b} gives {v}, outside {lo}..={up}"); } seen[(v as i64 - lo) as usize] = true; }
        if let Some(m) = seen.iter().position(|x| !x) { fail!(n, "log_encode on [{l}, {u}]: the integer {} is not reachable by any bit pattern", lo + m as i64); }
    }
    ok(n)
}

pub fn run(prop: &str) -> Option<Outcome> {
    Some(match prop { "C01" => c01(), "C02" => c02(), "C03" => c03(), "C04" => c04(), "C05" => c05(), "C08" => c08(), "C09" => c09(), "C10" => c10(), "C11" => c11(), "C12" => c12(), "C13" => c13(), "C14" => c14(), "C15" => c15(), "C16" => c16(), "C17" => crate::bounded3::c17b(), "C19" => crate::bounded3::c19b(), _ => return None })
}
