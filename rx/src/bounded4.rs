// Bounded stand-ins, part B: randomly generated structured inputs (deterministic PRNG seeded by VERIF_SEED, RX_BUDGET cases).
// Same rules as part A: executable contracts vs an independent reference on the REAL compiled code; never counted as proof.
use crate::bounded::*;
use ommx::v1::{self, decision_variable::Kind, Equality, Function, Instance};
use ommx::Evaluate;
use std::collections::{BTreeSet, HashMap};
use v1::function::Function as F;

macro_rules! fail { ($n:expr, $($a:tt)*) => { return Outcome { cases: $n, distinct: $n, fail: Some(format!($($a)*)) } } }
fn close(a: f64, b: f64) -> bool { (a - b).abs() <= 1e-9 * (1.0 + a.abs().max(b.abs())) }
const IDS: [u64; 4] = [1, 2, 3, 7];
fn st(s: &HashMap<u64, f64>) -> v1::State { s.clone().into_iter().collect() }
fn cfun(c: &v1::Constraint) -> Function { c.function.clone().unwrap_or_default() }
fn ok(n: usize) -> Outcome { Outcome { cases: n, distinct: n, fail: None } }

fn c01() -> Outcome {
    let mut r = Rng::new(1); let mut n = 0;
    for _ in 0..budget() {
        n += 1;
        let f = rand_function(&mut r, &IDS, 4, true);
        let mut s = rand_state(&mut r, &IDS);
        if r.chance(1, 4) { let k = r.pick(&IDS); s.remove(&k); }
        if n == 3 { note(|| format!("random: evaluate {f:?} at {s:?}")); }
        match (f.evaluate(&st(&s)), ref_val(&f, &s)) {
            (Ok((v, ids)), Some(w)) => { if !close(v, w) || ids != ref_ids(&f) { fail!(n, "Function::evaluate: f={f:?} state={s:?}: got value {v} ids {ids:?}, expected value {w} ids {:?}", ref_ids(&f)); } }
            (Err(_), None) => {}
            (Ok((v, _)), None) => fail!(n, "Function::evaluate returned Ok({v}) although the state lacks a variable of the function: f={f:?} state={s:?}"),
            (Err(e), Some(w)) => fail!(n, "Function::evaluate failed ({e}) although every variable has a value (expected {w}): f={f:?} state={s:?}"),
        }
    }
    ok(n)
}

fn c02() -> Outcome {
    let mut r = Rng::new(2); let mut n = 0;
    for _ in 0..budget() {
        n += 1;
        let a = rand_function(&mut r, &IDS, 3, true); let b = rand_function(&mut r, &IDS, 3, true);
        if n == 3 { note(|| format!("random: a + b, a - b, a * b, -a for a={a:?} b={b:?}")); }
        let rs: Vec<(&str, Function, Box<dyn Fn(f64, f64) -> f64>)> = vec![
            ("sum", a.clone() + b.clone(), Box::new(|x, y| x + y)), ("difference", a.clone() - b.clone(), Box::new(|x, y| x - y)),
            ("product", a.clone() * b.clone(), Box::new(|x, y| x * y)), ("negation", -a.clone(), Box::new(|x, _| -x)), ("scalar multiple", a.clone() * 2.5, Box::new(|x, _| 2.5 * x))];
        let allowed: BTreeSet<u64> = ref_ids(&a).union(&ref_ids(&b)).cloned().collect();
        for (what, res, f) in rs {
            if !ref_ids(&res).is_subset(&allowed) { fail!(n, "{what}: result mentions ids outside the operands: a={a:?} b={b:?} result={res:?}"); }
            for _ in 0..3 {
                let s = rand_state(&mut r, &IDS);
                let want = f(ref_val(&a, &s).unwrap(), ref_val(&b, &s).unwrap());
                let got = ref_val(&res, &s).unwrap();
                if !close(got, want) { fail!(n, "{what}: a={a:?} b={b:?}: result {res:?} evaluates to {got} at {s:?}, the polynomial {what} of the operands is {want}"); }
                let mut it = 0.0; for (ids, c) in &res { if ids.windows(2).any(|w| w[0] > w[1]) { fail!(n, "{what}: term iterator yields unsorted ids {:?}", &ids[..]); } it += c * ids.iter().map(|i| s[i]).product::<f64>(); }
                if !close(it, got) { fail!(n, "{what}: the term iterator of {res:?} sums to {it} at {s:?}, the function evaluates to {got}"); }
            }
        }
    }
    ok(n)
}

fn c03() -> Outcome {
    let mut r = Rng::new(3); let mut n = 0;
    for _ in 0..budget() {
        n += 1;
        // function level
        let f = rand_function(&mut r, &IDS, 4, true);
        let full = rand_state(&mut r, &IDS);
        let fixed: HashMap<u64, f64> = full.iter().filter(|_| r.chance(1, 2)).map(|(k, v)| (*k, *v)).collect();
        let rest: HashMap<u64, f64> = full.iter().filter(|(k, _)| !fixed.contains_key(k)).map(|(k, v)| (*k, *v)).collect();
        let mut g = f.clone();
        let ids = match g.partial_evaluate(&st(&fixed)) { Ok(i) => i, Err(e) => fail!(n, "partial_evaluate failed ({e}): f={f:?} fixed={fixed:?}") };
        if !ids.iter().all(|i| fixed.contains_key(i) && ref_ids(&f).contains(i)) { fail!(n, "partial_evaluate returned ids {ids:?} that are not fixed variables occurring in f={f:?} fixed={fixed:?}"); }
        if ref_ids(&g).iter().any(|i| fixed.contains_key(i)) { fail!(n, "a fixed variable is still mentioned after partial_evaluate: f={f:?} fixed={fixed:?} result={g:?}"); }
        let want = ref_val(&f, &full).unwrap();
        match g.evaluate(&st(&rest)) { Ok((v, _)) => if !close(v, want) { fail!(n, "partial_evaluate then evaluate gives {v}, the original at the combined assignment gives {want}: f={f:?} fixed={fixed:?} rest={rest:?}"); }, Err(e) => fail!(n, "evaluating the partially evaluated function failed ({e}): f={f:?} fixed={fixed:?} result={g:?}") }
        // instance level, in one and in two steps
        let i = rand_instance(&mut r, 3);
        let s = rand_instance_state(&mut r, &i);
        let fixed: HashMap<u64, f64> = s.iter().filter(|_| r.chance(1, 2)).map(|(k, v)| (*k, *v)).collect();
        let fixed2: HashMap<u64, f64> = s.iter().filter(|(k, _)| !fixed.contains_key(k) && r.chance(1, 3)).map(|(k, v)| (*k, *v)).collect();
        let rest: HashMap<u64, f64> = s.iter().filter(|(k, _)| !fixed.contains_key(k) && !fixed2.contains_key(k)).map(|(k, v)| (*k, *v)).collect();
        if n == 3 { note(|| format!("random: instance with variables {:?}, fix {fixed:?} then {fixed2:?}, evaluate the rest {rest:?}", i.decision_variables.iter().map(|v| v.id).collect::<Vec<_>>())); }
        let (want, _) = match i.evaluate(&st(&s)) { Ok(x) => x, Err(e) => fail!(n, "reference evaluation of a valid instance at an in-bound state failed: {e}") };
        let mut j = i.clone();
        if let Err(e) = j.partial_evaluate(&st(&fixed)) { fail!(n, "Instance::partial_evaluate failed: {e}"); }
        if let Err(e) = j.partial_evaluate(&st(&fixed2)) { fail!(n, "second Instance::partial_evaluate failed: {e}"); }
        for v in &j.decision_variables { let w = fixed.get(&v.id).or(fixed2.get(&v.id)); if v.substituted_value != w.copied() { fail!(n, "variable {} carries substituted_value {:?}, expected {:?} after fixing {fixed:?} then {fixed2:?}", v.id, v.substituted_value, w); } }
        let (got, _) = match j.evaluate(&st(&rest)) { Ok(x) => x, Err(e) => fail!(n, "evaluating the partially evaluated instance at the remaining values failed ({e}); fixed {fixed:?} then {fixed2:?}, rest {rest:?}") };
        if !close(got.objective, want.objective) || got.feasible != want.feasible || got.feasible_relaxed != want.feasible_relaxed { fail!(n, "after fixing {fixed:?} then {fixed2:?}: objective/feasible/relaxed {}/{}/{:?}, original at the combined assignment {}/{}/{:?}", got.objective, got.feasible, got.feasible_relaxed, want.objective, want.feasible, want.feasible_relaxed); }
        let mut a = got.evaluated_constraints.clone(); let mut b = want.evaluated_constraints.clone(); a.sort_by_key(|c| c.id); b.sort_by_key(|c| c.id);
        if a.len() != b.len() || a.iter().zip(b.iter()).any(|(x, y)| x.id != y.id || !close(x.evaluated_value, y.evaluated_value) || x.equality != y.equality) { fail!(n, "constraint values differ after partial evaluation (fixed {fixed:?} then {fixed2:?})"); }
        if got.state.as_ref().map(|x| &x.entries) != want.state.as_ref().map(|x| &x.entries) { fail!(n, "reported variable values differ: {:?} vs {:?} (fixed {fixed:?} then {fixed2:?})", got.state.map(|x| x.entries), want.state.map(|x| x.entries)); }
    }
    ok(n)
}

fn c04() -> Outcome {
    let mut r = Rng::new(4); let mut n = 0;
    for _ in 0..budget() {
        n += 1;
        let f = rand_function(&mut r, &IDS, 3, false);
        let k = 1 + r.below(3); let mut map: HashMap<u64, Function> = HashMap::new();
        for _ in 0..k { let id = r.pick(&IDS); map.insert(id, rand_function(&mut r, &IDS, 2, false)); }
        if n == 3 { note(|| format!("random: substitute {map:?} into {f:?}")); }
        let g = match f.substitute(&map) { Ok(g) => g, Err(e) => fail!(n, "Function::substitute failed ({e}): f={f:?} map={map:?}") };
        for _ in 0..3 {
            let s = rand_state(&mut r, &IDS);
            let mut s2 = s.clone(); for (id, rep) in &map { s2.insert(*id, ref_val(rep, &s).unwrap()); }
            let want = ref_val(&f, &s2).unwrap();
            let got = match g.evaluate(&st(&s)) { Ok(v) => v.0, Err(e) => fail!(n, "evaluating the substituted function failed ({e})") };
            if !close(got, want) { fail!(n, "Function::substitute: f={f:?} replacements={map:?} at {s:?}: substituted function gives {got}, composition gives {want}"); }
        }
    }
    ok(n)
}

fn c05() -> Outcome {
    let mut r = Rng::new(5); let mut n = 0;
    for _ in 0..budget() {
        n += 1;
        let i = rand_instance(&mut r, 3);
        let s = rand_instance_state(&mut r, &i);
        if n == 3 { note(|| format!("random: evaluate instance (objective {:?}, {} active, {} removed constraints) at {s:?}", i.objective, i.constraints.len(), i.removed_constraints.len())); }
        let (sol, _) = match i.evaluate(&st(&s)) { Ok(x) => x, Err(e) => fail!(n, "Instance::evaluate rejected an in-bound complete state ({e}): variables {:?} state {s:?}", i.decision_variables) };
        let want_obj = ref_val(&i.objective.clone().unwrap_or_default(), &s).unwrap();
        if !close(sol.objective, want_obj) { fail!(n, "objective {} but the objective function evaluates to {want_obj} at {s:?}", sol.objective); }
        let holds = |c: &v1::Constraint| { let v = ref_val(&cfun(c), &s).unwrap(); if c.equality == Equality::EqualToZero as i32 { v.abs() < 1e-6 } else { v < 1e-6 } };
        let rel = i.constraints.iter().all(|c| holds(c)); let all = rel && i.removed_constraints.iter().all(|c| holds(c.constraint.as_ref().unwrap()));
        if sol.feasible_relaxed != Some(rel) || sol.feasible != all { fail!(n, "feasible_relaxed={:?} feasible={} but by the 1e-6 rule they are {rel} / {all} at {s:?}", sol.feasible_relaxed, sol.feasible); }
        let mut want_ids: Vec<u64> = i.constraints.iter().map(|c| c.id).chain(i.removed_constraints.iter().map(|c| c.constraint.as_ref().unwrap().id)).collect(); want_ids.sort();
        let mut got_ids: Vec<u64> = sol.evaluated_constraints.iter().map(|c| c.id).collect(); got_ids.sort();
        if want_ids != got_ids { fail!(n, "evaluated constraints {got_ids:?}, expected every active and removed constraint exactly once: {want_ids:?}"); }
        for ec in &sol.evaluated_constraints {
            let (c, reason) = i.constraints.iter().map(|c| (c, None)).chain(i.removed_constraints.iter().map(|c| (c.constraint.as_ref().unwrap(), Some(c.removed_reason.clone())))).find(|(c, _)| c.id == ec.id).unwrap();
            if !close(ec.evaluated_value, ref_val(&cfun(c), &s).unwrap()) || ec.equality != c.equality || ec.removed_reason != reason { fail!(n, "constraint {} reported as value {} equality {} reason {:?}", ec.id, ec.evaluated_value, ec.equality, ec.removed_reason); }
        }
        if sol.state.as_ref().map(|x| &x.entries) != Some(&s) { fail!(n, "reported state {:?} differs from the given complete state {s:?}", sol.state.map(|x| x.entries)); }
    }
    ok(n)
}

fn c09() -> Outcome {
    let mut r = Rng::new(9); let mut n = 0;
    for _ in 0..budget() { for uniform in [false, true] {
        n += 1;
        let i = rand_instance(&mut r, 2);
        let p = match if uniform { i.clone().uniform_penalty_method() } else { i.clone().penalty_method() } { Ok(p) => p, Err(e) => fail!(n, "penalty method failed: {e}") };
        if !p.constraints.is_empty() { fail!(n, "penalty result still has active constraints"); }
        let mut want: Vec<v1::Constraint> = i.removed_constraints.iter().map(|r| r.constraint.clone().unwrap()).chain(i.constraints.iter().cloned()).collect();
        let mut got: Vec<v1::Constraint> = p.removed_constraints.iter().filter_map(|r| r.constraint.clone()).collect();
        want.sort_by_key(|c| c.id); got.sort_by_key(|c| c.id);
        if want != got { fail!(n, "penalty method (uniform={uniform}): the removed constraints of the result are not the input's active+removed constraints"); }
        if p.decision_variables != i.decision_variables || p.sense != i.sense { fail!(n, "variables / sense not carried over"); }
        let dv_ids: BTreeSet<u64> = i.decision_variables.iter().map(|v| v.id).collect();
        let pset: BTreeSet<u64> = p.parameters.iter().map(|q| q.id).collect();
        if pset.len() != p.parameters.len() || pset.iter().any(|q| dv_ids.contains(q)) { fail!(n, "weight parameter ids {pset:?} collide with each other or with decision variables {dv_ids:?} (variable order {:?})", i.decision_variables.iter().map(|v| v.id).collect::<Vec<_>>()); }
        let s: HashMap<u64, f64> = rand_state(&mut r, &dv_ids.iter().cloned().collect::<Vec<_>>());
        let mut full = s.clone(); for q in &p.parameters { full.insert(q.id, r.pick(&[0.0, 0.5, 1.0, 2.0])); }
        let mut want_v = ref_val(&i.objective.clone().unwrap_or_default(), &s).unwrap();
        if uniform { if p.parameters.len() != 1 { fail!(n, "uniform penalty has {} parameters", p.parameters.len()); } let w = full[&p.parameters[0].id]; for c in &i.constraints { let g = ref_val(&cfun(c), &s).unwrap(); want_v += w * g * g; } }
        else { if p.parameters.len() != i.constraints.len() { fail!(n, "{} weight parameters for {} constraints", p.parameters.len(), i.constraints.len()); }
               for q in &p.parameters { let c = match i.constraints.iter().find(|c| Some(c.id as i64) == q.subscripts.first().copied()) { Some(c) => c, None => fail!(n, "weight parameter {q:?} is not tagged with a constraint id") }; let g = ref_val(&cfun(c), &s).unwrap(); want_v += full[&q.id] * g * g; } }
        let got_v = match p.objective.clone().unwrap_or_default().evaluate(&st(&full)) { Ok(v) => v.0, Err(e) => fail!(n, "penalty objective cannot be evaluated: {e}") };
        if !close(got_v, want_v) { fail!(n, "penalty objective (uniform={uniform}) at x={s:?}: got {got_v}, expected f + weighted squared violations = {want_v}"); }
    } }
    ok(n)
}

fn c10() -> Outcome {
    let mut r = Rng::new(10); let mut n = 0;
    for _ in 0..budget() {
        n += 1;
        let i = rand_instance(&mut r, 3);
        if i.decision_variables.len() < 3 { continue; }
        // the last two listed variables become parameters
        let mut p: v1::ParametricInstance = i.clone().into();
        let pv: Vec<v1::DecisionVariable> = p.decision_variables.split_off(p.decision_variables.len() - 2);
        p.parameters = pv.iter().map(|v| { let mut q = v1::Parameter::default(); q.id = v.id; q }).collect();
        p.removed_constraints.clear();
        let mut params = v1::Parameters::default();
        for q in &p.parameters { params.entries.insert(q.id, r.value()); }
        let missing = r.chance(1, 5);
        if missing { if r.chance(1, 2) { params.entries.clear(); } else { let k = p.parameters[0].id; params.entries.remove(&k); } }
        match p.clone().with_parameters(params.clone()) {
            Err(e) => if !missing { fail!(n, "with_parameters failed although every parameter was given: {e}") },
            Ok(j) => {
                if missing { fail!(n, "with_parameters succeeded although a declared parameter was omitted"); }
                if j.decision_variables != p.decision_variables || j.sense != p.sense || j.parameters.as_ref().map(|q| &q.entries) != Some(&params.entries) { fail!(n, "variables / sense changed or the supplied values are not recorded"); }
                let xs: HashMap<u64, f64> = p.decision_variables.iter().map(|v| (v.id, r.value())).collect();
                let mut full = xs.clone(); full.extend(params.entries.iter().map(|(k, v)| (*k, *v)));
                let pairs: Vec<(Function, Function)> = std::iter::once((j.objective.clone().unwrap_or_default(), p.objective.clone().unwrap_or_default())).chain(j.constraints.iter().zip(p.constraints.iter()).map(|(a, b)| (cfun(a), cfun(b)))).collect();
                if j.constraints.len() != p.constraints.len() { fail!(n, "number of constraints changed"); }
                for (a, b) in pairs { let want = ref_val(&b, &full).unwrap(); match a.evaluate(&st(&xs)) { Ok((v, _)) => if !close(v, want) { fail!(n, "instantiated function gives {v} at x={xs:?}, the parametric function {b:?} at (x, p={:?}) gives {want}", params.entries); }, Err(e) => fail!(n, "instantiated function {a:?} still needs a non-decision variable ({e}); parameters {:?}", params.entries) } }
            }
        }
    }
    ok(n)
}

fn c11() -> Outcome {
    let mut r = Rng::new(11); let mut n = 0;
    for _ in 0..budget() {
        n += 1;
        let o = rand_function(&mut r, &IDS, 4, true);
        let i = inst(IDS.iter().map(|k| dv(*k, Kind::Binary, None)).collect(), o.clone(), vec![]);
        let pubo = match i.as_pubo_format() { Ok(p) => p, Err(e) => fail!(n, "as_pubo_format refused a valid binary minimisation instance ({e}): {o:?}") };
        let pubo: Vec<(Vec<u64>, f64)> = pubo.iter().map(|(k, v)| (k.iter().cloned().collect::<Vec<u64>>(), *v)).collect();
        for (k, v) in &pubo { if *v == 0.0 || k.windows(2).any(|w| w[0] >= w[1]) { fail!(n, "PUBO entry {k:?} -> {v} is zero or not a canonical key"); } }
        let max_distinct = { let mut m = 0; for (ids, c) in &o { if c.abs() > f64::EPSILON { let s: BTreeSet<u64> = ids.iter().cloned().collect(); m = m.max(s.len()); } } m };
        let qubo = i.as_qubo_format();
        if max_distinct <= 2 && qubo.is_err() { fail!(n, "as_qubo_format refused an objective with at most two distinct variables per term: {o:?}"); }
        if max_distinct > 2 && qubo.is_ok() { fail!(n, "as_qubo_format accepted a term with more than two distinct variables: {o:?}"); }
        for bits in 0u32..16 {
            let s: HashMap<u64, f64> = IDS.iter().enumerate().map(|(k, id)| (*id, (bits >> k & 1) as f64)).collect();
            let want = ref_val(&o, &s).unwrap();
            let pv: f64 = pubo.iter().map(|(k, v)| v * k.iter().map(|id| s[id]).product::<f64>()).sum();
            if !close(pv, want) { fail!(n, "PUBO of {o:?} evaluates to {pv} at {s:?}, objective is {want}"); }
            if let Ok((q, off)) = &qubo { for (k, v) in q.iter() { if *v == 0.0 || k.0 > k.1 { fail!(n, "QUBO entry {k:?} -> {v} zero or not canonical"); } } let qv: f64 = off + q.iter().map(|(k, v)| v * s[&k.0] * s[&k.1]).sum::<f64>(); if !close(qv, want) { fail!(n, "QUBO of {o:?} evaluates to {qv} at {s:?}, objective is {want}"); } }
        }
    }
    ok(n)
}

fn c14() -> Outcome {
    let mut r = Rng::new(14); let mut n = 0;
    for _ in 0..budget() {
        n += 1;
        let base = rand_instance(&mut r, 2);
        let s = rand_instance_state(&mut r, &base);
        let (ref_sol, _) = match base.evaluate(&st(&s)) { Ok(x) => x, Err(e) => fail!(n, "reference evaluation failed: {e}") };
        let all_ids: Vec<u64> = base.constraints.iter().map(|c| c.id).chain(base.removed_constraints.iter().map(|c| c.constraint.as_ref().unwrap().id)).chain([999u64]).collect();
        let mut i = base.clone();
        let mut ops = vec![];
        for k in 0..8 {
            let relax = r.chance(1, 2); let id = r.pick(&all_ids); ops.push((relax, id));
            let before = i.clone();
            let in_list = if relax { i.constraints.iter().any(|c| c.id == id) } else { i.removed_constraints.iter().any(|c| c.constraint.as_ref().map(|c| c.id) == Some(id)) };
            let res = if relax { i.relax_constraint(id, format!("r{k}"), HashMap::new()) } else { i.restore_constraint(id) };
            if res.is_ok() != in_list { fail!(n, "sequence {ops:?}: step {k} ok={} but the id is{} in the expected list", res.is_ok(), if in_list { "" } else { " not" }); }
            if !in_list && i != before { fail!(n, "sequence {ops:?}: the failing step {k} changed the instance"); }
            let mut now: Vec<v1::Constraint> = i.constraints.iter().cloned().chain(i.removed_constraints.iter().filter_map(|c| c.constraint.clone())).collect();
            let mut orig: Vec<v1::Constraint> = base.constraints.iter().cloned().chain(base.removed_constraints.iter().filter_map(|c| c.constraint.clone())).collect();
            now.sort_by_key(|c| c.id); orig.sort_by_key(|c| c.id);
            if now != orig { fail!(n, "sequence {ops:?}: after step {k} the collection of active plus removed constraints changed"); }
            let (sol, _) = match i.evaluate(&st(&s)) { Ok(x) => x, Err(e) => fail!(n, "evaluation after sequence {ops:?} failed: {e}") };
            let mut a = sol.evaluated_constraints.clone(); let mut b = ref_sol.evaluated_constraints.clone(); a.sort_by_key(|c| c.id); b.sort_by_key(|c| c.id);
            if sol.feasible != ref_sol.feasible || a.len() != b.len() || a.iter().zip(b.iter()).any(|(x, y)| x.id != y.id || x.evaluated_value != y.evaluated_value) { fail!(n, "sequence {ops:?}: per-constraint values or overall feasibility changed after step {k}"); }
        }
    }
    ok(n)
}

fn c16() -> Outcome {
    let mut r = Rng::new(16); let mut n = 0;
    let inf = f64::INFINITY;
    let ends = [-inf, -2.0, -0.5, 0.0, 0.5, 3.0, inf];
    for _ in 0..budget() {
        n += 1;
        let f = rand_function(&mut r, &IDS, 4, true);
        let mut bounds: HashMap<ommx::VariableID, ommx::Bound> = HashMap::new(); let mut bx: HashMap<u64, (f64, f64)> = HashMap::new();
        for id in IDS { if r.chance(1, 6) { bx.insert(id, (-inf, inf)); continue; } let (a, b) = loop { let a = r.pick(&ends); let b = r.pick(&ends); if a <= b && a != inf && b != -inf { break (a, b); } }; bx.insert(id, (a, b)); bounds.insert(ommx::VariableID::from(id), ommx::Bound::new(a, b).unwrap()); }
        if n == 3 { note(|| format!("random: evaluate_bound of {f:?} on the box {bx:?}, checked at corner and interior points")); }
        let fb = match std::panic::catch_unwind(std::panic::AssertUnwindSafe(|| f.evaluate_bound(&bounds))) { Ok(b) => b, Err(_) => continue /* 0 * unbounded / overflow: documented panics outside the quantifier */ };
        if fb.lower().is_nan() || fb.upper().is_nan() || fb.lower() > fb.upper() { fail!(n, "evaluate_bound of {f:?} on {bx:?} = {fb:?} is not a valid interval"); }
        for _ in 0..6 {
            let s: HashMap<u64, f64> = IDS.iter().map(|id| { let (a, b) = bx[id]; let lo = if a.is_finite() { a } else { b.min(0.0) - 1024.0 }; let hi = if b.is_finite() { b } else { a.max(0.0) + 1024.0 }; (*id, match r.below(3) { 0 => lo, 1 => hi, _ => (lo + hi) / 2.0 }) }).collect();
            let v = ref_val(&f, &s).unwrap();
            let tol = 1e-9 * (1.0 + v.abs());
            if v.is_finite() && !(fb.lower() <= v + tol && v - tol <= fb.upper()) { fail!(n, "evaluate_bound of {f:?} on the box {bx:?} is {fb:?}, which does not contain f({s:?}) = {v}"); }
        }
    }
    ok(n)
}

fn c12() -> Outcome {
    // every width up to the budget-dependent limit (quick: 64, thorough: 4096), brute force over all bit patterns
    let mut n = 0; let mut r = Rng::new(12);
    let maxw: i64 = if budget() >= 5000 { 4096 } else { 64 };
    for w in 0..=maxw {
        n += 1;
        let l = r.pick(&[-5.0, 0.0, 3.0, -1000.0, 0.5, -2.5]); let u = l + w as f64 + r.pick(&[0.0, 0.25]);
        let mut order = vec![9u64, 3, 40]; r.shuffle(&mut order);
        let dvs = order.iter().map(|&id| if id == 3 { dv(3, Kind::Integer, Some((l, u))) } else { dv(id, Kind::Continuous, None) }).collect();
        let mut i = inst(dvs, Function::default(), vec![]);
        let (lo, up) = (l.ceil() as i64, u.floor() as i64);
        let enc = match i.log_encode(3) { Ok(e) => e, Err(e) => { if lo <= up { fail!(n, "log_encode failed ({e}) on [{l}, {u}]"); } continue; } };
        if lo > up { fail!(n, "log_encode succeeded on [{l}, {u}] which contains no integer"); }
        let k = enc.terms.len();
        if k > 13 { fail!(n, "log_encode used {k} bits for the range [{l}, {u}]"); }
        let new_ids: BTreeSet<u64> = i.decision_variables[3..].iter().map(|v| v.id).collect();
        if new_ids.len() != k || enc.terms.iter().any(|t| !new_ids.contains(&t.id)) || new_ids.iter().any(|x| order.contains(x)) || i.decision_variables[3..].iter().any(|v| v.kind != Kind::Binary as i32) { fail!(n, "log_encode on [{l}, {u}] with variables {order:?}: encoding terms {:?} vs registered binaries {new_ids:?}", enc.terms); }
        let mut seen = vec![false; (up - lo + 1) as usize];
        for bits in 0u32..(1u32 << k) { let mut v = enc.constant; for (j, t) in enc.terms.iter().enumerate() { if bits >> j & 1 == 1 { v += t.coefficient; } } if v.fract() != 0.0 || (v as i64) < lo || (v as i64) > up { fail!(n, "log_encode on [{l}, {u}]: bit pattern {bits:b} gives {v}, outside {lo}..={up}"); } seen[(v as i64 - lo) as usize] = true; }
        if let Some(m) = seen.iter().position(|x| !x) { fail!(n, "log_encode on [{l}, {u}]: the integer {} is not reachable by any bit pattern", lo + m as i64); }
    }
    ok(n)
}

pub fn run(prop: &str) -> Option<Outcome> {
    Some(match prop { "C01" => c01(), "C02" => c02(), "C03" => c03(), "C04" => c04(), "C05" => c05(), "C09" => c09(), "C10" => c10(), "C11" => c11(), "C12" => c12(), "C14" => c14(), "C16" => c16(), _ => return None })
}
