// Bounded stand-ins, part 3: C17 (MPS text) and C19 (QPLIB text) through the public loaders, with an independent writer and an
// independent reading of the abstract model.  Never counted as proof.
use crate::bounded::*;
use ommx::v1::{self, decision_variable::Kind, Equality, Instance};
use std::collections::{BTreeSet, HashMap};

macro_rules! fail { ($n:expr, $d:expr, $($a:tt)*) => { return Outcome { cases: $n, distinct: $d.len(), fail: Some(format!($($a)*)) } } }
/// Coefficient of the degree-one monomial x_id as stored in the message (sum over repeated entries; 0 when absent).
fn lin_coeff(f: &v1::Function, id: u64) -> f64 {
    use v1::function::Function as F;
    let lin = |l: &v1::Linear| l.terms.iter().filter(|t| t.id == id).map(|t| t.coefficient).sum::<f64>();
    match &f.function {
        Some(F::Linear(l)) => lin(l),
        Some(F::Quadratic(q)) => q.linear.as_ref().map(|l| lin(l)).unwrap_or(0.0),
        Some(F::Polynomial(p)) => p.terms.iter().filter(|m| m.ids == vec![id]).map(|m| m.coefficient).sum::<f64>(),
        _ => 0.0,
    }
}
fn close(a: f64, b: f64) -> bool { (a - b).abs() <= 1e-9 * (1.0 + a.abs().max(b.abs())) }

// ------------------------------------------------------------------ C17
#[derive(Clone, Debug)]
struct Col { name: &'static str, integer: bool, obj: f64, bounds: Vec<(&'static str, Option<f64>)> }
#[derive(Clone, Debug)]
struct Row { name: &'static str, ty: char, coefs: Vec<(usize, f64)>, rhs: Option<f64>, range: Option<f64> }
#[derive(Clone, Debug)]
struct Model { maximize: Option<bool>, obj_name: &'static str, obj_rhs: Option<f64>, cols: Vec<Col>, rows: Vec<Row> }

fn render(m: &Model, layout: u32) -> String {
    // layout bits: 1 = two entries per line where possible, 2 = comments and blank lines, 4 = OBJSENSE on its own line, 8 = wide spacing/tabs
    let sp = if layout & 8 != 0 { "    " } else { " " };
    let mut s = String::new();
    if layout & 2 != 0 { s.push_str("* generated\n  \n"); }
    s.push_str("NAME          model1\n");
    if let Some(mx) = m.maximize { if layout & 4 != 0 { s.push_str(&format!("OBJSENSE\n{}{sp}{}\n", if layout & 2 != 0 { "   \n" } else { "" }, if mx { "MAX" } else { "MIN" })); } else { s.push_str(&format!("OBJSENSE {}\n", if mx { "MAX" } else { "MIN" })); } }
    s.push_str("ROWS\n");
    s.push_str(&format!("{sp}N{sp}{}\n", m.obj_name));
    // blank lines: empty, made of spaces, or containing a tab
    for (k, r) in m.rows.iter().enumerate() { s.push_str(&format!("{sp}{}{sp}{}\n", r.ty, r.name)); if layout & 2 != 0 { s.push_str(["\n", "    \n", " \t \n"][k % 3]); } }
    s.push_str("COLUMNS\n");
    let mut in_int = false; let mut mk = 0;
    for (j, c) in m.cols.iter().enumerate() {
        if c.integer != in_int { mk += 1; s.push_str(&format!("{sp}MARKER{mk}{sp}'MARKER'{sp}{}\n", if c.integer { "'INTORG'" } else { "'INTEND'" })); in_int = c.integer; }
        let mut entries: Vec<(String, f64)> = vec![];
        if c.obj != 0.0 { entries.push((m.obj_name.to_string(), c.obj)); }
        for r in &m.rows { for (k, v) in &r.coefs { if *k == j { entries.push((r.name.to_string(), *v)); } } }
        if entries.is_empty() { entries.push((m.obj_name.to_string(), 0.0)); }
        let per = if layout & 1 != 0 { 2 } else { 1 };
        for ch in entries.chunks(per) { s.push_str(&format!("{sp}{}", c.name)); for (rn, v) in ch { s.push_str(&format!("{sp}{rn}{sp}{v}")); } s.push('\n'); }
        if layout & 2 != 0 && j == 0 { s.push_str("* a comment line\n"); }
        if layout & 2 != 0 && j == 1 { s.push_str("      \n"); }
    }
    if in_int { s.push_str(&format!("{sp}MARKEREND{sp}'MARKER'{sp}'INTEND'\n")); }
    s.push_str("RHS\n");
    let mut rhs: Vec<(String, f64)> = vec![];
    if let Some(b) = m.obj_rhs { rhs.push((m.obj_name.to_string(), b)); }
    for r in &m.rows { if let Some(b) = r.rhs { rhs.push((r.name.to_string(), b)); } }
    let per = if layout & 1 != 0 { 2 } else { 1 };
    for ch in rhs.chunks(per) { s.push_str(&format!("{sp}RHS1")); for (rn, v) in ch { s.push_str(&format!("{sp}{rn}{sp}{v}")); } s.push('\n'); if layout & 2 != 0 { s.push_str("   \n"); } }
    if m.rows.iter().any(|r| r.range.is_some()) {
        s.push_str("RANGES\n");
        for r in &m.rows { if let Some(g) = r.range { s.push_str(&format!("{sp}RNG{sp}{}{sp}{g}\n", r.name)); if layout & 2 != 0 { s.push_str("  \n"); } } }
    }
    if m.cols.iter().any(|c| !c.bounds.is_empty()) {
        s.push_str("BOUNDS\n");
        for c in &m.cols { for (k, v) in &c.bounds { match v { Some(v) => s.push_str(&format!("{sp}{k}{sp}BND{sp}{}{sp}{v}\n", c.name)), None => s.push_str(&format!("{sp}{k}{sp}BND{sp}{}\n", c.name)) } } }
    }
    if layout & 2 != 0 { s.push_str("    \n"); }
    s.push_str("ENDATA\n");
    s
}

// independent reading of a column's kind and bounds (statement of C17)
fn expect_col(c: &Col) -> (bool /*integer-like*/, bool /*declared binary*/, f64, f64) {
    let (mut l, mut u) = (0.0f64, f64::INFINITY);
    let mut integer = c.integer; let mut binary = false; let mut lo_given = false; let mut neg_up = false;
    for (k, v) in &c.bounds {
        match (*k, v) {
            ("UP", Some(v)) => { u = *v; if *v < 0.0 { neg_up = true; } }
            ("LO", Some(v)) => { l = *v; lo_given = true; }
            ("FX", Some(v)) => { l = *v; u = *v; lo_given = true; }
            ("MI", _) => { l = f64::NEG_INFINITY; lo_given = true; }
            ("PL", _) => { u = f64::INFINITY; }
            ("FR", _) => { l = f64::NEG_INFINITY; u = f64::INFINITY; lo_given = true; }
            ("BV", _) => { binary = true; l = 0.0; u = 1.0; lo_given = true; }
            ("LI", Some(v)) => { integer = true; l = *v; lo_given = true; }
            ("UI", Some(v)) => { integer = true; u = *v; }
            _ => {}
        }
    }
    if neg_up && !lo_given { l = f64::NEG_INFINITY; }
    (integer, binary, l, u)
}

fn pt(j: usize, which: usize) -> f64 { [[1.0, -2.0, 0.5, 3.0, -1.0, 2.0], [0.0, 1.0, -1.5, 2.0, 4.0, -0.5], [2.0, 2.0, 2.0, -3.0, 0.25, 1.0]][which][j % 6] }

fn check_mps(m: &Model, i: &Instance) -> Result<(), String> {
    let mut id_of: HashMap<usize, u64> = HashMap::new();
    for (j, c) in m.cols.iter().enumerate() {
        let v = i.decision_variables.iter().find(|v| v.name.as_deref() == Some(c.name)).ok_or(format!("no decision variable named {}", c.name))?;
        id_of.insert(j, v.id);
        let (integer, binary, l, u) = expect_col(c);
        let b = v.bound.clone().ok_or("bound missing")?;
        if b.lower != l || b.upper != u { return Err(format!("column {} with BOUNDS {:?}: bound [{}, {}], expected [{l}, {u}]", c.name, c.bounds, b.lower, b.upper)); }
        let k = v.kind;
        let ok = if binary { k == Kind::Binary as i32 } else if integer { k == Kind::Integer as i32 || (k == Kind::Binary as i32 && l == 0.0 && u == 1.0) } else { k == Kind::Continuous as i32 };
        if !ok { return Err(format!("column {} (integer marker {}, BOUNDS {:?}): kind {k}", c.name, c.integer, c.bounds)); }
    }
    if i.decision_variables.len() != m.cols.len() { return Err(format!("{} decision variables for {} columns", i.decision_variables.len(), m.cols.len())); }
    let want_sense = if m.maximize == Some(true) { v1::instance::Sense::Maximize } else { v1::instance::Sense::Minimize } as i32;
    if i.sense != want_sense { return Err(format!("sense {} expected {want_sense}", i.sense)); }
    let mut expected: Vec<(i32, Vec<f64>, Option<&str>)> = vec![]; // (equality, values at the 3 points, required name)
    let ax = |r: &Row, w: usize| -> f64 { r.coefs.iter().map(|(j, v)| v * pt(*j, w)).sum() };
    for r in &m.rows {
        let b = r.rhs.unwrap_or(0.0);
        let le = Equality::LessThanOrEqualToZero as i32;
        match r.range {
            None => match r.ty {
                'E' => expected.push((Equality::EqualToZero as i32, (0..3).map(|w| ax(r, w) - b).collect(), Some(r.name))),
                'L' => expected.push((le, (0..3).map(|w| ax(r, w) - b).collect(), Some(r.name))),
                _ => expected.push((le, (0..3).map(|w| -ax(r, w) + b).collect(), Some(r.name))),
            },
            Some(g) => {
                let (h, u) = match r.ty { 'G' => (b, b + g.abs()), 'L' => (b - g.abs(), b), _ => if g > 0.0 { (b, b + g.abs()) } else { (b - g.abs(), b) } };
                expected.push((le, (0..3).map(|w| -ax(r, w) + h).collect(), None));
                expected.push((le, (0..3).map(|w| ax(r, w) - u).collect(), None));
            }
        }
    }
    if i.constraints.len() != expected.len() { return Err(format!("{} constraints, expected {}", i.constraints.len(), expected.len())); }
    let vals = |f: &v1::Function| -> Vec<f64> { (0..3).map(|w| { let s: HashMap<u64, f64> = id_of.iter().map(|(j, id)| (*id, pt(*j, w))).collect(); ref_val(f, &s).unwrap_or(f64::NAN) }).collect() };
    let mut used = vec![false; i.constraints.len()];
    expected.sort_by_key(|e| e.2.is_none());   // expectations that name their constraint are matched first
    for (eq, v, name) in &expected {
        let hit = i.constraints.iter().enumerate().position(|(k, c)| !used[k] && c.equality == *eq && c.function.as_ref().map(|f| vals(f).iter().zip(v.iter()).all(|(a, b)| close(*a, *b))).unwrap_or(false) && name.map(|n| c.name.as_deref() == Some(n)).unwrap_or(true));
        match hit { Some(k) => used[k] = true, None => return Err(format!("no constraint with equality {eq}, name {name:?} and values {v:?} at the probe points; constraints read: {:?}", i.constraints.iter().map(|c| (c.name.clone(), c.equality, c.function.as_ref().map(|f| vals(f)))).collect::<Vec<_>>())) }
    }
    for r in m.rows.iter().filter(|r| r.range.is_some()) { if !i.constraints.iter().any(|c| c.name.as_deref() == Some(r.name)) { return Err(format!("ranged row {} lost its name", r.name)); } }
    let ov = vals(i.objective.as_ref().ok_or("objective missing")?);
    for w in 0..3 { let want: f64 = m.cols.iter().enumerate().map(|(j, c)| c.obj * pt(j, w)).sum::<f64>() - m.obj_rhs.unwrap_or(0.0); if !close(ov[w], want) { return Err(format!("objective value {} at probe point {w}, expected {want} (objective row RHS {:?})", ov[w], m.obj_rhs)); } }
    Ok(())
}

fn models() -> Vec<Model> {
    let c = |name, integer, obj, bounds: &[(&'static str, Option<f64>)]| Col { name, integer, obj, bounds: bounds.to_vec() };
    let r = |name, ty, coefs: &[(usize, f64)], rhs, range| Row { name, ty, coefs: coefs.to_vec(), rhs, range };
    let mut v = vec![];
    // every bound type
    v.push(Model { maximize: None, obj_name: "COST", obj_rhs: None, cols: vec![
        c("X1", false, 1.0, &[("UP", Some(4.0))]), c("X2", false, 2.0, &[("LO", Some(-1.5))]), c("Y3", false, 0.0, &[("FX", Some(2.5))]), c("Z4", false, -1.0, &[("MI", None)]),
        c("W5", false, 0.5, &[("FR", None)]), c("V6", false, 3.0, &[("UP", Some(-2.0))])],
        rows: vec![r("R1", 'L', &[(0, 1.0), (1, 1.0)], Some(4.0), None), r("R2", 'G', &[(2, 1.0), (3, -2.0), (4, 1.0)], Some(-1.0), None), r("R3", 'E', &[(5, 1.0), (0, 2.0)], None, None)] });
    v.push(Model { maximize: Some(true), obj_name: "obj", obj_rhs: Some(-5.0), cols: vec![
        c("a", false, 1.0, &[("PL", None)]), c("b", false, 1.0, &[("BV", None)]), c("c", true, 2.0, &[("UP", Some(10.0))]), c("d", true, -3.0, &[("LO", Some(0.0)), ("UP", Some(1.0))]),
        c("e", false, 1.0, &[("LI", Some(-3.0))]), c("f", false, 1.0, &[("UI", Some(7.0))])],
        rows: vec![r("lim1", 'L', &[(0, 1.0), (2, 1.0), (4, 1.0)], Some(10.0), None), r("lim2", 'G', &[(1, 1.0), (3, 1.0), (5, 2.0)], Some(1.0), None)] });
    v.push(Model { maximize: Some(false), obj_name: "OBJ", obj_rhs: Some(2.0), cols: vec![
        c("x", false, 1.0, &[("UP", Some(0.0))]), c("y", true, 1.0, &[]), c("z", false, 0.0, &[("LO", Some(1.0)), ("UP", Some(-1.0 + 3.0))]), c("OMMX_VAR_3", false, 1.0, &[("UP", Some(-1.0)), ("LO", Some(-4.0))])],
        rows: vec![r("c1", 'E', &[(0, 1.0), (1, -1.0)], Some(0.5), None), r("c2", 'L', &[(2, 2.0), (3, 1.0)], None, None), r("c3", 'G', &[(0, 1.0)], Some(-2.0), None), r("c4", 'L', &[(1, 3.0)], Some(9.0), None), r("c5", 'E', &[(3, 1.0), (2, 1.0)], Some(-1.0), None)] });
    // ranges: every row type with positive and negative range
    for (k, (ty, g)) in [('G', 2.0), ('G', -2.0), ('L', 3.0), ('L', -3.0), ('E', 1.5), ('E', -1.5)].iter().enumerate() {
        v.push(Model { maximize: None, obj_name: "COST", obj_rhs: None, cols: vec![c("x", false, 1.0, &[]), c("y", k % 2 == 0, 2.0, &[("UP", Some(5.0))])],
            rows: vec![r("r1", *ty, &[(0, 1.0), (1, 2.0)], Some(1.0), Some(*g)), r("r2", 'L', &[(0, 1.0)], Some(8.0), None), r("rr", if *ty == 'E' { 'G' } else { 'E' }, &[(1, 1.0)], if k % 2 == 0 { None } else { Some(-4.0) }, if k < 2 { Some(4.0) } else { None })] });
    }
    v
}

pub fn c17() -> Outcome {
    let mut n = 0; let mut d = BTreeSet::new();
    for (mi, m) in models().iter().enumerate() { for layout in 0..16u32 {
        n += 1; d.insert((mi, layout));
        let text = render(m, layout);
        if layout == 3 && mi < 3 { note(|| format!("MPS text (layout {layout}):\n{text}")); }
        let gz = layout & 8 != 0 && layout & 1 != 0;
        let r = if gz { use std::io::Write; let mut e = flate2_encode(&text); e.flush().ok(); ommx::mps::load_zipped_reader(&e[..]) } else { ommx::mps::load_raw_reader(text.as_bytes()) };
        let i = match r { Ok(i) => i, Err(e) => fail!(n, d, "well-formed MPS text was rejected ({e}):\n{text}") };
        if let Err(e) = check_mps(m, &i) { fail!(n, d, "MPS model {mi} layout {layout}: {e}\n--- text ---\n{text}"); }
    } }
    // the path-based loader (mps::load_file reads a gzipped file) gives the same instance as the readers
    {
        let dir = std::env::var("RX_TMP").unwrap_or_else(|_| ".".to_string()); let _ = std::fs::create_dir_all(&dir);
        for (mi, m) in models().iter().enumerate() { for (layout, name) in [(1u32, "model.mps.gz"), (6, "model.gz"), (10, "MODEL.MPS.GZ")] {
            n += 1; d.insert((500 + mi, layout));
            let text = render(m, layout);
            let path = format!("{dir}/c17_{}_{name}", std::process::id());
            if let Err(e) = std::fs::write(&path, flate2_encode(&text)) { fail!(n, d, "internal: cannot write {path}: {e}"); }
            let r = ommx::mps::load_file(&path); let _ = std::fs::remove_file(&path);
            let i = match r { Ok(i) => i, Err(e) => fail!(n, d, "mps::load_file rejected a gzipped well-formed MPS file named {name} ({e}):\n{text}") };
            if let Err(e) = check_mps(m, &i) { fail!(n, d, "mps::load_file on a gzipped file named {name} (model {mi}, layout {layout}): {e}\n--- text ---\n{text}"); }
        } }
    }
    // malformed inputs are reported as errors
    let good = render(&models()[0], 0);
    let bad: Vec<(&str, String)> = vec![
        ("undeclared row in COLUMNS", good.replacen(" X1 R1 1", " X1 NOROW 1", 1)),
        ("unknown row type", good.replacen(" L R1", " Q R1", 1)),
        ("unknown bound type", good.replacen(" UP BND X1", " XX BND X1", 1)),
        ("unknown objective sense", good.replacen("ROWS", "OBJSENSE MAXIMUM\nROWS", 1)),
        ("unparsable number", good.replacen(" X1 R1 1", " X1 R1 1.0.0", 1)),
        ("unknown marker", good.replacen("COLUMNS\n", "COLUMNS\n M1 'MARKER' 'INTBEGIN'\n", 1)),
        ("unknown section", good.replacen("RHS\n", "RIGHTHAND\n", 1)),
        // the same faults in the later sections
        ("undeclared row in RHS", good.replacen(" RHS1 R1 4", " RHS1 NOROW 4", 1)),
        ("unparsable number in RHS", good.replacen(" RHS1 R1 4", " RHS1 R1 4x", 1)),
        ("unparsable number in BOUNDS", good.replacen(" UP BND X1 4", " UP BND X1 four", 1)),
        ("unparsable number in the objective entry of COLUMNS", good.replacen(" X1 COST 1", " X1 COST 1e", 1)),
    ];
    let good_r = render(&models()[3], 0);
    let bad_r: Vec<(&str, String)> = vec![
        ("undeclared row in RANGES", good_r.replacen(" RNG r1 2", " RNG norow 2", 1)),
        ("unparsable number in RANGES", good_r.replacen(" RNG r1 2", " RNG r1 2..0", 1)),
    ];
    for (k, (name, text)) in bad_r.iter().enumerate() {
        n += 1; d.insert((1100 + k, 0));
        if text == &good_r { fail!(n, d, "internal: mutation '{name}' did not change the text:\n{good_r}"); }
        let r = std::panic::catch_unwind(|| ommx::mps::load_raw_reader(text.as_bytes()));
        match r { Ok(Err(_)) => {}, Ok(Ok(_)) => fail!(n, d, "malformed MPS text accepted ({name}):\n{text}"), Err(_) => fail!(n, d, "malformed MPS text caused a panic instead of an error ({name}):\n{text}") }
    }
    for (k, (name, text)) in bad.iter().enumerate() {
        n += 1; d.insert((1000 + k, 0));
        if text == &good { fail!(n, d, "internal: mutation '{name}' did not change the text"); }
        let r = std::panic::catch_unwind(|| ommx::mps::load_raw_reader(text.as_bytes()));
        match r { Ok(Err(_)) => {}, Ok(Ok(_)) => fail!(n, d, "malformed MPS text accepted ({name}):\n{text}"), Err(_) => fail!(n, d, "malformed MPS text caused a panic instead of an error ({name}):\n{text}") }
    }
    Outcome { cases: n, distinct: d.len(), fail: None }
}

// minimal gzip writer (stored blocks) so the zipped loader is exercised without depending on a compression crate
fn flate2_encode(text: &str) -> Vec<u8> {
    let data = text.as_bytes();
    let mut out = vec![0x1f, 0x8b, 8, 0, 0, 0, 0, 0, 0, 255];
    let mut rest = data;
    if rest.is_empty() { out.extend_from_slice(&[1, 0, 0, 0xff, 0xff]); }
    while !rest.is_empty() {
        let k = rest.len().min(65535);
        let last = if k == rest.len() { 1u8 } else { 0 };
        out.push(last);
        out.extend_from_slice(&(k as u16).to_le_bytes());
        out.extend_from_slice(&(!(k as u16)).to_le_bytes());
        out.extend_from_slice(&rest[..k]);
        rest = &rest[k..];
    }
    let mut crc: u32 = 0xffff_ffff;
    for b in data { crc ^= *b as u32; for _ in 0..8 { crc = if crc & 1 != 0 { (crc >> 1) ^ 0xedb8_8320 } else { crc >> 1 }; } }
    out.extend_from_slice(&(!crc).to_le_bytes());
    out.extend_from_slice(&(data.len() as u32).to_le_bytes());
    out
}

// ------------------------------------------------------------------ C19
#[derive(Clone, Debug)]
struct Qp { o: char, v: char, c: char, maximize: bool, nvars: usize, q0: Vec<(usize, usize, f64)>, b0_default: f64, b0: Vec<(usize, f64)>, q0c: f64,
            qi: Vec<(usize, usize, usize, f64)>, bi: Vec<(usize, usize, f64)>, inf: f64, cl: Vec<f64>, cu: Vec<f64>, lb: Vec<f64>, ub: Vec<f64>, types: Vec<u8>, names: Vec<(usize, &'static str)> }

fn render_qp(q: &Qp, comments: bool) -> String {
    let mut s = String::new();
    let cm = |t: &str| if comments { format!(" # {t}") } else { String::new() };
    if comments { s.push_str("! generated file\n\n  \n"); }
    s.push_str(&format!("QP_TEST{}\n", if comments { " trailing words" } else { "" }));
    s.push_str(&format!("{}{}{}{}\n", q.o, q.v, q.c, cm("problem type")));
    s.push_str(&format!("{}{}\n", if q.maximize { "maximize" } else { "minimize" }, cm("sense")));
    s.push_str(&format!("{}{}\n", q.nvars, cm("variables")));
    let ncon = q.cl.len();
    let has_c = !(q.c == 'N' || q.c == 'B');
    if has_c { s.push_str(&format!("{ncon}{}\n", cm("constraints"))); }
    if q.o != 'L' { s.push_str(&format!("{}{}\n", q.q0.len(), cm("nnz Q0"))); for (i, j, v) in &q.q0 { s.push_str(&format!("{} {} {v}\n", i + 1, j + 1)); } }
    s.push_str(&format!("{}{}\n", q.b0_default, cm("default b0")));
    s.push_str(&format!("{}\n", q.b0.len())); for (i, v) in &q.b0 { s.push_str(&format!("{} {v}{}\n", i + 1, cm("entry"))); }
    s.push_str(&format!("{}{}\n", q.q0c, cm("q0")));
    if has_c {
        if q.c != 'L' { s.push_str(&format!("{}\n", q.qi.len())); for (m, i, j, v) in &q.qi { s.push_str(&format!("{} {} {} {v}\n", m + 1, i + 1, j + 1)); } }
        s.push_str(&format!("{}\n", q.bi.len())); for (m, i, v) in &q.bi { s.push_str(&format!("{} {} {v}\n", m + 1, i + 1)); }
    }
    if comments { s.push_str("% another comment style\n   \n\t\n"); }   // and blank lines made of spaces / a tab
    s.push_str(&format!("{}{}\n", q.inf, cm("infinity")));
    let list = |s: &mut String, vals: &Vec<f64>, default: f64| { s.push_str(&format!("{default}\n")); let nd: Vec<(usize, f64)> = vals.iter().cloned().enumerate().filter(|(_, v)| *v != default).collect(); s.push_str(&format!("{}\n", nd.len())); for (i, v) in nd { s.push_str(&format!("{} {v}\n", i + 1)); } };
    if has_c { list(&mut s, &q.cl, -q.inf); list(&mut s, &q.cu, q.inf); }
    if q.v != 'B' { list(&mut s, &q.lb, 0.0); list(&mut s, &q.ub, q.inf); }
    if q.v == 'M' || q.v == 'G' { s.push_str("0\n"); let nd: Vec<(usize, u8)> = q.types.iter().cloned().enumerate().filter(|(_, t)| *t != 0).collect(); s.push_str(&format!("{}\n", nd.len())); for (i, t) in nd { s.push_str(&format!("{} {t}\n", i + 1)); } }
    s.push_str("0.0\n0\n");
    if has_c { s.push_str("0.0\n0\n"); }
    s.push_str("0.0\n0\n");
    s.push_str(&format!("{}\n", q.names.len())); for (i, nm) in &q.names { s.push_str(&format!("{} {nm}\n", i + 1)); }
    s.push_str("0\n");
    s
}

fn qps() -> Vec<Qp> {
    let mut v = vec![];
    let inf = 1e20;
    for o in ['L', 'D', 'C', 'Q'] { for vk in ['C', 'B', 'M', 'I', 'G'] { for c in ['N', 'B', 'L', 'D', 'C', 'Q'] {
        let nv = 3;
        let has_c = !(c == 'N' || c == 'B');
        let k = (o as usize + vk as usize * 3 + c as usize * 7) % 4;
        let nolin = (o as usize + vk as usize + c as usize) % 3 == 0;   // no linear terms at all: objective / constraint 2 are purely quadratic + constant
        v.push(Qp { o, v: vk, c, maximize: k % 2 == 1, nvars: nv,
            q0: if o == 'L' { vec![] } else if o == 'D' { vec![(0, 0, 4.0), (2, 2, -2.0)] } else { vec![(0, 0, 4.0), (1, 0, 3.0), (2, 1, -1.0), (2, 2, 1.0)] },
            b0_default: if k == 0 || nolin { 0.0 } else { 1.5 }, b0: if nolin { vec![] } else if k == 2 { vec![(1, 0.0), (2, -2.0)] } else { vec![(0, 2.0)] }, q0c: if nolin { 3.0 } else { [0.0, 3.0, -1.5, 7.0][k] },
            qi: if has_c && c != 'L' { if c == 'D' { vec![(0, 1, 1, 2.0)] } else { vec![(0, 0, 0, 2.0), (0, 1, 0, 1.0), (1, 2, 2, -4.0), (1, 2, 0, 0.5)] } } else { vec![] },
            bi: if has_c { if nolin && c != 'L' { vec![(0, 0, 1.0), (0, 2, -1.0)] } else { vec![(0, 0, 1.0), (0, 2, -1.0), (1, 1, 2.0)] } } else { vec![] }, inf,
            cl: if has_c { vec![-inf, 1.0] } else { vec![] }, cu: if has_c { vec![[4.0, 0.0, -2.0, 5.0][k], if k == 3 { 6.0 } else { inf }] } else { vec![] },
            lb: vec![[0.0, 1.0, 0.0, 0.0][(k + c as usize) % 4], [-3.0, -inf, 0.0, 1.0][k], -1e21], ub: vec![[1.0, 1.0, 0.0, 1.0][(k + c as usize) % 4], 5.0, if k == 1 { 2e20 } else { 8.0 }],   // variable 1: [0,1], fixed [1,1], fixed [0,0]
            types: vec![if vk == 'M' { 2 } else { 1 }, 0, if vk == 'G' { 1 } else { 0 }], names: if k % 2 == 0 { vec![(0, "alpha"), (2, "gamma")] } else { vec![] } });
    } } }
    v
}

fn check_qp(q: &Qp, i: &Instance) -> Result<(), String> {
    if i.decision_variables.len() != q.nvars { return Err(format!("{} variables, expected {}", i.decision_variables.len(), q.nvars)); }
    for j in 0..q.nvars {
        let v = i.decision_variables.iter().find(|v| v.id == j as u64).ok_or(format!("variable id {j} missing"))?;
        let (l, u) = if q.v == 'B' { (0.0, 1.0) } else { (if q.lb[j].abs() >= q.inf { f64::NEG_INFINITY } else { q.lb[j] }, if q.ub[j].abs() >= q.inf { f64::INFINITY } else { q.ub[j] }) };
        let b = v.bound.clone().ok_or("bound missing")?;
        if b.lower != l || b.upper != u { return Err(format!("variable {j}: bound [{}, {}], expected [{l}, {u}] (file {} / {}, infinity {})", b.lower, b.upper, q.lb[j], q.ub[j], q.inf)); }
        let t = match q.v { 'C' => 0, 'B' => 2, 'I' => 1, _ => q.types[j] };
        let want: Vec<i32> = match t { 0 => vec![Kind::Continuous as i32], 2 => vec![Kind::Binary as i32], _ => if (l, u) == (0.0, 1.0) || (l, u) == (1.0, 1.0) || (l, u) == (0.0, 0.0) { vec![Kind::Binary as i32, Kind::Integer as i32] } else { vec![Kind::Integer as i32] } };
        if !want.contains(&v.kind) { return Err(format!("variable {j}: kind {} expected one of {want:?}", v.kind)); }
        let nm = q.names.iter().find(|(k, _)| *k == j).map(|(_, s)| s.to_string());
        if v.name != nm { return Err(format!("variable {j}: name {:?} expected {nm:?}", v.name)); }
    }
    if i.sense != if q.maximize { v1::instance::Sense::Maximize } else { v1::instance::Sense::Minimize } as i32 { return Err("sense".into()); }
    let quadv = |es: &Vec<(usize, usize, f64)>, x: &[f64]| -> f64 { es.iter().map(|(a, b, v)| if a == b { 0.5 * v * x[*a] * x[*a] } else { v * x[*a] * x[*b] }).sum() };
    let pts: Vec<[f64; 3]> = vec![[1.0, 0.0, 0.0], [1.0, 2.0, -1.0], [0.5, -2.0, 3.0], [0.0, 0.0, 0.0]];
    let val = |f: &v1::Function, x: &[f64; 3]| { let s: HashMap<u64, f64> = (0..3).map(|j| (j as u64, x[j])).collect(); ref_val(f, &s).unwrap_or(f64::NAN) };
    let b0: Vec<f64> = (0..q.nvars).map(|j| q.b0.iter().find(|(k, _)| *k == j).map(|(_, v)| *v).unwrap_or(q.b0_default)).collect();
    let obj = i.objective.as_ref().ok_or("objective missing")?;
    for x in &pts { let want = quadv(&q.q0, x) + (0..3).map(|j| b0[j] * x[j]).sum::<f64>() + q.q0c; let got = val(obj, x); if !close(got, want) { return Err(format!("objective at {x:?} is {got}, expected 1/2 x'Q0x + b0'x + q0 = {want} (Q0 lower triangle {:?}, b0 {b0:?}, q0 {})", q.q0, q.q0c)); } }
    // the linear part term by term (a tiny but non-zero default is still a coefficient: the point values above cannot see it)
    for j in 0..q.nvars {
        let got = lin_coeff(obj, j as u64);
        if !(got == b0[j] || (got - b0[j]).abs() <= 1e-9 * b0[j].abs()) { return Err(format!("objective: coefficient of x{j} is {got:e}, expected b0[{j}] = {:e} (default b0 {:e}, listed {:?})", b0[j], q.b0_default, q.b0)); }
    }
    let mut expected: Vec<Vec<f64>> = vec![];
    for m in 0..q.cl.len() {
        let qm: Vec<(usize, usize, f64)> = q.qi.iter().filter(|e| e.0 == m).map(|e| (e.1, e.2, e.3)).collect();
        let expr = |x: &[f64; 3]| quadv(&qm, x) + q.bi.iter().filter(|e| e.0 == m).map(|e| e.2 * x[e.1]).sum::<f64>();
        if q.cu[m].abs() < q.inf { expected.push(pts.iter().map(|x| expr(x) - q.cu[m]).collect()); }
        if q.cl[m].abs() < q.inf { expected.push(pts.iter().map(|x| -expr(x) + q.cl[m]).collect()); }
    }
    if i.constraints.len() != expected.len() { return Err(format!("{} constraints, expected {} (one per finite side)", i.constraints.len(), expected.len())); }
    let mut used = vec![false; expected.len()];
    for e in &expected {
        let hit = i.constraints.iter().enumerate().position(|(k, c)| !used[k] && c.equality == Equality::LessThanOrEqualToZero as i32 && c.function.as_ref().map(|f| pts.iter().zip(e.iter()).all(|(x, w)| close(val(f, x), *w))).unwrap_or(false));
        match hit { Some(k) => used[k] = true, None => return Err(format!("no <=0 constraint with values {e:?} at the probe points {pts:?}; read: {:?}", i.constraints.iter().map(|c| (c.equality, c.function.as_ref().map(|f| pts.iter().map(|x| val(f, x)).collect::<Vec<_>>()))).collect::<Vec<_>>())) }
    }
    let ids: BTreeSet<u64> = i.constraints.iter().map(|c| c.id).collect();
    if ids.len() != i.constraints.len() { return Err("constraint ids are not unique".into()); }
    Ok(())
}

pub fn c19() -> Outcome {
    let mut n = 0; let mut d = BTreeSet::new();
    let dir = std::env::var("RX_TMP").unwrap_or_else(|_| ".".to_string());
    let _ = std::fs::create_dir_all(&dir);
    let path = format!("{dir}/bounded_c19_{}.qplib", std::process::id());
    let load = |text: &str| -> Result<Instance, String> { std::fs::write(&path, text).map_err(|e| e.to_string())?; let r = ommx::qplib::load_file(&path).map_err(|e| format!("{e:#}")); let _ = std::fs::remove_file(&path); r };
    for (qi, q) in qps().iter().enumerate() { for comments in [false, true] {
        n += 1; d.insert((qi, comments));
        let text = render_qp(q, comments);
        if qi == 71 || qi == 3 { note(|| format!("QPLIB text ({}{}{}, comments={comments}):\n{text}", q.o, q.v, q.c)); }
        let i = match load(&text) { Ok(i) => i, Err(e) => fail!(n, d, "well-formed QPLIB text ({}{}{}) was rejected ({e}):\n{text}", q.o, q.v, q.c) };
        if let Err(e) = check_qp(q, &i) { fail!(n, d, "QPLIB {}{}{} (comments={comments}): {e}\n--- text ---\n{text}", q.o, q.v, q.c); }
    } }
    let good = render_qp(&qps()[119], true);   // with comment and blank lines: the reported line number counts EVERY line of the file
    let bad: Vec<(&str, String)> = vec![
        ("bad problem type", good.replacen("QGQ", "QXQ", 1)),
        ("short problem type", good.replacen("QGQ", "QG", 1)),
        ("bad sense", good.replacen("imize", "imise", 1)),
        ("count is not a number", good.replacen("\n3 # variables", "\nthree # variables", 1)),
        ("entry count is not a number", good.replacen("\n4\n1 1 1 2", "\nfour\n1 1 1 2", 1)),
        ("malformed matrix entry", good.replacen("\n2 3 3 -4\n", "\n2 3 x -4\n", 1)),
        ("malformed number", good.replacen("\n1.5 # default b0", "\n1.5.5 # default b0", 1)),
        // a malformed row that is NOT the last row of its multi-row section (the reader must report the row itself, not where the section ends)
        ("malformed value in the middle of the Q0 section", good.replacen("\n2 1 3\n", "\n2 1 3.x\n", 1)),
        ("malformed index in the first row of the Q0 section", good.replacen("\n1 1 4\n", "\none 1 4\n", 1)),
        ("premature end of file", good[..good.len() / 2].to_string()),
        ("empty file", String::new()),
    ];
    for (k, (name, text)) in bad.iter().enumerate() {
        n += 1; d.insert((1000 + k, false));
        if text == &good { fail!(n, d, "internal: mutation '{name}' did not change the text:\n{good}"); }
        match std::panic::catch_unwind(std::panic::AssertUnwindSafe(|| load(text))) {
            Ok(Err(e)) => {
                // the offending line: the first line in which the malformed text differs from the well-formed one (premature end: the last line read)
                let gl: Vec<&str> = good.lines().collect(); let bl: Vec<&str> = text.lines().collect();
                let want = if *name == "premature end of file" || *name == "empty file" { bl.len() } else { (0..bl.len()).find(|k| gl.get(*k) != bl.get(*k)).map(|k| k + 1).unwrap_or(0) };
                let got: Option<usize> = e.rfind("at line ").and_then(|p| e[p + 8..].trim_end_matches(')').trim().parse().ok());
                if got != Some(want) { fail!(n, d, "error for '{name}' carries line {got:?}, the offending line of the file is {want}: {e}\n--- text ---\n{text}"); }
            }
            Ok(Ok(_)) => fail!(n, d, "malformed QPLIB text accepted ({name}):\n{text}"),
            Err(_) => fail!(n, d, "malformed QPLIB text caused a panic instead of an error ({name}):\n{text}"),
        }
    }
    // premature end of file at EVERY line boundary (all sections, the closing name sections included): each proper prefix is an error carrying the last line read
    for good in [render_qp(&qps()[119], true), render_qp(&qps()[119], false), render_qp(&qps()[3], false)] {
        let lines: Vec<&str> = good.lines().collect();
        for k in 0..lines.len() {
            n += 1; d.insert((2000 + k, lines.len() % 2 == 0));
            let text: String = lines[..k].iter().map(|l| format!("{l}\n")).collect();
            match std::panic::catch_unwind(std::panic::AssertUnwindSafe(|| load(&text))) {
                Ok(Err(e)) => {
                    let got: Option<usize> = e.rfind("at line ").and_then(|p| e[p + 8..].trim_end_matches(')').trim().parse().ok());
                    if got != Some(k) { fail!(n, d, "a file cut after line {k} of {} is rejected with line {got:?} (the last line read is {k}): {e}\n--- text ---\n{text}", lines.len()); }
                }
                Ok(Ok(_)) => fail!(n, d, "a QPLIB file cut after line {k} of {} (premature end of file) was accepted:\n{text}", lines.len()),
                Err(_) => fail!(n, d, "a QPLIB file cut after line {k} of {} caused a panic instead of an error", lines.len()),
            }
        }
        // malformed counts / indices in the closing name sections
        let nl = lines.len();
        let vn = (0..nl).rev().find(|k| lines[*k].split_whitespace().count() == 2 && lines[*k].split_whitespace().next().map(|w| w.parse::<usize>().is_ok()) == Some(true) && lines[*k].split_whitespace().nth(1).map(|w| w.parse::<f64>().is_err()) == Some(true));
        let mut muts: Vec<(String, usize, String)> = vec![];
        muts.push(("constraint-name count is not a number".to_string(), nl, { let mut l: Vec<String> = lines.iter().map(|x| x.to_string()).collect(); l[nl - 1] = "zero".to_string(); l.join("\n") + "\n" }));
        if let Some(k) = vn {
            muts.push(("malformed index in a variable-name row".to_string(), k + 1, { let mut l: Vec<String> = lines.iter().map(|x| x.to_string()).collect(); l[k] = format!("x{}", l[k]); l.join("\n") + "\n" }));
        }
        for (name, want, text) in muts {
            n += 1; d.insert((3000 + want, nl % 2 == 0));
            match std::panic::catch_unwind(std::panic::AssertUnwindSafe(|| load(&text))) {
                Ok(Err(e)) => { let got: Option<usize> = e.rfind("at line ").and_then(|p| e[p + 8..].trim_end_matches(')').trim().parse().ok());
                    if got != Some(want) { fail!(n, d, "error for '{name}' carries line {got:?}, the offending line of the file is {want}: {e}\n--- text ---\n{text}"); } }
                Ok(Ok(_)) => fail!(n, d, "malformed QPLIB text accepted ({name}):\n{text}"),
                Err(_) => fail!(n, d, "malformed QPLIB text caused a panic instead of an error ({name})"),
            }
        }
    }
    Outcome { cases: n, distinct: d.len(), fail: None }
}


// ------------------------------------------------------------------ part B: random models
const NAMES: [&str; 8] = ["X1", "y", "Zed", "w_4", "OMMX_VAR_7", "c", "VAR.9", "q"];
const RNAMES: [&str; 6] = ["R1", "lim", "c3", "ROW_4", "e5", "OMMX_CONSTR_1"];

fn rand_model(r: &mut Rng) -> Model {
    let nc = 2 + r.below(5); let nr = 1 + r.below(5);
    let num = |r: &mut Rng| r.pick(&[-4.0, -2.0, -1.5, -1.0, 0.5, 1.0, 2.0, 2.5, 3.0, 10.0]);
    let mut cols = vec![];
    for j in 0..nc {
        let integer = r.chance(1, 3);
        let bounds: Vec<(&'static str, Option<f64>)> = match r.below(14) {
            0 => vec![], 1 => vec![("UP", Some(r.pick(&[0.0, 1.0, 4.0, 7.5])))], 2 => vec![("UP", Some(r.pick(&[-1.0, -2.5])))], 3 => vec![("LO", Some(num(r)))], 4 => vec![("FX", Some(num(r)))],
            5 => vec![("MI", None)], 6 => vec![("PL", None)], 7 => vec![("FR", None)], 8 => vec![("BV", None)], 9 => vec![("LI", Some(r.pick(&[-3.0, 0.0, 2.0])))], 10 => vec![("UI", Some(r.pick(&[1.0, 5.0, 9.0])))],
            11 => { let l = r.pick(&[-5.0, 0.0, 1.0]); vec![("LO", Some(l)), ("UP", Some(l + r.pick(&[0.0, 1.0, 6.0])))] }
            12 => vec![("MI", None), ("UP", Some(r.pick(&[-2.0, 3.0])))],
            _ => vec![("UP", Some(r.pick(&[-3.0, 8.0]))), ("LO", Some(-6.0))],
        };
        cols.push(Col { name: NAMES[j], integer, obj: if r.chance(1, 4) { 0.0 } else { num(r) }, bounds });
    }
    let mut rows = vec![];
    for i in 0..nr {
        let ty = r.pick(&['E', 'L', 'G']);
        let mut coefs: Vec<(usize, f64)> = vec![]; for j in 0..nc { if r.chance(1, 2) { coefs.push((j, num(r))); } }
        if coefs.is_empty() { coefs.push((r.below(nc), 1.0)); }
        rows.push(Row { name: RNAMES[i], ty, coefs, rhs: if r.chance(1, 3) { None } else { Some(num(r)) }, range: if r.chance(1, 4) { Some(r.pick(&[-3.0, -0.5, 1.0, 2.5])) } else { None } });
    }
    // every column must occur somewhere (objective or a row), otherwise the file does not declare it
    Model { maximize: r.pick(&[None, Some(false), Some(true)]), obj_name: r.pick(&["COST", "obj", "OBJ", "z"]), obj_rhs: if r.chance(1, 2) { Some(num(r)) } else { None }, cols, rows }
}

pub fn c17b() -> Outcome {
    let mut r = Rng::new(17); let mut n = 0;
    for _ in 0..budget() {
        n += 1;
        let m = rand_model(&mut r); let layout = r.below(8) as u32;
        let text = render(&m, layout);
        if n == 2 { note(|| format!("random MPS model (layout {layout}):\n{text}")); }
        let i = match ommx::mps::load_raw_reader(text.as_bytes()) { Ok(i) => i, Err(e) => return Outcome { cases: n, distinct: n, fail: Some(format!("well-formed MPS text was rejected ({e}):\n{text}")) } };
        if let Err(e) = check_mps(&m, &i) { return Outcome { cases: n, distinct: n, fail: Some(format!("random MPS model, layout {layout}: {e}\n--- text ---\n{text}")) }; }
    }
    Outcome { cases: n, distinct: n, fail: None }
}

fn rand_qp(r: &mut Rng) -> Qp {
    let inf = 1e20;
    let o = r.pick(&['L', 'D', 'C', 'Q']); let v = r.pick(&['C', 'B', 'M', 'I', 'G']); let c = r.pick(&['N', 'B', 'L', 'D', 'C', 'Q']);
    let has_c = !(c == 'N' || c == 'B');
    let nv = 3; // check_qp probes three variables
    let num = |r: &mut Rng| r.pick(&[-4.0, -2.0, -1.5, -1.0, 0.5, 1.0, 2.0, 3.0]);
    let tri = |r: &mut Rng, diag_only: bool| -> Vec<(usize, usize, f64)> { let mut seen = BTreeSet::new(); let mut e = vec![]; for _ in 0..r.below(5) { let i = r.below(nv); let j = if diag_only { i } else { r.below(i + 1) }; if seen.insert((i, j)) { e.push((i, j, num(r))); } } e };
    let ncon = if has_c { r.below(4) } else { 0 };     // a constraint type code with ZERO declared constraints is legal: all constraint sections are present and empty
    let q0 = if o == 'L' { vec![] } else { tri(r, o == 'D') };
    let mut qi = vec![]; if has_c && c != 'L' { for m in 0..ncon { for (i, j, v) in tri(r, c == 'D') { qi.push((m, i, j, v)); } } }
    let mut bi = vec![]; if has_c { let mut seen = BTreeSet::new(); for _ in 0..r.below(2 * ncon + 1) { let m = r.below(ncon); let i = r.below(nv); if seen.insert((m, i)) { bi.push((m, i, num(r))); } } }
    let mut b0 = vec![]; { let mut seen = BTreeSet::new(); for _ in 0..r.below(3) { let i = r.below(nv); if seen.insert(i) { b0.push((i, r.pick(&[0.0, -2.0, 2.0, 0.5]))); } } }
    let cl: Vec<f64> = (0..ncon).map(|_| r.pick(&[-inf, -1e21, -3.0, 0.0, 1.0])).collect();
    let cu: Vec<f64> = (0..ncon).map(|k| { let u = r.pick(&[inf, 3e20, 5.0, 1.0, 0.0, -2.0]); if u < cl[k] { inf } else { u } }).collect();
    let lbs = [0.0, 1.0, -3.0, -inf, -1e21]; let lb: Vec<f64> = (0..nv).map(|_| r.pick(&lbs)).collect();
    let ub: Vec<f64> = (0..nv).map(|k| { let l = if lb[k].abs() >= inf { -10.0 } else { lb[k] }; r.pick(&[l, l + 1.0, l + 5.0, inf, 2e20]) }).collect();
    let types: Vec<u8> = (0..nv).map(|_| if v == 'M' { r.pick(&[0u8, 2]) } else { r.pick(&[0u8, 1, 2]) }).collect();
    // a declared binary (type 2) carries the bounds of the file; keep them inside [0,1] so the model is well-formed
    let (lb, ub): (Vec<f64>, Vec<f64>) = (0..nv).map(|k| if (v == 'M' || v == 'G') && types[k] == 2 { (0.0, 1.0) } else { (lb[k], ub[k]) }).unzip();
    Qp { o, v, c, maximize: r.chance(1, 2), nvars: nv, q0, b0_default: r.pick(&[0.0, 0.0, 1.5, -1.0, 1.0e-18]), b0, q0c: r.pick(&[0.0, 3.0, -1.5]), qi, bi, inf, cl, cu, lb, ub, types, names: if r.chance(1, 2) { vec![(r.below(nv), "alpha")] } else { vec![] } }
}

pub fn c19b() -> Outcome {
    let mut r = Rng::new(19); let mut n = 0;
    let dir = std::env::var("RX_TMP").unwrap_or_else(|_| ".".to_string());
    let _ = std::fs::create_dir_all(&dir);
    let path = format!("{dir}/bounded_c19b_{}.qplib", std::process::id());
    for _ in 0..budget() {
        n += 1;
        let q = rand_qp(&mut r); let comments = r.chance(1, 3);
        let text = render_qp(&q, comments);
        if n == 2 { note(|| format!("random QPLIB model {}{}{}:\n{text}", q.o, q.v, q.c)); }
        if std::fs::write(&path, &text).is_err() { return Outcome { cases: n, distinct: n, fail: Some("cannot write scratch file".into()) }; }
        let res = ommx::qplib::load_file(&path); let _ = std::fs::remove_file(&path);
        let i = match res { Ok(i) => i, Err(e) => return Outcome { cases: n, distinct: n, fail: Some(format!("well-formed QPLIB text ({}{}{}) was rejected ({e:#}):\n{text}", q.o, q.v, q.c)) } };
        if let Err(e) = check_qp(&q, &i) { return Outcome { cases: n, distinct: n, fail: Some(format!("random QPLIB {}{}{}: {e}\n--- text ---\n{text}", q.o, q.v, q.c)) }; }
    }
    Outcome { cases: n, distinct: n, fail: None }
}
