use vstd::prelude::*;
verus! {
#[verifier::external_body]
fn zip3<'a, A, B, C>(a: &'a Vec<A>, b: &'a Vec<B>, c: &'a Vec<C>) -> (r: Vec<(&'a A, &'a B, &'a C)>)
    ensures r.len() == (if a.len() <= b.len() { if a.len() <= c.len() { a.len() } else { c.len() } } else { if b.len() <= c.len() { b.len() } else { c.len() } }),
        forall|i: int| 0 <= i < r.len() ==> *(#[trigger] r[i]).0 == a[i] && *r[i].1 == b[i] && *r[i].2 == c[i]
{ a.iter().zip(b.iter()).zip(c.iter()).map(|((x,y),z)| (x,y,z)).collect() }

fn t(rows: &Vec<u64>, cols: &Vec<u64>, vals: &Vec<u64>) -> (s: u64)
{
    let mut sum: u64 = 0;
    for (i, j, value) in it: zip3(rows, cols, vals)
    {
        if *i == *j { sum = sum ^ *value; }
    }
    sum
}
} // verus!
fn main() {}
