#[cfg(kani)]
mod kani_proofs {
    use super::*;
    use crate::{v1::State, Evaluate};

    fn small() -> f64 {
        let k: i8 = kani::any();
        kani::assume(k >= -8 && k <= 8);
        (k as f64) * 0.5
    }
    fn small_id() -> u64 {
        let k: u8 = kani::any();
        kani::assume(k < 3);
        k as u64
    }
    fn any_linear(n: usize) -> Linear {
        let mut terms = Vec::new();
        for _ in 0..n {
            terms.push(Term { id: small_id(), coefficient: small() });
        }
        Linear { terms, constant: small() }
    }

    fn coef_of(l: &Linear, id: u64) -> f64 {
        let mut c = 0.0;
        for t in &l.terms { if t.id == id { c += t.coefficient; } }
        c
    }

    #[kani::proof]
    #[kani::unwind(6)]
    fn check_linear_add_coef() {
        let a = any_linear(2);
        let b = any_linear(2);
        let id = small_id();
        let expect = coef_of(&a, id) + coef_of(&b, id);
        let ca = a.constant; let cb = b.constant;
        let c = a + b;
        assert!(coef_of(&c, id) == expect);
        assert!(c.constant == ca + cb);
    }
}
