use vstd::prelude::*;
use vstd::std_specs::ops::*;
verus! {
pub mod lib {
use vstd::prelude::*;
use vstd::std_specs::ops::*;


pub enum XR { NaN, NegInf, PosInf, Fin(real) }

#[verifier::external_body]
#[derive(Clone, Copy, Debug)]
pub struct F64 { v: f64 }
impl View for F64 { type V = XR; uninterp spec fn view(&self) -> XR; }

pub open spec fn xr_le(a: XR, b: XR) -> bool {
    match (a, b) {
        (XR::NaN, _) => false, (_, XR::NaN) => false,
        (XR::NegInf, _) => true, (_, XR::PosInf) => true,
        (XR::Fin(x), XR::Fin(y)) => x <= y,
        _ => false,
    }
}
pub open spec fn xr_lt(a: XR, b: XR) -> bool { xr_le(a, b) && a != b }
pub open spec fn sgn(x: real) -> int { if x > 0real { 1 } else if x < 0real { -1 } else { 0 } }
pub open spec fn xr_sign(a: XR) -> int {
    match a { XR::NaN => 0, XR::NegInf => -1, XR::PosInf => 1, XR::Fin(x) => sgn(x) }
}
pub open spec fn xr_mul(a: XR, b: XR) -> XR {
    match (a, b) {
        (XR::NaN, _) => XR::NaN, (_, XR::NaN) => XR::NaN,
        (XR::Fin(x), XR::Fin(y)) => XR::Fin(x * y),
        _ => { // at least one infinite
            let s = xr_sign(a) * xr_sign(b);
            if s == 0 { XR::NaN } else if s > 0 { XR::PosInf } else { XR::NegInf }
        }
    }
}
// IEEE minNum / maxNum as implemented by f64::min / f64::max: NaN is ignored
pub open spec fn xr_min(a: XR, b: XR) -> XR {
    if a is NaN { b } else if b is NaN { a } else if xr_le(a, b) { a } else { b }
}
pub open spec fn xr_max(a: XR, b: XR) -> XR {
    if a is NaN { b } else if b is NaN { a } else if xr_le(a, b) { b } else { a }
}

pub open spec fn xr_add(a: XR, b: XR) -> XR {
    match (a, b) {
        (XR::NaN, _) => XR::NaN, (_, XR::NaN) => XR::NaN,
        (XR::NegInf, XR::PosInf) => XR::NaN, (XR::PosInf, XR::NegInf) => XR::NaN,
        (XR::NegInf, _) => XR::NegInf, (_, XR::NegInf) => XR::NegInf,
        (XR::PosInf, _) => XR::PosInf, (_, XR::PosInf) => XR::PosInf,
        (XR::Fin(x), XR::Fin(y)) => XR::Fin(x + y),
    }
}
pub uninterp spec fn f_add(a: F64, b: F64) -> F64;
pub broadcast axiom fn ax_f_add(a: F64, b: F64)
    ensures (#[trigger] f_add(a, b))@ == xr_add(a@, b@);
impl AddSpecImpl<F64> for F64 {
    open spec fn obeys_add_spec() -> bool { false }
    open spec fn add_req(self, rhs: F64) -> bool { true }
    open spec fn add_spec(self, rhs: F64) -> F64 { f_add(self, rhs) }
}
impl core::ops::Add for F64 {
    type Output = F64;
    #[verifier::external_body]
    fn add(self, rhs: F64) -> (r: F64) ensures r@ == xr_add(self@, rhs@) { F64 { v: self.v + rhs.v } }
}
impl<'a, 'b> MulSpecImpl<&'b F64> for &'a F64 {
    open spec fn obeys_mul_spec() -> bool { false }
    open spec fn mul_req(self, rhs: &'b F64) -> bool { true }
    open spec fn mul_spec(self, rhs: &'b F64) -> F64 { f_mul(*self, *rhs) }
}
impl<'a, 'b> core::ops::Mul<&'b F64> for &'a F64 {
    type Output = F64;
    #[verifier::external_body]
    fn mul(self, rhs: &'b F64) -> (r: F64) ensures r@ == xr_mul(self@, rhs@) { F64 { v: self.v * rhs.v } }
}
pub uninterp spec fn f_mul(a: F64, b: F64) -> F64;
pub broadcast axiom fn ax_f_mul(a: F64, b: F64)
    ensures (#[trigger] f_mul(a, b))@ == xr_mul(a@, b@);
impl MulSpecImpl<F64> for F64 {
    open spec fn obeys_mul_spec() -> bool { false }
    open spec fn mul_req(self, rhs: F64) -> bool { true }
    open spec fn mul_spec(self, rhs: F64) -> F64 { f_mul(self, rhs) }
}
impl core::ops::Mul for F64 {
    type Output = F64;
    #[verifier::external_body]
    fn mul(self, rhs: F64) -> (r: F64) ensures r@ == xr_mul(self@, rhs@) { F64 { v: self.v * rhs.v } }
}
impl PartialEq for F64 {
    #[verifier::external_body]
    fn eq(&self, other: &F64) -> (r: bool)
        ensures r == (self@ == other@ && !(self@ is NaN))
    { self.v == other.v }
}
impl PartialOrd for F64 {
    #[verifier::external_body]
    fn partial_cmp(&self, other: &F64) -> (r: Option<core::cmp::Ordering>) { self.v.partial_cmp(&other.v) }
    #[verifier::external_body]
    fn le(&self, other: &F64) -> (r: bool) ensures r == xr_le(self@, other@) { self.v <= other.v }
    #[verifier::external_body]
    fn lt(&self, other: &F64) -> (r: bool) ensures r == xr_lt(self@, other@) { self.v < other.v }
    #[verifier::external_body]
    fn ge(&self, other: &F64) -> (r: bool) ensures r == xr_le(other@, self@) { self.v >= other.v }
    #[verifier::external_body]
    fn gt(&self, other: &F64) -> (r: bool) ensures r == xr_lt(other@, self@) { self.v > other.v }
}
impl F64 {
    #[verifier::external_body]
    pub fn min(self, o: F64) -> (r: F64) ensures r@ == xr_min(self@, o@) { F64 { v: self.v.min(o.v) } }
    #[verifier::external_body]
    pub fn max(self, o: F64) -> (r: F64) ensures r@ == xr_max(self@, o@) { F64 { v: self.v.max(o.v) } }
    #[verifier::external_body]
    pub fn is_nan(self) -> (r: bool) ensures r == (self@ is NaN) { self.v.is_nan() }
}
#[verifier::external_body]
pub fn lit_0_0() -> (r: F64) ensures r@ == XR::Fin(0real) { F64 { v: 0.0 } }
#[verifier::external_body]
pub fn f64_infinity() -> (r: F64) ensures r@ == XR::PosInf { F64 { v: f64::INFINITY } }
#[verifier::external_body]
pub fn f64_neg_infinity() -> (r: F64) ensures r@ == XR::NegInf { F64 { v: f64::NEG_INFINITY } }




impl Default for F64 { #[verifier::external_body] fn default() -> (r: F64) ensures r@ == XR::Fin(0real) { F64 { v: 0.0 } } }

use std::collections::{HashMap, HashSet, BTreeSet, BTreeMap};
pub struct VErr { pub tag: u64 }
impl VErr { pub fn new() -> VErr { VErr { tag: 0 } } }
pub trait VCtx<T> { fn vctx(self) -> Result<T, VErr>; }
impl<T> VCtx<T> for Option<T> {
    #[verifier::external_body]
    fn vctx(self) -> (r: Result<T, VErr>)
        ensures self is Some ==> r == Ok::<T, VErr>(self->Some_0), self is None ==> r is Err
    { match self { Some(x) => Ok(x), None => Err(VErr::new()) } }
}
impl<T, E> VCtx<T> for Result<T, E> {
    #[verifier::external_body]
    fn vctx(self) -> (r: Result<T, VErr>)
        ensures self is Ok ==> r == Ok::<T, VErr>(self->Ok_0), self is Err ==> r is Err
    { match self { Ok(x) => Ok(x), Err(_) => Err(VErr::new()) } }
}
#[verifier::external_body]
pub fn btreeset_append(a: &mut BTreeSet<u64>, b: &mut BTreeSet<u64>)
    ensures final(a)@ == old(a)@.union(old(b)@), final(b)@ == Set::<u64>::empty()
{ a.append(b) }
#[verifier::external_body]
pub fn btreeset_extend(a: &mut BTreeSet<u64>, b: BTreeSet<u64>)
    ensures final(a)@ == old(a)@.union(b@)
{ a.extend(b) }
#[verifier::external_body]
pub fn btreeset_to_vec(a: &BTreeSet<u64>) -> (r: Vec<u64>) ensures r@.to_set() == a@, r@.no_duplicates() { a.iter().cloned().collect() }
#[verifier::external_body]
pub fn lit_1em7() -> (r: F64) { F64 { v: 1e-7 } }
pub uninterp spec fn lit6() -> F64;
#[verifier::external_body]
pub fn lit_1em6() -> (r: F64) ensures r == lit6() { F64 { v: 1e-6 } }

pub open spec fn holds(equality: i32, v: F64, atol: F64) -> bool {
    if equality == 1 { xr_lt(xr_abs(v@), atol@) } else { xr_lt(v@, atol@) }
}
pub open spec fn xr_abs(a: XR) -> XR { match a { XR::NaN => XR::NaN, XR::NegInf => XR::PosInf, XR::PosInf => XR::PosInf, XR::Fin(x) => XR::Fin(if x < 0real { -x } else { x }) } }

pub uninterp spec fn fn_eval_ok(f: v1::Function, st: v1::State) -> bool;
pub uninterp spec fn fn_eval_val(f: v1::Function, st: v1::State) -> F64;
pub open spec fn cfun(c: v1::Constraint) -> v1::Function { match c.function { Some(f) => f, None => zero_fn() } }
pub uninterp spec fn zero_fn() -> v1::Function;
pub open spec fn all_hold(ecs: Seq<v1::EvaluatedConstraint>, lo: int, hi: int, atol: F64) -> bool decreases hi - lo {
    if hi <= lo { true } else { all_hold(ecs, lo, hi - 1, atol) && holds(ecs[hi - 1].equality, ecs[hi - 1].evaluated_value, atol) }
}

pub broadcast proof fn lemma_all_hold_push(s: Seq<v1::EvaluatedConstraint>, e: v1::EvaluatedConstraint, lo: int, hi: int, atol: F64)
    requires 0 <= lo, hi <= s.len()
    ensures #[trigger] all_hold(s.push(e), lo, hi, atol) == all_hold(s, lo, hi, atol)
    decreases hi - lo
{
    if hi > lo { lemma_all_hold_push(s, e, lo, hi - 1, atol); }
}

pub open spec fn holds_c(c: v1::Constraint, st: v1::State, atol: F64) -> bool { holds(c.equality, fn_eval_val(cfun(c), st), atol) }
pub open spec fn active_hold(cs: Seq<v1::Constraint>, n: int, st: v1::State, atol: F64) -> bool decreases n {
    if n <= 0 { true } else { active_hold(cs, n - 1, st, atol) && holds_c(cs[n - 1], st, atol) }
}
pub open spec fn removed_hold(rs: Seq<v1::RemovedConstraint>, n: int, st: v1::State, atol: F64) -> bool decreases n {
    if n <= 0 { true } else { removed_hold(rs, n - 1, st, atol) && holds_c(rs[n - 1].constraint->Some_0, st, atol) }
}
pub open spec fn ec_of(c: v1::Constraint, st: v1::State, ec: v1::EvaluatedConstraint) -> bool {
    ec.id == c.id && ec.equality == c.equality && ec.evaluated_value == fn_eval_val(cfun(c), st)
    && ec.name == c.name && ec.subscripts@ == c.subscripts@ && ec.parameters@ == c.parameters@ && ec.description == c.description
}
pub open spec fn eq_ok(equality: i32) -> bool { equality == 1 || equality == 2 }
pub mod v1 {
use super::*;
#[derive(Default)]
pub struct Linear {
    pub terms: Vec<linear::Term>,
    pub constant: F64,
}
impl Clone for Linear { #[verifier::external_body] fn clone(&self) -> (r: Self) ensures r == *self { unimplemented!() } }

pub mod linear {
    use super::*;
    #[derive(Default)]
pub struct Term {
        pub id: u64,
        pub coefficient: F64,
    }
impl Clone for Term { #[verifier::external_body] fn clone(&self) -> (r: Self) ensures r == *self { unimplemented!() } }

}
#[derive(Default)]
pub struct Monomial {
    pub ids: Vec<u64>,
    pub coefficient: F64,
}
impl Clone for Monomial { #[verifier::external_body] fn clone(&self) -> (r: Self) ensures r == *self { unimplemented!() } }

#[derive(Default)]
pub struct Polynomial {
    pub terms: Vec<Monomial>,
}
impl Clone for Polynomial { #[verifier::external_body] fn clone(&self) -> (r: Self) ensures r == *self { unimplemented!() } }

#[derive(Default)]
pub struct Quadratic {
    pub rows: Vec<u64>,
    pub columns: Vec<u64>,
    pub values: Vec<F64>,
    pub linear: Option<Linear>,
}
impl Clone for Quadratic { #[verifier::external_body] fn clone(&self) -> (r: Self) ensures r == *self { unimplemented!() } }

#[derive(Default)]
pub struct Function {
    pub function: Option<function::Function>,
}
impl Clone for Function { #[verifier::external_body] fn clone(&self) -> (r: Self) ensures r == *self { unimplemented!() } }

pub mod function {
    use super::*;
    
pub enum Function {
        Constant(F64),
        Linear(super::Linear),
        Quadratic(super::Quadratic),
        Polynomial(super::Polynomial),
    }
impl Clone for Function { #[verifier::external_body] fn clone(&self) -> (r: Self) ensures r == *self { unimplemented!() } }

}
#[derive(Default)]
pub struct Constraint {
    pub id: u64,
    pub equality: i32,
    pub function: Option<Function>,
    pub subscripts: Vec<i64>,
    pub parameters:
        HashMap<String, String>,
    pub name: Option<String>,
    pub description: Option<String>,
}
impl Clone for Constraint { #[verifier::external_body] fn clone(&self) -> (r: Self) ensures r == *self { unimplemented!() } }

#[derive(Default)]
pub struct EvaluatedConstraint {
    pub id: u64,
    pub equality: i32,
    pub evaluated_value: F64,
    pub used_decision_variable_ids: Vec<u64>,
    pub subscripts: Vec<i64>,
    pub parameters:
        HashMap<String, String>,
    pub name: Option<String>,
    pub description: Option<String>,
    pub dual_variable: Option<F64>,
    pub removed_reason: Option<String>,
    pub removed_reason_parameters:
        HashMap<String, String>,
}
impl Clone for EvaluatedConstraint { #[verifier::external_body] fn clone(&self) -> (r: Self) ensures r == *self { unimplemented!() } }

#[derive(Default)]
pub struct RemovedConstraint {
    pub constraint: Option<Constraint>,
    pub removed_reason: String,
    pub removed_reason_parameters:
        HashMap<String, String>,
}
impl Clone for RemovedConstraint { #[verifier::external_body] fn clone(&self) -> (r: Self) ensures r == *self { unimplemented!() } }


pub enum Equality {
    Unspecified,
    EqualToZero,
    LessThanOrEqualToZero,
}
impl Clone for Equality { #[verifier::external_body] fn clone(&self) -> (r: Self) ensures r == *self { unimplemented!() } }

#[derive(Default)]
pub struct OneHot {
    pub constraint_id: u64,
    pub decision_variables: Vec<u64>,
}
impl Clone for OneHot { #[verifier::external_body] fn clone(&self) -> (r: Self) ensures r == *self { unimplemented!() } }

#[derive(Default)]
pub struct Sos1 {
    pub binary_constraint_id: u64,
    pub big_m_constraint_ids: Vec<u64>,
    pub decision_variables: Vec<u64>,
}
impl Clone for Sos1 { #[verifier::external_body] fn clone(&self) -> (r: Self) ensures r == *self { unimplemented!() } }

#[derive(Default)]
pub struct ConstraintHints {
    pub one_hot_constraints: Vec<OneHot>,
    pub sos1_constraints: Vec<Sos1>,
}
impl Clone for ConstraintHints { #[verifier::external_body] fn clone(&self) -> (r: Self) ensures r == *self { unimplemented!() } }

#[derive(Default)]
pub struct Bound {
    pub lower: F64,
    pub upper: F64,
}
impl Clone for Bound { #[verifier::external_body] fn clone(&self) -> (r: Self) ensures r == *self { unimplemented!() } }

#[derive(Default)]
pub struct DecisionVariable {
    pub id: u64,
    pub kind: i32,
    pub bound: Option<Bound>,
    pub name: Option<String>,
    pub subscripts: Vec<i64>,
    pub parameters:
        HashMap<String, String>,
    pub description: Option<String>,
    pub substituted_value: Option<F64>,
}
impl Clone for DecisionVariable { #[verifier::external_body] fn clone(&self) -> (r: Self) ensures r == *self { unimplemented!() } }

pub mod decision_variable {
    use super::*;
    
pub enum Kind {
        Unspecified,
        Binary,
        Integer,
        Continuous,
        SemiInteger,
        SemiContinuous,
    }
impl Clone for Kind { #[verifier::external_body] fn clone(&self) -> (r: Self) ensures r == *self { unimplemented!() } }

}
#[derive(Default)]
pub struct Parameters {
    pub entries: HashMap<u64, F64>,
}
impl Clone for Parameters { #[verifier::external_body] fn clone(&self) -> (r: Self) ensures r == *self { unimplemented!() } }

#[derive(Default)]
pub struct Instance {
    pub description: Option<instance::Description>,
    pub decision_variables: Vec<DecisionVariable>,
    pub objective: Option<Function>,
    pub constraints: Vec<Constraint>,
    pub sense: i32,
    pub parameters: Option<Parameters>,
    pub constraint_hints: Option<ConstraintHints>,
    pub removed_constraints: Vec<RemovedConstraint>,
    pub decision_variable_dependency: HashMap<u64, Function>,
}
impl Clone for Instance { #[verifier::external_body] fn clone(&self) -> (r: Self) ensures r == *self { unimplemented!() } }

pub mod instance {
    use super::*;
    #[derive(Default)]
pub struct Description {
        pub name: Option<String>,
        pub description: Option<String>,
        pub authors: Vec<String>,
        pub created_by: Option<String>,
    }
impl Clone for Description { #[verifier::external_body] fn clone(&self) -> (r: Self) ensures r == *self { unimplemented!() } }

    
pub enum Sense {
        Unspecified,
        Minimize,
        Maximize,
    }
impl Clone for Sense { #[verifier::external_body] fn clone(&self) -> (r: Self) ensures r == *self { unimplemented!() } }

}
#[derive(Default)]
pub struct Parameter {
    pub id: u64,
    pub name: Option<String>,
    pub subscripts: Vec<i64>,
    pub parameters:
        HashMap<String, String>,
    pub description: Option<String>,
}
impl Clone for Parameter { #[verifier::external_body] fn clone(&self) -> (r: Self) ensures r == *self { unimplemented!() } }

#[derive(Default)]
pub struct ParametricInstance {
    pub description: Option<instance::Description>,
    pub decision_variables: Vec<DecisionVariable>,
    pub parameters: Vec<Parameter>,
    pub objective: Option<Function>,
    pub constraints: Vec<Constraint>,
    pub sense: i32,
    pub constraint_hints: Option<ConstraintHints>,
    pub removed_constraints: Vec<RemovedConstraint>,
    pub decision_variable_dependency: HashMap<u64, Function>,
}
impl Clone for ParametricInstance { #[verifier::external_body] fn clone(&self) -> (r: Self) ensures r == *self { unimplemented!() } }

#[derive(Default)]
pub struct State {
    pub entries: HashMap<u64, F64>,
}
impl Clone for State { #[verifier::external_body] fn clone(&self) -> (r: Self) ensures r == *self { unimplemented!() } }

#[derive(Default)]
pub struct Solution {
    pub state: Option<State>,
    pub objective: F64,
    pub decision_variables: Vec<DecisionVariable>,
    pub evaluated_constraints: Vec<EvaluatedConstraint>,
    pub feasible: bool,
    pub feasible_relaxed: Option<bool>,
    pub feasible_unrelaxed: bool,
    pub optimality: i32,
    pub relaxation: i32,
}
impl Clone for Solution { #[verifier::external_body] fn clone(&self) -> (r: Self) ensures r == *self { unimplemented!() } }

#[derive(Default)]
pub struct Infeasible {}
impl Clone for Infeasible { #[verifier::external_body] fn clone(&self) -> (r: Self) ensures r == *self { unimplemented!() } }

#[derive(Default)]
pub struct Unbounded {}
impl Clone for Unbounded { #[verifier::external_body] fn clone(&self) -> (r: Self) ensures r == *self { unimplemented!() } }

#[derive(Default)]
pub struct Result {
    pub result: Option<result::Result>,
}
impl Clone for Result { #[verifier::external_body] fn clone(&self) -> (r: Self) ensures r == *self { unimplemented!() } }

pub mod result {
    use super::*;
    
pub enum Result {
        Error(String),
        Solution(super::Solution),
        Infeasible(super::Infeasible),
        Unbounded(super::Unbounded),
    }
impl Clone for Result { #[verifier::external_body] fn clone(&self) -> (r: Self) ensures r == *self { unimplemented!() } }

}

pub enum Optimality {
    Unspecified,
    Optimal,
    NotOptimal,
}
impl Clone for Optimality { #[verifier::external_body] fn clone(&self) -> (r: Self) ensures r == *self { unimplemented!() } }


pub enum Relaxation {
    Unspecified,
    LpRelaxed,
}
impl Clone for Relaxation { #[verifier::external_body] fn clone(&self) -> (r: Self) ensures r == *self { unimplemented!() } }

#[derive(Default)]
pub struct Samples {
    pub entries: Vec<samples::SamplesEntry>,
}
impl Clone for Samples { #[verifier::external_body] fn clone(&self) -> (r: Self) ensures r == *self { unimplemented!() } }

pub mod samples {
    use super::*;
    #[derive(Default)]
pub struct SamplesEntry {
        pub state: Option<super::State>,
        pub ids: Vec<u64>,
    }
impl Clone for SamplesEntry { #[verifier::external_body] fn clone(&self) -> (r: Self) ensures r == *self { unimplemented!() } }

}
#[derive(Default)]
pub struct SampledValues {
    pub entries: Vec<sampled_values::SampledValuesEntry>,
}
impl Clone for SampledValues { #[verifier::external_body] fn clone(&self) -> (r: Self) ensures r == *self { unimplemented!() } }

pub mod sampled_values {
    use super::*;
    #[derive(Default)]
pub struct SampledValuesEntry {
        pub value: F64,
        pub ids: Vec<u64>,
    }
impl Clone for SampledValuesEntry { #[verifier::external_body] fn clone(&self) -> (r: Self) ensures r == *self { unimplemented!() } }

}
#[derive(Default)]
pub struct SampledDecisionVariable {
    pub decision_variable: Option<DecisionVariable>,
    pub samples: Option<SampledValues>,
}
impl Clone for SampledDecisionVariable { #[verifier::external_body] fn clone(&self) -> (r: Self) ensures r == *self { unimplemented!() } }

#[derive(Default)]
pub struct SampledConstraint {
    pub id: u64,
    pub equality: i32,
    pub name: Option<String>,
    pub subscripts: Vec<i64>,
    pub parameters:
        HashMap<String, String>,
    pub description: Option<String>,
    pub removed_reason: Option<String>,
    pub removed_reason_parameters:
        HashMap<String, String>,
    pub evaluated_values: Option<SampledValues>,
    pub used_decision_variable_ids: Vec<u64>,
    pub feasible: HashMap<u64, bool>,
}
impl Clone for SampledConstraint { #[verifier::external_body] fn clone(&self) -> (r: Self) ensures r == *self { unimplemented!() } }

#[derive(Default)]
pub struct SampleSet {
    pub objectives: Option<SampledValues>,
    pub decision_variables: Vec<SampledDecisionVariable>,
    pub constraints: Vec<SampledConstraint>,
    pub feasible: HashMap<u64, bool>,
    pub feasible_unrelaxed: HashMap<u64, bool>,
    pub feasible_relaxed: HashMap<u64, bool>,
    pub sense: i32,
}
impl Clone for SampleSet { #[verifier::external_body] fn clone(&self) -> (r: Self) ensures r == *self { unimplemented!() } }


}

use v1::{Constraint, EvaluatedConstraint, Function, Instance, RemovedConstraint, Solution, State, Equality, Optimality, Relaxation, DecisionVariable};
#[derive(Clone, Copy)]
pub struct Bound { pub lower: F64, pub upper: F64 }
impl Bound {
    #[verifier::external_body] pub fn nearest_to_zero(&self) -> F64 { unimplemented!() }
    #[verifier::external_body] pub fn try_from_dv(v: &DecisionVariable) -> Result<Bound, VErr> { unimplemented!() }
}
impl Function {
    #[verifier::external_body] pub fn evaluate(&self, solution: &State) -> (r: Result<(F64, BTreeSet<u64>), VErr>)
        ensures r is Ok <==> fn_eval_ok(*self, *solution), r is Ok ==> r->Ok_0.0 == fn_eval_val(*self, *solution)
    { unimplemented!() }
    #[verifier::external_body] pub fn partial_evaluate(&mut self, state: &State) -> Result<BTreeSet<u64>, VErr> { unimplemented!() }
    #[verifier::external_body] pub fn zero() -> (r: Function) ensures r == zero_fn() { unimplemented!() }
}
impl EvaluatedConstraint {
    #[verifier::external_body] pub fn is_feasible(&self, atol: F64) -> (r: Result<bool, VErr>)
        ensures r is Ok <==> eq_ok(self.equality), r is Ok ==> r->Ok_0 == holds(self.equality, self.evaluated_value, atol)
    { unimplemented!() }
}
impl Instance {
    #[verifier::external_body] pub fn check_bound(&self, state: &State, atol: F64) -> Result<(), VErr> { unimplemented!() }
}
#[verifier::external_body]
pub fn eval_dependencies(dependencies: &HashMap<u64, Function>, state: &mut State) -> Result<BTreeSet<u64>, VErr> { unimplemented!() }
#[verifier::external_body] pub fn optimality_unspecified() -> i32 { 0 }
#[verifier::external_body] pub fn relaxation_unspecified() -> i32 { 0 }

impl v1::DecisionVariable { #[verifier::external_body] pub fn kind(&self) -> v1::decision_variable::Kind { unimplemented!() } }
impl v1::Constraint { #[verifier::external_body] pub fn equality(&self) -> v1::Equality { unimplemented!() } }
impl v1::Instance { #[verifier::external_body] pub fn sense(&self) -> v1::instance::Sense { unimplemented!() } }

}
pub mod units {
use vstd::prelude::*;
use super::lib::*;
use super::lib::v1::{function::Function as FunctionEnum, linear::Term as LinearTerm, Constraint, Equality, EvaluatedConstraint, Function, Instance, Linear, Monomial, Optimality, Polynomial, Quadratic, Relaxation, RemovedConstraint, SampleSet, SampledConstraint, SampledDecisionVariable, SampledValues, Samples, Solution, State};
use std::collections::{HashMap, BTreeSet};
// lit_1em7 = 1e-7
// lit_1em6 = 1e-6
impl Constraint {
pub fn function(&self) -> (r: Function)
    ensures r == cfun(*self)
{
        match &self.function {
            Some(f) => f.clone(),
            
            None => Function::zero(),
        }
    }
}

impl Instance {
pub fn objective(&self) -> (r: Function)
    ensures r == (match self.objective { Some(f) => f, None => zero_fn() })
{
        match &self.objective {
            Some(f) => f.clone(),
            
            None => Function::zero(),
        }
    }
}

impl Constraint {
pub fn evaluate(&self, solution: &State) -> (r: Result<(EvaluatedConstraint, BTreeSet<u64>), VErr>)
    ensures r is Ok <==> fn_eval_ok(cfun(*self), *solution),
            r is Ok ==> ec_of(*self, *solution, r->Ok_0.0) && r->Ok_0.0.removed_reason is None && r->Ok_0.0.dual_variable is None,
{
        let (evaluated_value, used_ids) = self.function().evaluate(solution)?;
        let used_decision_variable_ids = btreeset_to_vec(&used_ids);
        Ok((
            EvaluatedConstraint {
                id: self.id,
                equality: self.equality,
                evaluated_value,
                used_decision_variable_ids,
                name: self.name.clone(),
                subscripts: self.subscripts.clone(),
                parameters: self.parameters.clone(),
                description: self.description.clone(),
                dual_variable: None,
                removed_reason: None,
                removed_reason_parameters: Default::default(),
            },
            used_ids,
        ))
    }
}

impl RemovedConstraint {
pub fn evaluate(&self, solution: &State) -> (r: Result<(EvaluatedConstraint, BTreeSet<u64>), VErr>)
    ensures r is Ok ==> self.constraint is Some && ec_of(self.constraint->Some_0, *solution, r->Ok_0.0)
                && r->Ok_0.0.removed_reason == Some(self.removed_reason) && r->Ok_0.0.removed_reason_parameters@ == self.removed_reason_parameters@,
            r is Ok <==> self.constraint is Some && fn_eval_ok(cfun(self.constraint->Some_0), *solution),
{
        let (mut out, used_ids) = self
            .constraint
            .as_ref()
            .vctx()?
            .evaluate(solution)?;
        out.removed_reason = Some(self.removed_reason.clone());
        out.removed_reason_parameters = self.removed_reason_parameters.clone();
        Ok((out, used_ids))
    }
}

impl Instance {
pub fn evaluate(&self, state: &State) -> (r: Result<(Solution, BTreeSet<u64>), VErr>)
    ensures r is Ok ==> ({
        let sol = r->Ok_0.0;
        let nc = self.constraints.len() as int;
        let nr = self.removed_constraints.len() as int;
        let atol = lit6();
        &&& sol.evaluated_constraints.len() == nc + nr
        &&& forall|i: int| 0 <= i < nc ==> ec_of(self.constraints[i], *state, #[trigger] sol.evaluated_constraints[i]) && sol.evaluated_constraints[i].removed_reason is None
        &&& forall|j: int| 0 <= j < nr ==> self.removed_constraints[j].constraint is Some
              && ec_of(self.removed_constraints[j].constraint->Some_0, *state, #[trigger] sol.evaluated_constraints[nc + j])
              && sol.evaluated_constraints[nc + j].removed_reason == Some(self.removed_constraints[j].removed_reason)
        &&& sol.feasible_relaxed == Some(active_hold(self.constraints@, nc, *state, atol))
        &&& sol.feasible == (active_hold(self.constraints@, nc, *state, atol) && removed_hold(self.removed_constraints@, nr, *state, atol))
        &&& sol.objective == fn_eval_val(match self.objective { Some(f) => f, None => zero_fn() }, *state)
    }),
{
        self.check_bound(state, lit_1em7())?;
        let mut used_ids = BTreeSet::new();
        let mut evaluated_constraints = Vec::new();
        let mut feasible_relaxed = true;
        for c in it_1: &self.constraints
            invariant
                evaluated_constraints.len() == it_1.index@,
                forall|i: int| 0 <= i < it_1.index@ ==> ec_of(self.constraints[i], *state, #[trigger] evaluated_constraints[i]) && evaluated_constraints[i].removed_reason is None,
                feasible_relaxed == active_hold(self.constraints@, it_1.index@ as int, *state, lit6()),
        {
            let (c, used_ids_) = c.evaluate(state)?;
            btreeset_extend(&mut used_ids, used_ids_);
            
            if feasible_relaxed {
                feasible_relaxed = c.is_feasible(lit_1em6())?;
            }
            evaluated_constraints.push(c);
        }
        let mut feasible = feasible_relaxed;
        let ghost nc = self.constraints.len() as int;
        for c in it_2: &self.removed_constraints
            invariant
                nc == self.constraints.len(),
                evaluated_constraints.len() == nc + it_2.index@,
                forall|i: int| 0 <= i < nc ==> ec_of(self.constraints[i], *state, #[trigger] evaluated_constraints[i]) && evaluated_constraints[i].removed_reason is None,
                forall|j: int| 0 <= j < it_2.index@ ==> self.removed_constraints[j].constraint is Some
                    && ec_of(self.removed_constraints[j].constraint->Some_0, *state, #[trigger] evaluated_constraints[nc + j])
                    && evaluated_constraints[nc + j].removed_reason == Some(self.removed_constraints[j].removed_reason),
                feasible_relaxed == active_hold(self.constraints@, nc, *state, lit6()),
                feasible == (feasible_relaxed && removed_hold(self.removed_constraints@, it_2.index@ as int, *state, lit6())),
        {
            let (c, used_ids_) = c.evaluate(state)?;
            btreeset_extend(&mut used_ids, used_ids_);
            if feasible {
                feasible = c.is_feasible(lit_1em6())?;
            }
            evaluated_constraints.push(c);
        }

        let (objective, used_ids_) = self.objective().evaluate(state)?;
        btreeset_extend(&mut used_ids, used_ids_);

        let mut state = state.clone();
        for v in &self.decision_variables {
            if let Some(value) = v.substituted_value {
                state.entries.insert(v.id, value);
            }
        }
        eval_dependencies(&self.decision_variable_dependency, &mut state)?;
        for v in &self.decision_variables {
            if !state.entries.contains_key(&v.id) {
                let bound: Bound = Bound::try_from_dv(v)?;
                state.entries.insert(v.id, bound.nearest_to_zero());
            }
        }
        Ok((
            Solution {
                decision_variables: self.decision_variables.clone(),
                state: Some(state),
                evaluated_constraints,
                feasible_relaxed: Some(feasible_relaxed),
                feasible,
                objective,
                optimality: optimality_unspecified(),
                relaxation: relaxation_unspecified(),
                ..Default::default()
            },
            used_ids,
        ))
    }
}

pub mod typed {
use vstd::prelude::*;
use super::super::lib::*;
use super::super::lib::v1;
use std::collections::{HashMap, BTreeSet};

pub struct DecodeErrorStub {}
pub enum BoundError { NotANumber { lower: F64, upper: F64 }, InvalidInfinity { lower: F64, upper: F64 }, UpperSmallerThanLower { lower: F64, upper: F64 } }
impl Bound { #[verifier::external_body] pub fn new(lower: F64, upper: F64) -> Result<Bound, BoundError> { unimplemented!() } }
impl From<BoundError> for RawParseError { fn from(e: BoundError) -> Self { RawParseError::InvalidBound(e) } }
impl From<BoundError> for ParseError { fn from(e: BoundError) -> Self { RawParseError::from(e).into() } }
impl Parse for v1::Bound {
    type Output = Bound;
    type Context = ();
    fn parse(self, _p0: &Self::Context) -> Result<Self::Output, ParseError> {
        let out = Bound::new(self.lower, self.upper)?;
        Ok(out)
    }
}
#[verifier::external_body]
pub fn hashmap_into_vec<V>(m: HashMap<u64, V>) -> (r: Vec<(u64, V)>) { m.into_iter().collect() }
impl From<u64> for VariableID { fn from(x: u64) -> Self { VariableID(x) } }
impl From<u64> for ConstraintID { fn from(x: u64) -> Self { ConstraintID(x) } }

// ---- parse.rs


pub trait Parse: Sized {
    type Output;
    type Context;

    fn parse(self, context: &Self::Context) -> Result<Self::Output, ParseError>;

    fn parse_as(
        self,
        context: &Self::Context,
        message: &'static str,
        field: &'static str,
    ) -> Result<Self::Output, ParseError> {
        self.parse(context).map_err(|e: ParseError| -> (o: ParseError) { e.context(message, field) })
    }
}

pub struct ParseError {
    pub context: Vec<ParseContext>,
    pub error: RawParseError,
}





impl From<RawParseError> for ParseError {
    fn from(error: RawParseError) -> Self {
        ParseError {
            context: vec![],
            error,
        }
    }
}

impl ParseError {
    pub fn context(self, message: &'static str, field: &'static str) -> Self {
        let mut this = self;
        this.context.push(ParseContext { message, field });
        this
    }
}

pub struct ParseContext {
    pub message: &'static str,
    pub field: &'static str,
}


pub enum RawParseError {
    
    UnsupportedV1Function,

    
    
    MissingField {
        message: &'static str,
        field: &'static str,
    },

    
    
    UnspecifiedEnum { enum_name: &'static str },

    DuplicatedVariableID { id: VariableID },

    DuplicatedConstraintID { id: ConstraintID },

    UndefinedVariableID { id: VariableID },

    UndefinedConstraintID { id: ConstraintID },

    NonUniqueVariableID { id: VariableID },

    NonUniqueConstraintID { id: ConstraintID },

    InvalidBound(BoundError),

    
    DecodeError(DecodeErrorStub),
}

impl RawParseError {
    pub fn context(self, message: &'static str, field: &'static str) -> ParseError {
        ParseError {
            context: vec![ParseContext { message, field }],
            error: self,
        }
    }
}

// ---- decision_variable.rs


#[derive(Clone, Copy, PartialEq, Eq, PartialOrd, Ord, Hash)]
pub struct VariableID(pub u64);



pub enum Kind {
    Continuous,
    Integer,
    Binary,
    SemiContinuous,
    SemiInteger,
}

impl Parse for v1::decision_variable::Kind {
    type Output = Kind;
    type Context = ();
    fn parse(self, _p1: &Self::Context) -> Result<Self::Output, ParseError> {
        use v1::decision_variable::Kind::*;
        match self {
            Unspecified => Err(RawParseError::UnspecifiedEnum {
                enum_name: "ommx.v1.decision_variable.Kind",
            }
            .into()),
            Continuous => Ok(Kind::Continuous),
            Integer => Ok(Kind::Integer),
            Binary => Ok(Kind::Binary),
            SemiContinuous => Ok(Kind::SemiContinuous),
            SemiInteger => Ok(Kind::SemiInteger),
        }
    }
}

pub struct DecisionVariable {
    pub id: VariableID,
    pub kind: Kind,
    pub bound: Bound,

    pub substituted_value: Option<F64>,

    pub name: Option<String>,
    pub subscripts: Vec<i64>,
    pub parameters: HashMap<String, String>,
    pub description: Option<String>,
}

impl Parse for v1::DecisionVariable {
    type Output = DecisionVariable;
    type Context = ();
    fn parse(self, _p2: &Self::Context) -> Result<Self::Output, ParseError> {
        let message = "ommx.v1.DecisionVariable";
        Ok(DecisionVariable {
            id: VariableID(self.id),
            kind: self.kind().parse_as(&(), message, "kind")?,
            bound: self
                .bound
                .unwrap_or_default()
                .parse_as(&(), message, "bound")?,
            substituted_value: self.substituted_value,
            name: self.name,
            subscripts: self.subscripts,
            parameters: self.parameters,
            description: self.description,
        })
    }
}

impl Parse for Vec<v1::DecisionVariable> {
    type Output = HashMap<VariableID, DecisionVariable>;
    type Context = ();
    fn parse(self, _p3: &Self::Context) -> Result<Self::Output, ParseError> {
        let mut decision_variables = HashMap::new();
        for v in self {
            let v: DecisionVariable = v.parse(&())?;
            let id = v.id;
            if decision_variables.insert(id, v).is_some() {
                return Err(RawParseError::DuplicatedVariableID { id }.into());
            }
        }
        Ok(decision_variables)
    }
}

// ---- constraint.rs


pub enum Equality {
    
    EqualToZero,
    
    LessThanOrEqualToZero,
}

impl Parse for v1::Equality {
    type Output = Equality;
    type Context = ();
    fn parse(self, _p1: &Self::Context) -> Result<Self::Output, ParseError> {
        match self {
            v1::Equality::EqualToZero => Ok(Equality::EqualToZero),
            v1::Equality::LessThanOrEqualToZero => Ok(Equality::LessThanOrEqualToZero),
            _ => Err(RawParseError::UnspecifiedEnum {
                enum_name: "ommx.v1.Equality",
            }
            .into()),
        }
    }
}


#[derive(Clone, Copy, PartialEq, Eq, PartialOrd, Ord, Hash)]
pub struct ConstraintID(pub u64);


pub struct Constraint {
    pub id: ConstraintID,
    pub function: Function,
    pub equality: Equality,
    pub name: Option<String>,
    pub subscripts: Vec<i64>,
    pub parameters: HashMap<String, String>,
    pub description: Option<String>,
}

impl Parse for v1::Constraint {
    type Output = Constraint;
    type Context = ();

    fn parse(self, _p2: &Self::Context) -> Result<Self::Output, ParseError> {
        let message = "ommx.v1.Constraint";
        Ok(Constraint {
            id: ConstraintID(self.id),
            equality: self.equality().parse_as(&(), message, "equality")?,
            function: self
                .function
                .ok_or(RawParseError::MissingField {
                    message,
                    field: "function",
                })?
                .parse_as(&(), message, "function")?,
            name: self.name,
            subscripts: self.subscripts,
            parameters: self.parameters,
            description: self.description,
        })
    }
}

pub struct RemovedConstraint {
    pub constraint: Constraint,
    pub removed_reason: String,
    pub removed_reason_parameters: HashMap<String, String>,
}

impl Parse for v1::RemovedConstraint {
    type Output = RemovedConstraint;
    type Context = ();

    fn parse(self, _p3: &Self::Context) -> Result<Self::Output, ParseError> {
        let message = "ommx.v1.RemovedConstraint";
        Ok(RemovedConstraint {
            constraint: self
                .constraint
                .ok_or(RawParseError::MissingField {
                    message,
                    field: "constraint",
                })?
                .parse_as(&(), message, "constraint")?,
            removed_reason: self.removed_reason,
            removed_reason_parameters: self.removed_reason_parameters,
        })
    }
}

impl Parse for Vec<v1::Constraint> {
    type Output = HashMap<ConstraintID, Constraint>;
    type Context = ();
    fn parse(self, _p4: &Self::Context) -> Result<Self::Output, ParseError> {
        let mut constraints = HashMap::new();
        for c in self {
            let c: Constraint = c.parse(&())?;
            let id = c.id;
            if constraints.insert(id, c).is_some() {
                return Err(RawParseError::DuplicatedConstraintID { id }.into());
            }
        }
        Ok(constraints)
    }
}

impl Parse for Vec<v1::RemovedConstraint> {
    type Output = HashMap<ConstraintID, RemovedConstraint>;
    type Context = HashMap<ConstraintID, Constraint>;
    fn parse(self, constraints: &Self::Context) -> Result<Self::Output, ParseError> {
        let mut removed_constraints = HashMap::new();
        for c in self {
            let c: RemovedConstraint = c.parse(&())?;
            let id = c.constraint.id;
            if constraints.contains_key(&id) {
                return Err(RawParseError::DuplicatedConstraintID { id }.into());
            }
            if removed_constraints.insert(id, c).is_some() {
                return Err(RawParseError::DuplicatedConstraintID { id }.into());
            }
        }
        Ok(removed_constraints)
    }
}


// ---- function.rs










pub enum Function {
    Constant(F64),
    Linear(v1::Linear),
    Quadratic(v1::Quadratic),
    Polynomial(v1::Polynomial),
}

impl Parse for v1::Function {
    type Output = Function;
    type Context = ();
    fn parse(self, _p1: &Self::Context) -> Result<Self::Output, ParseError> {
        
        
        match self.function.ok_or(RawParseError::UnsupportedV1Function)? {
            v1::function::Function::Constant(c) => Ok(Function::Constant(c)),
            v1::function::Function::Linear(l) => Ok(Function::Linear(l)),
            v1::function::Function::Quadratic(q) => Ok(Function::Quadratic(q)),
            v1::function::Function::Polynomial(p) => Ok(Function::Polynomial(p)),
        }
    }
}

// ---- instance.rs

pub enum Sense {
    Minimize,
    Maximize,
}

impl Parse for v1::instance::Sense {
    type Output = Sense;
    type Context = ();
    fn parse(self, _p1: &Self::Context) -> Result<Self::Output, ParseError> {
        match self {
            v1::instance::Sense::Minimize => Ok(Sense::Minimize),
            v1::instance::Sense::Maximize => Ok(Sense::Maximize),
            v1::instance::Sense::Unspecified => Err(RawParseError::UnspecifiedEnum {
                enum_name: "ommx.v1.instance.Sense",
            }
            .into()),
        }
    }
}

pub struct OneHot {
    pub id: ConstraintID,
    pub variables: BTreeSet<VariableID>,
}

impl Parse for v1::OneHot {
    type Output = OneHot;
    type Context = (
        HashMap<VariableID, DecisionVariable>,
        HashMap<ConstraintID, Constraint>,
    );
    fn parse(
        self,
        __ctx: &Self::Context,
    ) -> Result<Self::Output, ParseError> {
        let (decision_variable, constraints) = __ctx;
        let message = "ommx.v1.OneHot";
        let constraint_id = as_constraint_id(constraints, self.constraint_id)
            .map_err(|e: ParseError| -> (o: ParseError) { e.context(message, "constraint_id") })?;
        let mut variables = BTreeSet::new();
        for v in &self.decision_variables {
            let id = as_variable_id(decision_variable, *v)
                .map_err(|e: ParseError| -> (o: ParseError) { e.context(message, "decision_variables") })?;
            if !variables.insert(id) {
                return Err(RawParseError::NonUniqueVariableID { id }
                    .context(message, "decision_variables"));
            }
        }
        Ok(OneHot {
            id: constraint_id,
            variables,
        })
    }
}

pub struct Sos1 {
    pub binary_constraint_id: ConstraintID,
    pub big_m_constraint_ids: BTreeSet<ConstraintID>,
    pub variables: BTreeSet<VariableID>,
}

impl Parse for v1::Sos1 {
    type Output = Sos1;
    type Context = (
        HashMap<VariableID, DecisionVariable>,
        HashMap<ConstraintID, Constraint>,
    );
    fn parse(
        self,
        __ctx: &Self::Context,
    ) -> Result<Self::Output, ParseError> {
        let (decision_variable, constraints) = __ctx;
        let message = "ommx.v1.Sos1";
        let binary_constraint_id = as_constraint_id(constraints, self.binary_constraint_id)
            .map_err(|e: ParseError| -> (o: ParseError) { e.context(message, "binary_constraint_id") })?;
        let mut big_m_constraint_ids = BTreeSet::new();
        for id in &self.big_m_constraint_ids {
            let id = as_constraint_id(constraints, *id)
                .map_err(|e: ParseError| -> (o: ParseError) { e.context(message, "big_m_constraint_ids") })?;
            if !big_m_constraint_ids.insert(id) {
                return Err(RawParseError::NonUniqueConstraintID { id }
                    .context(message, "big_m_constraint_ids"));
            }
        }
        let mut variables = BTreeSet::new();
        for id in &self.decision_variables {
            let id = as_variable_id(decision_variable, *id)
                .map_err(|e: ParseError| -> (o: ParseError) { e.context(message, "decision_variables") })?;
            if !variables.insert(id) {
                return Err(RawParseError::NonUniqueVariableID { id }
                    .context(message, "decision_variables"));
            }
        }
        Ok(Sos1 {
            binary_constraint_id,
            big_m_constraint_ids,
            variables,
        })
    }
}

#[derive(Default)]
pub struct ConstraintHints {
    pub one_hot_constraints: Vec<OneHot>,
    pub sos1_constraints: Vec<Sos1>,
}

impl Parse for v1::ConstraintHints {
    type Output = ConstraintHints;
    type Context = (
        HashMap<VariableID, DecisionVariable>,
        HashMap<ConstraintID, Constraint>,
    );
    fn parse(self, context: &Self::Context) -> Result<Self::Output, ParseError> {
        let message = "ommx.v1.ConstraintHints";
        let one_hot_constraints = self
            .one_hot_constraints
            .into_iter()
            .map(|c| c.parse_as(context, message, "one_hot_constraints"))
            .collect::<Result<Vec<_>, ParseError>>()?;
        let sos1_constraints = self
            .sos1_constraints
            .into_iter()
            .map(|c| c.parse_as(context, message, "sos1_constraints"))
            .collect::<Result<_, ParseError>>()?;
        Ok(ConstraintHints {
            one_hot_constraints,
            sos1_constraints,
        })
    }
}









pub struct Instance {
    sense: Sense,
    objective: Function,
    decision_variables: HashMap<VariableID, DecisionVariable>,
    constraints: HashMap<ConstraintID, Constraint>,
    removed_constraints: HashMap<ConstraintID, RemovedConstraint>,
    decision_variable_dependency: HashMap<VariableID, Function>,
    parameters: Option<v1::Parameters>,
    description: Option<v1::instance::Description>,
    constraint_hints: ConstraintHints,
}

impl TryFrom<v1::Instance> for Instance {
    type Error = ParseError;
    fn try_from(value: v1::Instance) -> Result<Self, Self::Error> {
        let message = "ommx.v1.Instance";
        let sense = value.sense().parse_as(&(), message, "sense")?;

        let decision_variables =
            value
                .decision_variables
                .parse_as(&(), message, "decision_variables")?;

        let objective = value
            .objective
            .ok_or(RawParseError::MissingField {
                message,
                field: "objective",
            })?
            .parse_as(&(), message, "objective")?;

        let constraints = value.constraints.parse_as(&(), message, "constraints")?;
        let removed_constraints =
            value
                .removed_constraints
                .parse_as(&constraints, message, "removed_constraints")?;

        let mut decision_variable_dependency = HashMap::new();
        let __h1 = hashmap_into_vec(value.decision_variable_dependency);
        for __e in it_1: &__h1 {
            let (id, f) = (__e.0, __e.1.clone());
            decision_variable_dependency.insert(
                as_variable_id(&decision_variables, id)
                    .map_err(|e: ParseError| -> (o: ParseError) { e.context(message, "decision_variable_dependency") })?,
                f.parse_as(&(), message, "decision_variable_dependency")?,
            );
        }

        let context = (decision_variables, constraints);
        let constraint_hints = if let Some(hints) = value.constraint_hints {
            hints.parse_as(&context, message, "constraint_hints")?
        } else {
            Default::default()
        };
        let (decision_variables, constraints) = context;

        Ok(Self {
            sense,
            objective,
            constraints,
            decision_variables,
            removed_constraints,
            decision_variable_dependency,
            parameters: value.parameters,
            description: value.description,
            constraint_hints,
        })
    }
}

fn as_constraint_id(
    constraints: &HashMap<ConstraintID, Constraint>,
    id: u64,
) -> Result<ConstraintID, ParseError> {
    let id = ConstraintID::from(id);
    if !constraints.contains_key(&id) {
        return Err(RawParseError::UndefinedConstraintID { id }.into());
    }
    Ok(id)
}

fn as_variable_id(
    decision_variables: &HashMap<VariableID, DecisionVariable>,
    id: u64,
) -> Result<VariableID, ParseError> {
    let id = VariableID::from(id);
    if !decision_variables.contains_key(&id) {
        return Err(RawParseError::UndefinedVariableID { id }.into());
    }
    Ok(id)
}

}

}
} // verus!
fn main() {}
