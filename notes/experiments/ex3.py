import re
def find_block(src, start_regex, from_pos=0, to_pos=None):
    m = re.compile(start_regex).search(src, from_pos, to_pos if to_pos else len(src))
    assert m, start_regex
    i = src.index('{', m.end()-1)
    depth = 0; j = i
    while True:
        c = src[j]
        if c == '{': depth += 1
        elif c == '}':
            depth -= 1
            if depth == 0: break
        j += 1
    return m.start(), i, j
lits={}
def rules(body):
    def lit(m):
        t = m.group(0); name = 'lit_' + re.sub(r'[^0-9a-zA-Z]', '_', t.replace('-', 'm')); lits[name] = t; return name + '()'
    body = re.sub(r'(?<![\w.])(\d+\.\d*(?:e-?\d+)?|\d+e-?\d+)(?:_?f64)?(?![\w])', lit, body)
    body = body.replace('f64::INFINITY', 'f64_infinity()').replace('f64::NEG_INFINITY', 'f64_neg_infinity()').replace('f64::EPSILON', 'f64_epsilon()')
    body = re.sub(r'\bf64\b', 'F64', body)
    body = re.sub(r'^(\s*)([\w\.\*]+) ([-+*/])= (.*);$', r'\1\2 = \2 \3 (\4);', body, flags=re.M)
    # R7 with_context(|| format!(...)) -> vctx()
    body = re.sub(r'\.with_context\(\|\| format!\((?:[^()]|\([^()]*\))*\)\)', '.vctx()', body)
    body = re.sub(r'\.context\("(?:[^"\\]|\\.)*"\)', '.vctx()', body)
    body = re.sub(r'\bResult<((?:[^<>]|<[^<>]*>)*)>', lambda m: 'Result<'+m.group(1)+', VErr>' if ',' not in re.sub(r'\([^()]*\)|<[^<>]*>','',m.group(1)) else m.group(0), body)
    return body
ev = open('/repo/rust/ommx/src/evaluate.rs').read()
def fn_in(src, impl_rx, fn_rx):
    s,i,j = find_block(src, impl_rx)
    s2,i2,j2 = find_block(src, fn_rx, i, j)
    return src[s2:j2+1]
out=[]
for impl_rx, name in [(r'impl Evaluate for Function \{','Function'),(r'impl Evaluate for Linear \{','Linear'),(r'impl Evaluate for Polynomial \{','Polynomial')]:
    out.append('impl %s {' % name)
    for f in [r'fn evaluate\(', r'fn partial_evaluate\(']:
        if name=='Polynomial' and 'partial' in f: continue
        out.append(rules(fn_in(ev, impl_rx, f)))
    out.append('}')
# structs from ommx.v1.rs
v1 = open('/repo/rust/ommx/src/ommx.v1.rs').read()
def struct(name, modpath=None):
    m = re.search(r'pub struct %s \{' % name, v1)
    s,i,j = find_block(v1, r'pub struct %s \{' % name)
    t = v1[s:j+1]
    t = re.sub(r'^\s*#\[prost[^\n]*\n', '', t, flags=re.M)
    t = re.sub(r'^\s*///[^\n]*\n', '', t, flags=re.M)
    t = t.replace('::prost::alloc::vec::Vec','Vec').replace('::core::option::Option','Option').replace('::std::collections::HashMap','HashMap').replace('::prost::alloc::string::String','String')
    t = t.replace('linear::Term','LinearTerm').replace('function::Function','FunctionEnum')
    t = re.sub(r'\bf64\b','F64',t)
    return t
st=[]
st.append(struct('Term').replace('pub struct Term','pub struct LinearTerm'))
for n in ['Linear','Monomial','Polynomial','State']:
    st.append(struct(n))
print('\n'.join('#[derive(Clone)]\n'+x for x in st))
print('// lits', lits)
print('\n'.join(out))
