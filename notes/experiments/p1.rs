use vstd::prelude::*;
verus! {
pub struct C { pub id: u64 }

#[verifier::external_body]
fn iter_position<T, F: Fn(&T) -> bool>(v: &Vec<T>, f: F) -> (r: Option<usize>)
    requires forall|i: int| 0 <= i < v.len() ==> f.requires((&#[trigger] v[i],))
    ensures match r {
        Some(i) => i < v.len() && f.ensures((&v[i as int],), true)
            && forall|j: int| 0 <= j < i ==> f.ensures((&#[trigger] v[j],), false),
        None => forall|j: int| 0 <= j < v.len() ==> f.ensures((&#[trigger] v[j],), false),
    }
{ v.iter().position(f) }

fn find(v: &Vec<C>, id: u64) -> (r: Option<usize>)
    ensures match r {
        Some(i) => i < v.len() && v[i as int].id == id && forall|j: int| 0 <= j < i ==> v[j].id != id,
        None => forall|j: int| 0 <= j < v.len() ==> v[j].id != id,
    }
{
    iter_position(v, |c| c.id == id)
}
fn find2(v: &Vec<C>, id: u64) -> (r: Option<usize>)
    ensures match r {
        Some(i) => i < v.len() && v[i as int].id == id && forall|j: int| 0 <= j < i ==> v[j].id != id,
        None => forall|j: int| 0 <= j < v.len() ==> v[j].id != id,
    }
{
    iter_position(v, |c: &C| -> (b: bool) ensures b == (c.id == id) { c.id == id })
}
} // verus!
fn main() {}
