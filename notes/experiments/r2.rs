use vstd::prelude::*;
use std::collections::HashMap;
verus! {
pub struct VErr {}
pub trait VCtx<T> { fn vctx(self) -> Result<T, VErr>; }
impl<T> VCtx<T> for Option<T> {
    #[verifier::external_body]
    fn vctx(self) -> (r: Result<T, VErr>)
        ensures self is Some ==> r == Ok::<T, VErr>(self->Some_0), self is None ==> r is Err
    { match self { Some(x) => Ok(x), None => Err(VErr{}) } }
}
#[verifier::external_body]
fn iter_position<T, F: Fn(&T) -> bool>(v: &Vec<T>, f: F) -> (r: Option<usize>)
    requires forall|i: int| 0 <= i < v.len() ==> f.requires((&#[trigger] v[i],))
    ensures match r {
        Some(i) => i < v.len() && f.ensures((&v[i as int],), true)
            && forall|j: int| 0 <= j < i ==> f.ensures((&#[trigger] v[j],), false),
        None => forall|j: int| 0 <= j < v.len() ==> f.ensures((&#[trigger] v[j],), false),
    }
{ v.iter().position(f) }

#[verifier::external_body]
fn opt_is_some_and<T, F: FnOnce(&T) -> bool>(o: Option<&T>, f: F) -> (r: bool)
    requires o is Some ==> f.requires((o->Some_0,))
    ensures o is None ==> !r, o is Some ==> f.ensures((o->Some_0,), r)
{ o.is_some_and(f) }

pub struct Function { pub function: Option<u64> }
pub struct Constraint {
    pub id: u64, pub equality: i32, pub function: Option<Function>,
    pub subscripts: Vec<i64>, pub parameters: HashMap<String, String>,
    pub name: Option<String>, pub description: Option<String>,
}
pub struct RemovedConstraint {
    pub constraint: Option<Constraint>, pub removed_reason: String,
    pub removed_reason_parameters: HashMap<String, String>,
}
pub struct Instance { pub constraints: Vec<Constraint>, pub removed_constraints: Vec<RemovedConstraint> }

impl Instance {
    pub fn relax_constraint(
        &mut self,
        constraint_id: u64,
        removed_reason: String,
        removed_reason_parameters: HashMap<String, String>,
    ) -> (r: Result<(), VErr>)
        ensures
            r is Err <==> (forall|j: int| 0 <= j < old(self).constraints.len() ==> old(self).constraints[j].id != constraint_id),
            r is Err ==> *final(self) == *old(self),
            r is Ok ==> exists|i: int| 0 <= i < old(self).constraints.len()
                && old(self).constraints[i].id == constraint_id
                && (forall|j: int| 0 <= j < i ==> old(self).constraints[j].id != constraint_id)
                && final(self).constraints@ == old(self).constraints@.remove(i)
                && final(self).removed_constraints@ == old(self).removed_constraints@.push(RemovedConstraint {
                        constraint: Some(old(self).constraints[i]), removed_reason, removed_reason_parameters }),
    {
        let index = iter_position(&self
            .constraints, |c: &Constraint| -> (ret: bool) ensures ret == (c.id == constraint_id) { c.id == constraint_id })
            .vctx()?;
        let c = self.constraints.remove(index);
        self.removed_constraints.push(RemovedConstraint {
            constraint: Some(c),
            removed_reason,
            removed_reason_parameters,
        });
        Ok(())
    }

    pub fn restore_constraint(&mut self, constraint_id: u64) -> (r: Result<(), VErr>)
        ensures
            r is Err ==> *final(self) == *old(self),
            r is Ok ==> exists|i: int| 0 <= i < old(self).removed_constraints.len()
                && old(self).removed_constraints[i].constraint is Some
                && old(self).removed_constraints[i].constraint->Some_0.id == constraint_id
                && final(self).removed_constraints@ == old(self).removed_constraints@.remove(i)
                && final(self).constraints@ == old(self).constraints@.push(old(self).removed_constraints[i].constraint->Some_0),
    {
        let index = iter_position(&self
            .removed_constraints, |c: &RemovedConstraint| -> (ret: bool)
                ensures ret == (c.constraint is Some && c.constraint->Some_0.id == constraint_id)
                { opt_is_some_and(c.constraint.as_ref(), |c: &Constraint| -> (ret: bool) ensures ret == (c.id == constraint_id) { c.id == constraint_id }) })
            .vctx()?;
        let c = self.removed_constraints.remove(index).constraint.unwrap();
        self.constraints.push(c);
        Ok(())
    }
}
} // verus!
fn main() {}
