#!/usr/bin/env python3
"""Prototype extractor (design-phase experiment, not the framework)."""
import re, sys, os
REPO='/repo/rust/ommx/src/'

def strip_comments(s):
    # remove // comments (incl. doc) outside strings, keep line structure
    out=[]; i=0; n=len(s)
    while i<n:
        c=s[i]
        if c=='"':
            j=i+1
            while j<n and s[j]!='"':
                if s[j]=='\\': j+=1
                j+=1
            out.append(s[i:j+1]); i=j+1
        elif s.startswith('//',i):
            j=s.find('\n',i)
            if j<0: j=n
            i=j
        elif s.startswith('/*',i):
            j=s.find('*/',i)+2; i=j
        elif c=="'" and i+2<n and (s[i+2]=="'" or (s[i+1]=='\\' and s[i+3]=="'")):
            j=i+3 if s[i+2]=="'" else i+4
            out.append(s[i:j]); i=j
        else:
            out.append(c); i+=1
    return ''.join(out)

def match_brace(s, i):
    assert s[i]=='{'
    d=0; j=i; n=len(s)
    while j<n:
        c=s[j]
        if c=='"':
            j+=1
            while s[j]!='"':
                if s[j]=='\\': j+=1
                j+=1
        elif c=='{': d+=1
        elif c=='}':
            d-=1
            if d==0: return j
        j+=1
    raise Exception('unbalanced')

def find_block(s, rx, lo=0, hi=None):
    ms=list(re.compile(rx).finditer(s, lo, hi if hi else len(s)))
    if len(ms)!=1: raise Exception('anchor %r matched %d times'%(rx,len(ms)))
    m=ms[0]
    i=s.index('{', m.end()-1)
    j=match_brace(s,i)
    return m.start(), i, j

LITS={}
def lit_name(t):
    name='lit_'+re.sub(r'[^0-9a-zA-Z]','_',t.replace('-','m').replace('.','p'))
    LITS[name]=t; return name+'()'

def rules(b):
    b=re.sub(r'(?<![\w.])(\d+\.\d*(?:e-?\d+)?|\d+e-?\d+)(?:_?f64)?(?![\w.])(?!\.\w)', lambda m: lit_name(m.group(0)), b)
    b=re.sub(r'(?<![\w.])(\d+)\.(?=\s*[;,)\]])', lambda m: lit_name(m.group(1)+'.0'), b)
    b=b.replace('f64::INFINITY','f64_infinity()').replace('f64::NEG_INFINITY','f64_neg_infinity()').replace('f64::EPSILON','f64_epsilon()')
    b=re.sub(r'\bf64\b','F64',b)
    # R4 compound assignment (statement level, multi-line)
    b=re.sub(r'(\n\s*)(\*?[\w\.]+(?:\[[^\]]*\])?(?:\.\w+)*) ([-+*/])= ([^;]*);', r'\1\2 = \2 \3 (\4);', b)
    # R7
    b=re.sub(r'\.with_context\(\|\|\s*\{?\s*format!\((?:[^()]|\((?:[^()]|\([^()]*\))*\))*\)\s*\}?\s*\)', '.vctx()', b)
    b=re.sub(r'\.with_context\(\|\| format!\((?:[^()]|\((?:[^()]|\([^()]*\))*\))*\)\)', '.vctx()', b)
    b=re.sub(r'\.context\(\s*"(?:[^"\\]|\\.)*"\s*\)', '.vctx()', b)
    b=re.sub(r'\.context\(format!\((?:[^()]|\([^()]*\))*\)\)', '.vctx()', b)
    # R6
    b=re.sub(r'bail!\((?:[^()]|\((?:[^()]|\([^()]*\))*\))*\);?', 'return Err(VErr::new());', b)
    def ens(m):
        inner=m.group(1)
        # split first top-level comma
        d=0
        for k,ch in enumerate(inner):
            if ch in '([{': d+=1
            elif ch in ')]}': d-=1
            elif ch==',' and d==0:
                return 'if !(%s) { return Err(VErr::new()); }'%inner[:k].strip()
        return 'if !(%s) { return Err(VErr::new()); }'%inner.strip()
    b=re.sub(r'ensure!\(((?:[^()]|\((?:[^()]|\([^()]*\))*\))*)\);', ens, b)
    # R5
    def res(m):
        inner=m.group(1)
        flat=re.sub(r'\((?:[^()]|\([^()]*\))*\)|<(?:[^<>]|<[^<>]*>)*>','',inner)
        return 'Result<'+inner+', VErr>' if ',' not in flat else m.group(0)
    b=re.sub(r'\bResult<((?:[^<>]|<(?:[^<>]|<[^<>]*>)*>)*)>', res, b)
    # R17 underscore params
    cnt=[0]
    def us(m):
        cnt[0]+=1; return '%s_p%d:'%(m.group(1),cnt[0])
    b=re.sub(r'([(,]\s*)_:', us, b)
    return b

def get_fn(file, impl_rx, fn_rx):
    s=strip_comments(open(REPO+file).read())
    if impl_rx:
        a,i,j=find_block(s, impl_rx)
        a2,i2,j2=find_block(s, fn_rx, i, j)
    else:
        a2,i2,j2=find_block(s, fn_rx)
    return s[a2:j2+1]

def v1_module():
    s=strip_comments(open(REPO+'ommx.v1.rs').read())
    s=re.sub(r'^\s*#\[(prost|allow|non_exhaustive|derive|deprecated)[^\n]*\]\n','',s,flags=re.M)
    s=re.sub(r'^\s*#\[prost\((?:[^()]|\([^()]*\))*\)\]\s*\n','',s,flags=re.M)
    s=re.sub(r'#\[prost\((?:[^()]|\([^()]*\))*\)\]','',s)
    s=re.sub(r'#\[(?:derive|allow|repr|non_exhaustive|deprecated)(?:\((?:[^()]|\([^()]*\))*\))?\]','',s)
    s=s.replace('::prost::alloc::vec::Vec','Vec').replace('::core::option::Option','Option').replace('::std::collections::HashMap','HashMap').replace('::prost::alloc::string::String','String').replace('::prost::alloc::boxed::Box','Box')
    # drop impl blocks (enum helpers)
    while True:
        m=re.search(r'\n\s*impl \w+ \{', s)
        if not m: break
        i=s.index('{',m.start()); j=match_brace(s,i)
        s=s[:m.start()]+s[j+1:]
    s=re.sub(r'\bf64\b','F64',s)
    s=re.sub(r'(pub struct )', r'#[derive(Clone, Default)]\n\1', s)
    s=re.sub(r'(pub enum )', r'#[derive(Clone)]\n\1', s)
    s=re.sub(r'\n\s*\n+', '\n', s)
    return s
if __name__=='__main__':
    print(v1_module()[:3000])
