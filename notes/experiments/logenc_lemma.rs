use vstd::prelude::*;
verus! {
pub open spec fn p2(k: nat) -> int decreases k { if k == 0 { 1 } else { 2 * p2((k - 1) as nat) } }

proof fn lemma_p2_pos(k: nat) ensures p2(k) >= 1 decreases k { if k > 0 { lemma_p2_pos((k - 1) as nat); } }

// coefficient i of an n-bit log encoding of the range 0..=u
pub open spec fn coef(i: nat, n: nat, u: int) -> int {
    if i + 1 == n { u - p2((n - 1) as nat) + 1 } else { p2(i) }
}
// value of the first k bits
pub open spec fn enc(bits: Seq<bool>, k: nat, n: nat, u: int) -> int decreases k {
    if k == 0 { 0 } else { enc(bits, (k - 1) as nat, n, u) + if bits[k - 1] { coef((k - 1) as nat, n, u) } else { 0 } }
}
// plain binary value of the first k bits
pub open spec fn bin(bits: Seq<bool>, k: nat) -> int decreases k {
    if k == 0 { 0 } else { bin(bits, (k - 1) as nat) + if bits[k - 1] { p2((k - 1) as nat) } else { 0 } }
}
pub open spec fn bits_of(k: nat, v: int) -> Seq<bool> decreases k {
    if k == 0 { Seq::empty() } else {
        let h = p2((k - 1) as nat);
        bits_of((k - 1) as nat, if v >= h { v - h } else { v }).push(v >= h)
    }
}
proof fn lemma_bin_prefix(a: Seq<bool>, b: Seq<bool>, k: nat)
    requires k <= a.len(), k <= b.len(), forall|i: int| 0 <= i < k ==> a[i] == b[i]
    ensures bin(a, k) == bin(b, k)
    decreases k
{ if k > 0 { lemma_bin_prefix(a, b, (k - 1) as nat); } }

proof fn lemma_bits_of(k: nat, v: int)
    requires 0 <= v < p2(k)
    ensures bits_of(k, v).len() == k, bin(bits_of(k, v), k) == v
    decreases k
{
    if k > 0 {
        let h = p2((k - 1) as nat);
        let w = if v >= h { v - h } else { v };
        lemma_bits_of((k - 1) as nat, w);
        let lowb = bits_of((k - 1) as nat, w);
        lemma_bin_prefix(lowb, bits_of(k, v), (k - 1) as nat);
    }
}
proof fn lemma_bin_range(bits: Seq<bool>, k: nat)
    requires k <= bits.len()
    ensures 0 <= bin(bits, k) <= p2(k) - 1
    decreases k
{ if k > 0 { lemma_bin_range(bits, (k - 1) as nat); } }

proof fn lemma_enc_low(bits: Seq<bool>, k: nat, n: nat, u: int)
    requires k < n, k <= bits.len()
    ensures enc(bits, k, n, u) == bin(bits, k)
    decreases k
{ if k > 0 { lemma_enc_low(bits, (k - 1) as nat, n, u); } }

// (1) every bit pattern encodes a value in 0..=u
proof fn lemma_enc_in_range(bits: Seq<bool>, n: nat, u: int)
    requires n >= 1, bits.len() == n, p2((n - 1) as nat) <= u < p2(n)
    ensures 0 <= enc(bits, n, n, u) <= u
{
    lemma_enc_low(bits, (n - 1) as nat, n, u);
    lemma_bin_range(bits, (n - 1) as nat);
}
// (2) every value in 0..=u is encoded by some bit pattern
proof fn lemma_enc_onto(v: int, n: nat, u: int) -> (bits: Seq<bool>)
    requires n >= 1, p2((n - 1) as nat) <= u < p2(n), 0 <= v <= u
    ensures bits.len() == n, enc(bits, n, n, u) == v
{
    let h = p2((n - 1) as nat);
    let m = u - h + 1;
    if v < h {
        lemma_bits_of((n - 1) as nat, v);
        let bits = bits_of((n - 1) as nat, v).push(false);
        lemma_enc_low(bits, (n - 1) as nat, n, u);
        lemma_bin_prefix(bits, bits_of((n - 1) as nat, v), (n - 1) as nat);
        bits
    } else {
        // v >= h >= m  (since u < 2h)
        lemma_bits_of((n - 1) as nat, v - m);
        let bits = bits_of((n - 1) as nat, v - m).push(true);
        lemma_enc_low(bits, (n - 1) as nat, n, u);
        lemma_bin_prefix(bits, bits_of((n - 1) as nat, v - m), (n - 1) as nat);
        bits
    }
}
} // verus!
fn main() {}
