use vstd::prelude::*;
use std::collections::BTreeMap;
verus! {
pub struct P { pub a: u64, pub b: u64 }

fn get_a(p: &mut P) -> (r: &mut u64)
    ensures *r == old(p).a, final(p).b == old(p).b, final(p).a == *final(r)
{
    &mut p.a
}

fn test(p: &mut P)
    requires old(p).a < 100
    ensures final(p).a == old(p).a + 1, final(p).b == old(p).b
{
    let r = get_a(p);
    *r = *r + 1;
}


} // verus!
fn main() {}
