use vstd::prelude::*;
use vstd::std_specs::ops::*;
verus! {

pub enum XR { NaN, NegInf, PosInf, Fin(real) }

#[verifier::external_body]
#[derive(Clone, Copy, Debug)]
pub struct F64 { v: f64 }
impl View for F64 { type V = XR; uninterp spec fn view(&self) -> XR; }

pub open spec fn xr_le(a: XR, b: XR) -> bool {
    match (a, b) {
        (XR::NaN, _) => false, (_, XR::NaN) => false,
        (XR::NegInf, _) => true, (_, XR::PosInf) => true,
        (XR::Fin(x), XR::Fin(y)) => x <= y,
        _ => false,
    }
}
pub open spec fn xr_lt(a: XR, b: XR) -> bool { xr_le(a, b) && a != b }
pub open spec fn sgn(x: real) -> int { if x > 0real { 1 } else if x < 0real { -1 } else { 0 } }
pub open spec fn xr_sign(a: XR) -> int {
    match a { XR::NaN => 0, XR::NegInf => -1, XR::PosInf => 1, XR::Fin(x) => sgn(x) }
}
pub open spec fn xr_mul(a: XR, b: XR) -> XR {
    match (a, b) {
        (XR::NaN, _) => XR::NaN, (_, XR::NaN) => XR::NaN,
        (XR::Fin(x), XR::Fin(y)) => XR::Fin(x * y),
        _ => { // at least one infinite
            let s = xr_sign(a) * xr_sign(b);
            if s == 0 { XR::NaN } else if s > 0 { XR::PosInf } else { XR::NegInf }
        }
    }
}
// IEEE minNum / maxNum as implemented by f64::min / f64::max: NaN is ignored
pub open spec fn xr_min(a: XR, b: XR) -> XR {
    if a is NaN { b } else if b is NaN { a } else if xr_le(a, b) { a } else { b }
}
pub open spec fn xr_max(a: XR, b: XR) -> XR {
    if a is NaN { b } else if b is NaN { a } else if xr_le(a, b) { b } else { a }
}

pub open spec fn xr_add(a: XR, b: XR) -> XR {
    match (a, b) {
        (XR::NaN, _) => XR::NaN, (_, XR::NaN) => XR::NaN,
        (XR::NegInf, XR::PosInf) => XR::NaN, (XR::PosInf, XR::NegInf) => XR::NaN,
        (XR::NegInf, _) => XR::NegInf, (_, XR::NegInf) => XR::NegInf,
        (XR::PosInf, _) => XR::PosInf, (_, XR::PosInf) => XR::PosInf,
        (XR::Fin(x), XR::Fin(y)) => XR::Fin(x + y),
    }
}
pub uninterp spec fn f_add(a: F64, b: F64) -> F64;
pub broadcast axiom fn ax_f_add(a: F64, b: F64)
    ensures (#[trigger] f_add(a, b))@ == xr_add(a@, b@);
impl AddSpecImpl<F64> for F64 {
    open spec fn obeys_add_spec() -> bool { true }
    open spec fn add_req(self, rhs: F64) -> bool { true }
    open spec fn add_spec(self, rhs: F64) -> F64 { f_add(self, rhs) }
}
impl core::ops::Add for F64 {
    type Output = F64;
    #[verifier::external_body]
    fn add(self, rhs: F64) -> (r: F64) { F64 { v: self.v + rhs.v } }
}
impl<'a, 'b> MulSpecImpl<&'b F64> for &'a F64 {
    open spec fn obeys_mul_spec() -> bool { true }
    open spec fn mul_req(self, rhs: &'b F64) -> bool { true }
    open spec fn mul_spec(self, rhs: &'b F64) -> F64 { f_mul(*self, *rhs) }
}
impl<'a, 'b> core::ops::Mul<&'b F64> for &'a F64 {
    type Output = F64;
    #[verifier::external_body]
    fn mul(self, rhs: &'b F64) -> (r: F64) { F64 { v: self.v * rhs.v } }
}
pub uninterp spec fn f_mul(a: F64, b: F64) -> F64;
pub broadcast axiom fn ax_f_mul(a: F64, b: F64)
    ensures (#[trigger] f_mul(a, b))@ == xr_mul(a@, b@);
impl MulSpecImpl<F64> for F64 {
    open spec fn obeys_mul_spec() -> bool { true }
    open spec fn mul_req(self, rhs: F64) -> bool { true }
    open spec fn mul_spec(self, rhs: F64) -> F64 { f_mul(self, rhs) }
}
impl core::ops::Mul for F64 {
    type Output = F64;
    #[verifier::external_body]
    fn mul(self, rhs: F64) -> (r: F64) { F64 { v: self.v * rhs.v } }
}
impl PartialEq for F64 {
    #[verifier::external_body]
    fn eq(&self, other: &F64) -> (r: bool)
        ensures r == (self@ == other@ && !(self@ is NaN))
    { self.v == other.v }
}
impl PartialOrd for F64 {
    #[verifier::external_body]
    fn partial_cmp(&self, other: &F64) -> (r: Option<core::cmp::Ordering>) { self.v.partial_cmp(&other.v) }
    #[verifier::external_body]
    fn le(&self, other: &F64) -> (r: bool) ensures r == xr_le(self@, other@) { self.v <= other.v }
    #[verifier::external_body]
    fn lt(&self, other: &F64) -> (r: bool) ensures r == xr_lt(self@, other@) { self.v < other.v }
    #[verifier::external_body]
    fn ge(&self, other: &F64) -> (r: bool) ensures r == xr_le(other@, self@) { self.v >= other.v }
    #[verifier::external_body]
    fn gt(&self, other: &F64) -> (r: bool) ensures r == xr_lt(other@, self@) { self.v > other.v }
}
impl F64 {
    #[verifier::external_body]
    pub fn abs(self) -> (r: F64) { F64 { v: self.v.abs() } }
    #[verifier::external_body]
    pub fn powi(self, n: i32) -> (r: F64) { F64 { v: self.v.powi(n) } }
    #[verifier::external_body]
    pub fn ceil(self) -> (r: F64) { F64 { v: self.v.ceil() } }
    #[verifier::external_body]
    pub fn floor(self) -> (r: F64) { F64 { v: self.v.floor() } }
    #[verifier::external_body]
    pub fn is_finite(self) -> (r: bool) { self.v.is_finite() }
    #[verifier::external_body]
    pub fn min(self, o: F64) -> (r: F64) ensures r@ == xr_min(self@, o@) { F64 { v: self.v.min(o.v) } }
    #[verifier::external_body]
    pub fn max(self, o: F64) -> (r: F64) ensures r@ == xr_max(self@, o@) { F64 { v: self.v.max(o.v) } }
    #[verifier::external_body]
    pub fn is_nan(self) -> (r: bool) ensures r == (self@ is NaN) { self.v.is_nan() }
}
#[verifier::external_body]
pub fn lit_0_0() -> (r: F64) ensures r@ == XR::Fin(0real) { F64 { v: 0.0 } }
#[verifier::external_body]
pub fn f64_infinity() -> (r: F64) ensures r@ == XR::PosInf { F64 { v: f64::INFINITY } }
#[verifier::external_body]
pub fn f64_neg_infinity() -> (r: F64) ensures r@ == XR::NegInf { F64 { v: f64::NEG_INFINITY } }



#[verifier::external_body]
pub fn lit_1em6() -> (r: F64) { F64 { v: 1e-6 } }
impl core::ops::Sub for F64 { type Output = F64; #[verifier::external_body] fn sub(self, rhs: F64) -> (r: F64) { F64 { v: self.v - rhs.v } } }
#[derive(Debug)]
pub enum BoundError {
    NotANumber { lower: F64, upper: F64 },
    InvalidInfinity { lower: F64, upper: F64 },
    UpperSmallerThanLower { lower: F64, upper: F64 },
}
#[derive(Debug, Clone, Copy, PartialEq)]
pub struct Bound { lower: F64, upper: F64 }
use core::ops::{Add, Mul};
pub trait Zero: Sized { fn zero() -> Self; fn is_zero(&self) -> bool; }
impl BoundError {
fn check(lower: F64, upper: F64) -> Result<(), BoundError> {
        if lower.is_nan() || upper.is_nan() {
            return Err(BoundError::NotANumber { lower, upper });
        }
        if lower == f64_infinity() || upper == f64_neg_infinity() {
            return Err(BoundError::InvalidInfinity { lower, upper });
        }
        if lower > upper {
            return Err(BoundError::UpperSmallerThanLower { lower, upper });
        }
        Ok(())
    }
}
impl Bound {
pub fn new(lower: F64, upper: F64) -> Result<Self, BoundError> {
        BoundError::check(lower, upper)?;
        Ok(Self { lower, upper })
    }
pub fn width(&self) -> F64 {
        self.upper - self.lower
    }
pub fn as_integer_bound(&self) -> Self {
        let atol = lit_1em6();
        let lower = if self.lower.is_finite() {
            (self.lower - atol).ceil()
        } else {
            self.lower
        };
        let upper = if self.upper.is_finite() {
            (self.upper + atol).floor()
        } else {
            self.upper
        };
        Self::new(lower, upper).unwrap()
    }
pub fn is_finite(&self) -> bool {
        self.lower.is_finite() && self.upper.is_finite()
    }
pub fn intersection(&self, other: &Self) -> Option<Self> {
        Self::new(self.lower.max(other.lower), self.upper.min(other.upper)).ok()
    }
pub fn pow(&self, exp: u8) -> Self {
        if exp % 2 == 0 {
            if self.lower >= lit_0_0() {
                // 0 <= lower <= upper
                Bound::new(self.lower.powi(exp as i32), self.upper.powi(exp as i32)).unwrap()
            } else if self.upper <= lit_0_0() {
                // lower <= upper <= 0
                Bound::new(self.upper.powi(exp as i32), self.lower.powi(exp as i32)).unwrap()
            } else {
                // lower <= 0 <= upper
                Bound::new(
                    lit_0_0(),
                    self.upper
                        .abs()
                        .powi(exp as i32)
                        .max(self.lower.abs().powi(exp as i32)),
                )
                .unwrap()
            }
        } else {
            // pow is monotonic for odd exponents
            Bound::new(self.lower.powi(exp as i32), self.upper.powi(exp as i32)).unwrap()
        }
    }
pub fn contains(&self, value: F64, atol: F64) -> bool {
        self.lower - atol <= value && value <= self.upper + atol
    }
pub fn nearest_to_zero(&self) -> F64 {
        if self.lower >= lit_0_0() {
            self.lower
        } else if self.upper <= lit_0_0() {
            self.upper
        } else {
            lit_0_0()
        }
    }
}
impl Add for Bound {
    type Output = Bound;
    fn add(self, rhs: Self) -> Self::Output {
        Self::new(self.lower + rhs.lower, self.upper + rhs.upper).unwrap()
    }
}
impl Add<F64> for Bound {
    type Output = Bound;
    fn add(self, rhs: F64) -> Self::Output {
        Bound::new(self.lower + rhs, self.upper + rhs).unwrap()
    }
}
impl Mul for Bound {
    type Output = Bound;
    fn mul(self, rhs: Self) -> Self::Output {
        // [0, 0] x (-inf, inf) = [0, 0]
        if self == Bound::zero() || rhs == Bound::zero() {
            return Bound::zero();
        }
        let a = self.lower * rhs.lower;
        let b = self.lower * rhs.upper;
        let c = self.upper * rhs.lower;
        let d = self.upper * rhs.upper;
        Bound::new(a.min(b).min(c).min(d), a.max(b).max(c).max(d)).unwrap()
    }
}
impl Mul<F64> for Bound {
    type Output = Bound;
    fn mul(self, rhs: F64) -> Self::Output {
        if rhs >= lit_0_0() {
            Bound::new(self.lower * rhs, self.upper * rhs).unwrap()
        } else {
            Bound::new(self.upper * rhs, self.lower * rhs).unwrap()
        }
    }
}
impl Zero for Bound {
    fn zero() -> Self {
        Self::try_from(lit_0_0()).unwrap()
    }
    fn is_zero(&self) -> bool {
        self.lower == lit_0_0() && self.upper == lit_0_0()
    }
}
impl TryFrom<F64> for Bound {
    type Error = BoundError;
    fn try_from(value: F64) -> Result<Self, Self::Error> {
        Self::new(value, value)
    }
}

} // verus!
fn main() {}
