use vstd::prelude::*;
use std::collections::HashMap;
verus! {
pub struct C { pub id: u64 }
fn t(v: Vec<C>) -> (r: Vec<u64>) {
    let mut out = Vec::new();
    for (i, c) in it: v.into_iter().enumerate() {
        out.push(c.id);
    }
    out
}
fn t2() -> HashMap<String, String> {
    let mut m = HashMap::new();
    m.insert("parameter_id".to_string(), "x".to_string());
    m
}
} // verus!
fn main() {}
