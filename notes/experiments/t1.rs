use vstd::prelude::*;
use std::collections::HashMap;
verus! {
pub struct ParseContext { pub message: &'static str, pub field: &'static str }
pub enum RawParseError { UnspecifiedEnum { enum_name: &'static str }, MissingField { message: &'static str, field: &'static str }, DuplicatedVariableID { id: u64 } }
pub struct ParseError { pub context: Vec<ParseContext>, pub error: RawParseError }

impl ParseError {
    pub fn context(self, message: &'static str, field: &'static str) -> (r: ParseError)
        ensures r.error == self.error, r.context@ == self.context@.push(ParseContext { message, field })
    {
        let mut this = self;
        this.context.push(ParseContext { message, field });
        this
    }
}
impl From<RawParseError> for ParseError {
    fn from(error: RawParseError) -> (r: Self) ensures r.error == error, r.context@.len() == 0 {
        ParseError { context: vec![], error }
    }
}

pub trait Parse: Sized {
    type Output;
    type Context;

    spec fn parse_ok(self, context: &Self::Context) -> bool;

    fn parse(self, context: &Self::Context) -> (r: Result<Self::Output, ParseError>)
        ensures r is Ok <==> self.parse_ok(context);

    fn parse_as(
        self,
        context: &Self::Context,
        message: &'static str,
        field: &'static str,
    ) -> (r: Result<Self::Output, ParseError>)
        ensures r is Ok <==> self.parse_ok(context)
    {
        self.parse(context).map_err(|e: ParseError| -> (o: ParseError) { e.context(message, field) })
    }
}

pub enum RawKind { Unspecified, Continuous, Integer }
pub enum Kind { Continuous, Integer }
impl Parse for RawKind {
    type Output = Kind;
    type Context = ();
    open spec fn parse_ok(self, context: &()) -> bool { !(self is Unspecified) }
    fn parse(self, _p1: &Self::Context) -> (r: Result<Self::Output, ParseError>)
    {
        match self {
            RawKind::Unspecified => Err(RawParseError::UnspecifiedEnum { enum_name: "ommx.v1.decision_variable.Kind" }.into()),
            RawKind::Continuous => Ok(Kind::Continuous),
            RawKind::Integer => Ok(Kind::Integer),
        }
    }
}
} // verus!
fn main() {}
