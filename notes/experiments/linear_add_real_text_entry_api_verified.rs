#![feature(allocator_api)]
use vstd::prelude::*;
use vstd::std_specs::ops::*;
verus! {
pub mod lib {
use vstd::prelude::*;
use vstd::std_specs::ops::*;


pub enum XR { NaN, NegInf, PosInf, Fin(real) }

#[verifier::external_body]
#[derive(Clone, Copy, Debug)]
pub struct F64 { v: f64 }
impl View for F64 { type V = XR; uninterp spec fn view(&self) -> XR; }

pub open spec fn xr_le(a: XR, b: XR) -> bool {
    match (a, b) {
        (XR::NaN, _) => false, (_, XR::NaN) => false,
        (XR::NegInf, _) => true, (_, XR::PosInf) => true,
        (XR::Fin(x), XR::Fin(y)) => x <= y,
        _ => false,
    }
}
pub open spec fn xr_lt(a: XR, b: XR) -> bool { xr_le(a, b) && a != b }
pub open spec fn sgn(x: real) -> int { if x > 0real { 1 } else if x < 0real { -1 } else { 0 } }
pub open spec fn xr_sign(a: XR) -> int {
    match a { XR::NaN => 0, XR::NegInf => -1, XR::PosInf => 1, XR::Fin(x) => sgn(x) }
}
pub open spec fn xr_mul(a: XR, b: XR) -> XR {
    match (a, b) {
        (XR::NaN, _) => XR::NaN, (_, XR::NaN) => XR::NaN,
        (XR::Fin(x), XR::Fin(y)) => XR::Fin(x * y),
        _ => { // at least one infinite
            let s = xr_sign(a) * xr_sign(b);
            if s == 0 { XR::NaN } else if s > 0 { XR::PosInf } else { XR::NegInf }
        }
    }
}
// IEEE minNum / maxNum as implemented by f64::min / f64::max: NaN is ignored
pub open spec fn xr_min(a: XR, b: XR) -> XR {
    if a is NaN { b } else if b is NaN { a } else if xr_le(a, b) { a } else { b }
}
pub open spec fn xr_max(a: XR, b: XR) -> XR {
    if a is NaN { b } else if b is NaN { a } else if xr_le(a, b) { b } else { a }
}

pub open spec fn xr_add(a: XR, b: XR) -> XR {
    match (a, b) {
        (XR::NaN, _) => XR::NaN, (_, XR::NaN) => XR::NaN,
        (XR::NegInf, XR::PosInf) => XR::NaN, (XR::PosInf, XR::NegInf) => XR::NaN,
        (XR::NegInf, _) => XR::NegInf, (_, XR::NegInf) => XR::NegInf,
        (XR::PosInf, _) => XR::PosInf, (_, XR::PosInf) => XR::PosInf,
        (XR::Fin(x), XR::Fin(y)) => XR::Fin(x + y),
    }
}
pub uninterp spec fn f_add(a: F64, b: F64) -> F64;
pub broadcast axiom fn ax_f_add(a: F64, b: F64)
    ensures (#[trigger] f_add(a, b))@ == xr_add(a@, b@);
impl AddSpecImpl<F64> for F64 {
    open spec fn obeys_add_spec() -> bool { false }
    open spec fn add_req(self, rhs: F64) -> bool { true }
    open spec fn add_spec(self, rhs: F64) -> F64 { f_add(self, rhs) }
}
impl core::ops::Add for F64 {
    type Output = F64;
    #[verifier::external_body]
    fn add(self, rhs: F64) -> (r: F64) ensures r@ == xr_add(self@, rhs@) { F64 { v: self.v + rhs.v } }
}
impl<'a, 'b> MulSpecImpl<&'b F64> for &'a F64 {
    open spec fn obeys_mul_spec() -> bool { false }
    open spec fn mul_req(self, rhs: &'b F64) -> bool { true }
    open spec fn mul_spec(self, rhs: &'b F64) -> F64 { f_mul(*self, *rhs) }
}
impl<'a, 'b> core::ops::Mul<&'b F64> for &'a F64 {
    type Output = F64;
    #[verifier::external_body]
    fn mul(self, rhs: &'b F64) -> (r: F64) ensures r@ == xr_mul(self@, rhs@) { F64 { v: self.v * rhs.v } }
}
pub uninterp spec fn f_mul(a: F64, b: F64) -> F64;
pub broadcast axiom fn ax_f_mul(a: F64, b: F64)
    ensures (#[trigger] f_mul(a, b))@ == xr_mul(a@, b@);
impl MulSpecImpl<F64> for F64 {
    open spec fn obeys_mul_spec() -> bool { false }
    open spec fn mul_req(self, rhs: F64) -> bool { true }
    open spec fn mul_spec(self, rhs: F64) -> F64 { f_mul(self, rhs) }
}
impl core::ops::Mul for F64 {
    type Output = F64;
    #[verifier::external_body]
    fn mul(self, rhs: F64) -> (r: F64) ensures r@ == xr_mul(self@, rhs@) { F64 { v: self.v * rhs.v } }
}
impl PartialEq for F64 {
    #[verifier::external_body]
    fn eq(&self, other: &F64) -> (r: bool)
        ensures r == (self@ == other@ && !(self@ is NaN))
    { self.v == other.v }
}
impl PartialOrd for F64 {
    #[verifier::external_body]
    fn partial_cmp(&self, other: &F64) -> (r: Option<core::cmp::Ordering>) { self.v.partial_cmp(&other.v) }
    #[verifier::external_body]
    fn le(&self, other: &F64) -> (r: bool) ensures r == xr_le(self@, other@) { self.v <= other.v }
    #[verifier::external_body]
    fn lt(&self, other: &F64) -> (r: bool) ensures r == xr_lt(self@, other@) { self.v < other.v }
    #[verifier::external_body]
    fn ge(&self, other: &F64) -> (r: bool) ensures r == xr_le(other@, self@) { self.v >= other.v }
    #[verifier::external_body]
    fn gt(&self, other: &F64) -> (r: bool) ensures r == xr_lt(other@, self@) { self.v > other.v }
}
impl F64 {
    #[verifier::external_body]
    pub fn min(self, o: F64) -> (r: F64) ensures r@ == xr_min(self@, o@) { F64 { v: self.v.min(o.v) } }
    #[verifier::external_body]
    pub fn max(self, o: F64) -> (r: F64) ensures r@ == xr_max(self@, o@) { F64 { v: self.v.max(o.v) } }
    #[verifier::external_body]
    pub fn is_nan(self) -> (r: bool) ensures r == (self@ is NaN) { self.v.is_nan() }
}
#[verifier::external_body]
pub fn lit_0_0() -> (r: F64) ensures r@ == XR::Fin(0real) { F64 { v: 0.0 } }
#[verifier::external_body]
pub fn f64_infinity() -> (r: F64) ensures r@ == XR::PosInf { F64 { v: f64::INFINITY } }
#[verifier::external_body]
pub fn f64_neg_infinity() -> (r: F64) ensures r@ == XR::NegInf { F64 { v: f64::NEG_INFINITY } }




use std::collections::{HashMap, BTreeSet, BTreeMap};
use std::collections::btree_map::Entry;
use core::alloc::Allocator;

impl F64 {
    #[verifier::external_body]
    pub fn abs(self) -> (r: F64) ensures r@ == xr_abs(self@) { F64 { v: self.v.abs() } }
}
pub open spec fn xr_abs(a: XR) -> XR { match a { XR::NaN => XR::NaN, XR::NegInf => XR::PosInf, XR::PosInf => XR::PosInf, XR::Fin(x) => XR::Fin(if x < 0real { -x } else { x }) } }
pub open spec fn eps() -> real { 1real / 4503599627370496real }
#[verifier::external_body]
pub fn f64_epsilon() -> (r: F64) ensures r@ == XR::Fin(eps()) { F64 { v: f64::EPSILON } }
impl Default for F64 { #[verifier::external_body] fn default() -> (r: F64) ensures r@ == XR::Fin(0real) { F64 { v: 0.0 } } }

#[verifier::external_type_specification]
#[verifier::external_body]
#[verifier::reject_recursive_types(K)]
#[verifier::reject_recursive_types(V)]
#[verifier::reject_recursive_types(A)]
pub struct ExEntry<'a, K: 'a, V: 'a, A: Allocator + Clone>(Entry<'a, K, V, A>);

pub uninterp spec fn entry_key<'a, K, V, A: Allocator + Clone>(e: Entry<'a, K, V, A>) -> K;
pub uninterp spec fn entry_old<'a, K, V, A: Allocator + Clone>(e: Entry<'a, K, V, A>) -> Map<K, V>;
pub uninterp spec fn entry_fin<'a, K, V, A: Allocator + Clone>(e: Entry<'a, K, V, A>) -> Map<K, V>;
pub uninterp spec fn default_of<V>() -> V;
pub broadcast axiom fn ax_default_f64() ensures (#[trigger] default_of::<F64>())@ == XR::Fin(0real);

pub assume_specification<'a, K: Ord, V, A: Allocator + Clone>[ BTreeMap::<K, V, A>::entry ](m: &'a mut BTreeMap<K, V, A>, key: K) -> (e: Entry<'a, K, V, A>)
    ensures entry_key(e) == key, entry_old(e) == old(m)@, entry_fin(e) == final(m)@;

pub assume_specification<'a, K: Ord, V: Default, A: Allocator + Clone>[ Entry::<'a, K, V, A>::or_default ](e: Entry<'a, K, V, A>) -> (r: &'a mut V)
    ensures
        entry_old(e).contains_key(entry_key(e)) ==> *r == entry_old(e)[entry_key(e)],
        !entry_old(e).contains_key(entry_key(e)) ==> *r == default_of::<V>(),
        entry_fin(e) == entry_old(e).insert(entry_key(e), *final(r));

#[verifier::external_body]
pub fn chain_refs<'a, T>(a: &'a Vec<T>, b: &'a Vec<T>) -> (r: Vec<&'a T>)
    ensures r.len() == a.len() + b.len(),
        forall|i: int| 0 <= i < r.len() ==> *(#[trigger] r[i]) == (a@ + b@)[i],
{ a.iter().chain(b.iter()).collect() }

#[derive(Clone, Copy)]
pub struct Term { pub id: u64, pub coefficient: F64 }
pub struct Linear { pub terms: Vec<Term>, pub constant: F64 }

pub open spec fn rv(x: F64) -> real { match x@ { XR::Fin(v) => v, _ => 0real } }
pub open spec fn fin(x: F64) -> bool { x@ is Fin }
pub open spec fn rabs(x: real) -> real { if x < 0real { -x } else { x } }
// the merge performed by the code, as a function of the processed prefix
pub open spec fn acc(ch: Seq<Term>, n: int) -> Map<u64, real> decreases n {
    if n <= 0 { Map::empty() } else {
        let prev = acc(ch, n - 1);
        let t = ch[n - 1];
        let v = (if prev.contains_key(t.id) { prev[t.id] } else { 0real }) + rv(t.coefficient);
        if rabs(v) <= eps() { prev.remove(t.id) } else { prev.insert(t.id, v) }
    }
}
pub open spec fn chain_of(a: Seq<Term>, b: Seq<Term>) -> Seq<Term> { a + b }
pub open spec fn map_matches(m: Map<u64, F64>, a: Map<u64, real>) -> bool {
    &&& forall|k: u64| m.contains_key(k) <==> a.contains_key(k)
    &&& forall|k: u64| m.contains_key(k) ==> (#[trigger] m[k])@ == XR::Fin(a[k])
}
pub open spec fn terms_fin(t: Seq<Term>) -> bool { forall|i: int| 0 <= i < t.len() ==> fin((#[trigger] t[i]).coefficient) }


#[verifier::external_body]
pub fn btree_into_terms(m: BTreeMap<u64, F64>) -> (r: Vec<Term>)
    ensures r.len() == m@.len(),
        forall|i: int| 0 <= i < r.len() ==> m@.contains_key((#[trigger] r[i]).id) && m@[r[i].id] == r[i].coefficient,
        forall|i: int, j: int| 0 <= i < j < r.len() ==> r[i].id < r[j].id,
        forall|k: u64| #[trigger] m@.contains_key(k) ==> exists|i: int| 0 <= i < r.len() && (#[trigger] r[i]).id == k,
{ m.into_iter().map(|(id, coefficient)| Term { id, coefficient }).collect() }

}
pub mod units {
use vstd::prelude::*;
use super::lib::*;
broadcast use super::lib::ax_default_f64;
use std::collections::{HashMap, BTreeSet, BTreeMap};
impl Linear {
fn add(self, rhs: Self) -> (r: Self)
    requires terms_fin(self.terms@), terms_fin(rhs.terms@), fin(self.constant), fin(rhs.constant)
    ensures
        r.constant@ == XR::Fin(rv(self.constant) + rv(rhs.constant)),
        forall|i: int, j: int| 0 <= i < j < r.terms.len() ==> r.terms[i].id < r.terms[j].id,
        forall|i: int| 0 <= i < r.terms.len() ==> acc(self.terms@ + rhs.terms@, (self.terms.len() + rhs.terms.len()) as int).contains_key((#[trigger] r.terms[i]).id)
            && r.terms[i].coefficient@ == XR::Fin(acc(self.terms@ + rhs.terms@, (self.terms.len() + rhs.terms.len()) as int)[r.terms[i].id]),
        forall|k: u64| #[trigger] acc(self.terms@ + rhs.terms@, (self.terms.len() + rhs.terms.len()) as int).contains_key(k) ==> exists|i: int| 0 <= i < r.terms.len() && (#[trigger] r.terms[i]).id == k,
{
        let mut terms = BTreeMap::new();
        let chv = chain_refs(&self.terms, &rhs.terms);
        let ghost ch = self.terms@ + rhs.terms@;
        for term in it_1: &chv
            invariant
                ch == self.terms@ + rhs.terms@,
                terms_fin(ch),
                chv.len() == ch.len(),
                forall|i: int| 0 <= i < ch.len() ==> *(#[trigger] chv[i]) == ch[i],
                map_matches(terms@, acc(ch, it_1.index@ as int)),
        {
            let value: &mut F64 = terms.entry(term.id).or_default();
            *value = *value + (term.coefficient);
            if value.abs() <= f64_epsilon() {
                terms.remove(&term.id);
            }
        }
        Self {
            terms: btree_into_terms(terms),
            constant: self.constant + rhs.constant,
        }
    }
}
}
} // verus!
fn main() {}
