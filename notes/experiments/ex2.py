import re, sys
sys.path.insert(0,'.')
from ex import find_block, rules, src
def fn_in(impl_rx, fn_rx):
    s,i,j = find_block(src, impl_rx)
    m = re.compile(fn_rx).search(src, i, j)
    assert m, fn_rx
    s2,i2,j2 = find_block(src, fn_rx, i)
    return src[s2:j2+1]
units = [
 (r'impl BoundError \{', r'fn check\('),
 (r'impl Bound \{', r'pub fn new\('),
 (r'impl Bound \{', r'pub fn width\('),
 (r'impl Bound \{', r'pub fn as_integer_bound\('),
 (r'impl Bound \{', r'pub fn is_finite\('),
 (r'impl Bound \{', r'pub fn intersection\('),
 (r'impl Bound \{', r'pub fn pow\('),
 (r'impl Bound \{', r'pub fn contains\('),
 (r'impl Bound \{', r'pub fn nearest_to_zero\('),
]
outs=[]; lits={}
for a,b in units:
    t,l = rules(fn_in(a,b)); lits.update(l); outs.append((a,t))
for rx in [r'impl Add for Bound \{', r'impl Add<f64> for Bound \{', r'impl Mul for Bound \{', r'impl Mul<f64> for Bound \{', r'impl Zero for Bound \{', r'impl TryFrom<f64> for Bound \{']:
    s,i,j = find_block(src, rx); t,l = rules(src[s:j+1]); lits.update(l); outs.append((None,t))
print("// lits", lits)
cur=None
for a,t in outs:
    if a is None:
        if cur: print("}"); cur=None
        print(t)
    else:
        hdr = a.replace('\\','')
        if cur!=hdr:
            if cur: print("}")
            print(hdr); cur=hdr
        print(t)
if cur: print("}")
