use vstd::prelude::*;
use vstd::std_specs::ops::*;
verus! {
// E-a: trait impl with add_req + ensures
#[derive(Clone, Copy)]
pub struct B { pub lo: i64, pub hi: i64 }
impl B { pub open spec fn wf(self) -> bool { self.lo <= self.hi && -1000 < self.lo && self.hi < 1000 } }
pub uninterp spec fn b_add(a: B, b: B) -> B;
impl AddSpecImpl<B> for B {
    open spec fn obeys_add_spec() -> bool { false }
    open spec fn add_req(self, rhs: B) -> bool { self.wf() && rhs.wf() }
    open spec fn add_spec(self, rhs: B) -> B { b_add(self, rhs) }
}
impl core::ops::Add for B {
    type Output = B;
    fn add(self, rhs: B) -> (r: B)
        ensures r.lo == self.lo + rhs.lo, r.hi == self.hi + rhs.hi
    {
        B { lo: self.lo + rhs.lo, hi: self.hi + rhs.hi }
    }
}
fn use_add(a: B, b: B) -> (r: B) requires a.wf(), b.wf() ensures r.lo == a.lo + b.lo { a + b }

// E-b: or-patterns with bindings
pub enum FE { Constant(i64), Linear(u8), Quad(u16) }
fn disp(l: FE, r: FE) -> (o: u64)
{
    match (l, r) {
        (FE::Constant(a), FE::Constant(b)) => 0,
        (FE::Linear(lhs), FE::Constant(rhs)) | (FE::Constant(rhs), FE::Linear(lhs)) => lhs as u64,
        (FE::Linear(a), FE::Linear(b)) => 2,
        (FE::Quad(lhs), FE::Constant(rhs)) | (FE::Constant(rhs), FE::Quad(lhs)) => 3,
        (FE::Quad(lhs), FE::Linear(rhs)) | (FE::Linear(rhs), FE::Quad(lhs)) => 4,
        (FE::Quad(a), FE::Quad(b)) => 5,
    }
}

// E-c: loop + while let pop + lexicographic decreases
fn retry(v: Vec<u64>) -> (r: Result<u64, ()>)
{
    let mut bucket = v;
    let mut last_size = bucket.len();
    let mut not_evaluated: Vec<u64> = Vec::new();
    let mut acc: u64 = 0;
    loop
        invariant not_evaluated.len() == 0, bucket.len() <= last_size
        decreases last_size, 
    {
        while let Some(x) = bucket.pop()
            invariant bucket.len() + not_evaluated.len() <= last_size
            ensures bucket.len() == 0, bucket.len() + not_evaluated.len() <= last_size
            decreases bucket.len()
        {
            if x % 2 == 0 { acc = acc ^ x; } else { not_evaluated.push(x); }
        }
        if not_evaluated.is_empty() { return Ok(acc); }
        if last_size == not_evaluated.len() { return Err(()); }
        last_size = not_evaluated.len();
        bucket.append(&mut not_evaluated);
    }
}

// E-e: struct update syntax
#[derive(Default)]
pub struct P { pub id: u64, pub name: Option<u64>, pub subs: Vec<i64> }
fn mk(id: u64) -> (p: P) ensures p.id == id {
    P { id, ..Default::default() }
}
} // verus!
fn main() {}
