use vstd::prelude::*;
use std::collections::{HashMap, BTreeSet, BTreeMap};
verus! {

pub struct Term { pub id: u64, pub coefficient: i64 }

spec fn sum_spec(terms: Seq<Term>, m: Map<u64, i64>) -> int
    decreases terms.len()
{
    if terms.len() == 0 { 0 } else {
        sum_spec(terms.drop_last(), m) + terms.last().coefficient * m[terms.last().id]
    }
}

fn lookup(m: &HashMap<u64, i64>, k: u64) -> (r: Option<i64>)
    ensures r == (if m@.contains_key(k) { Some(m@[k]) } else { None::<i64> })
{
    match m.get(&k) { Some(v) => Some(*v), None => None }
}

fn ids(terms: &Vec<Term>) -> (r: BTreeSet<u64>)
    ensures forall|i: int| 0 <= i < terms.len() ==> r@.contains(terms[i].id)
{
    let mut s: BTreeSet<u64> = BTreeSet::new();
    for t in it: terms.iter()
        invariant forall|i: int| 0 <= i < it.index@ ==> s@.contains(terms[i].id)
    {
        s.insert(t.id);
    }
    s
}

proof fn real_test(x: real, y: real, a: real, b: real, c: real, d: real)
    requires a <= x <= b, c <= y <= d, a >= 0real, c >= 0real
    ensures a * c <= x * y <= b * d
{
    assert(a * c <= x * y <= b * d) by(nonlinear_arith)
        requires a <= x <= b, c <= y <= d, a >= 0real, c >= 0real;
}

} // verus!
fn main() {}
