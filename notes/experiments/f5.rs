use vstd::prelude::*;
verus! {
fn test_le(a: f64, b: f64) -> (r: bool)
    ensures r == (a <= b)
{
    a <= b
}
fn test_eq(a: f64, b: f64) -> (r: bool)
    ensures r == (a == b)
{
    a == b
}
fn test_lt(a: f64, b: f64) -> (r: bool)
    ensures r == (a < b)
{
    a < b
}
proof fn lit() {
    assert(1e-6f64 == 1e-6f64);
    assert(0.0f64 <= 1.0f64);
}
} // verus!
fn main() {}
