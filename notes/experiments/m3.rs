#![feature(allocator_api)]
use vstd::prelude::*;
use std::collections::BTreeMap;
use std::collections::btree_map::Entry;
use core::alloc::Allocator;
verus! {

#[verifier::external_type_specification]
#[verifier::external_body]
#[verifier::reject_recursive_types(K)]
#[verifier::reject_recursive_types(V)]
#[verifier::reject_recursive_types(A)]
pub struct ExEntry<'a, K: 'a, V: 'a, A: Allocator + Clone>(Entry<'a, K, V, A>);

pub uninterp spec fn entry_key<'a, K, V, A: Allocator + Clone>(e: Entry<'a, K, V, A>) -> K;
pub uninterp spec fn entry_old<'a, K, V, A: Allocator + Clone>(e: Entry<'a, K, V, A>) -> Map<K, V>;
pub uninterp spec fn entry_fin<'a, K, V, A: Allocator + Clone>(e: Entry<'a, K, V, A>) -> Map<K, V>;

pub assume_specification<'a, K: Ord, V, A: Allocator + Clone>[ BTreeMap::<K, V, A>::entry ](m: &'a mut BTreeMap<K, V, A>, key: K) -> (e: Entry<'a, K, V, A>)
    ensures entry_key(e) == key, entry_old(e) == old(m)@, entry_fin(e) == final(m)@;

pub assume_specification<'a, K: Ord, V: Default, A: Allocator + Clone>[ Entry::<'a, K, V, A>::or_default ](e: Entry<'a, K, V, A>) -> (r: &'a mut V)
    ensures
        entry_old(e).contains_key(entry_key(e)) ==> *r == entry_old(e)[entry_key(e)],
        entry_fin(e) == entry_old(e).insert(entry_key(e), *final(r));

fn acc(m: &mut BTreeMap<u64, u64>, k: u64)
    requires old(m)@.contains_key(k) ==> old(m)@[k] < 100
    ensures final(m)@.contains_key(k),
            old(m)@.contains_key(k) ==> final(m)@[k] == old(m)@[k] + 1,
            forall|j: u64| j != k ==> (final(m)@.contains_key(j) <==> old(m)@.contains_key(j)),
{
    let v: &mut u64 = m.entry(k).or_default();
    if *v < 100 {
        *v = *v + 1;
    }
}
} // verus!
fn main() {}
