use vstd::prelude::*;
use vstd::std_specs::ops::*;
verus! {
pub mod lib {
use vstd::prelude::*;
use vstd::std_specs::ops::*;


pub enum XR { NaN, NegInf, PosInf, Fin(real) }

#[verifier::external_body]
#[derive(Clone, Copy, Debug)]
pub struct F64 { v: f64 }
impl View for F64 { type V = XR; uninterp spec fn view(&self) -> XR; }

pub open spec fn xr_le(a: XR, b: XR) -> bool {
    match (a, b) {
        (XR::NaN, _) => false, (_, XR::NaN) => false,
        (XR::NegInf, _) => true, (_, XR::PosInf) => true,
        (XR::Fin(x), XR::Fin(y)) => x <= y,
        _ => false,
    }
}
pub open spec fn xr_lt(a: XR, b: XR) -> bool { xr_le(a, b) && a != b }
pub open spec fn sgn(x: real) -> int { if x > 0real { 1 } else if x < 0real { -1 } else { 0 } }
pub open spec fn xr_sign(a: XR) -> int {
    match a { XR::NaN => 0, XR::NegInf => -1, XR::PosInf => 1, XR::Fin(x) => sgn(x) }
}
pub open spec fn xr_mul(a: XR, b: XR) -> XR {
    match (a, b) {
        (XR::NaN, _) => XR::NaN, (_, XR::NaN) => XR::NaN,
        (XR::Fin(x), XR::Fin(y)) => XR::Fin(x * y),
        _ => { // at least one infinite
            let s = xr_sign(a) * xr_sign(b);
            if s == 0 { XR::NaN } else if s > 0 { XR::PosInf } else { XR::NegInf }
        }
    }
}
// IEEE minNum / maxNum as implemented by f64::min / f64::max: NaN is ignored
pub open spec fn xr_min(a: XR, b: XR) -> XR {
    if a is NaN { b } else if b is NaN { a } else if xr_le(a, b) { a } else { b }
}
pub open spec fn xr_max(a: XR, b: XR) -> XR {
    if a is NaN { b } else if b is NaN { a } else if xr_le(a, b) { b } else { a }
}

pub open spec fn xr_add(a: XR, b: XR) -> XR {
    match (a, b) {
        (XR::NaN, _) => XR::NaN, (_, XR::NaN) => XR::NaN,
        (XR::NegInf, XR::PosInf) => XR::NaN, (XR::PosInf, XR::NegInf) => XR::NaN,
        (XR::NegInf, _) => XR::NegInf, (_, XR::NegInf) => XR::NegInf,
        (XR::PosInf, _) => XR::PosInf, (_, XR::PosInf) => XR::PosInf,
        (XR::Fin(x), XR::Fin(y)) => XR::Fin(x + y),
    }
}
pub uninterp spec fn f_add(a: F64, b: F64) -> F64;
pub broadcast axiom fn ax_f_add(a: F64, b: F64)
    ensures (#[trigger] f_add(a, b))@ == xr_add(a@, b@);
impl AddSpecImpl<F64> for F64 {
    open spec fn obeys_add_spec() -> bool { false }
    open spec fn add_req(self, rhs: F64) -> bool { true }
    open spec fn add_spec(self, rhs: F64) -> F64 { f_add(self, rhs) }
}
impl core::ops::Add for F64 {
    type Output = F64;
    #[verifier::external_body]
    fn add(self, rhs: F64) -> (r: F64) ensures r@ == xr_add(self@, rhs@) { F64 { v: self.v + rhs.v } }
}
impl<'a, 'b> MulSpecImpl<&'b F64> for &'a F64 {
    open spec fn obeys_mul_spec() -> bool { false }
    open spec fn mul_req(self, rhs: &'b F64) -> bool { true }
    open spec fn mul_spec(self, rhs: &'b F64) -> F64 { f_mul(*self, *rhs) }
}
impl<'a, 'b> core::ops::Mul<&'b F64> for &'a F64 {
    type Output = F64;
    #[verifier::external_body]
    fn mul(self, rhs: &'b F64) -> (r: F64) ensures r@ == xr_mul(self@, rhs@) { F64 { v: self.v * rhs.v } }
}
pub uninterp spec fn f_mul(a: F64, b: F64) -> F64;
pub broadcast axiom fn ax_f_mul(a: F64, b: F64)
    ensures (#[trigger] f_mul(a, b))@ == xr_mul(a@, b@);
impl MulSpecImpl<F64> for F64 {
    open spec fn obeys_mul_spec() -> bool { false }
    open spec fn mul_req(self, rhs: F64) -> bool { true }
    open spec fn mul_spec(self, rhs: F64) -> F64 { f_mul(self, rhs) }
}
impl core::ops::Mul for F64 {
    type Output = F64;
    #[verifier::external_body]
    fn mul(self, rhs: F64) -> (r: F64) ensures r@ == xr_mul(self@, rhs@) { F64 { v: self.v * rhs.v } }
}
impl PartialEq for F64 {
    #[verifier::external_body]
    fn eq(&self, other: &F64) -> (r: bool)
        ensures r == (self@ == other@ && !(self@ is NaN))
    { self.v == other.v }
}
impl PartialOrd for F64 {
    #[verifier::external_body]
    fn partial_cmp(&self, other: &F64) -> (r: Option<core::cmp::Ordering>) { self.v.partial_cmp(&other.v) }
    #[verifier::external_body]
    fn le(&self, other: &F64) -> (r: bool) ensures r == xr_le(self@, other@) { self.v <= other.v }
    #[verifier::external_body]
    fn lt(&self, other: &F64) -> (r: bool) ensures r == xr_lt(self@, other@) { self.v < other.v }
    #[verifier::external_body]
    fn ge(&self, other: &F64) -> (r: bool) ensures r == xr_le(other@, self@) { self.v >= other.v }
    #[verifier::external_body]
    fn gt(&self, other: &F64) -> (r: bool) ensures r == xr_lt(other@, self@) { self.v > other.v }
}
impl F64 {
    #[verifier::external_body]
    pub fn min(self, o: F64) -> (r: F64) ensures r@ == xr_min(self@, o@) { F64 { v: self.v.min(o.v) } }
    #[verifier::external_body]
    pub fn max(self, o: F64) -> (r: F64) ensures r@ == xr_max(self@, o@) { F64 { v: self.v.max(o.v) } }
    #[verifier::external_body]
    pub fn is_nan(self) -> (r: bool) ensures r == (self@ is NaN) { self.v.is_nan() }
}
#[verifier::external_body]
pub fn lit_0_0() -> (r: F64) ensures r@ == XR::Fin(0real) { F64 { v: 0.0 } }
#[verifier::external_body]
pub fn f64_infinity() -> (r: F64) ensures r@ == XR::PosInf { F64 { v: f64::INFINITY } }
#[verifier::external_body]
pub fn f64_neg_infinity() -> (r: F64) ensures r@ == XR::NegInf { F64 { v: f64::NEG_INFINITY } }



use std::collections::{HashMap, BTreeSet};
pub struct VErr {}
pub trait VCtx<T> { fn vctx(self) -> Result<T, VErr>; }
impl<T> VCtx<T> for Option<T> {
    #[verifier::external_body]
    fn vctx(self) -> (r: Result<T, VErr>)
        ensures self is Some ==> r == Ok::<T, VErr>(self->Some_0), self is None ==> r is Err
    { match self { Some(x) => Ok(x), None => Err(VErr{}) } }
}
impl<'a, 'b> MulSpecImpl<&'b F64> for F64 {
    open spec fn obeys_mul_spec() -> bool { false }
    open spec fn mul_req(self, rhs: &'b F64) -> bool { true }
    open spec fn mul_spec(self, rhs: &'b F64) -> F64 { f_mul(self, *rhs) }
}
impl<'b> core::ops::Mul<&'b F64> for F64 {
    type Output = F64;
    #[verifier::external_body]
    fn mul(self, rhs: &'b F64) -> (r: F64) ensures r@ == xr_mul(self@, rhs@) { F64 { v: self.v * rhs.v } }
}
#[derive(Clone)]
pub struct Quadratic { pub rows: Vec<u64>, pub columns: Vec<u64>, pub values: Vec<F64>, pub linear: Option<Linear> }
#[derive(Clone)]
pub enum FunctionEnum { Constant(F64), Linear(Linear), Quadratic(Quadratic), Polynomial(Polynomial) }
#[derive(Clone)]
pub struct Function { pub function: Option<FunctionEnum> }
impl Quadratic {
    #[verifier::external_body]
    pub fn evaluate(&self, solution: &State) -> Result<(F64, BTreeSet<u64>), VErr> { unimplemented!() }
    #[verifier::external_body]
    pub fn partial_evaluate(&mut self, state: &State) -> Result<BTreeSet<u64>, VErr> { unimplemented!() }
}
impl Polynomial {
    #[verifier::external_body]
    pub fn partial_evaluate(&mut self, state: &State) -> Result<BTreeSet<u64>, VErr> { unimplemented!() }
}
#[derive(Clone)]
#[derive(Copy)]
pub struct LinearTerm {
        pub id: u64,
        pub coefficient: F64,
    }
#[derive(Clone)]
pub struct Linear {
    pub terms: Vec<LinearTerm>,
    pub constant: F64,
}
#[derive(Clone)]
pub struct Monomial {
    pub ids: Vec<u64>,
    pub coefficient: F64,
}
#[derive(Clone)]
pub struct Polynomial {
    pub terms: Vec<Monomial>,
}
#[derive(Clone)]
pub struct State {
    pub entries: HashMap<u64, F64>,
}


pub open spec fn rv(x: F64) -> real { match x@ { XR::Fin(v) => v, _ => 0real } }
pub open spec fn fin(x: F64) -> bool { x@ is Fin }
pub open spec fn terms_fin(t: Seq<LinearTerm>) -> bool { forall|i: int| 0 <= i < t.len() ==> fin((#[trigger] t[i]).coefficient) }
pub open spec fn state_fin(m: Map<u64, F64>) -> bool { forall|k: u64| m.contains_key(k) ==> fin(#[trigger] m[k]) }
pub open spec fn sval(m: Map<u64, F64>, k: u64) -> real { rv(m[k]) }
// value of the first n terms (without the constant)
pub open spec fn lin_sum(t: Seq<LinearTerm>, n: int, m: Map<u64, F64>) -> real decreases n {
    if n <= 0 { 0real } else { lin_sum(t, n - 1, m) + rv(t[n - 1].coefficient) * sval(m, t[n - 1].id) }
}
pub open spec fn lin_ids(t: Seq<LinearTerm>, n: int) -> Set<u64> decreases n {
    if n <= 0 { Set::empty() } else { lin_ids(t, n - 1).insert(t[n - 1].id) }
}
pub open spec fn ids_present(t: Seq<LinearTerm>, n: int, m: Map<u64, F64>) -> bool {
    forall|i: int| 0 <= i < n ==> m.contains_key((#[trigger] t[i]).id)
}


pub open spec fn mono_val(c: real, ids: Seq<u64>, j: int, m: Map<u64, F64>) -> real decreases j {
    if j <= 0 { c } else { mono_val(c, ids, j - 1, m) * sval(m, ids[j - 1]) }
}
pub open spec fn poly_sum(t: Seq<Monomial>, n: int, m: Map<u64, F64>) -> real decreases n {
    if n <= 0 { 0real } else { poly_sum(t, n - 1, m) + mono_val(rv(t[n - 1].coefficient), t[n - 1].ids@, t[n - 1].ids.len() as int, m) }
}
pub open spec fn mono_ids(ids: Seq<u64>, j: int) -> Set<u64> decreases j {
    if j <= 0 { Set::empty() } else { mono_ids(ids, j - 1).insert(ids[j - 1]) }
}
pub open spec fn poly_ids(t: Seq<Monomial>, n: int) -> Set<u64> decreases n {
    if n <= 0 { Set::empty() } else { poly_ids(t, n - 1).union(mono_ids(t[n - 1].ids@, t[n - 1].ids.len() as int)) }
}
pub open spec fn poly_fin(t: Seq<Monomial>) -> bool { forall|i: int| 0 <= i < t.len() ==> fin((#[trigger] t[i]).coefficient) }
pub open spec fn poly_present(t: Seq<Monomial>, n: int, m: Map<u64, F64>) -> bool {
    forall|i: int, j: int| 0 <= i < n && 0 <= j < t[i].ids.len() ==> m.contains_key(#[trigger] t[i].ids[j])
}
pub open spec fn agree(st: Map<u64, F64>, m: Map<u64, F64>) -> bool {
    forall|k: u64| st.contains_key(k) ==> m.contains_key(k) && #[trigger] m[k] == st[k]
}
pub open spec fn lin_all(t: Seq<LinearTerm>, m: Map<u64, F64>) -> real { lin_sum(t, t.len() as int, m) }
pub open spec fn lin_total(c: F64, t: Seq<LinearTerm>, m: Map<u64, F64>) -> real {
    rv(c) + lin_all(t, m)
}
pub open spec fn term_val(e: LinearTerm, m: Map<u64, F64>) -> real { rv(e.coefficient) * sval(m, e.id) }
pub open spec fn swap_removed<T>(s: Seq<T>, i: int) -> Seq<T> { s.update(i, s.last()).drop_last() }

proof fn lemma_lin_sum_ext(a: Seq<LinearTerm>, b: Seq<LinearTerm>, n: int, m: Map<u64, F64>)
    requires n <= a.len(), n <= b.len(), forall|j: int| 0 <= j < n ==> a[j] == b[j]
    ensures lin_sum(a, n, m) == lin_sum(b, n, m)
    decreases n
{ if n > 0 { lemma_lin_sum_ext(a, b, n - 1, m); } }

proof fn lemma_lin_sum_set(t: Seq<LinearTerm>, n: int, i: int, e: LinearTerm, m: Map<u64, F64>)
    requires 0 <= i < n <= t.len()
    ensures lin_sum(t.update(i, e), n, m) == lin_sum(t, n, m) - rv(t[i].coefficient) * sval(m, t[i].id) + rv(e.coefficient) * sval(m, e.id)
    decreases n
{
    if n - 1 > i { lemma_lin_sum_set(t, n - 1, i, e, m); }
    else { lemma_lin_sum_ext(t.update(i, e), t, n - 1, m); }
}

pub broadcast proof fn lemma_swap_removed_sum(t: Seq<LinearTerm>, i: int, m: Map<u64, F64>)
    requires 0 <= i < t.len()
    ensures #[trigger] lin_all(t.update(i, t.last()).drop_last(), m) == lin_all(t, m) - term_val(t[i], m)
{
    let n = t.len() as int;
    let u = t.update(i, t.last());
    if i < n - 1 {
        lemma_lin_sum_set(t, n - 1, i, t.last(), m);
        lemma_lin_sum_ext(u.drop_last(), u, n - 1, m);
    } else {
        lemma_lin_sum_ext(u.drop_last(), t, n - 1, m);
    }
}



}
pub mod units {
use vstd::prelude::*;
use super::lib::*;
use std::collections::{HashMap, BTreeSet};
broadcast use super::lib::lemma_swap_removed_sum;
impl Function {
fn evaluate(&self, solution: &State) -> Result<(F64, BTreeSet<u64>), VErr> {
        let out = match &self.function {
            Some(FunctionEnum::Constant(c)) => (*c, BTreeSet::new()),
            Some(FunctionEnum::Linear(linear)) => linear.evaluate(solution)?,
            Some(FunctionEnum::Quadratic(quadratic)) => quadratic.evaluate(solution)?,
            Some(FunctionEnum::Polynomial(poly)) => poly.evaluate(solution)?,
            None => (lit_0_0(), BTreeSet::new()),
        };
        Ok(out)
    }
fn partial_evaluate(&mut self, state: &State) -> Result<BTreeSet<u64>, VErr> {
        Ok(match &mut self.function {
            Some(FunctionEnum::Constant(_)) => BTreeSet::new(),
            Some(FunctionEnum::Linear(linear)) => linear.partial_evaluate(state)?,
            Some(FunctionEnum::Quadratic(quadratic)) => quadratic.partial_evaluate(state)?,
            Some(FunctionEnum::Polynomial(poly)) => poly.partial_evaluate(state)?,
            None => BTreeSet::new(),
        })
    }
}
impl Linear {
fn evaluate(&self, solution: &State) -> (r: Result<(F64, BTreeSet<u64>), VErr>)
    ensures
        r is Ok <==> ids_present(self.terms@, self.terms.len() as int, solution.entries@),
        r is Ok ==> r->Ok_0.1@ == lin_ids(self.terms@, self.terms.len() as int),
        r is Ok && terms_fin(self.terms@) && fin(self.constant) && state_fin(solution.entries@) ==>
            r->Ok_0.0@ == XR::Fin(rv(self.constant) + lin_sum(self.terms@, self.terms.len() as int, solution.entries@)),
{
        let mut sum = self.constant;
        let mut used_ids = BTreeSet::new();
        for LinearTerm { id, coefficient } in it_1: &self.terms
            invariant
                ids_present(self.terms@, it_1.index@ as int, solution.entries@),
                used_ids@ == lin_ids(self.terms@, it_1.index@ as int),
                terms_fin(self.terms@) && fin(self.constant) && state_fin(solution.entries@) ==>
                    sum@ == XR::Fin(rv(self.constant) + lin_sum(self.terms@, it_1.index@ as int, solution.entries@)),
        {
            used_ids.insert(*id);
            let s = solution
                .entries
                .get(id)
                .vctx()?;
            sum = sum + (coefficient * s);
        }
        Ok((sum, used_ids))
    }
fn partial_evaluate(&mut self, state: &State) -> (r: Result<BTreeSet<u64>, VErr>)
    requires terms_fin(old(self).terms@), fin(old(self).constant), state_fin(state.entries@)
    ensures
        r is Ok,
        terms_fin(final(self).terms@), fin(final(self).constant),
        forall|j: int| 0 <= j < final(self).terms.len() ==> !state.entries@.contains_key((#[trigger] final(self).terms[j]).id),
        forall|m: Map<u64, F64>| agree(state.entries@, m) ==>
            rv(final(self).constant) + #[trigger] lin_all(final(self).terms@, m) == lin_total(old(self).constant, old(self).terms@, m),
{
        let mut used = BTreeSet::new();
        let mut i = 0;
        while i < self.terms.len()
            invariant
                0 <= i <= self.terms.len(),
                terms_fin(self.terms@), fin(self.constant), state_fin(state.entries@),
                forall|j: int| 0 <= j < i ==> !state.entries@.contains_key((#[trigger] self.terms[j]).id),
                forall|m: Map<u64, F64>| agree(state.entries@, m) ==>
                    rv(self.constant) + #[trigger] lin_all(self.terms@, m) == lin_total(old(self).constant, old(self).terms@, m),
            decreases self.terms.len() - i
        {
            let LinearTerm { id, coefficient } = self.terms[i];
            if let Some(value) = state.entries.get(&id) {
                self.constant = self.constant + (coefficient * value);
                self.terms.swap_remove(i);
                used.insert(id);
            } else {
                i = i + (1);
            }
        }
        Ok(used)
    }
}
impl Polynomial {
fn evaluate(&self, solution: &State) -> (r: Result<(F64, BTreeSet<u64>), VErr>)
    ensures
        r is Ok <==> poly_present(self.terms@, self.terms.len() as int, solution.entries@),
        r is Ok ==> r->Ok_0.1@ == poly_ids(self.terms@, self.terms.len() as int),
        r is Ok && poly_fin(self.terms@) && state_fin(solution.entries@) ==>
            r->Ok_0.0@ == XR::Fin(poly_sum(self.terms@, self.terms.len() as int, solution.entries@)),
{
        let mut sum = lit_0_0();
        let mut used_ids = BTreeSet::new();
        for term in it_1: &self.terms
            invariant
                poly_present(self.terms@, it_1.index@ as int, solution.entries@),
                used_ids@ == poly_ids(self.terms@, it_1.index@ as int),
                poly_fin(self.terms@) && state_fin(solution.entries@) ==>
                    sum@ == XR::Fin(poly_sum(self.terms@, it_1.index@ as int, solution.entries@)),
        {
            let mut v = term.coefficient;
            for id in it_2: &term.ids
                invariant
                    *term == self.terms[it_1.index@ as int], 0 <= it_1.index@ < self.terms.len(),
                    poly_present(self.terms@, it_1.index@ as int, solution.entries@),
                    forall|j: int| 0 <= j < it_2.index@ ==> solution.entries@.contains_key(#[trigger] term.ids[j]),
                    used_ids@ == poly_ids(self.terms@, it_1.index@ as int).union(mono_ids(term.ids@, it_2.index@ as int)),
                    poly_fin(self.terms@) && state_fin(solution.entries@) ==>
                        v@ == XR::Fin(mono_val(rv(term.coefficient), term.ids@, it_2.index@ as int, solution.entries@)),
            {
                used_ids.insert(*id);
                v = v * (solution
                    .entries
                    .get(id)
                    .vctx()?);
            }
            sum = sum + (v);
        }
        Ok((sum, used_ids))
    }
}


}
} // verus!
fn main() {}
