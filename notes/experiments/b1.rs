use vstd::prelude::*;
use vstd::std_specs::ops::*;
verus! {

pub enum XR { NaN, NegInf, PosInf, Fin(real) }

#[verifier::external_body]
#[derive(Clone, Copy, Debug)]
pub struct F64 { v: f64 }
impl View for F64 { type V = XR; uninterp spec fn view(&self) -> XR; }

pub open spec fn xr_le(a: XR, b: XR) -> bool {
    match (a, b) {
        (XR::NaN, _) => false, (_, XR::NaN) => false,
        (XR::NegInf, _) => true, (_, XR::PosInf) => true,
        (XR::Fin(x), XR::Fin(y)) => x <= y,
        _ => false,
    }
}
pub open spec fn xr_lt(a: XR, b: XR) -> bool { xr_le(a, b) && a != b }
pub open spec fn sgn(x: real) -> int { if x > 0real { 1 } else if x < 0real { -1 } else { 0 } }
pub open spec fn xr_sign(a: XR) -> int {
    match a { XR::NaN => 0, XR::NegInf => -1, XR::PosInf => 1, XR::Fin(x) => sgn(x) }
}
pub open spec fn xr_mul(a: XR, b: XR) -> XR {
    match (a, b) {
        (XR::NaN, _) => XR::NaN, (_, XR::NaN) => XR::NaN,
        (XR::Fin(x), XR::Fin(y)) => XR::Fin(x * y),
        _ => { // at least one infinite
            let s = xr_sign(a) * xr_sign(b);
            if s == 0 { XR::NaN } else if s > 0 { XR::PosInf } else { XR::NegInf }
        }
    }
}
// IEEE minNum / maxNum as implemented by f64::min / f64::max: NaN is ignored
pub open spec fn xr_min(a: XR, b: XR) -> XR {
    if a is NaN { b } else if b is NaN { a } else if xr_le(a, b) { a } else { b }
}
pub open spec fn xr_max(a: XR, b: XR) -> XR {
    if a is NaN { b } else if b is NaN { a } else if xr_le(a, b) { b } else { a }
}

pub uninterp spec fn f_mul(a: F64, b: F64) -> F64;
pub broadcast axiom fn ax_f_mul(a: F64, b: F64)
    ensures (#[trigger] f_mul(a, b))@ == xr_mul(a@, b@);
impl MulSpecImpl<F64> for F64 {
    open spec fn obeys_mul_spec() -> bool { true }
    open spec fn mul_req(self, rhs: F64) -> bool { true }
    open spec fn mul_spec(self, rhs: F64) -> F64 { f_mul(self, rhs) }
}
impl core::ops::Mul for F64 {
    type Output = F64;
    #[verifier::external_body]
    fn mul(self, rhs: F64) -> (r: F64) { F64 { v: self.v * rhs.v } }
}
impl PartialEq for F64 {
    #[verifier::external_body]
    fn eq(&self, other: &F64) -> (r: bool)
        ensures r == (self@ == other@ && !(self@ is NaN))
    { self.v == other.v }
}
impl PartialOrd for F64 {
    #[verifier::external_body]
    fn partial_cmp(&self, other: &F64) -> (r: Option<core::cmp::Ordering>) { self.v.partial_cmp(&other.v) }
    #[verifier::external_body]
    fn le(&self, other: &F64) -> (r: bool) ensures r == xr_le(self@, other@) { self.v <= other.v }
    #[verifier::external_body]
    fn lt(&self, other: &F64) -> (r: bool) ensures r == xr_lt(self@, other@) { self.v < other.v }
    #[verifier::external_body]
    fn ge(&self, other: &F64) -> (r: bool) ensures r == xr_le(other@, self@) { self.v >= other.v }
    #[verifier::external_body]
    fn gt(&self, other: &F64) -> (r: bool) ensures r == xr_lt(other@, self@) { self.v > other.v }
}
impl F64 {
    #[verifier::external_body]
    pub fn min(self, o: F64) -> (r: F64) ensures r@ == xr_min(self@, o@) { F64 { v: self.v.min(o.v) } }
    #[verifier::external_body]
    pub fn max(self, o: F64) -> (r: F64) ensures r@ == xr_max(self@, o@) { F64 { v: self.v.max(o.v) } }
    #[verifier::external_body]
    pub fn is_nan(self) -> (r: bool) ensures r == (self@ is NaN) { self.v.is_nan() }
}
#[verifier::external_body]
pub fn lit_0_0() -> (r: F64) ensures r@ == XR::Fin(0real) { F64 { v: 0.0 } }
#[verifier::external_body]
pub fn f64_infinity() -> (r: F64) ensures r@ == XR::PosInf { F64 { v: f64::INFINITY } }
#[verifier::external_body]
pub fn f64_neg_infinity() -> (r: F64) ensures r@ == XR::NegInf { F64 { v: f64::NEG_INFINITY } }

// ---------------- extracted (bound.rs) ----------------
#[derive(Debug)]
pub enum BoundError {
    NotANumber { lower: F64, upper: F64 },
    InvalidInfinity { lower: F64, upper: F64 },
    UpperSmallerThanLower { lower: F64, upper: F64 },
}

pub open spec fn inv(lower: XR, upper: XR) -> bool {
    !(lower is NaN) && !(upper is NaN) && !(lower is PosInf) && !(upper is NegInf) && xr_le(lower, upper)
}

impl BoundError {
    fn check(lower: F64, upper: F64) -> (r: Result<(), BoundError>)
        ensures r is Ok <==> inv(lower@, upper@)
    {
        if lower.is_nan() || upper.is_nan() {
            return Err(BoundError::NotANumber { lower, upper });
        }
        if lower == f64_infinity() || upper == f64_neg_infinity() {
            return Err(BoundError::InvalidInfinity { lower, upper });
        }
        if lower > upper {
            return Err(BoundError::UpperSmallerThanLower { lower, upper });
        }
        Ok(())
    }
}

#[derive(Clone, Copy)]
pub struct Bound { pub lower: F64, pub upper: F64 }

pub open spec fn contains(b: Bound, x: real) -> bool {
    xr_le(b.lower@, XR::Fin(x)) && xr_le(XR::Fin(x), b.upper@)
}

impl Bound {
    pub open spec fn wf(self) -> bool { inv(self.lower@, self.upper@) }

    pub fn new(lower: F64, upper: F64) -> (r: Result<Bound, BoundError>)
        ensures r is Ok <==> inv(lower@, upper@),
                r is Ok ==> r->Ok_0.lower == lower && r->Ok_0.upper == upper
    {
        BoundError::check(lower, upper)?;
        Ok(Self { lower, upper })
    }

    pub fn zero() -> (r: Bound) ensures r.wf(), r.lower@ == XR::Fin(0real), r.upper@ == XR::Fin(0real)
    { Bound::new(lit_0_0(), lit_0_0()).unwrap() }

    pub fn eqb(self, o: Bound) -> (r: bool)
        requires self.wf(), o.wf()
        ensures r == (self.lower@ == o.lower@ && self.upper@ == o.upper@)
    { self.lower == o.lower && self.upper == o.upper }

    fn mul(self, rhs: Bound) -> (r: Bound)
        requires self.wf(), rhs.wf()
        ensures r.wf(),
            forall|x: real, y: real| contains(self, x) && contains(rhs, y) ==> contains(r, x * y)
    {
        broadcast use ax_f_mul;
        // [0, 0] x (-inf, inf) = [0, 0]
        if self.eqb(Bound::zero()) || rhs.eqb(Bound::zero()) {
            assert forall|x: real, y: real| contains(self, x) && contains(rhs, y) implies x * y == 0real by {
                assert(x == 0real || y == 0real);
                assert(x * y == 0real) by(nonlinear_arith) requires x == 0real || y == 0real;
            }
            return Bound::zero();
        }
        let a = self.lower * rhs.lower;
        let b = self.lower * rhs.upper;
        let c = self.upper * rhs.lower;
        let d = self.upper * rhs.upper;
        let lo = a.min(b).min(c).min(d);
        let hi = a.max(b).max(c).max(d);
        proof { lemma_mul_corners(self, rhs, a@, b@, c@, d@); }
        Bound::new(lo, hi).unwrap()
    }
}

proof fn lemma_mul_corners(s: Bound, t: Bound, a: XR, b: XR, c: XR, d: XR)
    requires s.wf(), t.wf(),
        !(s.lower@ == XR::Fin(0real) && s.upper@ == XR::Fin(0real)),
        !(t.lower@ == XR::Fin(0real) && t.upper@ == XR::Fin(0real)),
        a == xr_mul(s.lower@, t.lower@), b == xr_mul(s.lower@, t.upper@),
        c == xr_mul(s.upper@, t.lower@), d == xr_mul(s.upper@, t.upper@),
    ensures
        inv(xr_min(xr_min(xr_min(a, b), c), d), xr_max(xr_max(xr_max(a, b), c), d)),
        forall|x: real, y: real| contains(s, x) && contains(t, y) ==>
            xr_le(xr_min(xr_min(xr_min(a, b), c), d), XR::Fin(x * y)) &&
            xr_le(XR::Fin(x * y), xr_max(xr_max(xr_max(a, b), c), d)),
{
    let lo = xr_min(xr_min(xr_min(a, b), c), d);
    let hi = xr_max(xr_max(xr_max(a, b), c), d);
    assert forall|x: real, y: real| contains(s, x) && contains(t, y) implies
            xr_le(lo, XR::Fin(x * y)) && xr_le(XR::Fin(x * y), hi) by {
        lemma_mul_point(s, t, a, b, c, d, x, y);
    }
    // non-emptiness: pick a point
    lemma_mul_inv(s, t, a, b, c, d);
}


proof fn lemma_fin_corners(l1: real, u1: real, l2: real, u2: real, x: real, y: real)
    requires l1 <= x <= u1, l2 <= y <= u2
    ensures
        (l1*l2 <= x*y || l1*u2 <= x*y || u1*l2 <= x*y || u1*u2 <= x*y),
        (l1*l2 >= x*y || l1*u2 >= x*y || u1*l2 >= x*y || u1*u2 >= x*y),
{
    // x*y is bilinear: between min and max over corners
    assert(l1*l2 <= x*y || l1*u2 <= x*y || u1*l2 <= x*y || u1*u2 <= x*y) by(nonlinear_arith)
        requires l1 <= x <= u1, l2 <= y <= u2;
    assert(l1*l2 >= x*y || l1*u2 >= x*y || u1*l2 >= x*y || u1*u2 >= x*y) by(nonlinear_arith)
        requires l1 <= x <= u1, l2 <= y <= u2;
}

proof fn lemma_mul_point(s: Bound, t: Bound, a: XR, b: XR, c: XR, d: XR, x: real, y: real)
    requires s.wf(), t.wf(),
        !(s.lower@ == XR::Fin(0real) && s.upper@ == XR::Fin(0real)),
        !(t.lower@ == XR::Fin(0real) && t.upper@ == XR::Fin(0real)),
        a == xr_mul(s.lower@, t.lower@), b == xr_mul(s.lower@, t.upper@),
        c == xr_mul(s.upper@, t.lower@), d == xr_mul(s.upper@, t.upper@),
        contains(s, x), contains(t, y),
    ensures
        xr_le(xr_min(xr_min(xr_min(a, b), c), d), XR::Fin(x * y)),
        xr_le(XR::Fin(x * y), xr_max(xr_max(xr_max(a, b), c), d)),
{
    assume(false);
}
proof fn lemma_mul_inv(s: Bound, t: Bound, a: XR, b: XR, c: XR, d: XR)
    requires s.wf(), t.wf(),
        !(s.lower@ == XR::Fin(0real) && s.upper@ == XR::Fin(0real)),
        !(t.lower@ == XR::Fin(0real) && t.upper@ == XR::Fin(0real)),
        a == xr_mul(s.lower@, t.lower@), b == xr_mul(s.lower@, t.upper@),
        c == xr_mul(s.upper@, t.lower@), d == xr_mul(s.upper@, t.upper@),
    ensures
        inv(xr_min(xr_min(xr_min(a, b), c), d), xr_max(xr_max(xr_max(a, b), c), d)),
{
    assume(false);
}
} // verus!
fn main() {}
