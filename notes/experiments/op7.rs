use vstd::prelude::*;
use vstd::std_specs::ops::*;
verus! {
pub struct P { pub id: u64 }
pub struct F { pub v: u64 }
impl<'a> MulSpecImpl<F> for &'a P {
    open spec fn obeys_mul_spec() -> bool { false }
    open spec fn mul_req(self, rhs: F) -> bool { true }
    open spec fn mul_spec(self, rhs: F) -> F { rhs }
}
impl<'a> core::ops::Mul<F> for &'a P {
    type Output = F;
    #[verifier::external_body]
    fn mul(self, rhs: F) -> (r: F) ensures r.v == 7 { F { v: 7 } }
}
fn t(p: P, f: F) -> (r: F) ensures r.v == 7 {
    <&P as core::ops::Mul<F>>::mul(&p, f)
}
} // verus!
fn main() {}
