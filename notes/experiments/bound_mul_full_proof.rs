use vstd::prelude::*;
use vstd::std_specs::ops::*;
verus! {

pub enum XR { NaN, NegInf, PosInf, Fin(real) }

#[verifier::external_body]
#[derive(Clone, Copy, Debug)]
pub struct F64 { v: f64 }
impl View for F64 { type V = XR; uninterp spec fn view(&self) -> XR; }

pub open spec fn xr_le(a: XR, b: XR) -> bool {
    match (a, b) {
        (XR::NaN, _) => false, (_, XR::NaN) => false,
        (XR::NegInf, _) => true, (_, XR::PosInf) => true,
        (XR::Fin(x), XR::Fin(y)) => x <= y,
        _ => false,
    }
}
pub open spec fn xr_lt(a: XR, b: XR) -> bool { xr_le(a, b) && a != b }
pub open spec fn sgn(x: real) -> int { if x > 0real { 1 } else if x < 0real { -1 } else { 0 } }
pub open spec fn xr_sign(a: XR) -> int {
    match a { XR::NaN => 0, XR::NegInf => -1, XR::PosInf => 1, XR::Fin(x) => sgn(x) }
}
pub open spec fn xr_mul(a: XR, b: XR) -> XR {
    match (a, b) {
        (XR::NaN, _) => XR::NaN, (_, XR::NaN) => XR::NaN,
        (XR::Fin(x), XR::Fin(y)) => XR::Fin(x * y),
        _ => { // at least one infinite
            let s = xr_sign(a) * xr_sign(b);
            if s == 0 { XR::NaN } else if s > 0 { XR::PosInf } else { XR::NegInf }
        }
    }
}
// IEEE minNum / maxNum as implemented by f64::min / f64::max: NaN is ignored
pub open spec fn xr_min(a: XR, b: XR) -> XR {
    if a is NaN { b } else if b is NaN { a } else if xr_le(a, b) { a } else { b }
}
pub open spec fn xr_max(a: XR, b: XR) -> XR {
    if a is NaN { b } else if b is NaN { a } else if xr_le(a, b) { b } else { a }
}

pub uninterp spec fn f_mul(a: F64, b: F64) -> F64;
pub broadcast axiom fn ax_f_mul(a: F64, b: F64)
    ensures (#[trigger] f_mul(a, b))@ == xr_mul(a@, b@);
impl MulSpecImpl<F64> for F64 {
    open spec fn obeys_mul_spec() -> bool { true }
    open spec fn mul_req(self, rhs: F64) -> bool { true }
    open spec fn mul_spec(self, rhs: F64) -> F64 { f_mul(self, rhs) }
}
impl core::ops::Mul for F64 {
    type Output = F64;
    #[verifier::external_body]
    fn mul(self, rhs: F64) -> (r: F64) { F64 { v: self.v * rhs.v } }
}
impl PartialEq for F64 {
    #[verifier::external_body]
    fn eq(&self, other: &F64) -> (r: bool)
        ensures r == (self@ == other@ && !(self@ is NaN))
    { self.v == other.v }
}
impl PartialOrd for F64 {
    #[verifier::external_body]
    fn partial_cmp(&self, other: &F64) -> (r: Option<core::cmp::Ordering>) { self.v.partial_cmp(&other.v) }
    #[verifier::external_body]
    fn le(&self, other: &F64) -> (r: bool) ensures r == xr_le(self@, other@) { self.v <= other.v }
    #[verifier::external_body]
    fn lt(&self, other: &F64) -> (r: bool) ensures r == xr_lt(self@, other@) { self.v < other.v }
    #[verifier::external_body]
    fn ge(&self, other: &F64) -> (r: bool) ensures r == xr_le(other@, self@) { self.v >= other.v }
    #[verifier::external_body]
    fn gt(&self, other: &F64) -> (r: bool) ensures r == xr_lt(other@, self@) { self.v > other.v }
}
impl F64 {
    #[verifier::external_body]
    pub fn min(self, o: F64) -> (r: F64) ensures r@ == xr_min(self@, o@) { F64 { v: self.v.min(o.v) } }
    #[verifier::external_body]
    pub fn max(self, o: F64) -> (r: F64) ensures r@ == xr_max(self@, o@) { F64 { v: self.v.max(o.v) } }
    #[verifier::external_body]
    pub fn is_nan(self) -> (r: bool) ensures r == (self@ is NaN) { self.v.is_nan() }
}
#[verifier::external_body]
pub fn lit_0_0() -> (r: F64) ensures r@ == XR::Fin(0real) { F64 { v: 0.0 } }
#[verifier::external_body]
pub fn f64_infinity() -> (r: F64) ensures r@ == XR::PosInf { F64 { v: f64::INFINITY } }
#[verifier::external_body]
pub fn f64_neg_infinity() -> (r: F64) ensures r@ == XR::NegInf { F64 { v: f64::NEG_INFINITY } }

// ---------------- extracted (bound.rs) ----------------
#[derive(Debug)]
pub enum BoundError {
    NotANumber { lower: F64, upper: F64 },
    InvalidInfinity { lower: F64, upper: F64 },
    UpperSmallerThanLower { lower: F64, upper: F64 },
}

pub open spec fn inv(lower: XR, upper: XR) -> bool {
    !(lower is NaN) && !(upper is NaN) && !(lower is PosInf) && !(upper is NegInf) && xr_le(lower, upper)
}

impl BoundError {
    fn check(lower: F64, upper: F64) -> (r: Result<(), BoundError>)
        ensures r is Ok <==> inv(lower@, upper@)
    {
        if lower.is_nan() || upper.is_nan() {
            return Err(BoundError::NotANumber { lower, upper });
        }
        if lower == f64_infinity() || upper == f64_neg_infinity() {
            return Err(BoundError::InvalidInfinity { lower, upper });
        }
        if lower > upper {
            return Err(BoundError::UpperSmallerThanLower { lower, upper });
        }
        Ok(())
    }
}

#[derive(Clone, Copy)]
pub struct Bound { pub lower: F64, pub upper: F64 }

pub open spec fn contains(b: Bound, x: real) -> bool {
    xr_le(b.lower@, XR::Fin(x)) && xr_le(XR::Fin(x), b.upper@)
}

impl Bound {
    pub open spec fn wf(self) -> bool { inv(self.lower@, self.upper@) }

    pub fn new(lower: F64, upper: F64) -> (r: Result<Bound, BoundError>)
        ensures r is Ok <==> inv(lower@, upper@),
                r is Ok ==> r->Ok_0.lower == lower && r->Ok_0.upper == upper
    {
        BoundError::check(lower, upper)?;
        Ok(Self { lower, upper })
    }

    pub fn zero() -> (r: Bound) ensures r.wf(), r.lower@ == XR::Fin(0real), r.upper@ == XR::Fin(0real)
    { Bound::new(lit_0_0(), lit_0_0()).unwrap() }

    pub fn eqb(self, o: Bound) -> (r: bool)
        requires self.wf(), o.wf()
        ensures r == (self.lower@ == o.lower@ && self.upper@ == o.upper@)
    { self.lower == o.lower && self.upper == o.upper }

    fn mul(self, rhs: Bound) -> (r: Bound)
        requires self.wf(), rhs.wf()
        ensures r.wf(),
            forall|x: real, y: real| contains(self, x) && contains(rhs, y) ==> contains(r, x * y)
    {
        broadcast use ax_f_mul;
        // [0, 0] x (-inf, inf) = [0, 0]
        if self.eqb(Bound::zero()) || rhs.eqb(Bound::zero()) {
            assert forall|x: real, y: real| contains(self, x) && contains(rhs, y) implies x * y == 0real by {
                assert(x == 0real || y == 0real);
                assert(x * y == 0real) by(nonlinear_arith) requires x == 0real || y == 0real;
            }
            return Bound::zero();
        }
        let a = self.lower * rhs.lower;
        let b = self.lower * rhs.upper;
        let c = self.upper * rhs.lower;
        let d = self.upper * rhs.upper;
        let lo = a.min(b).min(c).min(d);
        let hi = a.max(b).max(c).max(d);
        proof { lemma_mul_corners(self, rhs, a@, b@, c@, d@); }
        Bound::new(lo, hi).unwrap()
    }
}

proof fn lemma_mul_corners(s: Bound, t: Bound, a: XR, b: XR, c: XR, d: XR)
    requires s.wf(), t.wf(),
        !(s.lower@ == XR::Fin(0real) && s.upper@ == XR::Fin(0real)),
        !(t.lower@ == XR::Fin(0real) && t.upper@ == XR::Fin(0real)),
        a == xr_mul(s.lower@, t.lower@), b == xr_mul(s.lower@, t.upper@),
        c == xr_mul(s.upper@, t.lower@), d == xr_mul(s.upper@, t.upper@),
    ensures
        inv(xr_min(xr_min(xr_min(a, b), c), d), xr_max(xr_max(xr_max(a, b), c), d)),
        forall|x: real, y: real| contains(s, x) && contains(t, y) ==>
            xr_le(xr_min(xr_min(xr_min(a, b), c), d), XR::Fin(x * y)) &&
            xr_le(XR::Fin(x * y), xr_max(xr_max(xr_max(a, b), c), d)),
{
    let lo = xr_min(xr_min(xr_min(a, b), c), d);
    let hi = xr_max(xr_max(xr_max(a, b), c), d);
    assert forall|x: real, y: real| contains(s, x) && contains(t, y) implies
            xr_le(lo, XR::Fin(x * y)) && xr_le(XR::Fin(x * y), hi) by {
        lemma_mul_point(s, t, a, b, c, d, x, y);
    }
    // non-emptiness: pick a point
    lemma_mul_inv(s, t, a, b, c, d);
}


proof fn lemma_fin_corners(l1: real, u1: real, l2: real, u2: real, x: real, y: real)
    requires l1 <= x <= u1, l2 <= y <= u2
    ensures
        (l1*l2 <= x*y || l1*u2 <= x*y || u1*l2 <= x*y || u1*u2 <= x*y),
        (l1*l2 >= x*y || l1*u2 >= x*y || u1*l2 >= x*y || u1*u2 >= x*y),
{
    // x*y is bilinear: between min and max over corners
    assert(l1*l2 <= x*y || l1*u2 <= x*y || u1*l2 <= x*y || u1*u2 <= x*y) by(nonlinear_arith)
        requires l1 <= x <= u1, l2 <= y <= u2;
    assert(l1*l2 >= x*y || l1*u2 >= x*y || u1*l2 >= x*y || u1*u2 >= x*y) by(nonlinear_arith)
        requires l1 <= x <= u1, l2 <= y <= u2;
}


// NaN-ignoring min/max of four: every non-NaN argument bounds the result
proof fn lemma_min4(a: XR, b: XR, c: XR, d: XR, v: XR)
    requires !(v is NaN), v == a || v == b || v == c || v == d
    ensures xr_le(xr_min(xr_min(xr_min(a, b), c), d), v), !(xr_min(xr_min(xr_min(a, b), c), d) is NaN)
{}
proof fn lemma_max4(a: XR, b: XR, c: XR, d: XR, v: XR)
    requires !(v is NaN), v == a || v == b || v == c || v == d
    ensures xr_le(v, xr_max(xr_max(xr_max(a, b), c), d)), !(xr_max(xr_max(xr_max(a, b), c), d) is NaN)
{}
proof fn lemma_le_trans(a: XR, b: XR, c: XR)
    requires xr_le(a, b), xr_le(b, c) ensures xr_le(a, c) {}

// one-sided monotonicity of e*y in e, extended
proof fn lemma_mono(e: XR, x: real, y: real)
    requires !(e is NaN)
    ensures
        // e <= x, y > 0  ==> e*y <= x*y
        xr_le(e, XR::Fin(x)) && y > 0real ==> xr_le(xr_mul(e, XR::Fin(y)), XR::Fin(x * y)),
        xr_le(e, XR::Fin(x)) && y < 0real ==> xr_le(XR::Fin(x * y), xr_mul(e, XR::Fin(y))),
        xr_le(XR::Fin(x), e) && y > 0real ==> xr_le(XR::Fin(x * y), xr_mul(e, XR::Fin(y))),
        xr_le(XR::Fin(x), e) && y < 0real ==> xr_le(xr_mul(e, XR::Fin(y)), XR::Fin(x * y)),
{
    match e {
        XR::Fin(ev) => {
            assert(ev <= x && y > 0real ==> ev * y <= x * y) by(nonlinear_arith);
            assert(ev <= x && y < 0real ==> ev * y >= x * y) by(nonlinear_arith);
            assert(ev >= x && y > 0real ==> ev * y >= x * y) by(nonlinear_arith);
            assert(ev >= x && y < 0real ==> ev * y <= x * y) by(nonlinear_arith);
        }
        _ => {}
    }
}


pub open spec fn below(v: XR, p: XR) -> bool { !(v is NaN) && xr_le(v, p) }
pub open spec fn above(v: XR, p: XR) -> bool { !(v is NaN) && xr_le(p, v) }

proof fn lemma_mul_point(s: Bound, t: Bound, a: XR, b: XR, c: XR, d: XR, x: real, y: real)
    requires s.wf(), t.wf(),
        !(s.lower@ == XR::Fin(0real) && s.upper@ == XR::Fin(0real)),
        !(t.lower@ == XR::Fin(0real) && t.upper@ == XR::Fin(0real)),
        a == xr_mul(s.lower@, t.lower@), b == xr_mul(s.lower@, t.upper@),
        c == xr_mul(s.upper@, t.lower@), d == xr_mul(s.upper@, t.upper@),
        contains(s, x), contains(t, y),
    ensures
        xr_le(xr_min(xr_min(xr_min(a, b), c), d), XR::Fin(x * y)),
        xr_le(XR::Fin(x * y), xr_max(xr_max(xr_max(a, b), c), d)),
{
    let p = XR::Fin(x * y);
    lemma_corner_below(s.lower@, s.upper@, t.lower@, t.upper@, x, y);
    lemma_corner_above(s.lower@, s.upper@, t.lower@, t.upper@, x, y);
    let lo = xr_min(xr_min(xr_min(a, b), c), d);
    let hi = xr_max(xr_max(xr_max(a, b), c), d);
    if below(a, p) { lemma_min4(a, b, c, d, a); lemma_le_trans(lo, a, p); }
    else if below(b, p) { lemma_min4(a, b, c, d, b); lemma_le_trans(lo, b, p); }
    else if below(c, p) { lemma_min4(a, b, c, d, c); lemma_le_trans(lo, c, p); }
    else { lemma_min4(a, b, c, d, d); lemma_le_trans(lo, d, p); }
    if above(a, p) { lemma_max4(a, b, c, d, a); lemma_le_trans(p, a, hi); }
    else if above(b, p) { lemma_max4(a, b, c, d, b); lemma_le_trans(p, b, hi); }
    else if above(c, p) { lemma_max4(a, b, c, d, c); lemma_le_trans(p, c, hi); }
    else { lemma_max4(a, b, c, d, d); lemma_le_trans(p, d, hi); }
}

pub open spec fn okb(l: XR, u: XR) -> bool { inv(l, u) && !(l == XR::Fin(0real) && u == XR::Fin(0real)) }


// e ≤ y (extended), finite c: c*e vs c*y
proof fn lemma_mono_r(c: real, e: XR, y: real)
    requires !(e is NaN)
    ensures
        xr_le(e, XR::Fin(y)) && c > 0real ==> below(xr_mul(XR::Fin(c), e), XR::Fin(c * y)),
        xr_le(e, XR::Fin(y)) && c < 0real ==> above(xr_mul(XR::Fin(c), e), XR::Fin(c * y)),
        xr_le(XR::Fin(y), e) && c > 0real ==> above(xr_mul(XR::Fin(c), e), XR::Fin(c * y)),
        xr_le(XR::Fin(y), e) && c < 0real ==> below(xr_mul(XR::Fin(c), e), XR::Fin(c * y)),
{
    match e {
        XR::Fin(ev) => {
            assert(ev <= y && c > 0real ==> c * ev <= c * y) by(nonlinear_arith);
            assert(ev <= y && c < 0real ==> c * ev >= c * y) by(nonlinear_arith);
            assert(ev >= y && c > 0real ==> c * ev >= c * y) by(nonlinear_arith);
            assert(ev >= y && c < 0real ==> c * ev <= c * y) by(nonlinear_arith);
        }
        _ => {}
    }
}
// e ≤ x (extended), finite y: e*y vs x*y
proof fn lemma_mono_l(e: XR, x: real, y: real)
    requires !(e is NaN)
    ensures
        xr_le(e, XR::Fin(x)) && y > 0real ==> below(xr_mul(e, XR::Fin(y)), XR::Fin(x * y)),
        xr_le(e, XR::Fin(x)) && y < 0real ==> above(xr_mul(e, XR::Fin(y)), XR::Fin(x * y)),
        xr_le(XR::Fin(x), e) && y > 0real ==> above(xr_mul(e, XR::Fin(y)), XR::Fin(x * y)),
        xr_le(XR::Fin(x), e) && y < 0real ==> below(xr_mul(e, XR::Fin(y)), XR::Fin(x * y)),
{
    match e {
        XR::Fin(ev) => {
            assert(ev <= x && y > 0real ==> ev * y <= x * y) by(nonlinear_arith);
            assert(ev <= x && y < 0real ==> ev * y >= x * y) by(nonlinear_arith);
            assert(ev >= x && y > 0real ==> ev * y >= x * y) by(nonlinear_arith);
            assert(ev >= x && y < 0real ==> ev * y <= x * y) by(nonlinear_arith);
        }
        _ => {}
    }
}

// generic two-step: corner(es, et) is below x*y when es is the right s-endpoint for sign(y)
// and et the right t-endpoint for sign(es)
proof fn lemma_two_step_below(es: XR, et: XR, x: real, y: real)
    requires !(es is NaN), !(et is NaN),
        // step 1: es*y <= x*y
        (y > 0real && xr_le(es, XR::Fin(x))) || (y < 0real && xr_le(XR::Fin(x), es)),
        // step 2: es*et <= es*y
        (xr_sign(es) > 0 && xr_le(et, XR::Fin(y))) || (xr_sign(es) < 0 && xr_le(XR::Fin(y), et)),
    ensures below(xr_mul(es, et), XR::Fin(x * y))
{
    lemma_mono_l(es, x, y);
    match es {
        XR::Fin(c) => {
            lemma_mono_r(c, et, y);
            lemma_le_trans(xr_mul(es, et), XR::Fin(c * y), XR::Fin(x * y));
        }
        _ => {
            // es infinite: es*et is -inf
            match et { XR::Fin(tv) => { }, _ => {} }
        }
    }
}

proof fn lemma_corner_below(sl: XR, su: XR, tl: XR, tu: XR, x: real, y: real)
    requires okb(sl, su), okb(tl, tu),
        xr_le(sl, XR::Fin(x)), xr_le(XR::Fin(x), su), xr_le(tl, XR::Fin(y)), xr_le(XR::Fin(y), tu),
    ensures ({ let p = XR::Fin(x * y);
        below(xr_mul(sl, tl), p) || below(xr_mul(sl, tu), p) || below(xr_mul(su, tl), p) || below(xr_mul(su, tu), p) })
{
    let p = XR::Fin(x * y);
    if y > 0real {
        if xr_sign(sl) > 0 { lemma_two_step_below(sl, tl, x, y); }
        else if xr_sign(sl) < 0 { lemma_two_step_below(sl, tu, x, y); }
        else {
            // sl == 0, so x >= 0 and x*y >= 0
            assert(x * y >= 0real) by(nonlinear_arith) requires x >= 0real, y > 0real;
            if tl is Fin { assert(xr_mul(sl, tl) == XR::Fin(0real)) by { let tv = tl->Fin_0; assert(0real * tv == 0real) by(nonlinear_arith); } }
            else if tu is Fin { assert(xr_mul(sl, tu) == XR::Fin(0real)) by { let tv = tu->Fin_0; assert(0real * tv == 0real) by(nonlinear_arith); } }
            else { assert(xr_mul(su, tl) == XR::NegInf); }
        }
    } else if y < 0real {
        if xr_sign(su) > 0 { lemma_two_step_below(su, tl, x, y); }
        else if xr_sign(su) < 0 { lemma_two_step_below(su, tu, x, y); }
        else {
            assert(x * y >= 0real) by(nonlinear_arith) requires x <= 0real, y < 0real;
            if tl is Fin { assert(xr_mul(su, tl) == XR::Fin(0real)) by { let tv = tl->Fin_0; assert(0real * tv == 0real) by(nonlinear_arith); } }
            else if tu is Fin { assert(xr_mul(su, tu) == XR::Fin(0real)) by { let tv = tu->Fin_0; assert(0real * tv == 0real) by(nonlinear_arith); } }
            else { assert(xr_mul(sl, tu) == XR::NegInf); }
        }
    } else {
        assert(x * y == 0real) by(nonlinear_arith) requires y == 0real;
        lemma_sign_prod(sl, tl); lemma_sign_prod(sl, tu); lemma_sign_prod(su, tl); lemma_sign_prod(su, tu);
    }
}

// sign of a corner product
proof fn lemma_sign_prod(a: XR, b: XR)
    requires !(a is NaN), !(b is NaN)
    ensures
        xr_sign(a) * xr_sign(b) < 0 ==> below(xr_mul(a, b), XR::Fin(0real)),
        xr_sign(a) * xr_sign(b) > 0 ==> above(xr_mul(a, b), XR::Fin(0real)),
        (a is Fin && b is Fin && (xr_sign(a) == 0 || xr_sign(b) == 0)) ==> xr_mul(a, b) == XR::Fin(0real),
{
    match (a, b) {
        (XR::Fin(x), XR::Fin(y)) => {
            assert(x > 0real && y < 0real ==> x * y < 0real) by(nonlinear_arith);
            assert(x < 0real && y > 0real ==> x * y < 0real) by(nonlinear_arith);
            assert(x > 0real && y > 0real ==> x * y > 0real) by(nonlinear_arith);
            assert(x < 0real && y < 0real ==> x * y > 0real) by(nonlinear_arith);
            assert(x == 0real || y == 0real ==> x * y == 0real) by(nonlinear_arith);
        }
        _ => {}
    }
}


proof fn lemma_two_step_above(es: XR, et: XR, x: real, y: real)
    requires !(es is NaN), !(et is NaN),
        (y > 0real && xr_le(XR::Fin(x), es)) || (y < 0real && xr_le(es, XR::Fin(x))),
        (xr_sign(es) > 0 && xr_le(XR::Fin(y), et)) || (xr_sign(es) < 0 && xr_le(et, XR::Fin(y))),
    ensures above(xr_mul(es, et), XR::Fin(x * y))
{
    lemma_mono_l(es, x, y);
    match es {
        XR::Fin(c) => {
            lemma_mono_r(c, et, y);
            lemma_le_trans(XR::Fin(x * y), XR::Fin(c * y), xr_mul(es, et));
        }
        _ => { match et { XR::Fin(tv) => { }, _ => {} } }
    }
}

proof fn lemma_corner_above(sl: XR, su: XR, tl: XR, tu: XR, x: real, y: real)
    requires okb(sl, su), okb(tl, tu),
        xr_le(sl, XR::Fin(x)), xr_le(XR::Fin(x), su), xr_le(tl, XR::Fin(y)), xr_le(XR::Fin(y), tu),
    ensures ({ let p = XR::Fin(x * y);
        above(xr_mul(sl, tl), p) || above(xr_mul(sl, tu), p) || above(xr_mul(su, tl), p) || above(xr_mul(su, tu), p) })
{
    let p = XR::Fin(x * y);
    if y > 0real {
        if xr_sign(su) > 0 { lemma_two_step_above(su, tu, x, y); assert(above(xr_mul(su, tu), p)); }
        else if xr_sign(su) < 0 { lemma_two_step_above(su, tl, x, y); assert(above(xr_mul(su, tl), p)); }
        else {
            assert(x * y <= 0real) by(nonlinear_arith) requires x <= 0real, y > 0real;
            if tl is Fin { let tv = tl->Fin_0; assert(0real * tv == 0real) by(nonlinear_arith); assert(above(xr_mul(su, tl), p)); }
            else if tu is Fin { let tv = tu->Fin_0; assert(0real * tv == 0real) by(nonlinear_arith); assert(above(xr_mul(su, tu), p)); }
            else { assert(xr_mul(sl, tl) == XR::PosInf); assert(above(xr_mul(sl, tl), p)); }
        }
    } else if y < 0real {
        if xr_sign(sl) > 0 { lemma_two_step_above(sl, tu, x, y); assert(above(xr_mul(sl, tu), p)); }
        else if xr_sign(sl) < 0 { lemma_two_step_above(sl, tl, x, y); assert(above(xr_mul(sl, tl), p)); }
        else {
            assert(x * y <= 0real) by(nonlinear_arith) requires x >= 0real, y < 0real;
            if tl is Fin { let tv = tl->Fin_0; assert(0real * tv == 0real) by(nonlinear_arith); assert(above(xr_mul(sl, tl), p)); }
            else if tu is Fin { let tv = tu->Fin_0; assert(0real * tv == 0real) by(nonlinear_arith); assert(above(xr_mul(sl, tu), p)); }
            else { assert(xr_mul(su, tu) == XR::PosInf); assert(above(xr_mul(su, tu), p)); }
        }
    } else {
        assert(x * y == 0real) by(nonlinear_arith) requires y == 0real;
        lemma_sign_prod(sl, tl); lemma_sign_prod(sl, tu); lemma_sign_prod(su, tl); lemma_sign_prod(su, tu);
        // y == 0 lies in t and t != [0,0]: tl < 0 or tu > 0
        if xr_sign(tl) < 0 {
            if xr_sign(sl) < 0 { assert(above(xr_mul(sl, tl), p)); }
            else if xr_sign(tu) > 0 { assert(xr_sign(su) > 0); assert(above(xr_mul(su, tu), p)); }
            else { assert(tu == XR::Fin(0real)); assert(sl is Fin); assert(above(xr_mul(sl, tu), p)); }
        } else {
            assert(tl == XR::Fin(0real)); assert(xr_sign(tu) > 0);
            if xr_sign(su) > 0 { assert(above(xr_mul(su, tu), p)); }
            else { assert(su is Fin); assert(above(xr_mul(su, tl), p)); }
        }
    }
}

pub open spec fn pick(l: XR, u: XR) -> real {
    match l { XR::Fin(v) => v, _ => match u { XR::Fin(w) => w, _ => 0real } }
}
proof fn lemma_pick(l: XR, u: XR)
    requires inv(l, u)
    ensures xr_le(l, XR::Fin(pick(l, u))), xr_le(XR::Fin(pick(l, u)), u)
{}

proof fn lemma_mul_inv(s: Bound, t: Bound, a: XR, b: XR, c: XR, d: XR)
    requires s.wf(), t.wf(),
        !(s.lower@ == XR::Fin(0real) && s.upper@ == XR::Fin(0real)),
        !(t.lower@ == XR::Fin(0real) && t.upper@ == XR::Fin(0real)),
        a == xr_mul(s.lower@, t.lower@), b == xr_mul(s.lower@, t.upper@),
        c == xr_mul(s.upper@, t.lower@), d == xr_mul(s.upper@, t.upper@),
    ensures
        inv(xr_min(xr_min(xr_min(a, b), c), d), xr_max(xr_max(xr_max(a, b), c), d)),
{
    let x = pick(s.lower@, s.upper@);
    let y = pick(t.lower@, t.upper@);
    lemma_pick(s.lower@, s.upper@);
    lemma_pick(t.lower@, t.upper@);
    lemma_mul_point(s, t, a, b, c, d, x, y);
    let lo = xr_min(xr_min(xr_min(a, b), c), d);
    let hi = xr_max(xr_max(xr_max(a, b), c), d);
    lemma_le_trans(lo, XR::Fin(x * y), hi);
}
} // verus!
fn main() {}
