use vstd::prelude::*;
use vstd::std_specs::ops::*;
use vstd::std_specs::cmp::*;
verus! {

pub enum XR { NaN, NegInf, PosInf, Fin(real) }

#[verifier::external_body]
#[derive(Clone, Copy)]
pub struct F64 { v: f64 }

impl View for F64 { type V = XR; uninterp spec fn view(&self) -> XR; }

pub open spec fn xr_add(a: XR, b: XR) -> XR {
    match (a, b) {
        (XR::NaN, _) => XR::NaN,
        (_, XR::NaN) => XR::NaN,
        (XR::NegInf, XR::PosInf) => XR::NaN,
        (XR::PosInf, XR::NegInf) => XR::NaN,
        (XR::NegInf, _) => XR::NegInf,
        (_, XR::NegInf) => XR::NegInf,
        (XR::PosInf, _) => XR::PosInf,
        (_, XR::PosInf) => XR::PosInf,
        (XR::Fin(x), XR::Fin(y)) => XR::Fin(x + y),
    }
}
pub open spec fn xr_le(a: XR, b: XR) -> bool {
    match (a, b) {
        (XR::NaN, _) => false,
        (_, XR::NaN) => false,
        (XR::NegInf, _) => true,
        (_, XR::PosInf) => true,
        (XR::Fin(x), XR::Fin(y)) => x <= y,
        _ => false,
    }
}
pub open spec fn xr_lt(a: XR, b: XR) -> bool { xr_le(a, b) && a != b }

pub uninterp spec fn f_add(a: F64, b: F64) -> F64;
pub broadcast axiom fn ax_f_add(a: F64, b: F64)
    ensures (#[trigger] f_add(a, b))@ == xr_add(a@, b@);

impl AddSpecImpl<F64> for F64 {
    open spec fn obeys_add_spec() -> bool { true }
    open spec fn add_req(self, rhs: F64) -> bool { true }
    open spec fn add_spec(self, rhs: F64) -> F64 { f_add(self, rhs) }
}
impl core::ops::Add for F64 {
    type Output = F64;
    #[verifier::external_body]
    fn add(self, rhs: F64) -> (r: F64)
    { F64 { v: self.v + rhs.v } }
}

impl PartialEq for F64 {
    #[verifier::external_body]
    fn eq(&self, other: &F64) -> (r: bool)
        ensures r == (self@ == other@ && !(self@ is NaN))
    { self.v == other.v }
}

impl PartialOrd for F64 {
    #[verifier::external_body]
    fn partial_cmp(&self, other: &F64) -> (r: Option<core::cmp::Ordering>)
    { self.v.partial_cmp(&other.v) }
    #[verifier::external_body]
    fn le(&self, other: &F64) -> (r: bool)
        ensures r == xr_le(self@, other@)
    { self.v <= other.v }
    #[verifier::external_body]
    fn lt(&self, other: &F64) -> (r: bool)
        ensures r == xr_lt(self@, other@)
    { self.v < other.v }
}

fn test(a: F64, b: F64, x: F64, y: F64) -> (r: F64)
    requires xr_le(a@, x@), xr_le(b@, y@), x@ is Fin, y@ is Fin
    ensures xr_le(r@, xr_add(x@, y@))
{
    broadcast use ax_f_add;
    let r = a + b;
    if a <= b { assert(xr_le(a@, b@)); }
    r
}
} // verus!
fn main() {}
