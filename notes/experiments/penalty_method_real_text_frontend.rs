use vstd::prelude::*;
use vstd::std_specs::ops::*;
verus! {
pub mod lib {
use vstd::prelude::*;
use vstd::std_specs::ops::*;


pub enum XR { NaN, NegInf, PosInf, Fin(real) }

#[verifier::external_body]
#[derive(Clone, Copy, Debug)]
pub struct F64 { v: f64 }
impl View for F64 { type V = XR; uninterp spec fn view(&self) -> XR; }

pub open spec fn xr_le(a: XR, b: XR) -> bool {
    match (a, b) {
        (XR::NaN, _) => false, (_, XR::NaN) => false,
        (XR::NegInf, _) => true, (_, XR::PosInf) => true,
        (XR::Fin(x), XR::Fin(y)) => x <= y,
        _ => false,
    }
}
pub open spec fn xr_lt(a: XR, b: XR) -> bool { xr_le(a, b) && a != b }
pub open spec fn sgn(x: real) -> int { if x > 0real { 1 } else if x < 0real { -1 } else { 0 } }
pub open spec fn xr_sign(a: XR) -> int {
    match a { XR::NaN => 0, XR::NegInf => -1, XR::PosInf => 1, XR::Fin(x) => sgn(x) }
}
pub open spec fn xr_mul(a: XR, b: XR) -> XR {
    match (a, b) {
        (XR::NaN, _) => XR::NaN, (_, XR::NaN) => XR::NaN,
        (XR::Fin(x), XR::Fin(y)) => XR::Fin(x * y),
        _ => { // at least one infinite
            let s = xr_sign(a) * xr_sign(b);
            if s == 0 { XR::NaN } else if s > 0 { XR::PosInf } else { XR::NegInf }
        }
    }
}
// IEEE minNum / maxNum as implemented by f64::min / f64::max: NaN is ignored
pub open spec fn xr_min(a: XR, b: XR) -> XR {
    if a is NaN { b } else if b is NaN { a } else if xr_le(a, b) { a } else { b }
}
pub open spec fn xr_max(a: XR, b: XR) -> XR {
    if a is NaN { b } else if b is NaN { a } else if xr_le(a, b) { b } else { a }
}

pub open spec fn xr_add(a: XR, b: XR) -> XR {
    match (a, b) {
        (XR::NaN, _) => XR::NaN, (_, XR::NaN) => XR::NaN,
        (XR::NegInf, XR::PosInf) => XR::NaN, (XR::PosInf, XR::NegInf) => XR::NaN,
        (XR::NegInf, _) => XR::NegInf, (_, XR::NegInf) => XR::NegInf,
        (XR::PosInf, _) => XR::PosInf, (_, XR::PosInf) => XR::PosInf,
        (XR::Fin(x), XR::Fin(y)) => XR::Fin(x + y),
    }
}
pub uninterp spec fn f_add(a: F64, b: F64) -> F64;
pub broadcast axiom fn ax_f_add(a: F64, b: F64)
    ensures (#[trigger] f_add(a, b))@ == xr_add(a@, b@);
impl AddSpecImpl<F64> for F64 {
    open spec fn obeys_add_spec() -> bool { false }
    open spec fn add_req(self, rhs: F64) -> bool { true }
    open spec fn add_spec(self, rhs: F64) -> F64 { f_add(self, rhs) }
}
impl core::ops::Add for F64 {
    type Output = F64;
    #[verifier::external_body]
    fn add(self, rhs: F64) -> (r: F64) ensures r@ == xr_add(self@, rhs@) { F64 { v: self.v + rhs.v } }
}
impl<'a, 'b> MulSpecImpl<&'b F64> for &'a F64 {
    open spec fn obeys_mul_spec() -> bool { false }
    open spec fn mul_req(self, rhs: &'b F64) -> bool { true }
    open spec fn mul_spec(self, rhs: &'b F64) -> F64 { f_mul(*self, *rhs) }
}
impl<'a, 'b> core::ops::Mul<&'b F64> for &'a F64 {
    type Output = F64;
    #[verifier::external_body]
    fn mul(self, rhs: &'b F64) -> (r: F64) ensures r@ == xr_mul(self@, rhs@) { F64 { v: self.v * rhs.v } }
}
pub uninterp spec fn f_mul(a: F64, b: F64) -> F64;
pub broadcast axiom fn ax_f_mul(a: F64, b: F64)
    ensures (#[trigger] f_mul(a, b))@ == xr_mul(a@, b@);
impl MulSpecImpl<F64> for F64 {
    open spec fn obeys_mul_spec() -> bool { false }
    open spec fn mul_req(self, rhs: F64) -> bool { true }
    open spec fn mul_spec(self, rhs: F64) -> F64 { f_mul(self, rhs) }
}
impl core::ops::Mul for F64 {
    type Output = F64;
    #[verifier::external_body]
    fn mul(self, rhs: F64) -> (r: F64) ensures r@ == xr_mul(self@, rhs@) { F64 { v: self.v * rhs.v } }
}
impl PartialEq for F64 {
    #[verifier::external_body]
    fn eq(&self, other: &F64) -> (r: bool)
        ensures r == (self@ == other@ && !(self@ is NaN))
    { self.v == other.v }
}
impl PartialOrd for F64 {
    #[verifier::external_body]
    fn partial_cmp(&self, other: &F64) -> (r: Option<core::cmp::Ordering>) { self.v.partial_cmp(&other.v) }
    #[verifier::external_body]
    fn le(&self, other: &F64) -> (r: bool) ensures r == xr_le(self@, other@) { self.v <= other.v }
    #[verifier::external_body]
    fn lt(&self, other: &F64) -> (r: bool) ensures r == xr_lt(self@, other@) { self.v < other.v }
    #[verifier::external_body]
    fn ge(&self, other: &F64) -> (r: bool) ensures r == xr_le(other@, self@) { self.v >= other.v }
    #[verifier::external_body]
    fn gt(&self, other: &F64) -> (r: bool) ensures r == xr_lt(other@, self@) { self.v > other.v }
}
impl F64 {
    #[verifier::external_body]
    pub fn min(self, o: F64) -> (r: F64) ensures r@ == xr_min(self@, o@) { F64 { v: self.v.min(o.v) } }
    #[verifier::external_body]
    pub fn max(self, o: F64) -> (r: F64) ensures r@ == xr_max(self@, o@) { F64 { v: self.v.max(o.v) } }
    #[verifier::external_body]
    pub fn is_nan(self) -> (r: bool) ensures r == (self@ is NaN) { self.v.is_nan() }
}
#[verifier::external_body]
pub fn lit_0_0() -> (r: F64) ensures r@ == XR::Fin(0real) { F64 { v: 0.0 } }
#[verifier::external_body]
pub fn f64_infinity() -> (r: F64) ensures r@ == XR::PosInf { F64 { v: f64::INFINITY } }
#[verifier::external_body]
pub fn f64_neg_infinity() -> (r: F64) ensures r@ == XR::NegInf { F64 { v: f64::NEG_INFINITY } }




impl Default for F64 { #[verifier::external_body] fn default() -> (r: F64) ensures r@ == XR::Fin(0real) { F64 { v: 0.0 } } }

use std::collections::{HashMap, HashSet, BTreeSet, BTreeMap};
pub struct VErr { pub tag: u64 }
impl VErr { pub fn new() -> VErr { VErr { tag: 0 } } }
pub trait VCtx<T> { fn vctx(self) -> Result<T, VErr>; }
impl<T> VCtx<T> for Option<T> {
    #[verifier::external_body]
    fn vctx(self) -> (r: Result<T, VErr>)
        ensures self is Some ==> r == Ok::<T, VErr>(self->Some_0), self is None ==> r is Err
    { match self { Some(x) => Ok(x), None => Err(VErr::new()) } }
}
impl<T, E> VCtx<T> for Result<T, E> {
    #[verifier::external_body]
    fn vctx(self) -> (r: Result<T, VErr>)
        ensures self is Ok ==> r == Ok::<T, VErr>(self->Ok_0), self is Err ==> r is Err
    { match self { Ok(x) => Ok(x), Err(_) => Err(VErr::new()) } }
}
#[verifier::external_body]
pub fn btreeset_append(a: &mut BTreeSet<u64>, b: &mut BTreeSet<u64>)
    ensures final(a)@ == old(a)@.union(old(b)@), final(b)@ == Set::<u64>::empty()
{ a.append(b) }
#[verifier::external_body]
pub fn btreeset_extend(a: &mut BTreeSet<u64>, b: BTreeSet<u64>)
    ensures final(a)@ == old(a)@.union(b@)
{ a.extend(b) }
#[verifier::external_body]
pub fn btreeset_to_vec(a: &BTreeSet<u64>) -> (r: Vec<u64>) ensures r@.to_set() == a@, r@.no_duplicates() { a.iter().cloned().collect() }
#[verifier::external_body]
pub fn lit_1em7() -> (r: F64) { F64 { v: 1e-7 } }
pub uninterp spec fn lit6() -> F64;
#[verifier::external_body]
pub fn lit_1em6() -> (r: F64) ensures r == lit6() { F64 { v: 1e-6 } }

pub open spec fn holds(equality: i32, v: F64, atol: F64) -> bool {
    if equality == 1 { xr_lt(xr_abs(v@), atol@) } else { xr_lt(v@, atol@) }
}
pub open spec fn xr_abs(a: XR) -> XR { match a { XR::NaN => XR::NaN, XR::NegInf => XR::PosInf, XR::PosInf => XR::PosInf, XR::Fin(x) => XR::Fin(if x < 0real { -x } else { x }) } }

pub uninterp spec fn fn_eval_ok(f: v1::Function, st: v1::State) -> bool;
pub uninterp spec fn fn_eval_val(f: v1::Function, st: v1::State) -> F64;
pub open spec fn cfun(c: v1::Constraint) -> v1::Function { match c.function { Some(f) => f, None => zero_fn() } }
pub uninterp spec fn zero_fn() -> v1::Function;
pub open spec fn all_hold(ecs: Seq<v1::EvaluatedConstraint>, lo: int, hi: int, atol: F64) -> bool decreases hi - lo {
    if hi <= lo { true } else { all_hold(ecs, lo, hi - 1, atol) && holds(ecs[hi - 1].equality, ecs[hi - 1].evaluated_value, atol) }
}

pub broadcast proof fn lemma_all_hold_push(s: Seq<v1::EvaluatedConstraint>, e: v1::EvaluatedConstraint, lo: int, hi: int, atol: F64)
    requires 0 <= lo, hi <= s.len()
    ensures #[trigger] all_hold(s.push(e), lo, hi, atol) == all_hold(s, lo, hi, atol)
    decreases hi - lo
{
    if hi > lo { lemma_all_hold_push(s, e, lo, hi - 1, atol); }
}

pub open spec fn holds_c(c: v1::Constraint, st: v1::State, atol: F64) -> bool { holds(c.equality, fn_eval_val(cfun(c), st), atol) }
pub open spec fn active_hold(cs: Seq<v1::Constraint>, n: int, st: v1::State, atol: F64) -> bool decreases n {
    if n <= 0 { true } else { active_hold(cs, n - 1, st, atol) && holds_c(cs[n - 1], st, atol) }
}
pub open spec fn removed_hold(rs: Seq<v1::RemovedConstraint>, n: int, st: v1::State, atol: F64) -> bool decreases n {
    if n <= 0 { true } else { removed_hold(rs, n - 1, st, atol) && holds_c(rs[n - 1].constraint->Some_0, st, atol) }
}
pub open spec fn ec_of(c: v1::Constraint, st: v1::State, ec: v1::EvaluatedConstraint) -> bool {
    ec.id == c.id && ec.equality == c.equality && ec.evaluated_value == fn_eval_val(cfun(c), st)
    && ec.name == c.name && ec.subscripts@ == c.subscripts@ && ec.parameters@ == c.parameters@ && ec.description == c.description
}
pub open spec fn eq_ok(equality: i32) -> bool { equality == 1 || equality == 2 }
pub mod v1 {
use super::*;
#[derive(Default)]
pub struct Linear {
    pub terms: Vec<linear::Term>,
    pub constant: F64,
}
impl Clone for Linear { #[verifier::external_body] fn clone(&self) -> (r: Self) ensures r == *self { unimplemented!() } }

pub mod linear {
    use super::*;
    #[derive(Default)]
pub struct Term {
        pub id: u64,
        pub coefficient: F64,
    }
impl Clone for Term { #[verifier::external_body] fn clone(&self) -> (r: Self) ensures r == *self { unimplemented!() } }

}
#[derive(Default)]
pub struct Monomial {
    pub ids: Vec<u64>,
    pub coefficient: F64,
}
impl Clone for Monomial { #[verifier::external_body] fn clone(&self) -> (r: Self) ensures r == *self { unimplemented!() } }

#[derive(Default)]
pub struct Polynomial {
    pub terms: Vec<Monomial>,
}
impl Clone for Polynomial { #[verifier::external_body] fn clone(&self) -> (r: Self) ensures r == *self { unimplemented!() } }

#[derive(Default)]
pub struct Quadratic {
    pub rows: Vec<u64>,
    pub columns: Vec<u64>,
    pub values: Vec<F64>,
    pub linear: Option<Linear>,
}
impl Clone for Quadratic { #[verifier::external_body] fn clone(&self) -> (r: Self) ensures r == *self { unimplemented!() } }

#[derive(Default)]
pub struct Function {
    pub function: Option<function::Function>,
}
impl Clone for Function { #[verifier::external_body] fn clone(&self) -> (r: Self) ensures r == *self { unimplemented!() } }

pub mod function {
    use super::*;
    
pub enum Function {
        Constant(F64),
        Linear(super::Linear),
        Quadratic(super::Quadratic),
        Polynomial(super::Polynomial),
    }
impl Clone for Function { #[verifier::external_body] fn clone(&self) -> (r: Self) ensures r == *self { unimplemented!() } }

}
#[derive(Default)]
pub struct Constraint {
    pub id: u64,
    pub equality: i32,
    pub function: Option<Function>,
    pub subscripts: Vec<i64>,
    pub parameters:
        HashMap<String, String>,
    pub name: Option<String>,
    pub description: Option<String>,
}
impl Clone for Constraint { #[verifier::external_body] fn clone(&self) -> (r: Self) ensures r == *self { unimplemented!() } }

#[derive(Default)]
pub struct EvaluatedConstraint {
    pub id: u64,
    pub equality: i32,
    pub evaluated_value: F64,
    pub used_decision_variable_ids: Vec<u64>,
    pub subscripts: Vec<i64>,
    pub parameters:
        HashMap<String, String>,
    pub name: Option<String>,
    pub description: Option<String>,
    pub dual_variable: Option<F64>,
    pub removed_reason: Option<String>,
    pub removed_reason_parameters:
        HashMap<String, String>,
}
impl Clone for EvaluatedConstraint { #[verifier::external_body] fn clone(&self) -> (r: Self) ensures r == *self { unimplemented!() } }

#[derive(Default)]
pub struct RemovedConstraint {
    pub constraint: Option<Constraint>,
    pub removed_reason: String,
    pub removed_reason_parameters:
        HashMap<String, String>,
}
impl Clone for RemovedConstraint { #[verifier::external_body] fn clone(&self) -> (r: Self) ensures r == *self { unimplemented!() } }


pub enum Equality {
    Unspecified,
    EqualToZero,
    LessThanOrEqualToZero,
}
impl Clone for Equality { #[verifier::external_body] fn clone(&self) -> (r: Self) ensures r == *self { unimplemented!() } }

#[derive(Default)]
pub struct OneHot {
    pub constraint_id: u64,
    pub decision_variables: Vec<u64>,
}
impl Clone for OneHot { #[verifier::external_body] fn clone(&self) -> (r: Self) ensures r == *self { unimplemented!() } }

#[derive(Default)]
pub struct Sos1 {
    pub binary_constraint_id: u64,
    pub big_m_constraint_ids: Vec<u64>,
    pub decision_variables: Vec<u64>,
}
impl Clone for Sos1 { #[verifier::external_body] fn clone(&self) -> (r: Self) ensures r == *self { unimplemented!() } }

#[derive(Default)]
pub struct ConstraintHints {
    pub one_hot_constraints: Vec<OneHot>,
    pub sos1_constraints: Vec<Sos1>,
}
impl Clone for ConstraintHints { #[verifier::external_body] fn clone(&self) -> (r: Self) ensures r == *self { unimplemented!() } }

#[derive(Default)]
pub struct Bound {
    pub lower: F64,
    pub upper: F64,
}
impl Clone for Bound { #[verifier::external_body] fn clone(&self) -> (r: Self) ensures r == *self { unimplemented!() } }

#[derive(Default)]
pub struct DecisionVariable {
    pub id: u64,
    pub kind: i32,
    pub bound: Option<Bound>,
    pub name: Option<String>,
    pub subscripts: Vec<i64>,
    pub parameters:
        HashMap<String, String>,
    pub description: Option<String>,
    pub substituted_value: Option<F64>,
}
impl Clone for DecisionVariable { #[verifier::external_body] fn clone(&self) -> (r: Self) ensures r == *self { unimplemented!() } }

pub mod decision_variable {
    use super::*;
    
pub enum Kind {
        Unspecified,
        Binary,
        Integer,
        Continuous,
        SemiInteger,
        SemiContinuous,
    }
impl Clone for Kind { #[verifier::external_body] fn clone(&self) -> (r: Self) ensures r == *self { unimplemented!() } }

}
#[derive(Default)]
pub struct Parameters {
    pub entries: HashMap<u64, F64>,
}
impl Clone for Parameters { #[verifier::external_body] fn clone(&self) -> (r: Self) ensures r == *self { unimplemented!() } }

#[derive(Default)]
pub struct Instance {
    pub description: Option<instance::Description>,
    pub decision_variables: Vec<DecisionVariable>,
    pub objective: Option<Function>,
    pub constraints: Vec<Constraint>,
    pub sense: i32,
    pub parameters: Option<Parameters>,
    pub constraint_hints: Option<ConstraintHints>,
    pub removed_constraints: Vec<RemovedConstraint>,
    pub decision_variable_dependency: HashMap<u64, Function>,
}
impl Clone for Instance { #[verifier::external_body] fn clone(&self) -> (r: Self) ensures r == *self { unimplemented!() } }

pub mod instance {
    use super::*;
    #[derive(Default)]
pub struct Description {
        pub name: Option<String>,
        pub description: Option<String>,
        pub authors: Vec<String>,
        pub created_by: Option<String>,
    }
impl Clone for Description { #[verifier::external_body] fn clone(&self) -> (r: Self) ensures r == *self { unimplemented!() } }

    
pub enum Sense {
        Unspecified,
        Minimize,
        Maximize,
    }
impl Clone for Sense { #[verifier::external_body] fn clone(&self) -> (r: Self) ensures r == *self { unimplemented!() } }

}
#[derive(Default)]
pub struct Parameter {
    pub id: u64,
    pub name: Option<String>,
    pub subscripts: Vec<i64>,
    pub parameters:
        HashMap<String, String>,
    pub description: Option<String>,
}
impl Clone for Parameter { #[verifier::external_body] fn clone(&self) -> (r: Self) ensures r == *self { unimplemented!() } }

#[derive(Default)]
pub struct ParametricInstance {
    pub description: Option<instance::Description>,
    pub decision_variables: Vec<DecisionVariable>,
    pub parameters: Vec<Parameter>,
    pub objective: Option<Function>,
    pub constraints: Vec<Constraint>,
    pub sense: i32,
    pub constraint_hints: Option<ConstraintHints>,
    pub removed_constraints: Vec<RemovedConstraint>,
    pub decision_variable_dependency: HashMap<u64, Function>,
}
impl Clone for ParametricInstance { #[verifier::external_body] fn clone(&self) -> (r: Self) ensures r == *self { unimplemented!() } }

#[derive(Default)]
pub struct State {
    pub entries: HashMap<u64, F64>,
}
impl Clone for State { #[verifier::external_body] fn clone(&self) -> (r: Self) ensures r == *self { unimplemented!() } }

#[derive(Default)]
pub struct Solution {
    pub state: Option<State>,
    pub objective: F64,
    pub decision_variables: Vec<DecisionVariable>,
    pub evaluated_constraints: Vec<EvaluatedConstraint>,
    pub feasible: bool,
    pub feasible_relaxed: Option<bool>,
    pub feasible_unrelaxed: bool,
    pub optimality: i32,
    pub relaxation: i32,
}
impl Clone for Solution { #[verifier::external_body] fn clone(&self) -> (r: Self) ensures r == *self { unimplemented!() } }

#[derive(Default)]
pub struct Infeasible {}
impl Clone for Infeasible { #[verifier::external_body] fn clone(&self) -> (r: Self) ensures r == *self { unimplemented!() } }

#[derive(Default)]
pub struct Unbounded {}
impl Clone for Unbounded { #[verifier::external_body] fn clone(&self) -> (r: Self) ensures r == *self { unimplemented!() } }

#[derive(Default)]
pub struct Result {
    pub result: Option<result::Result>,
}
impl Clone for Result { #[verifier::external_body] fn clone(&self) -> (r: Self) ensures r == *self { unimplemented!() } }

pub mod result {
    use super::*;
    
pub enum Result {
        Error(String),
        Solution(super::Solution),
        Infeasible(super::Infeasible),
        Unbounded(super::Unbounded),
    }
impl Clone for Result { #[verifier::external_body] fn clone(&self) -> (r: Self) ensures r == *self { unimplemented!() } }

}

pub enum Optimality {
    Unspecified,
    Optimal,
    NotOptimal,
}
impl Clone for Optimality { #[verifier::external_body] fn clone(&self) -> (r: Self) ensures r == *self { unimplemented!() } }


pub enum Relaxation {
    Unspecified,
    LpRelaxed,
}
impl Clone for Relaxation { #[verifier::external_body] fn clone(&self) -> (r: Self) ensures r == *self { unimplemented!() } }

#[derive(Default)]
pub struct Samples {
    pub entries: Vec<samples::SamplesEntry>,
}
impl Clone for Samples { #[verifier::external_body] fn clone(&self) -> (r: Self) ensures r == *self { unimplemented!() } }

pub mod samples {
    use super::*;
    #[derive(Default)]
pub struct SamplesEntry {
        pub state: Option<super::State>,
        pub ids: Vec<u64>,
    }
impl Clone for SamplesEntry { #[verifier::external_body] fn clone(&self) -> (r: Self) ensures r == *self { unimplemented!() } }

}
#[derive(Default)]
pub struct SampledValues {
    pub entries: Vec<sampled_values::SampledValuesEntry>,
}
impl Clone for SampledValues { #[verifier::external_body] fn clone(&self) -> (r: Self) ensures r == *self { unimplemented!() } }

pub mod sampled_values {
    use super::*;
    #[derive(Default)]
pub struct SampledValuesEntry {
        pub value: F64,
        pub ids: Vec<u64>,
    }
impl Clone for SampledValuesEntry { #[verifier::external_body] fn clone(&self) -> (r: Self) ensures r == *self { unimplemented!() } }

}
#[derive(Default)]
pub struct SampledDecisionVariable {
    pub decision_variable: Option<DecisionVariable>,
    pub samples: Option<SampledValues>,
}
impl Clone for SampledDecisionVariable { #[verifier::external_body] fn clone(&self) -> (r: Self) ensures r == *self { unimplemented!() } }

#[derive(Default)]
pub struct SampledConstraint {
    pub id: u64,
    pub equality: i32,
    pub name: Option<String>,
    pub subscripts: Vec<i64>,
    pub parameters:
        HashMap<String, String>,
    pub description: Option<String>,
    pub removed_reason: Option<String>,
    pub removed_reason_parameters:
        HashMap<String, String>,
    pub evaluated_values: Option<SampledValues>,
    pub used_decision_variable_ids: Vec<u64>,
    pub feasible: HashMap<u64, bool>,
}
impl Clone for SampledConstraint { #[verifier::external_body] fn clone(&self) -> (r: Self) ensures r == *self { unimplemented!() } }

#[derive(Default)]
pub struct SampleSet {
    pub objectives: Option<SampledValues>,
    pub decision_variables: Vec<SampledDecisionVariable>,
    pub constraints: Vec<SampledConstraint>,
    pub feasible: HashMap<u64, bool>,
    pub feasible_unrelaxed: HashMap<u64, bool>,
    pub feasible_relaxed: HashMap<u64, bool>,
    pub sense: i32,
}
impl Clone for SampleSet { #[verifier::external_body] fn clone(&self) -> (r: Self) ensures r == *self { unimplemented!() } }


}

use v1::{Constraint, EvaluatedConstraint, Function, Instance, RemovedConstraint, Solution, State, Equality, Optimality, Relaxation, DecisionVariable};
#[derive(Clone, Copy)]
pub struct Bound { pub lower: F64, pub upper: F64 }
impl Bound {
    #[verifier::external_body] pub fn nearest_to_zero(&self) -> F64 { unimplemented!() }
    #[verifier::external_body] pub fn try_from_dv(v: &DecisionVariable) -> Result<Bound, VErr> { unimplemented!() }
}
impl Function {
    #[verifier::external_body] pub fn evaluate(&self, solution: &State) -> (r: Result<(F64, BTreeSet<u64>), VErr>)
        ensures r is Ok <==> fn_eval_ok(*self, *solution), r is Ok ==> r->Ok_0.0 == fn_eval_val(*self, *solution)
    { unimplemented!() }
    #[verifier::external_body] pub fn partial_evaluate(&mut self, state: &State) -> Result<BTreeSet<u64>, VErr> { unimplemented!() }
    #[verifier::external_body] pub fn zero() -> (r: Function) ensures r == zero_fn() { unimplemented!() }
}
impl EvaluatedConstraint {
    #[verifier::external_body] pub fn is_feasible(&self, atol: F64) -> (r: Result<bool, VErr>)
        ensures r is Ok <==> eq_ok(self.equality), r is Ok ==> r->Ok_0 == holds(self.equality, self.evaluated_value, atol)
    { unimplemented!() }
}
impl Instance {
    #[verifier::external_body] pub fn check_bound(&self, state: &State, atol: F64) -> Result<(), VErr> { unimplemented!() }
}
impl Function {
    #[verifier::external_body] pub fn used_decision_variable_ids(&self) -> BTreeSet<u64> { unimplemented!() }
}
#[verifier::external_body]
pub fn eval_dependencies(dependencies: &HashMap<u64, Function>, state: &mut State) -> Result<BTreeSet<u64>, VErr> { unimplemented!() }
#[verifier::external_body] pub fn optimality_unspecified() -> i32 { 0 }
#[verifier::external_body] pub fn relaxation_unspecified() -> i32 { 0 }

use v1::{Parameter, ParametricInstance};
impl core::ops::Add for Function { type Output = Function; #[verifier::external_body] fn add(self, rhs: Function) -> (r: Function) { unimplemented!() } }
impl core::ops::Mul for Function { type Output = Function; #[verifier::external_body] fn mul(self, rhs: Function) -> (r: Function) { unimplemented!() } }
impl<'a> core::ops::Mul<Function> for &'a Parameter { type Output = Function; #[verifier::external_body] fn mul(self, rhs: Function) -> (r: Function) { unimplemented!() } }
impl AddSpecImpl<Function> for Function { open spec fn obeys_add_spec() -> bool { false } open spec fn add_req(self, rhs: Function) -> bool { true } open spec fn add_spec(self, rhs: Function) -> Function { arbitrary() } }
impl MulSpecImpl<Function> for Function { open spec fn obeys_mul_spec() -> bool { false } open spec fn mul_req(self, rhs: Function) -> bool { true } open spec fn mul_spec(self, rhs: Function) -> Function { arbitrary() } }
impl<'a> MulSpecImpl<Function> for &'a Parameter { open spec fn obeys_mul_spec() -> bool { false } open spec fn mul_req(self, rhs: Function) -> bool { true } open spec fn mul_spec(self, rhs: Function) -> Function { arbitrary() } }
#[verifier::external_body] pub fn btreeset_next_id(s: &BTreeSet<u64>) -> (r: u64) { s.last().map(|id| id + 1).unwrap_or(0) }
#[verifier::external_body] pub fn enumerate_vec<T>(v: Vec<T>) -> (r: Vec<(usize, T)>) ensures r.len() == v.len(), forall|i: int| 0 <= i < r.len() ==> (#[trigger] r[i]).0 == i && r[i].1 == v[i] { v.into_iter().enumerate().collect() }
#[verifier::external_body] pub fn vstring(tag: u64) -> String { unimplemented!() }
#[verifier::external_body] pub fn u64_to_string(x: u64) -> String { x.to_string() }
#[verifier::external_body] pub fn hashmap1(k: String, v: String) -> (r: HashMap<String, String>) { let mut m = HashMap::new(); m.insert(k, v); m }
impl Instance { #[verifier::external_body] pub fn defined_ids(&self) -> BTreeSet<u64> { unimplemented!() } }

}
pub mod units {
use vstd::prelude::*;
use vstd::std_specs::ops::*;
use super::lib::*;
use super::lib::v1::{Parameter, ParametricInstance};
use std::collections::{HashSet, BTreeMap};
use super::lib::v1::{function::Function as FunctionEnum, linear::Term as LinearTerm, Constraint, Equality, EvaluatedConstraint, Function, Instance, Linear, Monomial, Optimality, Polynomial, Quadratic, Relaxation, RemovedConstraint, SampleSet, SampledConstraint, SampledDecisionVariable, SampledValues, Samples, Solution, State};
use std::collections::{HashMap, BTreeSet};
// lit_1em7 = 1e-7
// lit_1em6 = 1e-6
impl Constraint {
pub fn function(&self) -> (r: Function)
    ensures r == cfun(*self)
{
        match &self.function {
            Some(f) => f.clone(),
            
            None => Function::zero(),
        }
    }
}

impl Instance {
pub fn objective(&self) -> (r: Function)
    ensures r == (match self.objective { Some(f) => f, None => zero_fn() })
{
        match &self.objective {
            Some(f) => f.clone(),
            
            None => Function::zero(),
        }
    }
}

impl Constraint {
pub fn evaluate(&self, solution: &State) -> (r: Result<(EvaluatedConstraint, BTreeSet<u64>), VErr>)
    ensures r is Ok <==> fn_eval_ok(cfun(*self), *solution),
            r is Ok ==> ec_of(*self, *solution, r->Ok_0.0) && r->Ok_0.0.removed_reason is None && r->Ok_0.0.dual_variable is None,
{
        let (evaluated_value, used_ids) = self.function().evaluate(solution)?;
        let used_decision_variable_ids = btreeset_to_vec(&used_ids);
        Ok((
            EvaluatedConstraint {
                id: self.id,
                equality: self.equality,
                evaluated_value,
                used_decision_variable_ids,
                name: self.name.clone(),
                subscripts: self.subscripts.clone(),
                parameters: self.parameters.clone(),
                description: self.description.clone(),
                dual_variable: None,
                removed_reason: None,
                removed_reason_parameters: Default::default(),
            },
            used_ids,
        ))
    }
}

impl RemovedConstraint {
pub fn evaluate(&self, solution: &State) -> (r: Result<(EvaluatedConstraint, BTreeSet<u64>), VErr>)
    ensures r is Ok ==> self.constraint is Some && ec_of(self.constraint->Some_0, *solution, r->Ok_0.0)
                && r->Ok_0.0.removed_reason == Some(self.removed_reason) && r->Ok_0.0.removed_reason_parameters@ == self.removed_reason_parameters@,
            r is Ok <==> self.constraint is Some && fn_eval_ok(cfun(self.constraint->Some_0), *solution),
{
        let (mut out, used_ids) = self
            .constraint
            .as_ref()
            .vctx()?
            .evaluate(solution)?;
        out.removed_reason = Some(self.removed_reason.clone());
        out.removed_reason_parameters = self.removed_reason_parameters.clone();
        Ok((out, used_ids))
    }
}

impl Instance {
pub fn evaluate(&self, state: &State) -> (r: Result<(Solution, BTreeSet<u64>), VErr>)
    ensures r is Ok ==> ({
        let sol = r->Ok_0.0;
        let nc = self.constraints.len() as int;
        let nr = self.removed_constraints.len() as int;
        let atol = lit6();
        &&& sol.evaluated_constraints.len() == nc + nr
        &&& forall|i: int| 0 <= i < nc ==> ec_of(self.constraints[i], *state, #[trigger] sol.evaluated_constraints[i]) && sol.evaluated_constraints[i].removed_reason is None
        &&& forall|j: int| 0 <= j < nr ==> self.removed_constraints[j].constraint is Some
              && ec_of(self.removed_constraints[j].constraint->Some_0, *state, #[trigger] sol.evaluated_constraints[nc + j])
              && sol.evaluated_constraints[nc + j].removed_reason == Some(self.removed_constraints[j].removed_reason)
        &&& sol.feasible_relaxed == Some(active_hold(self.constraints@, nc, *state, atol))
        &&& sol.feasible == (active_hold(self.constraints@, nc, *state, atol) && removed_hold(self.removed_constraints@, nr, *state, atol))
        &&& sol.objective == fn_eval_val(match self.objective { Some(f) => f, None => zero_fn() }, *state)
    }),
{
        self.check_bound(state, lit_1em7())?;
        let mut used_ids = BTreeSet::new();
        let mut evaluated_constraints = Vec::new();
        let mut feasible_relaxed = true;
        for c in it_1: &self.constraints
            invariant
                evaluated_constraints.len() == it_1.index@,
                forall|i: int| 0 <= i < it_1.index@ ==> ec_of(self.constraints[i], *state, #[trigger] evaluated_constraints[i]) && evaluated_constraints[i].removed_reason is None,
                feasible_relaxed == active_hold(self.constraints@, it_1.index@ as int, *state, lit6()),
        {
            let (c, used_ids_) = c.evaluate(state)?;
            btreeset_extend(&mut used_ids, used_ids_);
            
            if feasible_relaxed {
                feasible_relaxed = c.is_feasible(lit_1em6())?;
            }
            evaluated_constraints.push(c);
        }
        let mut feasible = feasible_relaxed;
        let ghost nc = self.constraints.len() as int;
        for c in it_2: &self.removed_constraints
            invariant
                nc == self.constraints.len(),
                evaluated_constraints.len() == nc + it_2.index@,
                forall|i: int| 0 <= i < nc ==> ec_of(self.constraints[i], *state, #[trigger] evaluated_constraints[i]) && evaluated_constraints[i].removed_reason is None,
                forall|j: int| 0 <= j < it_2.index@ ==> self.removed_constraints[j].constraint is Some
                    && ec_of(self.removed_constraints[j].constraint->Some_0, *state, #[trigger] evaluated_constraints[nc + j])
                    && evaluated_constraints[nc + j].removed_reason == Some(self.removed_constraints[j].removed_reason),
                feasible_relaxed == active_hold(self.constraints@, nc, *state, lit6()),
                feasible == (feasible_relaxed && removed_hold(self.removed_constraints@, it_2.index@ as int, *state, lit6())),
        {
            let (c, used_ids_) = c.evaluate(state)?;
            btreeset_extend(&mut used_ids, used_ids_);
            if feasible {
                feasible = c.is_feasible(lit_1em6())?;
            }
            evaluated_constraints.push(c);
        }

        let (objective, used_ids_) = self.objective().evaluate(state)?;
        btreeset_extend(&mut used_ids, used_ids_);

        let mut state = state.clone();
        for v in &self.decision_variables {
            if let Some(value) = v.substituted_value {
                state.entries.insert(v.id, value);
            }
        }
        eval_dependencies(&self.decision_variable_dependency, &mut state)?;
        for v in &self.decision_variables {
            if !state.entries.contains_key(&v.id) {
                let bound: Bound = Bound::try_from_dv(v)?;
                state.entries.insert(v.id, bound.nearest_to_zero());
            }
        }
        Ok((
            Solution {
                decision_variables: self.decision_variables.clone(),
                state: Some(state),
                evaluated_constraints,
                feasible_relaxed: Some(feasible_relaxed),
                feasible,
                objective,
                optimality: optimality_unspecified(),
                relaxation: relaxation_unspecified(),
                ..Default::default()
            },
            used_ids,
        ))
    }
}

impl Instance {
pub fn penalty_method(self) -> Result<ParametricInstance, VErr> {
        let id_base = btreeset_next_id(&self.defined_ids());
        let mut objective = self.objective();
        let mut parameters = Vec::new();
        let mut removed_constraints = Vec::new();
        let __h1 = enumerate_vec(self.constraints);
        for __e in it_1: &__h1 {
            let (i, c) = (__e.0.clone(), __e.1.clone());
            let parameter = Parameter {
                id: id_base + i as u64,
                name: Some(vstring(1)),
                subscripts: vec![c.id as i64],
                ..Default::default()
            };
            let f = c.function();
            objective = objective + <&Parameter as core::ops::Mul<Function>>::mul(&parameter, f.clone()) * f;
            removed_constraints.push(RemovedConstraint {
                constraint: Some(c),
                removed_reason: vstring(2),
                removed_reason_parameters: hashmap1(vstring(3), u64_to_string(parameter.id)),
            });
            parameters.push(parameter);
        }
        Ok(ParametricInstance {
            description: self.description,
            objective: Some(objective),
            constraints: Vec::new(),
            decision_variables: self.decision_variables.clone(),
            sense: self.sense,
            parameters,
            constraint_hints: self.constraint_hints,
            removed_constraints,
            decision_variable_dependency: self.decision_variable_dependency,
        })
    }
}

}
} // verus!
fn main() {}
