use ommx::v1::{self, decision_variable::Kind, Equality, Function, Instance, Linear, DecisionVariable, Constraint, RemovedConstraint};
use ommx::Evaluate;
use std::collections::HashMap;

fn dv(id: u64, kind: Kind, bound: Option<(f64, f64)>) -> DecisionVariable {
    let mut d = DecisionVariable::default(); d.id = id; d.kind = kind as i32;
    d.bound = bound.map(|(l,u)| { let mut b = v1::Bound::default(); b.lower = l; b.upper = u; b }); d
}

fn inst(dvs: Vec<DecisionVariable>, obj: Function, cs: Vec<Constraint>) -> Instance {
    let mut i = Instance::default();
    i.decision_variables = dvs; i.objective = Some(obj); i.constraints = cs;
    i.sense = v1::instance::Sense::Minimize as i32; i
}
fn con(id: u64, eq: Equality, f: Function) -> Constraint {
    let mut c = Constraint::default(); c.id = id; c.equality = eq as i32; c.function = Some(f); c
}
fn main() {
    // D3: typed parse of unset bound
    let inst = self::inst(vec![dv(0, Kind::Continuous, None), dv(1, Kind::Binary, None)], Function::from(0.0), vec![]);
    let typed: ommx::Instance = inst.clone().try_into().unwrap();
    println!("D3 typed = {:?}", typed);

    // D2: convert on equality constraint
    let mut inst2 = self::inst(vec![dv(0, Kind::Integer, Some((0.0, 3.0)))], Function::from(0.0), vec![con(7, Equality::EqualToZero, Function::from(Linear::single_term(0, 1.0) + (-2.0)))]);
    let r = inst2.convert_inequality_to_equality_with_integer_slack(7, 100);
    println!("D2 result = {:?}, nvars after = {}, c = {:?}", r, inst2.decision_variables.len(), inst2.constraints[0].function);

    // D13: penalty method drops removed constraints
    let mut inst3 = inst2.clone();
    inst3.decision_variables.truncate(1);
    inst3.constraints.push(con(8, Equality::LessThanOrEqualToZero, Function::from(Linear::single_term(0, 1.0))));
    inst3.relax_constraint(8, "r".to_string(), HashMap::new()).unwrap();
    let n_before = inst3.constraints.len() + inst3.removed_constraints.len();
    let p = inst3.clone().penalty_method().unwrap();
    println!("D13 before total={} after active={} removed={}", n_before, p.constraints.len(), p.removed_constraints.len());
    let p = inst3.clone().uniform_penalty_method().unwrap();
    println!("D13u before total={} after active={} removed={}", n_before, p.constraints.len(), p.removed_constraints.len());

    // D5a/D5b MPS
    let mps = "NAME t\nROWS\n N COST\n L R1\nCOLUMNS\n    X COST 1 R1 1\n    Y COST 1 R1 1\n    Z COST 1 R1 1\n    W COST 1 R1 1\nRHS\n    RHS COST -5 R1 4\nBOUNDS\n UP BND X 0\n FR BND Y\n BV BND Z\n MI BND W\nENDATA\n";
    let m = ommx::mps::load_raw_reader(mps.as_bytes()).unwrap();
    for v in &m.decision_variables { println!("MPS var {:?} kind={} bound={:?}", v.name, v.kind, v.bound); }
    println!("MPS objective {:?}", m.objective);

    // D6 QPLIB
    let q = "t\nQCN\nminimize\n2\n2\n1 1 4.0\n2 1 3.0\n0.0\n0\n0.0\n1e30\n-10.0\n0\n10.0\n0\n0.0\n0\n0.0\n0\n0\n0\n";
    let path = std::env::temp_dir().join("probe.qplib");
    std::fs::write(&path, q).unwrap();
    match ommx::qplib::load_file(&path) {
        Ok(i) => println!("QPLIB objective {:?}", i.objective),
        Err(e) => println!("QPLIB err {e:?}"),
    }

    // D4 sample set with omitted irrelevant variable
    let inst4 = self::inst(vec![dv(0, Kind::Continuous, Some((-1.0, 5.0))), dv(1, Kind::Continuous, Some((2.0, 5.0)))], Function::from(Linear::single_term(0, 1.0)), vec![]);
    let st: v1::State = [(0u64, 1.0)].into_iter().collect();
    let (sol, _) = inst4.evaluate(&st).unwrap();
    println!("D4 single: state={:?}", sol.state);
    let mut samples = v1::Samples::default();
    samples.add_sample(3, st.clone());
    let (ss, _) = inst4.evaluate_samples(&samples).unwrap();
    println!("D4 sampleset.get = {:?}", ss.get(3).map(|s| s.state));
}
