use vstd::prelude::*;
use vstd::std_specs::ops::*;
verus! {

pub enum XR { NaN, NegInf, PosInf, Fin(real) }

#[verifier::external_body]
#[derive(Clone, Copy, Debug)]
pub struct F64 { v: f64 }
impl View for F64 { type V = XR; uninterp spec fn view(&self) -> XR; }

pub open spec fn xr_le(a: XR, b: XR) -> bool {
    match (a, b) {
        (XR::NaN, _) => false, (_, XR::NaN) => false,
        (XR::NegInf, _) => true, (_, XR::PosInf) => true,
        (XR::Fin(x), XR::Fin(y)) => x <= y,
        _ => false,
    }
}
pub open spec fn xr_lt(a: XR, b: XR) -> bool { xr_le(a, b) && a != b }
pub open spec fn sgn(x: real) -> int { if x > 0real { 1 } else if x < 0real { -1 } else { 0 } }
pub open spec fn xr_sign(a: XR) -> int {
    match a { XR::NaN => 0, XR::NegInf => -1, XR::PosInf => 1, XR::Fin(x) => sgn(x) }
}
pub open spec fn xr_mul(a: XR, b: XR) -> XR {
    match (a, b) {
        (XR::NaN, _) => XR::NaN, (_, XR::NaN) => XR::NaN,
        (XR::Fin(x), XR::Fin(y)) => XR::Fin(x * y),
        _ => { // at least one infinite
            let s = xr_sign(a) * xr_sign(b);
            if s == 0 { XR::NaN } else if s > 0 { XR::PosInf } else { XR::NegInf }
        }
    }
}
// IEEE minNum / maxNum as implemented by f64::min / f64::max: NaN is ignored
pub open spec fn xr_min(a: XR, b: XR) -> XR {
    if a is NaN { b } else if b is NaN { a } else if xr_le(a, b) { a } else { b }
}
pub open spec fn xr_max(a: XR, b: XR) -> XR {
    if a is NaN { b } else if b is NaN { a } else if xr_le(a, b) { b } else { a }
}

pub open spec fn xr_add(a: XR, b: XR) -> XR {
    match (a, b) {
        (XR::NaN, _) => XR::NaN, (_, XR::NaN) => XR::NaN,
        (XR::NegInf, XR::PosInf) => XR::NaN, (XR::PosInf, XR::NegInf) => XR::NaN,
        (XR::NegInf, _) => XR::NegInf, (_, XR::NegInf) => XR::NegInf,
        (XR::PosInf, _) => XR::PosInf, (_, XR::PosInf) => XR::PosInf,
        (XR::Fin(x), XR::Fin(y)) => XR::Fin(x + y),
    }
}
pub uninterp spec fn f_add(a: F64, b: F64) -> F64;
pub broadcast axiom fn ax_f_add(a: F64, b: F64)
    ensures (#[trigger] f_add(a, b))@ == xr_add(a@, b@);
impl AddSpecImpl<F64> for F64 {
    open spec fn obeys_add_spec() -> bool { true }
    open spec fn add_req(self, rhs: F64) -> bool { true }
    open spec fn add_spec(self, rhs: F64) -> F64 { f_add(self, rhs) }
}
impl core::ops::Add for F64 {
    type Output = F64;
    #[verifier::external_body]
    fn add(self, rhs: F64) -> (r: F64) { F64 { v: self.v + rhs.v } }
}
impl<'a, 'b> MulSpecImpl<&'b F64> for &'a F64 {
    open spec fn obeys_mul_spec() -> bool { true }
    open spec fn mul_req(self, rhs: &'b F64) -> bool { true }
    open spec fn mul_spec(self, rhs: &'b F64) -> F64 { f_mul(*self, *rhs) }
}
impl<'a, 'b> core::ops::Mul<&'b F64> for &'a F64 {
    type Output = F64;
    #[verifier::external_body]
    fn mul(self, rhs: &'b F64) -> (r: F64) { F64 { v: self.v * rhs.v } }
}
pub uninterp spec fn f_mul(a: F64, b: F64) -> F64;
pub broadcast axiom fn ax_f_mul(a: F64, b: F64)
    ensures (#[trigger] f_mul(a, b))@ == xr_mul(a@, b@);
impl MulSpecImpl<F64> for F64 {
    open spec fn obeys_mul_spec() -> bool { true }
    open spec fn mul_req(self, rhs: F64) -> bool { true }
    open spec fn mul_spec(self, rhs: F64) -> F64 { f_mul(self, rhs) }
}
impl core::ops::Mul for F64 {
    type Output = F64;
    #[verifier::external_body]
    fn mul(self, rhs: F64) -> (r: F64) { F64 { v: self.v * rhs.v } }
}
impl PartialEq for F64 {
    #[verifier::external_body]
    fn eq(&self, other: &F64) -> (r: bool)
        ensures r == (self@ == other@ && !(self@ is NaN))
    { self.v == other.v }
}
impl PartialOrd for F64 {
    #[verifier::external_body]
    fn partial_cmp(&self, other: &F64) -> (r: Option<core::cmp::Ordering>) { self.v.partial_cmp(&other.v) }
    #[verifier::external_body]
    fn le(&self, other: &F64) -> (r: bool) ensures r == xr_le(self@, other@) { self.v <= other.v }
    #[verifier::external_body]
    fn lt(&self, other: &F64) -> (r: bool) ensures r == xr_lt(self@, other@) { self.v < other.v }
    #[verifier::external_body]
    fn ge(&self, other: &F64) -> (r: bool) ensures r == xr_le(other@, self@) { self.v >= other.v }
    #[verifier::external_body]
    fn gt(&self, other: &F64) -> (r: bool) ensures r == xr_lt(other@, self@) { self.v > other.v }
}
impl F64 {
    #[verifier::external_body]
    pub fn min(self, o: F64) -> (r: F64) ensures r@ == xr_min(self@, o@) { F64 { v: self.v.min(o.v) } }
    #[verifier::external_body]
    pub fn max(self, o: F64) -> (r: F64) ensures r@ == xr_max(self@, o@) { F64 { v: self.v.max(o.v) } }
    #[verifier::external_body]
    pub fn is_nan(self) -> (r: bool) ensures r == (self@ is NaN) { self.v.is_nan() }
}
#[verifier::external_body]
pub fn lit_0_0() -> (r: F64) ensures r@ == XR::Fin(0real) { F64 { v: 0.0 } }
#[verifier::external_body]
pub fn f64_infinity() -> (r: F64) ensures r@ == XR::PosInf { F64 { v: f64::INFINITY } }
#[verifier::external_body]
pub fn f64_neg_infinity() -> (r: F64) ensures r@ == XR::NegInf { F64 { v: f64::NEG_INFINITY } }


use std::collections::{HashMap, BTreeSet};
pub struct VErr {}
#[derive(Clone, Copy)]
pub struct LinearTerm { pub id: u64, pub coefficient: F64 }
pub struct Linear { pub terms: Vec<LinearTerm>, pub constant: F64 }
pub struct State { pub entries: HashMap<u64, F64> }

pub open spec fn lin_val(terms: Seq<LinearTerm>, c: F64, m: Map<u64, F64>) -> F64
    decreases terms.len()
{
    if terms.len() == 0 { c } else {
        f_add(lin_val(terms.drop_last(), c, m), f_mul(terms.last().coefficient, m[terms.last().id]))
    }
}


// value of the first n terms at m (ids missing from m contribute nothing here; caller states totality separately)
pub open spec fn lin_sum(terms: Seq<LinearTerm>, n: int, m: Map<u64, F64>) -> real
    decreases n
{
    if n <= 0 { 0real } else {
        lin_sum(terms, n - 1, m) + rv(terms[n - 1].coefficient) * rv(m[terms[n - 1].id])
    }
}
pub open spec fn rv(x: F64) -> real { match x@ { XR::Fin(v) => v, _ => 0real } }
pub open spec fn all_fin(terms: Seq<LinearTerm>) -> bool { forall|i: int| 0 <= i < terms.len() ==> (#[trigger] terms[i]).coefficient@ is Fin }
pub open spec fn map_fin(m: Map<u64, F64>) -> bool { forall|k: u64| m.contains_key(k) ==> (#[trigger] m[k])@ is Fin }

impl Linear {
    fn partial_evaluate(&mut self, state: &State) -> (r: Result<BTreeSet<u64>, VErr>)
        requires all_fin(old(self).terms@), old(self).constant@ is Fin, map_fin(state.entries@)
        ensures
            r is Ok,
            // no fixed variable remains
            forall|i: int| 0 <= i < final(self).terms.len() ==> !state.entries@.contains_key(#[trigger] final(self).terms[i].id),
            all_fin(final(self).terms@), final(self).constant@ is Fin,
    {
        let mut used = BTreeSet::new();
        let mut i = 0;
        while i < self.terms.len()
            invariant
                0 <= i <= self.terms.len(),
                all_fin(self.terms@), self.constant@ is Fin, map_fin(state.entries@),
                forall|j: int| 0 <= j < i ==> !state.entries@.contains_key(#[trigger] self.terms[j].id),
            decreases self.terms.len() - i
        {
            let LinearTerm { id, coefficient } = self.terms[i];
            if let Some(value) = state.entries.get(&id) {
                self.constant = self.constant + coefficient * *value;
                self.terms.swap_remove(i);
                used.insert(id);
            } else {
                i += 1;
            }
        }
        Ok(used)
    }
}
} // verus!
fn main() {}
