use vstd::prelude::*;
use vstd::std_specs::ops::*;
verus! {

pub enum XR { NaN, NegInf, PosInf, Fin(real) }

#[verifier::external_body]
#[derive(Clone, Copy, Debug)]
pub struct F64 { v: f64 }
impl View for F64 { type V = XR; uninterp spec fn view(&self) -> XR; }

pub open spec fn xr_le(a: XR, b: XR) -> bool {
    match (a, b) {
        (XR::NaN, _) => false, (_, XR::NaN) => false,
        (XR::NegInf, _) => true, (_, XR::PosInf) => true,
        (XR::Fin(x), XR::Fin(y)) => x <= y,
        _ => false,
    }
}
pub open spec fn xr_lt(a: XR, b: XR) -> bool { xr_le(a, b) && a != b }
pub open spec fn sgn(x: real) -> int { if x > 0real { 1 } else if x < 0real { -1 } else { 0 } }
pub open spec fn xr_sign(a: XR) -> int {
    match a { XR::NaN => 0, XR::NegInf => -1, XR::PosInf => 1, XR::Fin(x) => sgn(x) }
}
pub open spec fn xr_mul(a: XR, b: XR) -> XR {
    match (a, b) {
        (XR::NaN, _) => XR::NaN, (_, XR::NaN) => XR::NaN,
        (XR::Fin(x), XR::Fin(y)) => XR::Fin(x * y),
        _ => { // at least one infinite
            let s = xr_sign(a) * xr_sign(b);
            if s == 0 { XR::NaN } else if s > 0 { XR::PosInf } else { XR::NegInf }
        }
    }
}
// IEEE minNum / maxNum as implemented by f64::min / f64::max: NaN is ignored
pub open spec fn xr_min(a: XR, b: XR) -> XR {
    if a is NaN { b } else if b is NaN { a } else if xr_le(a, b) { a } else { b }
}
pub open spec fn xr_max(a: XR, b: XR) -> XR {
    if a is NaN { b } else if b is NaN { a } else if xr_le(a, b) { b } else { a }
}

pub open spec fn xr_add(a: XR, b: XR) -> XR {
    match (a, b) {
        (XR::NaN, _) => XR::NaN, (_, XR::NaN) => XR::NaN,
        (XR::NegInf, XR::PosInf) => XR::NaN, (XR::PosInf, XR::NegInf) => XR::NaN,
        (XR::NegInf, _) => XR::NegInf, (_, XR::NegInf) => XR::NegInf,
        (XR::PosInf, _) => XR::PosInf, (_, XR::PosInf) => XR::PosInf,
        (XR::Fin(x), XR::Fin(y)) => XR::Fin(x + y),
    }
}
pub uninterp spec fn f_add(a: F64, b: F64) -> F64;
pub broadcast axiom fn ax_f_add(a: F64, b: F64)
    ensures (#[trigger] f_add(a, b))@ == xr_add(a@, b@);
impl AddSpecImpl<F64> for F64 {
    open spec fn obeys_add_spec() -> bool { true }
    open spec fn add_req(self, rhs: F64) -> bool { true }
    open spec fn add_spec(self, rhs: F64) -> F64 { f_add(self, rhs) }
}
impl core::ops::Add for F64 {
    type Output = F64;
    #[verifier::external_body]
    fn add(self, rhs: F64) -> (r: F64) { F64 { v: self.v + rhs.v } }
}
impl<'a, 'b> MulSpecImpl<&'b F64> for &'a F64 {
    open spec fn obeys_mul_spec() -> bool { true }
    open spec fn mul_req(self, rhs: &'b F64) -> bool { true }
    open spec fn mul_spec(self, rhs: &'b F64) -> F64 { f_mul(*self, *rhs) }
}
impl<'a, 'b> core::ops::Mul<&'b F64> for &'a F64 {
    type Output = F64;
    #[verifier::external_body]
    fn mul(self, rhs: &'b F64) -> (r: F64) { F64 { v: self.v * rhs.v } }
}
pub uninterp spec fn f_mul(a: F64, b: F64) -> F64;
pub broadcast axiom fn ax_f_mul(a: F64, b: F64)
    ensures (#[trigger] f_mul(a, b))@ == xr_mul(a@, b@);
impl MulSpecImpl<F64> for F64 {
    open spec fn obeys_mul_spec() -> bool { true }
    open spec fn mul_req(self, rhs: F64) -> bool { true }
    open spec fn mul_spec(self, rhs: F64) -> F64 { f_mul(self, rhs) }
}
impl core::ops::Mul for F64 {
    type Output = F64;
    #[verifier::external_body]
    fn mul(self, rhs: F64) -> (r: F64) { F64 { v: self.v * rhs.v } }
}
impl PartialEq for F64 {
    #[verifier::external_body]
    fn eq(&self, other: &F64) -> (r: bool)
        ensures r == (self@ == other@ && !(self@ is NaN))
    { self.v == other.v }
}
impl PartialOrd for F64 {
    #[verifier::external_body]
    fn partial_cmp(&self, other: &F64) -> (r: Option<core::cmp::Ordering>) { self.v.partial_cmp(&other.v) }
    #[verifier::external_body]
    fn le(&self, other: &F64) -> (r: bool) ensures r == xr_le(self@, other@) { self.v <= other.v }
    #[verifier::external_body]
    fn lt(&self, other: &F64) -> (r: bool) ensures r == xr_lt(self@, other@) { self.v < other.v }
    #[verifier::external_body]
    fn ge(&self, other: &F64) -> (r: bool) ensures r == xr_le(other@, self@) { self.v >= other.v }
    #[verifier::external_body]
    fn gt(&self, other: &F64) -> (r: bool) ensures r == xr_lt(other@, self@) { self.v > other.v }
}
impl F64 {
    #[verifier::external_body]
    pub fn min(self, o: F64) -> (r: F64) ensures r@ == xr_min(self@, o@) { F64 { v: self.v.min(o.v) } }
    #[verifier::external_body]
    pub fn max(self, o: F64) -> (r: F64) ensures r@ == xr_max(self@, o@) { F64 { v: self.v.max(o.v) } }
    #[verifier::external_body]
    pub fn is_nan(self) -> (r: bool) ensures r == (self@ is NaN) { self.v.is_nan() }
}
#[verifier::external_body]
pub fn lit_0_0() -> (r: F64) ensures r@ == XR::Fin(0real) { F64 { v: 0.0 } }
#[verifier::external_body]
pub fn f64_infinity() -> (r: F64) ensures r@ == XR::PosInf { F64 { v: f64::INFINITY } }
#[verifier::external_body]
pub fn f64_neg_infinity() -> (r: F64) ensures r@ == XR::NegInf { F64 { v: f64::NEG_INFINITY } }



use std::collections::{HashMap, BTreeSet};
pub struct VErr {}
pub trait VCtx<T> { fn vctx(self) -> Result<T, VErr>; }
impl<T> VCtx<T> for Option<T> {
    #[verifier::external_body]
    fn vctx(self) -> (r: Result<T, VErr>)
        ensures self is Some ==> r == Ok::<T, VErr>(self->Some_0), self is None ==> r is Err
    { match self { Some(x) => Ok(x), None => Err(VErr{}) } }
}
impl<'a, 'b> MulSpecImpl<&'b F64> for F64 {
    open spec fn obeys_mul_spec() -> bool { true }
    open spec fn mul_req(self, rhs: &'b F64) -> bool { true }
    open spec fn mul_spec(self, rhs: &'b F64) -> F64 { f_mul(self, *rhs) }
}
impl<'b> core::ops::Mul<&'b F64> for F64 {
    type Output = F64;
    #[verifier::external_body]
    fn mul(self, rhs: &'b F64) -> (r: F64) { F64 { v: self.v * rhs.v } }
}
#[derive(Clone)]
pub struct Quadratic { pub rows: Vec<u64>, pub columns: Vec<u64>, pub values: Vec<F64>, pub linear: Option<Linear> }
#[derive(Clone)]
pub enum FunctionEnum { Constant(F64), Linear(Linear), Quadratic(Quadratic), Polynomial(Polynomial) }
#[derive(Clone)]
pub struct Function { pub function: Option<FunctionEnum> }
impl Quadratic {
    #[verifier::external_body]
    fn evaluate(&self, solution: &State) -> Result<(F64, BTreeSet<u64>), VErr> { unimplemented!() }
    #[verifier::external_body]
    fn partial_evaluate(&mut self, state: &State) -> Result<BTreeSet<u64>, VErr> { unimplemented!() }
}
impl Polynomial {
    #[verifier::external_body]
    fn partial_evaluate(&mut self, state: &State) -> Result<BTreeSet<u64>, VErr> { unimplemented!() }
}
#[derive(Clone)]
#[derive(Copy)]
pub struct LinearTerm {
        pub id: u64,
        pub coefficient: F64,
    }
#[derive(Clone)]
pub struct Linear {
    pub terms: Vec<LinearTerm>,
    pub constant: F64,
}
#[derive(Clone)]
pub struct Monomial {
    pub ids: Vec<u64>,
    pub coefficient: F64,
}
#[derive(Clone)]
pub struct Polynomial {
    pub terms: Vec<Monomial>,
}
#[derive(Clone)]
pub struct State {
    pub entries: HashMap<u64, F64>,
}

impl Function {
fn evaluate(&self, solution: &State) -> Result<(F64, BTreeSet<u64>), VErr> {
        let out = match &self.function {
            Some(FunctionEnum::Constant(c)) => (*c, BTreeSet::new()),
            Some(FunctionEnum::Linear(linear)) => linear.evaluate(solution)?,
            Some(FunctionEnum::Quadratic(quadratic)) => quadratic.evaluate(solution)?,
            Some(FunctionEnum::Polynomial(poly)) => poly.evaluate(solution)?,
            None => (lit_0_0(), BTreeSet::new()),
        };
        Ok(out)
    }
fn partial_evaluate(&mut self, state: &State) -> Result<BTreeSet<u64>, VErr> {
        Ok(match &mut self.function {
            Some(FunctionEnum::Constant(_)) => BTreeSet::new(),
            Some(FunctionEnum::Linear(linear)) => linear.partial_evaluate(state)?,
            Some(FunctionEnum::Quadratic(quadratic)) => quadratic.partial_evaluate(state)?,
            Some(FunctionEnum::Polynomial(poly)) => poly.partial_evaluate(state)?,
            None => BTreeSet::new(),
        })
    }
}
impl Linear {
fn evaluate(&self, solution: &State) -> Result<(F64, BTreeSet<u64>), VErr> {
        let mut sum = self.constant;
        let mut used_ids = BTreeSet::new();
        for LinearTerm { id, coefficient } in &self.terms {
            used_ids.insert(*id);
            let s = solution
                .entries
                .get(id)
                .vctx()?;
            sum = sum + (coefficient * s);
        }
        Ok((sum, used_ids))
    }
fn partial_evaluate(&mut self, state: &State) -> Result<BTreeSet<u64>, VErr> {
        let mut used = BTreeSet::new();
        let mut i = 0;
        while i < self.terms.len() {
            let LinearTerm { id, coefficient } = self.terms[i];
            if let Some(value) = state.entries.get(&id) {
                self.constant = self.constant + (coefficient * value);
                self.terms.swap_remove(i);
                used.insert(id);
            } else {
                i = i + (1);
            }
        }
        Ok(used)
    }
}
impl Polynomial {
fn evaluate(&self, solution: &State) -> Result<(F64, BTreeSet<u64>), VErr> {
        let mut sum = lit_0_0();
        let mut used_ids = BTreeSet::new();
        for term in &self.terms {
            let mut v = term.coefficient;
            for id in &term.ids {
                used_ids.insert(*id);
                v = v * (solution
                    .entries
                    .get(id)
                    .vctx()?);
            }
            sum = sum + (v);
        }
        Ok((sum, used_ids))
    }
}

} // verus!
fn main() {}
