#![feature(allocator_api)]
use vstd::prelude::*;
use std::collections::{HashMap, HashSet, BTreeSet};
verus! {
pub struct VErr {}
pub assume_specification<T: Ord, A: core::alloc::Allocator + Clone>[ BTreeSet::<T, A>::is_subset ](s: &BTreeSet<T, A>, o: &BTreeSet<T, A>) -> (r: bool)
    ensures r == s@.subset_of(o@);
pub assume_specification<A: core::alloc::Allocator + Clone>[ BTreeSet::<u64, A>::last ](s: &BTreeSet<u64, A>) -> (r: Option<&u64>)
    ensures
        r is None <==> s@.len() == 0,
        r is Some ==> s@.contains(*r->Some_0) && forall|y: u64| s@.contains(y) ==> y <= *r->Some_0;
pub assume_specification<T: Ord, A: core::alloc::Allocator + Clone>[ BTreeSet::<T, A>::append ](s: &mut BTreeSet<T, A>, o: &mut BTreeSet<T, A>)
    ensures final(s)@ == old(s)@.union(old(o)@), final(o)@ == Set::<T>::empty();

pub struct DV { pub id: u64 }

fn t1(dvs: &Vec<DV>, used: &BTreeSet<u64>) -> (r: Result<(), VErr>)
{
    let mut defined_ids = BTreeSet::new();
    for dv in it: dvs {
        if !defined_ids.insert(dv.id) {
            return Err(VErr {});
        }
    }
    if !used.is_subset(&defined_ids) {
        return Err(VErr {});
    }
    Ok(())
}
fn t2(v: &mut Vec<u64>, i: usize) -> u64
    requires i < old(v).len()
{
    let x = v.remove(i);
    v.push(x);
    let y = v.swap_remove(0);
    y
}
fn t3(s: &BTreeSet<u64>) -> Option<u64> {
    match s.last() { Some(id) => if *id < u64::MAX { Some(*id + 1) } else { None }, None => None }
}
fn t4() {
    let mut m: HashSet<u64> = HashSet::new();
    let b = m.insert(3);
}
fn t5(a: &mut BTreeSet<u64>, b: &mut BTreeSet<u64>, c: BTreeSet<u64>) {
    a.append(b);
}
} // verus!
fn main() {}
