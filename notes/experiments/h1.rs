use vstd::prelude::*;
use std::collections::{HashMap, HashSet, BTreeMap};
verus! {
fn t1(m: &HashMap<u64, u64>) -> (r: u64) {
    let mut c: u64 = 0;
    for (k, v) in it: m.iter() {
        if *v > 3 { c = *k; }
    }
    c
}
fn t2(m: &HashMap<u64, u64>) -> HashMap<u64, u64> { m.clone() }
fn t5(m: &HashMap<u64, u64>) -> (r: Vec<(&u64, &u64)>) {
    m.iter().collect()
}
} // verus!
fn main() {}
