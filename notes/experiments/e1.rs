use vstd::prelude::*;
use vstd::std_specs::ops::*;
verus! {

pub enum XR { NaN, NegInf, PosInf, Fin(real) }

#[verifier::external_body]
#[derive(Clone, Copy, Debug)]
pub struct F64 { v: f64 }
impl View for F64 { type V = XR; uninterp spec fn view(&self) -> XR; }

pub open spec fn xr_le(a: XR, b: XR) -> bool {
    match (a, b) {
        (XR::NaN, _) => false, (_, XR::NaN) => false,
        (XR::NegInf, _) => true, (_, XR::PosInf) => true,
        (XR::Fin(x), XR::Fin(y)) => x <= y,
        _ => false,
    }
}
pub open spec fn xr_lt(a: XR, b: XR) -> bool { xr_le(a, b) && a != b }
pub open spec fn sgn(x: real) -> int { if x > 0real { 1 } else if x < 0real { -1 } else { 0 } }
pub open spec fn xr_sign(a: XR) -> int {
    match a { XR::NaN => 0, XR::NegInf => -1, XR::PosInf => 1, XR::Fin(x) => sgn(x) }
}
pub open spec fn xr_mul(a: XR, b: XR) -> XR {
    match (a, b) {
        (XR::NaN, _) => XR::NaN, (_, XR::NaN) => XR::NaN,
        (XR::Fin(x), XR::Fin(y)) => XR::Fin(x * y),
        _ => { // at least one infinite
            let s = xr_sign(a) * xr_sign(b);
            if s == 0 { XR::NaN } else if s > 0 { XR::PosInf } else { XR::NegInf }
        }
    }
}
// IEEE minNum / maxNum as implemented by f64::min / f64::max: NaN is ignored
pub open spec fn xr_min(a: XR, b: XR) -> XR {
    if a is NaN { b } else if b is NaN { a } else if xr_le(a, b) { a } else { b }
}
pub open spec fn xr_max(a: XR, b: XR) -> XR {
    if a is NaN { b } else if b is NaN { a } else if xr_le(a, b) { b } else { a }
}

pub open spec fn xr_add(a: XR, b: XR) -> XR {
    match (a, b) {
        (XR::NaN, _) => XR::NaN, (_, XR::NaN) => XR::NaN,
        (XR::NegInf, XR::PosInf) => XR::NaN, (XR::PosInf, XR::NegInf) => XR::NaN,
        (XR::NegInf, _) => XR::NegInf, (_, XR::NegInf) => XR::NegInf,
        (XR::PosInf, _) => XR::PosInf, (_, XR::PosInf) => XR::PosInf,
        (XR::Fin(x), XR::Fin(y)) => XR::Fin(x + y),
    }
}
pub uninterp spec fn f_add(a: F64, b: F64) -> F64;
pub broadcast axiom fn ax_f_add(a: F64, b: F64)
    ensures (#[trigger] f_add(a, b))@ == xr_add(a@, b@);
impl AddSpecImpl<F64> for F64 {
    open spec fn obeys_add_spec() -> bool { true }
    open spec fn add_req(self, rhs: F64) -> bool { true }
    open spec fn add_spec(self, rhs: F64) -> F64 { f_add(self, rhs) }
}
impl core::ops::Add for F64 {
    type Output = F64;
    #[verifier::external_body]
    fn add(self, rhs: F64) -> (r: F64) { F64 { v: self.v + rhs.v } }
}
impl<'a, 'b> MulSpecImpl<&'b F64> for &'a F64 {
    open spec fn obeys_mul_spec() -> bool { true }
    open spec fn mul_req(self, rhs: &'b F64) -> bool { true }
    open spec fn mul_spec(self, rhs: &'b F64) -> F64 { f_mul(*self, *rhs) }
}
impl<'a, 'b> core::ops::Mul<&'b F64> for &'a F64 {
    type Output = F64;
    #[verifier::external_body]
    fn mul(self, rhs: &'b F64) -> (r: F64) { F64 { v: self.v * rhs.v } }
}
pub uninterp spec fn f_mul(a: F64, b: F64) -> F64;
pub broadcast axiom fn ax_f_mul(a: F64, b: F64)
    ensures (#[trigger] f_mul(a, b))@ == xr_mul(a@, b@);
impl MulSpecImpl<F64> for F64 {
    open spec fn obeys_mul_spec() -> bool { true }
    open spec fn mul_req(self, rhs: F64) -> bool { true }
    open spec fn mul_spec(self, rhs: F64) -> F64 { f_mul(self, rhs) }
}
impl core::ops::Mul for F64 {
    type Output = F64;
    #[verifier::external_body]
    fn mul(self, rhs: F64) -> (r: F64) { F64 { v: self.v * rhs.v } }
}
impl PartialEq for F64 {
    #[verifier::external_body]
    fn eq(&self, other: &F64) -> (r: bool)
        ensures r == (self@ == other@ && !(self@ is NaN))
    { self.v == other.v }
}
impl PartialOrd for F64 {
    #[verifier::external_body]
    fn partial_cmp(&self, other: &F64) -> (r: Option<core::cmp::Ordering>) { self.v.partial_cmp(&other.v) }
    #[verifier::external_body]
    fn le(&self, other: &F64) -> (r: bool) ensures r == xr_le(self@, other@) { self.v <= other.v }
    #[verifier::external_body]
    fn lt(&self, other: &F64) -> (r: bool) ensures r == xr_lt(self@, other@) { self.v < other.v }
    #[verifier::external_body]
    fn ge(&self, other: &F64) -> (r: bool) ensures r == xr_le(other@, self@) { self.v >= other.v }
    #[verifier::external_body]
    fn gt(&self, other: &F64) -> (r: bool) ensures r == xr_lt(other@, self@) { self.v > other.v }
}
impl F64 {
    #[verifier::external_body]
    pub fn min(self, o: F64) -> (r: F64) ensures r@ == xr_min(self@, o@) { F64 { v: self.v.min(o.v) } }
    #[verifier::external_body]
    pub fn max(self, o: F64) -> (r: F64) ensures r@ == xr_max(self@, o@) { F64 { v: self.v.max(o.v) } }
    #[verifier::external_body]
    pub fn is_nan(self) -> (r: bool) ensures r == (self@ is NaN) { self.v.is_nan() }
}
#[verifier::external_body]
pub fn lit_0_0() -> (r: F64) ensures r@ == XR::Fin(0real) { F64 { v: 0.0 } }
#[verifier::external_body]
pub fn f64_infinity() -> (r: F64) ensures r@ == XR::PosInf { F64 { v: f64::INFINITY } }
#[verifier::external_body]
pub fn f64_neg_infinity() -> (r: F64) ensures r@ == XR::NegInf { F64 { v: f64::NEG_INFINITY } }


use std::collections::{HashMap, BTreeSet};
pub struct VErr {}
pub struct LinearTerm { pub id: u64, pub coefficient: F64 }
pub struct Linear { pub terms: Vec<LinearTerm>, pub constant: F64 }
pub struct State { pub entries: HashMap<u64, F64> }

pub open spec fn lin_val(terms: Seq<LinearTerm>, c: F64, m: Map<u64, F64>) -> F64
    decreases terms.len()
{
    if terms.len() == 0 { c } else {
        f_add(lin_val(terms.drop_last(), c, m), f_mul(terms.last().coefficient, m[terms.last().id]))
    }
}

impl Linear {
    fn evaluate(&self, solution: &State) -> (r: Result<(F64, BTreeSet<u64>), VErr>)
        ensures
            r is Ok <==> (forall|i: int| 0 <= i < self.terms.len() ==> solution.entries@.contains_key(self.terms[i].id)),
            r is Ok ==> r->Ok_0.0 == lin_val(self.terms@, self.constant, solution.entries@),
            r is Ok ==> (forall|k: u64| r->Ok_0.1@.contains(k) <==> exists|i: int| 0 <= i < self.terms.len() && self.terms[i].id == k),
    {
        let mut sum = self.constant;
        let mut used_ids = BTreeSet::new();
        for LinearTerm { id, coefficient } in it: &self.terms
            invariant
                sum == lin_val(self.terms@.take(it.index@ as int), self.constant, solution.entries@),
                forall|i: int| 0 <= i < it.index@ ==> solution.entries@.contains_key(self.terms[i].id),
                forall|k: u64| used_ids@.contains(k) <==> exists|i: int| 0 <= i < it.index@ && self.terms[i].id == k,
        {
            used_ids.insert(*id);
            let s = solution
                .entries
                .get(id)
                .ok_or(VErr {})?;
            sum = sum + coefficient * s;
        }
        Ok((sum, used_ids))
    }
}
} // verus!
fn main() {}
