#![allow(unused)]
extern crate alloc;
use ommx::v1::{EvaluatedConstraint, Equality};

#[cfg(kani)]
mod proofs {
    use super::*;

    #[kani::proof]
    fn is_feasible_contract() {
        let v: f64 = kani::any();
        let eq: i32 = kani::any();
        let mut c = EvaluatedConstraint::default();
        c.evaluated_value = v;
        c.equality = eq;
        let r = c.is_feasible(1e-6);
        if eq == 1 {
            assert!(r.is_ok());
            assert!(r.unwrap() == (v.abs() < 1e-6));
        } else if eq == 2 {
            assert!(r.is_ok());
            assert!(r.unwrap() == (v < 1e-6));
        } else {
            assert!(r.is_err());
        }
    }

    fn stub_bt() -> std::backtrace::Backtrace { std::backtrace::Backtrace::disabled() }
    fn stub_format(_: core::fmt::Arguments<'_>) -> String { String::new() }

    #[kani::proof]
    #[kani::stub(std::backtrace::Backtrace::capture, stub_bt)]
    #[kani::stub(alloc::fmt::format, stub_format)]
    fn is_feasible_contract_stubbed() {
        let v: f64 = kani::any();
        let eq: i32 = kani::any();
        let mut c = EvaluatedConstraint::default();
        c.evaluated_value = v;
        c.equality = eq;
        let r = c.is_feasible(1e-6);
        if eq == 1 {
            assert!(r.is_ok());
            assert!(r.unwrap() == (v.abs() < 1e-6));
        } else if eq == 2 {
            assert!(r.is_ok());
            assert!(r.unwrap() == (v < 1e-6));
        } else {
            assert!(r.is_err());
        }
    }

    #[kani::proof]
    fn deliberately_wrong() {
        let v: f64 = kani::any();
        let mut c = EvaluatedConstraint::default();
        c.evaluated_value = v;
        c.equality = 2;
        let r = c.is_feasible(1e-6).unwrap();
        assert!(r == (v <= 1e-6));
    }
}
