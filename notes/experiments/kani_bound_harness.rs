#[cfg(kani)]
mod kani_proofs {
    use super::*;

    fn any_bound() -> Bound {
        let lower: f64 = kani::any();
        let upper: f64 = kani::any();
        kani::assume(!lower.is_nan() && !upper.is_nan());
        kani::assume(lower != f64::INFINITY && upper != f64::NEG_INFINITY);
        kani::assume(lower <= upper);
        Bound { lower, upper }
    }

    #[kani::proof]
    fn check_new_iff() {
        let lower: f64 = kani::any();
        let upper: f64 = kani::any();
        let ok = !lower.is_nan() && !upper.is_nan() && lower != f64::INFINITY && upper != f64::NEG_INFINITY && lower <= upper;
        let r = Bound::new(lower, upper);
        assert!(r.is_ok() == ok);
    }

    #[kani::proof]
    fn check_nearest() {
        let a = any_bound();
        let z = a.nearest_to_zero();
        assert!(a.lower <= z && z <= a.upper);
        let x: f64 = kani::any();
        kani::assume(a.lower <= x && x <= a.upper);
        assert!(z.abs() <= x.abs());
    }

    #[kani::proof]
    fn check_as_integer() {
        let a = any_bound();
        let k: f64 = kani::any();
        kani::assume(k.is_finite() && k == k.floor());
        kani::assume(a.lower <= k && k <= a.upper);
        let b = a.as_integer_bound();
        assert!(b.lower <= k && k <= b.upper);
    }

    #[kani::proof]
    fn check_add_encloses_f() {
        let a = any_bound();
        let b = any_bound();
        let x: f64 = kani::any();
        let y: f64 = kani::any();
        kani::assume(x.is_finite() && y.is_finite());
        kani::assume(a.lower <= x && x <= a.upper);
        kani::assume(b.lower <= y && y <= b.upper);
        let l = a.lower + b.lower;
        let u = a.upper + b.upper;
        assert!(l <= x + y && x + y <= u);
    }
}
