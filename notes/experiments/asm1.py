import re
from px import *
lib=open('/scratch/x/ev_w2.rs').read()
i=lib.index('pub mod lib {'); j=lib.index('use std::collections::{HashMap, BTreeSet};\npub struct VErr')
prel=lib[i:j]   # F64 model
prelude_rest='''
impl Default for F64 { #[verifier::external_body] fn default() -> (r: F64) ensures r@ == XR::Fin(0real) { F64 { v: 0.0 } } }

use std::collections::{HashMap, HashSet, BTreeSet, BTreeMap};
pub struct VErr { pub tag: u64 }
impl VErr { pub fn new() -> VErr { VErr { tag: 0 } } }
pub trait VCtx<T> { fn vctx(self) -> Result<T, VErr>; }
impl<T> VCtx<T> for Option<T> {
    #[verifier::external_body]
    fn vctx(self) -> (r: Result<T, VErr>)
        ensures self is Some ==> r == Ok::<T, VErr>(self->Some_0), self is None ==> r is Err
    { match self { Some(x) => Ok(x), None => Err(VErr::new()) } }
}
impl<T, E> VCtx<T> for Result<T, E> {
    #[verifier::external_body]
    fn vctx(self) -> (r: Result<T, VErr>)
        ensures self is Ok ==> r == Ok::<T, VErr>(self->Ok_0), self is Err ==> r is Err
    { match self { Ok(x) => Ok(x), Err(_) => Err(VErr::new()) } }
}
#[verifier::external_body]
pub fn btreeset_append(a: &mut BTreeSet<u64>, b: &mut BTreeSet<u64>)
    ensures final(a)@ == old(a)@.union(old(b)@), final(b)@ == Set::<u64>::empty()
{ a.append(b) }
#[verifier::external_body]
pub fn btreeset_extend(a: &mut BTreeSet<u64>, b: BTreeSet<u64>)
    ensures final(a)@ == old(a)@.union(b@)
{ a.extend(b) }
#[verifier::external_body]
pub fn btreeset_to_vec(a: &BTreeSet<u64>) -> (r: Vec<u64>) ensures r@.to_set() == a@, r@.no_duplicates() { a.iter().cloned().collect() }
#[verifier::external_body]
pub fn lit_1em7() -> (r: F64) { F64 { v: 1e-7 } }
#[verifier::external_body]
pub fn lit_1em6() -> (r: F64) { F64 { v: 1e-6 } }
'''
v1='pub mod v1 {\nuse super::*;\n'+re.sub(r'(pub mod \w+ \{)', r'\1\n    use super::*;', v1_module())+'\n}\n'
stubs='''
use v1::{Constraint, EvaluatedConstraint, Function, Instance, RemovedConstraint, Solution, State, Equality, Optimality, Relaxation, DecisionVariable};
#[derive(Clone, Copy)]
pub struct Bound { pub lower: F64, pub upper: F64 }
impl Bound {
    #[verifier::external_body] pub fn nearest_to_zero(&self) -> F64 { unimplemented!() }
    #[verifier::external_body] pub fn try_from_dv(v: &DecisionVariable) -> Result<Bound, VErr> { unimplemented!() }
}
impl Function {
    #[verifier::external_body] pub fn evaluate(&self, solution: &State) -> Result<(F64, BTreeSet<u64>), VErr> { unimplemented!() }
    #[verifier::external_body] pub fn partial_evaluate(&mut self, state: &State) -> Result<BTreeSet<u64>, VErr> { unimplemented!() }
    #[verifier::external_body] pub fn zero() -> Function { unimplemented!() }
}
impl EvaluatedConstraint {
    #[verifier::external_body] pub fn is_feasible(&self, atol: F64) -> Result<bool, VErr> { unimplemented!() }
}
impl Instance {
    #[verifier::external_body] pub fn check_bound(&self, state: &State, atol: F64) -> Result<(), VErr> { unimplemented!() }
}
#[verifier::external_body]
pub fn eval_dependencies(dependencies: &HashMap<u64, Function>, state: &mut State) -> Result<BTreeSet<u64>, VErr> { unimplemented!() }
#[verifier::external_body] pub fn optimality_unspecified() -> i32 { 0 }
#[verifier::external_body] pub fn relaxation_unspecified() -> i32 { 0 }
'''
units=[]
def U(file, impl_rx, fn_rx, new_impl, subs=()):
    t=get_fn(file, impl_rx, fn_rx)
    t=rules(t)
    for a,b in subs:
        assert t.count(a)==1, (a, t.count(a))
        t=t.replace(a,b)
    units.append('impl %s {\npub %s\n}\n'%(new_impl,t))

U('v1_ext/constraint.rs', r'impl Constraint \{', r'pub fn function\(', 'Constraint',
  [('pub fn function(&self) -> Cow<Function>','fn function(&self) -> Function'),('Cow::Borrowed(f)','f.clone()'),('Cow::Owned(Function::zero())','Function::zero()')])
U('v1_ext/instance.rs', r'impl Instance \{', r'pub fn objective\(', 'Instance',
  [('pub fn objective(&self) -> Cow<Function>','fn objective(&self) -> Function'),('Cow::Borrowed(f)','f.clone()'),('Cow::Owned(Function::zero())','Function::zero()')])
U('evaluate.rs', r'impl Evaluate for Constraint \{', r'fn evaluate\(', 'Constraint',
  [('Result<(Self::Output, BTreeSet<u64>), VErr>','Result<(EvaluatedConstraint, BTreeSet<u64>), VErr>')])
U('evaluate.rs', r'impl Evaluate for RemovedConstraint \{', r'fn evaluate\(', 'RemovedConstraint',
  [('Result<(Self::Output, BTreeSet<u64>), VErr>','Result<(EvaluatedConstraint, BTreeSet<u64>), VErr>')])
U('evaluate.rs', r'impl Evaluate for Instance \{', r'fn evaluate\(', 'Instance',
  [('Result<(Self::Output, BTreeSet<u64>), VErr>','Result<(Solution, BTreeSet<u64>), VErr>'),
   ('''if let HashMapEntry::Vacant(e) = state.entries.entry(v.id) {
                let bound: crate::Bound = v.try_into()?;
                e.insert(bound.nearest_to_zero());
            }''','''if !state.entries.contains_key(&v.id) {
                let bound: Bound = Bound::try_from_dv(v)?;
                state.entries.insert(v.id, bound.nearest_to_zero());
            }'''),
   ('Optimality::Unspecified.into()','optimality_unspecified()'),('Relaxation::Unspecified.into()','relaxation_unspecified()'),
  ])
body='\n'.join(units)
body=body.replace('used_ids.extend(used_ids_);','btreeset_extend(&mut used_ids, used_ids_);')
body=body.replace('used_ids.iter().cloned().collect()','btreeset_to_vec(&used_ids)')
lits=''.join('// %s = %s\n'%(k,v) for k,v in LITS.items())
out='use vstd::prelude::*;\nuse vstd::std_specs::ops::*;\nverus! {\n'+prel+prelude_rest+v1+stubs+'\n}\npub mod units {\nuse vstd::prelude::*;\nuse super::lib::*;\nuse super::lib::v1::{function::Function as FunctionEnum, linear::Term as LinearTerm, Constraint, Equality, EvaluatedConstraint, Function, Instance, Linear, Monomial, Optimality, Polynomial, Quadratic, Relaxation, RemovedConstraint, SampleSet, SampledConstraint, SampledDecisionVariable, SampledValues, Samples, Solution, State};\nuse std::collections::{HashMap, BTreeSet};\n'+lits+body+'\n}\n} // verus!\nfn main() {}\n'
open('inst1.rs','w').write(out)
print(body[:200])
