import re, sys
src = open('/repo/rust/ommx/src/bound.rs').read()

def find_block(src, start_regex, from_pos=0):
    m = re.compile(start_regex).search(src, from_pos)
    assert m, start_regex
    i = src.index('{', m.end()-1) if src[m.end()-1] != '{' else m.end()-1
    depth = 0
    j = i
    while True:
        c = src[j]
        if c == '{': depth += 1
        elif c == '}':
            depth -= 1
            if depth == 0: break
        j += 1
    return m.start(), i, j  # start of header, open brace idx, close brace idx

def rules(body):
    # R2 float literals
    lits = {}
    def lit(m):
        t = m.group(0)
        name = 'lit_' + re.sub(r'[^0-9a-zA-Z]', '_', t.replace('-', 'm'))
        lits[name] = t
        return name + '()'
    body = re.sub(r'(?<![\w.])(\d+\.\d*(?:e-?\d+)?|\d+e-?\d+)(?:_?f64)?(?![\w])', lit, body)
    body = body.replace('f64::INFINITY', 'f64_infinity()').replace('f64::NEG_INFINITY', 'f64_neg_infinity()').replace('f64::EPSILON', 'f64_epsilon()')
    body = re.sub(r'\bf64\b', 'F64', body)
    body = re.sub(r'^(\s*)([\w\.\*]+) ([-+*/])= (.*);$', r'\1\2 = \2 \3 (\4);', body, flags=re.M)
    return body, lits

out = []
alllits = {}
for name, rx in [
  ('check', r'impl BoundError \{\s*fn check'),
]:
    pass
# whole impl blocks, crude
for rx in [r'impl BoundError \{', r'impl Add for Bound \{', r'impl Add<f64> for Bound \{', r'impl Mul for Bound \{', r'impl Mul<f64> for Bound \{', r'impl Zero for Bound \{', r'impl Bound \{']:
    s, i, j = find_block(src, rx)
    text = src[s:j+1]
    text, lits = rules(text)
    alllits.update(lits)
    out.append(text)
print('// LITS', alllits)
print('\n\n'.join(out))
