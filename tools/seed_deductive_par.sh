#!/bin/sh
# for every stored breaking seed: what does the DEDUCTIVE route alone say (N parallel workers in scratch worktrees; /repo and /verif/out untouched)
# usage: tools/seed_deductive_par.sh [N]      result: out/seed_deductive.out
N=${1:-6}
cd /verif
ls -d seeded/C* > /tmp/sdp_list.$$
rm -f /tmp/sdp_out.$$.*
w=0
while [ $w -lt $N ]; do
  (
    W=/tmp/sdp_w$w; git -C /repo worktree remove --force $W 2>/dev/null; git -C /repo worktree add -q --detach $W HEAD
    export VERIF_REPO=$W VERIF_OUT=/tmp/sdp_o$w VERIF_EVIDENCE=/tmp/sdp_e$w VERIF_NO_BOUNDED=1
    mkdir -p $VERIF_OUT
    i=0
    while read d; do
      i=$((i+1)); [ $(( (i - 1) % N )) -eq $w ] || continue
      p=$(basename $d | cut -c1-3)
      (cd $W && git checkout -q -- . && git apply /verif/$d/patch.diff) || { echo "$(basename $d): patch does not apply" >> /tmp/sdp_out.$$.$w; continue; }
      out=$(./bin/check $p 2>&1)
      v=$(echo "$out" | grep -E "^(VIOLATION|OK|UNDECIDED)" | tail -1 | cut -c1-60)
      why=$(echo "$out" | grep -vE "^(VIOLATION|OK|UNDECIDED|failed obligation|\s*$)" | head -1 | cut -c1-170)
      echo "$(basename $d): $v | $why" >> /tmp/sdp_out.$$.$w
    done < /tmp/sdp_list.$$
    git -C /repo worktree remove --force $W; rm -rf /tmp/sdp_o$w /tmp/sdp_e$w
  ) &
  w=$((w+1))
done
wait
git -C /repo worktree prune
sort /tmp/sdp_out.$$.* > out/seed_deductive.out
rm -f /tmp/sdp_out.$$.* /tmp/sdp_list.$$
echo "deductive VIOLATION: $(grep -c VIOLATION out/seed_deductive.out) of $(wc -l < out/seed_deductive.out)"
