#!/usr/bin/env python3
"""dev helper: assemble <prop> into /tmp/dev_out/<prop>.rs and verify only the functions whose name contains one of the given words
   usage: tools/dev.py C02 into_iter from [-v]"""
import sys, os, re, subprocess, importlib, json
os.environ.setdefault('VERIF_OUT', '/tmp/dev_out')
sys.path.insert(0, os.path.dirname(os.path.dirname(os.path.abspath(__file__))))
from vx import core
prop = sys.argv[1]
words = [a for a in sys.argv[2:] if not a.startswith('-')]
os.makedirs(core.OUT, exist_ok=True)
mod = importlib.import_module('vx.props.' + prop)
asm = core.Assembly(prop)
meta = mod.build(asm, 'quick')
text = asm.build()
path = os.path.join(core.OUT, prop + '.rs')
open(path, 'w').write(text)
lines = text.split('\n')
def run(extra):
    cmd = ['verus', path, '--triggers-mode', 'silent', '--multiple-errors', '20'] + extra
    r = subprocess.run(cmd, capture_output=True, text=True)
    out = r.stderr + r.stdout
    out = re.sub(r'warning: Outdated syntax.*?warning: 1 warning emitted\n', '', out, flags=re.S)
    print(out[-6000:] if '-v' in sys.argv else '\n'.join(l for l in out.split('\n') if l.strip())[-4000:])
if not words:
    run([])
for w in words:
    print('=====', w)
    run(['--verify-only-module', 'lib' if '-lib' in sys.argv else 'units', '--verify-function', w])
