#!/bin/sh
# run before every commit of /verif: regenerates the manifest, re-runs every check on the CLEAN tree (evidence files are rewritten by each run), validates the schemas
cd /verif
[ -n "$(git -C /repo status --short)" ] && { echo "/repo working tree is not clean"; exit 1; }
python3 tools/gen_manifest.py > /dev/null
for p in $(python3 -c "import json; print(' '.join(c['property_id'] for c in json.load(open('MANIFEST.json'))['checks']))"); do
  VERIF_WRITE_BASELINE=1 ./bin/check $p 2>&1 | grep -E "^(OK|VIOLATION|UNDECIDED|BOUNDED|KNOWN)" | cut -c1-110
done
python3-vt - <<'PY'
import json, jsonschema, glob
jsonschema.validate(json.load(open('/verif/MANIFEST.json')), json.load(open('/root/.vp/MANIFEST.schema.json')))
s = json.load(open('/root/.vp/EVIDENCE.schema.json'))
m = {c['property_id']: c for c in json.load(open('/verif/MANIFEST.json'))['checks']}
bad = []
for f in sorted(glob.glob('/verif/evidence/*.json')):
    e = json.load(open(f)); jsonschema.validate(e, s)
    if e['property_id'] not in m: bad.append((f, 'not claimed'))
    elif e['level'] != m[e['property_id']]['level_claimed']['category'] or e.get('violations'): bad.append((f, e['level'], e.get('violations')))
print('schemas ok; inconsistent evidence:', bad)
PY
