#!/bin/sh
# regression: every stored breaking seed must be reported as VIOLATION, every benign refactoring must exit without VIOLATION
cd /verif
for d in seeded/C*; do
  p=$(basename $d | cut -c1-3)
  r=$(tools/seedcheck.sh /verif/$d/patch.diff $p 2>&1 | grep -E "^(VIOLATION|OK|BOUNDED-STAND-IN|UNDECIDED)" | tail -1 | cut -c1-60)
  echo "$(basename $d): $r"
done
for d in seeded/benign/C*; do
  p=$(basename $d)
  r=$(tools/seedcheck.sh /verif/$d/patch.diff $p 2>&1 | grep -E "^(VIOLATION|OK|BOUNDED-STAND-IN)" | tail -1 | cut -c1-60)
  echo "benign/$p: $r"
done
