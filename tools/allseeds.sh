#!/bin/sh
# regression: every stored breaking seed must be reported as VIOLATION, every benign refactoring must exit without VIOLATION
# (third column: "ded" when a deductive obligation failed, "std" when the failing input of the bounded stand-in decided)
cd /verif
for d in seeded/C*; do
  p=$(basename $d | cut -c1-3)
  o=$(tools/seedcheck.sh /verif/$d/patch.diff $p 2>&1)
  r=$(echo "$o" | grep -E "^(VIOLATION|OK|BOUNDED-STAND-IN|UNDECIDED)" | tail -1 | cut -c1-60)
  k=std; echo "$o" | grep -q "^failed obligation" && k=ded
  echo "$(basename $d): $k $r"
done
for d in seeded/benign/C*; do
  p=$(basename $d)
  r=$(tools/seedcheck.sh /verif/$d/patch.diff $p 2>&1 | grep -E "^(VIOLATION|OK|BOUNDED-STAND-IN)" | tail -1 | cut -c1-60)
  echo "benign/$p: $r"
done
