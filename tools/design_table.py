#!/usr/bin/env python3
"""Refresh the numeric columns of DESIGN.md table 0.1 (units, items, assumed callee contracts, bounded cases) and the summary line above it from evidence/*.json."""
import json, re, glob
p = '/verif/DESIGN.md'; s = open(p).read()
tot_units = tot_items = 0; n = 0
for f in sorted(glob.glob('/verif/evidence/C*.json')):
    e = json.load(open(f)); c = e['coverage']; pid = e['property_id']
    if 'units' not in c: continue
    guards = c['vacuity_guards']['expected_to_fail']
    units = len(c['units']); items = c['discharged']
    # items = verification items of the units and lemmas (evidence.coverage.discharged; the vacuity guards are not counted in it)
    known = len(c.get('known_findings_hit', []))
    assumed = len(c.get('assumed_callee_contracts', [])); cases = c['bounded_stand_in'].get('evaluations')
    tot_units += units; tot_items += items; n += 1
    m = re.search(r'^\| %s \| (\d+) \| ([^|]+) \| (\d+) \| (\d+) \|' % pid, s, re.M)
    if not m: print('no row for', pid); continue
    it = f'{items}' + (f' (+{known} known finding)' if known else '')
    s = s[:m.start()] + f'| {pid} | {units} | {it} | {assumed} | {cases} |' + s[m.end():]
s = re.sub(r'16 checks, \d+ units', f'{n} checks, {tot_units} units', s)
s = re.sub(r'\), \d+ verification items discharged', f'), {tot_items} verification items discharged', s)
open(p, 'w').write(s)
print(n, tot_units, tot_items)
