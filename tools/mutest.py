#!/usr/bin/env python3
"""Self-test of the checks (DESIGN 4.3 T2): applies each listed edit to a scratch worktree of /repo and runs the check
against it (VERIF_REPO).  kind=break must give exit 1 (VIOLATION); kind=harmless must give exit 0.
usage: tools/mutest.py C01 [C16 ...]    (mutation lists: tools/mutations/<prop>.json)
"""
import json, os, subprocess, sys, shutil
V = os.path.dirname(os.path.dirname(os.path.abspath(__file__)))
WT = '/tmp/verif-mutest-wt'


def sh(*a, **k):
    return subprocess.run(a, capture_output=True, text=True, **k)


def main():
    props = sys.argv[1:]
    if os.path.exists(WT):
        sh('git', '-C', '/repo', 'worktree', 'remove', '--force', WT)
        shutil.rmtree(WT, ignore_errors=True)
    r = sh('git', '-C', '/repo', 'worktree', 'add', '--detach', '-f', WT, 'HEAD')
    if r.returncode:
        print(r.stderr); return 2
    bad = 0
    try:
        for p in props:
            muts = json.load(open(os.path.join(V, 'tools/mutations', p + '.json')))
            for m in muts:
                f = os.path.join(WT, 'rust/ommx/src', m['file'])
                s = open(f).read()
                if s.count(m['from']) != 1:
                    print('%s %-40s SKIP: source text occurs %d times' % (p, m['name'], s.count(m['from'])))
                    bad += 1
                    continue
                open(f, 'w').write(s.replace(m['from'], m['to']))
                env = dict(os.environ, VERIF_REPO=WT)
                r = sh(os.path.join(V, 'bin/check'), p, env=env, cwd=V)
                want = 1 if m.get('kind', 'break') == 'break' else 0
                ok = r.returncode == want
                first = [l for l in r.stdout.split('\n') if l.startswith(('failed obligation', 'UNDECIDED', 'OK'))][:1]
                print('%s %-40s %s rc=%d want=%d  %s' % (p, m['name'], 'ok  ' if ok else 'FAIL', r.returncode, want, (first or [''])[0][:150]))
                if not ok:
                    bad += 1
                sh('git', '-C', WT, 'checkout', '--', '.')
    finally:
        sh('git', '-C', '/repo', 'worktree', 'remove', '--force', WT)
        shutil.rmtree(WT, ignore_errors=True)
        # restore evidence for the unchanged tree
        for p in props:
            sh(os.path.join(V, 'bin/check'), p, cwd=V)
    return 1 if bad else 0

sys.exit(main())
