#!/bin/sh
# tools/seed_round.sh <round number>: prepares one round of independently seeded property-breaking changes (DESIGN 0.6):
# a scratch worktree /tmp/s<R>_<Cxx> of /repo HEAD per claimed property and a self-contained prompt /tmp/s<R>_prompt_<Cxx>.txt
# (property JSON + the list of changes already tried, from seeded/*/meta.json). Each prompt is handed to a fresh sub-agent
# that sees nothing of /verif. Afterwards: confirm in the worktree (lib tests pass, seed_demo fails), run
#   VERIF_REPO=/tmp/s<R>_<Cxx> VERIF_OUT=<scratch> VERIF_EVIDENCE=<scratch> ./bin/check <Cxx>
# store seeded/<Cxx>_r<R>/{patch.diff,seed_demo.rs,notes.md,meta.json}, remove the worktree.
R=${1:?round number}
cd /repo; for p in C01 C02 C03 C04 C05 C08 C09 C10 C11 C12 C13 C14 C15 C16 C17 C19; do git worktree add -q --detach /tmp/s${R}_$p HEAD 2>&1 | tail -1; done; git worktree list | wc -l; cd /verif
R=$R python3 - <<'EOF'
import json,glob,collections,os
R=os.environ['R']
props={json.loads(l)['id']:l.strip() for l in open('/verif/properties.jsonl')}
ch=collections.defaultdict(list)
for f in sorted(glob.glob('/verif/seeded/C*/meta.json')):
    d=json.load(open(f)); ch[d['property_broken']].append(d['change'])
for p in ch:
    prop=json.dumps(json.loads(props[p]),indent=1)
    t='''You are working on a scratch git worktree of the Rust repository Jij-Inc/ommx at /tmp/s%(R)s_%(p)s (the Rust SDK crate is rust/ommx; build and test with `cargo test -p ommx --offline --lib`, 102 tests). Work ONLY inside /tmp/s%(R)s_%(p)s; never read or write /repo or /verif. Everything is offline (no network). IMPORTANT: do NOT use `git stash` (the stash is shared between worktrees); to test the original code use `git diff -- rust/ommx/src > /tmp/s%(R)s_%(p)s/_my.diff; git checkout -- rust/ommx/src; <test>; git apply /tmp/s%(R)s_%(p)s/_my.diff`.

Below is a semantic property that ommx is supposed to satisfy. Your task is to play a maintainer who makes a REALISTIC mistake: change the library source (rust/ommx/src only, a small plausible edit such as an optimisation, a refactoring, a tidy-up, an off-by-one, a wrong comparison, a dropped case, a swapped operand) so that
  (1) the crate still compiles and ALL 102 existing tests still pass (`cargo test -p ommx --offline --lib`), and
  (2) the property below is now violated for some input that a user could realistically supply.
The change must look like something that could pass code review; do not add dead code, debug switches or input-specific special cases (no `if id == 42`). Many obvious mistakes were tried already (list below): look for something DIFFERENT - a clause of the property nobody attacked yet, a function on the call path that was never touched, an interaction between two features (e.g. removed constraints + parameters, dependent variables + bounds, unsorted ids + duplicates, unset optional fields), or a boundary value.

PROPERTY (JSON):
%(prop)s

Changes that were ALREADY tried in earlier rounds - pick a DIFFERENT function or a different kind of mistake:
%(tried)s

Deliver, inside the worktree:
  /tmp/s%(R)s_%(p)s/_seed/patch.diff   - `git diff` of rust/ommx/src only (the breaking change)
  /tmp/s%(R)s_%(p)s/rust/ommx/tests/seed_demo.rs - an integration test file (uses the public API of the `ommx` crate) with 1-4 #[test] functions that FAIL with your change and PASS on the original code; verify both with `cargo test -p ommx --offline --test seed_demo`
  /tmp/s%(R)s_%(p)s/_seed/seed_demo.rs - a copy of that test file
  /tmp/s%(R)s_%(p)s/_seed/notes.md     - what was changed, which clause of the property breaks, which inputs are needed, and the observed results with and without the change
Leave the worktree WITH the change applied and the test file in place. Reply with a five-line summary (function changed, kind of mistake, failing input, test results).''' % dict(R=R, p=p, prop=prop, tried='\n'.join('  - '+c for c in ch[p]))
    open('/tmp/s%s_prompt_%s.txt'%(R,p),'w').write(t)
print('ok')
EOF
