#!/bin/sh
# every benign refactoring of round 2 against every property that extracts code from the changed file: no VIOLATION is allowed
cd /verif
for d in ${1:-seeded/benign2}/*; do
  f=$(grep "^+++ b/" $d/patch.diff | head -1 | sed 's|+++ b/rust/ommx/src/||')
  case "$f" in
    evaluate.rs) ps="C01 C03 C04 C05 C10";;
    linear.rs) ps="C02 C12 C13 C03 C04 C11 C16 C08";;
    parametric_instance.rs) ps="C08 C10";;
    v1_ext/instance.rs) ps="C05 C08 C09 C11 C12 C13 C14 C15";;
    v1_ext/function.rs) ps="C02 C04 C13 C16 C11 C08";;
    sample_set.rs) ps="C15";;
    polynomial.rs) ps="C02 C04 C11 C16 C08";;
    quadratic.rs) ps="C02 C19 C04 C11 C16 C08";;
    sorted_ids.rs) ps="C02 C11 C04 C16";;
    mps/convert.rs) ps="C17";;
    qplib/convert.rs) ps="C19";;
    *) ps=$(basename $d);;
  esac
  for p in $ps; do
    r=$(tools/seedcheck.sh /verif/$d/patch.diff $p 2>&1 | grep -E "^(VIOLATION|OK|BOUNDED-STAND-IN|UNDECIDED|unstable)" | tr '\n' ' ' | cut -c1-150)
    echo "$(basename $d) [$f] $p: $r"
  done
done
