#!/bin/sh
# parallel regression: every stored breaking seed must be reported as VIOLATION, every benign refactoring must exit without VIOLATION.
# N workers, each with its own scratch worktree of /repo (created and removed here), its own output and evidence directory: /repo and /verif/out are not touched.
# usage: tools/allseeds_par.sh [N]      result: out/allseeds.out (sorted), one line per seed:  <seed>: ded|std <verdict>
N=${1:-4}
cd /verif
ls -d seeded/C* > /tmp/asp_list.$$
for d in seeded/benign/C*; do echo "$d"; done >> /tmp/asp_list.$$
for d in seeded/benign2/* seeded/benign3/* seeded/benign4/* seeded/benign5/* seeded/benign6/* seeded/benign7/*; do [ -d "$d" ] && echo "$d"; done >> /tmp/asp_list.$$
# ASP_ONLY=<regex>: only the seeds whose directory matches; ASP_OUT=<file>: result file (default out/allseeds.out)
if [ -n "$ASP_ONLY" ]; then grep -E "$ASP_ONLY" /tmp/asp_list.$$ > /tmp/asp_list.$$.f; mv /tmp/asp_list.$$.f /tmp/asp_list.$$; fi
rm -f /tmp/asp_out.$$.*
w=0
while [ $w -lt $N ]; do
  (
    W=/tmp/asp_w$w; git -C /repo worktree remove --force $W 2>/dev/null; git -C /repo worktree add -q --detach $W HEAD
    export VERIF_REPO=$W VERIF_OUT=/tmp/asp_o$w VERIF_EVIDENCE=/tmp/asp_e$w
    mkdir -p $VERIF_OUT
    i=0
    while read d; do
      i=$((i+1)); [ $(( (i - 1) % N )) -eq $w ] || continue
      case "$d" in
        seeded/benign/*) ps=$(basename $d);;
        seeded/benign[234567]/*)
          f=$(grep "^+++ b/" $d/patch.diff | head -1 | sed 's|+++ b/rust/ommx/src/||')
          case "$f" in
            evaluate.rs) ps="C01 C03 C04 C05 C10";; linear.rs) ps="C02 C12 C13 C03 C04 C11 C16 C08";; parametric_instance.rs) ps="C08 C10";;
            v1_ext/instance.rs) ps="C05 C08 C09 C11 C12 C13 C14 C15";; v1_ext/function.rs) ps="C02 C04 C13 C16 C11 C08";; sample_set.rs) ps="C15";;
            polynomial.rs) ps="C02 C04 C11 C16 C08";; quadratic.rs) ps="C02 C19 C04 C11 C16 C08";; sorted_ids.rs) ps="C02 C11 C04 C16";;
            mps/convert.rs) ps="C17";; qplib/convert.rs) ps="C19";; qplib/parser.rs) ps="C19";; *) ps=$(basename $d);;
          esac;;
        *) ps=$(basename $d | cut -c1-3);;
      esac
      (cd $W && git checkout -q -- . && git apply /verif/$d/patch.diff) || { echo "$d: patch does not apply" >> /tmp/asp_out.$$.$w; continue; }
      for p in $ps; do
        o=$(./bin/check $p 2>&1)
        r=$(echo "$o" | grep -E "^(VIOLATION|OK|BOUNDED-STAND-IN|UNDECIDED)" | tail -1 | cut -c1-70)
        k=std; echo "$o" | grep -q "^failed obligation" && k=ded
        echo "$d $p: $k $r" >> /tmp/asp_out.$$.$w
      done
    done < /tmp/asp_list.$$
    git -C /repo worktree remove --force $W; rm -rf /tmp/asp_o$w /tmp/asp_e$w
  ) &
  w=$((w+1))
done
wait
git -C /repo worktree prune
R=${ASP_OUT:-out/allseeds.out}
sort /tmp/asp_out.$$.* > $R
rm -f /tmp/asp_out.$$.* /tmp/asp_list.$$
echo "breaking seeds not reported as VIOLATION: $(grep '^seeded/C' $R | grep -vc VIOLATION)"
echo "benign refactorings reported as VIOLATION: $(grep '^seeded/benign' $R | grep -c VIOLATION)"
