#!/bin/sh
# usage: tools/seedcheck.sh <patch.diff> <Cxx> [<Cyy> ...] : applies the patch to /repo, runs the checks, reverts
P="$1"; shift
cd /repo || exit 2
git apply --check "$P" || { echo "patch does not apply"; exit 2; }
git apply "$P"
# evidence files are rewritten by every run: keep the clean-tree records
rm -rf /tmp/evidence.keep.$$; cp -r /verif/evidence /tmp/evidence.keep.$$
for c in "$@"; do
  (cd /verif && ./bin/check "$c" > /tmp/seedcheck.$$ 2>&1; grep -E "^(failed obligation|bounded stand-in)" /tmp/seedcheck.$$ | cut -c1-260 | head -3; grep -E "^(VIOLATION|OK|UNDECIDED|KNOWN|BOUNDED)" /tmp/seedcheck.$$ | cut -c1-260 | head -4; rm -f /tmp/seedcheck.$$)
done
git -C /repo checkout -- .
rm -rf /verif/evidence; mv /tmp/evidence.keep.$$ /verif/evidence
git -C /repo status --short | head -3
