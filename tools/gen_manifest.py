#!/usr/bin/env python3
"""Regenerates /verif/MANIFEST.json from the table below (single source of truth for claims)."""
import json, os
V = os.path.dirname(os.path.dirname(os.path.abspath(__file__)))

A1 = ('Assumes A1 (f64 arithmetic exact on the extended reals: no rounding, no overflow; IEEE rules for NaN/inf), the extraction rules of '
      'DESIGN 3.2 (vx/core.py), Verus+Z3, and the assumed std/dependency contracts listed in evidence.coverage.trusted_base. ')

BOUNDED = (' In addition every run executes a BOUNDED STAND-IN (./bin/rx bounded <id>, rx/src/bounded*.rs): executable forms of the contracts run on the real compiled code over a fixed finite input family - '
           'labelled bounded in the evidence (coverage.bounded_stand_in) and NEVER counted as proved. It supplies a failing input for a failed obligation, audits the callee contracts that the proof only assumes (rx/src/audit.rs: executable forms of those clauses on random messages), and is the only verdict '
           'when a changed tree leaves the verifier dialect (deductive route UNDECIDED: lost anchor / tool limit). A failed obligation is re-checked with three other solver seeds before it is reported, and a failure in a unit whose extracted text and context are identical to the baseline proved on the pinned tree (baseline/<id>.json) is reported as UNDECIDED (unstable proof), never as a violation.')

CLAIMS = {
    'C02': dict(
        text='Deductive proof (Verus) of the real text of the operator DISPATCH layer and the map-free leaves: Add for Function and Mul for Function (all 16 operand-kind pairs: result holds a kind able to carry every term, ids within the operands\' ids, value = sum / product of the operand polynomials minus an explicit epsilon-drop remainder defined per arm), '
             'Add<f64>/Mul<f64> for Linear, Add<f64>/Mul<f64> for Quadratic, Mul<f64> for Polynomial (exact, remainder 0, including the `* 0` short cut), Zero::zero/is_zero, the From conversions into Function, '
             'and the MACRO layer of macros.rs at the Function level (every instance of impl_add_from / impl_add_inverse / impl_mul_from / impl_mul_inverse / impl_sub_by_neg_add in v1_ext/function.rs and impl_neg_by_mul for Function, Linear, Quadratic, Polynomial: each expanded mechanically from the macro definition and proved to compute the sum / product / exact negation / difference of its operands through the dispatch contracts).',
        note=A1 + 'Linear + Linear, Linear::new, Linear * Linear, Quadratic + Linear, Quadratic + Quadratic, Quadratic::quad_iter, FromIterator<((u64,u64),f64)> for Quadratic and the typed macro instances f64 + Linear, f64 * Linear, Linear - f64, Linear + Quadratic, f64 + Quadratic, f64 * Quadratic are PROVED from the real text; the map-merge ones through the BTreeMap entry API (std contracts of entry/or_default/or_insert/remove/into_iter, prophecy-style): the result is exactly the specified merge (accumulate equal ids or id pairs, drop an entry when |sum| <= EPSILON; FromIterator: last value per pair wins), its remainder is defined as the difference to that merge. Precondition (observation): Quadratic operands are well-formed COO (rows, columns, values of equal length: quad_iter asserts it). Linear * Linear: the quadratic part is exactly the product of the two term lists (nested accumulation loop, nothing dropped), the linear part self*r + c*rhs - r*c is decided through the typed operator contracts, so its remainder is the remainder of that one Linear + Linear. Polynomial + Polynomial is proved as well (map keyed by id lists: model type VMap, rule R28; remainder defined as the difference to the specified merge), and so is the chain behind Polynomial * Polynomial: SortedIds::new / into_inner / Add for SortedIds (sorted form of a list, unique: lemma_sorted_perm_eq), the term iterator of &Polynomial (R22), FromIterator<(SortedIds, f64)> for Polynomial (epsilon-dropping collect = kacc of the items) and Mul for Polynomial - the two loops build the EXACT product under canonical keys (ghost map pmat; the weight of an id list is order-independent: lemma_mono_perm), the remainder is what the final collect drops (entries with |v| <= EPSILON). PARTIAL: the other BTreeMap-merge leaves (Quadratic*Linear, Quadratic*Quadratic, Polynomial + f64/Linear/Quadratic - which upcast through the term iterators of Linear / Quadratic - and the products with a Quadratic or Linear operand) are ASSUMED contracts with an uninterpreted epsilon-drop remainder; the typed macro instances of polynomial.rs (f64/Linear/Quadratic + Polynomial, f64/Linear/Quadratic * Polynomial) and Linear * Quadratic are proved to delegate to those leaves with the operands swapped. The DecisionVariable and Parameter operand families (parameter.rs, v1_ext/decision_variable.rs: From<&P> for Linear, every instance of impl_add_parameter / impl_mul_parameter / impl_add_decision_variable / impl_mul_decision_variable - both operand orders - and the eight hand-written impls between two variables/parameters) are PROVED to compute the typed operator applied to the linear function 1.0 * x_id (existentially named operand `var_lin`). The typed differences (impl_sub_by_neg_add! for Linear - Linear, Quadratic - Linear / f64 / Quadratic, Polynomial - Polynomial) are proved to be the sum with an exact negation of the right operand, and Neg for &DecisionVariable the exact negation of 1.0 * x_id. Still covered only by the bounded stand-in: the term iterators, the From<&P> conversions into Quadratic/Polynomial/Function, the Sum impls (iterator fold). ROUND 3 (this session): the term iterators of &Linear / &Quadratic / &Function (rule R31: iterator pipelines instantiated at Vec, one std helper contract per adapter), FromIterator<u64> / From<Option<u64>> for SortedIds, the upcasts From<f64|Linear|Quadratic> for Polynomial (the result lists a map: one monomial per key, sorted keys), and with them every remaining operator: Polynomial + f64/Linear/Quadratic and Polynomial * Linear/Quadratic (macro instances self OP Polynomial::from(rhs); the merge / the product map does not depend on the order in which the upcast lists its keys: lemma_kacc_listing_from, lemma_gmat_listing), Quadratic * Quadratic (the product loops over item lists) and Quadratic * Linear (exact upcast). NO operator contract of C02 is assumed any more; assumed are std helper contracts only (BTreeMap entry API, sort_unstable, R31 helpers).',
        technique='contract-based deductive verification (Verus) of mechanically extracted Rust functions; value contracts with explicit remainders; contracts generated from a table of operand kinds',
        ref='DESIGN 6 C02'),
    'C16': dict(
        text='Deductive proof (Verus, unbounded, all inputs) that every function of bound.rs extracted from the working tree satisfies its contract: '
             'type invariant wf preserved, no unwrap() panics, and the enclosure postconditions forall x in a, y in b: x+y in a+b, x*y in a*b, '
             'x^n in a.pow(n), c*x in c*a, integer rounding keeps every integer; and Function::evaluate_bound together with the term iterators it folds over (IntoIterator for &Function / &Linear / &Quadratic / &Polynomial: verified units of this check, rule R31): the returned interval contains the value of the function at every point of the box.',
        note=A1 + 'ASSUMED: SortedIds::chunks (itertools chunk_by) and is_empty (Deref to a slice). content_factor minimality is not covered.',
        technique='contract-based deductive verification (Verus) of mechanically extracted Rust functions; F64 ideal-arithmetic model',
        ref='DESIGN 6 C16'),
    'C01': dict(
        text='Deductive proof (Verus, unbounded: every term list, every id, every state) that Linear/Quadratic/Polynomial/Function::evaluate, extracted from the working tree, '
             'return Ok exactly when every occurring id has a value, the set of occurring ids, and - for finite coefficients and values - exactly the real value sum coef*prod(x) '
             'of the message as written on the wire (any order, repeats, zero coefficients, any triangle, absent linear part, unset oneof = 0).',
        note=A1 + 'Bit-exactness/rounding bounds are abstracted by A1.',
        technique='contract-based deductive verification (Verus) of mechanically extracted Rust functions; loop invariants over index-recursive value specs',
        ref='DESIGN 6 C01'),
    'C05': dict(
        text='Deductive proof (Verus) of the real text of Instance::evaluate, Constraint/RemovedConstraint::evaluate, EvaluatedConstraint::is_feasible, Instance::{get_bounds,check_bound,objective}, '
             'Constraint::function, TryFrom<&DecisionVariable> for Bound and their callees: objective value, every active then every removed constraint exactly once with copied metadata and removal reason, '
             'both feasibility flags by the 1e-6 rule, bound check with 1e-7, reported state = given + fixed + dependent + nearest-to-zero fill.',
        note=A1 + 'eval_dependencies is an assumed callee contract here (decided in C04). Thresholds are real-valued under A1.',
        technique='contract-based deductive verification (Verus) of mechanically extracted Rust functions',
        ref='DESIGN 6 C05'),
    'C14': dict(
        text='Deductive proof (Verus) of the real text of Instance::relax_constraint / restore_constraint: Err exactly when the id is not in the expected list and then *self is unchanged; '
             'otherwise the first match is removed (order of the rest kept) and pushed on the other list with exactly the given reason, every other field framed. Ghost lemmas: the multiset of all constraints '
             '(whole messages) and id-uniqueness are invariant over operation histories of ANY length (induction).',
        note='Assumes the extraction rules, Verus+Z3, Iterator::position / Option::is_some_and contracts (stated over the closure ensures, closure bodies are source text). No floating point involved in relax / restore themselves. The consequence for values and feasibility composes with the contract of Instance::evaluate (and Constraint / RemovedConstraint::evaluate, EvaluatedConstraint::is_feasible) proved in C05: the C14 check re-verifies those units on every run (`composes_with`) and reports a failed obligation of one of them as its own violation.',
        technique='contract-based deductive verification (Verus) of mechanically extracted Rust functions + inductive ghost lemma over histories',
        ref='DESIGN 6 C14'),
    'C04': dict(
        text='Deductive proof (Verus) of the real text of (a) Function::substitute: for an empty map the function itself, otherwise exactly the expression sum_t (c_t * prod_j factor_tj) built with the Function operators, each factor being the replacement of the j-th id of term t or a function whose value is that variable; '
             'ghost lemma lemma_substitute_value: its value at every assignment m equals the ORIGINAL evaluated at the state in which each replaced variable holds the value of its replacement at m (replacements may mention replaced variables: simultaneous substitution), minus an explicit accumulated epsilon-drop remainder of the operator calls; '
             '(b) Instance::substitute: objective, every active and every removed constraint and every existing dependency function are replaced by their substitution, every replacement is recorded in decision_variable_dependency, everything else framed; '
             '(c) eval_dependencies: it TERMINATES (decreases on the retry loop: no hang on cyclic or unsatisfiable dependencies), returns Ok only when every dependent variable received a value (no partial answer), leaves non-dependent given values untouched, and every dependent variable equals its defining function evaluated at the final state, through chains, for EVERY iteration order of the HashMap. Carried into Instance::evaluate in C05.',
        note=A1 + 'ASSUMED callee contracts of Function::substitute: Function+Function, Function*Function, Function*Linear (pure, value up to an explicit remainder: C02), the purity naming of the term list (name_terms: the list the term iterator yields is a function of the message; the term iterators themselves are verified units of this check (R31), and the former axioms are lemmas over their proved contract), Function::zero, From<f64>, Linear::single_term; of Instance::substitute: the HashMap::iter_mut loop over the dependency functions and HashMap::extend as helpers. Precondition (observation): replacement functions have their oneof set (the operators panic otherwise). The reported values of replaced variables compose with Instance::evaluate / eval_dependencies / check_bound as proved in C05: the C04 check re-verifies those units on every run (`composes_with`). The contract of Function::substitute pins the operator order of the code: a refactoring that reorders operator applications is outside the sidecar (lost anchor -> bounded stand-in).',
        technique='contract-based deductive verification (Verus) of mechanically extracted Rust functions; ghost trace (sequences of factor functions) as existential witness; termination by decreases; value lemmas by induction',
        ref='DESIGN 6 C04'),
    'C03': dict(
        text='Deductive proof (Verus) of the real text of Linear::partial_evaluate (swap_remove loop: value preserved at every extension of the fixed part, no fixed id left, returned set = fixed ids that occurred, termination), '
             'Quadratic::partial_evaluate (both loops incl. the three-array swap_remove loop with `continue`, BTreeMap entry API, Linear::new: Ok exactly for COO arrays of equal lengths, an error leaves the function untouched, no fixed id left, returned set exact, and at every assignment that agrees with the fixed part the value is the old value minus a DEFINED remainder - the entries with |v| <= EPSILON of the exact linear part, which Linear::new drops), '
             'Function::partial_evaluate (dispatch), Constraint/RemovedConstraint::partial_evaluate and Instance::partial_evaluate (fixed values recorded on exactly the right variables, objective / every active / every removed constraint '
             'partially evaluated in place, everything else framed). Ghost lemmas: commutation with evaluation on any split of a state, and two-step = one-step.',
        note=A1 + 'Polynomial::partial_evaluate is PROVED too (map keyed by id lists: model type VMap, rule R28; the result lists the specified merge ppe_map - coefficient times the product of the fixed values under the list of unfixed ids, monomials with |c| <= EPSILON skipped, entries with |sum| <= EPSILON dropped - and the remainder is defined as the difference to it). The shared relation says the returned set holds ONLY fixed variables that occurred (the statement\'s wording): Linear and Quadratic prove equality, Polynomial does not return the ids of a skipped monomial (./bin/rx demo O2) - an earlier version of the assumed polynomial contract demanded equality and was false on the real code. ASSUMED, not verified: the HashMap::values_mut loop over dependency functions, Linear::new as a callee (verified in C02 / C12; same contract text), and the std helpers of the two map-based units.',
        technique='contract-based deductive verification (Verus) of mechanically extracted Rust functions; ghost lemmas over the contracts',
        ref='DESIGN 6 C03'),
    'C12': dict(
        text='Deductive proof (Verus) of the real text of Instance::log_encode: Ok exactly for a known id (first match) of integer kind with a set, FINITE bound that contains an integer; an error leaves the instance unchanged; '
             'a single-integer range returns the constant and adds nothing; otherwise n >= 1 fresh binaries (ids max+1.., kind binary, bound [0,1], subscripts [id,i], name tag) with 2^(n-1) <= U < 2^n, constant ceil(l) and coefficients 2^i / U-2^(n-1)+1. '
             'Ghost lemma (all widths, no bound): the values over all bit assignments are exactly the integers ceil(l)..floor(u) (complete-sequence argument with explicit witness).',
        note=A1 + 'A2: x.log2().ceil() as usize is the exact ceil(log2 x) (saturating for +inf). Linear::new is verified in the same run (its result is the specified BTreeMap merge of the pairs; for strictly increasing ids and non-dropped coefficients that merge is the input: lemma_acc_incr / lemma_sorted_listing_unique). Instance::defined_ids is a verified unit of this check too (it returns exactly the set of declared ids). ASSUMED: std contracts of the BTreeMap entry API (prophecy-style) and of into_iter (ascending order). Precondition (observation): ids < 2^64-65536. Defect D1 (infinite bound => OOM loop) was found by this check and repaired in /repo (fix: a11f38c).',
        technique='contract-based deductive verification (Verus) of mechanically extracted Rust functions + inductive ghost lemmas (complete-sequence criterion over reals with an integrality predicate)',
        ref='DESIGN 6 C12'),
    'C15': dict(
        text='Deductive proof (Verus) of the real text of Instance::as_minimization_problem (minimise: untouched; maximise: sense := minimise, objective := negation, everything else framed; result always a minimisation problem - hence idempotent; ranking lemma) '
             'and of the whole best-feasible selection: SampleSet::feasible_relaxed / feasible_unrelaxed (legacy-field fallbacks for messages of older releases), feasible_ids / feasible_unrelaxed_ids (exactly the ids whose table entry is true), SampledValues::get (value of the first entry listing the id), SampleSet::objectives, '
             'SampleSet::best (the result is a candidate; for finite objectives no candidate beats it under the sense of the set; it fails exactly when there is no candidate, for a well-formed set) and best_feasible_id / best_feasible_unrelaxed_id (the returned sample is feasible in the requested sense, unbeaten among the feasible ones, Err exactly when none is feasible).',
        note=A1 + 'ASSUMED callee contracts: Neg for Function (value negated up to an explicit epsilon-drop remainder); std helpers Iterator::min_by (stated over the comparator closure: a least element for every transitive relation the comparator refines), f64::total_cmp (agrees with the strict order on finite values; nothing claimed for equal reals such as -0.0/+0.0), HashMap::iter().filter_map().collect(), BTreeSet::into_iter. NOT covered: best_feasible / best_feasible_unrelaxed assemble the Solution through SampleSet::get (C06 territory): bounded stand-in only. An unspecified sense code is treated like maximise by the code (observation). Precondition (observation): a present objective has its oneof set.',
        technique='contract-based deductive verification (Verus) of mechanically extracted Rust functions; closure contracts by ordinal; higher-order helper contract for min_by',
        ref='DESIGN 6 C15'),
    'C09': dict(
        text='Deductive proof (Verus) of the real text of Instance::penalty_method and uniform_penalty_method: no active constraint remains; the removed list is the old removed list followed by every active constraint, unchanged; '
             'fresh weight parameters with ids (max defined id)+1+i (never a decision-variable id, pairwise distinct), tagged with the constraint id; variables/sense/dependencies/hints/description carried; '
             'the objective is exactly the expression f + sum_i (p_i*g_i)*g_i (uniform: f + p*(sum g_i*g_i)) built with the Function operators. Ghost lemmas evaluate that expression to f(x) + sum w_i g_i(x)^2 (uniform: f + w sum g_i^2) minus an explicit epsilon-drop remainder.',
        note=A1 + 'ASSUMED callee contracts (dispatch layer decided in C02): Function+Function, Function*Function, &Parameter*Function are pure and compute sum/product up to an explicit (uninterpreted) epsilon-drop remainder. Preconditions (observations): no id overflow, oneofs set. Defect D13 (already-removed constraints dropped) was found by this check and repaired in /repo (fix: 7b9b39a).',
        technique='contract-based deductive verification (Verus) of mechanically extracted Rust functions + ghost lemmas evaluating the constructed expression',
        ref='DESIGN 6 C09'),
    'C10': dict(
        text='Deductive proof (Verus) of the real text of ParametricInstance::with_parameters (a declared parameter without a value => Err; otherwise objective and every active constraint are the C03 partial evaluation of the parametric functions by the parameter values - hence equal value at every (x,p) - '
             'with decision variables, sense, constraint ids/order, removed constraints, hints, dependencies, description unchanged and the supplied values recorded), of From<Instance> for ParametricInstance, From<State>/<Parameters>, and of the partial_evaluate callees; round-trip lemma for the empty assignment.',
        note=A1 + 'Quadratic::partial_evaluate and Polynomial::partial_evaluate are verified here too (same units as C03). ASSUMED callee contract: Linear::new (verified in C02 / C12). The logging-only loop over missing parameters is dropped by a declared substitution.',
        technique='contract-based deductive verification (Verus) of mechanically extracted Rust functions',
        ref='DESIGN 6 C10'),
    'C13': dict(
        text='Deductive proof (Verus) of the real text of Instance::convert_inequality_to_equality_with_integer_slack and add_integer_slack_to_inequality: every rejection (unknown id, not an inequality, no function, undefined or non-integer used variable, slack range above the limit) leaves the instance unchanged; '
             'when the interval enclosure is <= 0 the constraint is moved to the removed list unchanged; otherwise exactly one fresh integer slack variable with bound [0,-L] (resp. [0,S]) tagged with the constraint id is appended and the constraint (same position, id, metadata) becomes f + s/a = 0 (resp. f + b*s <= 0 with b = -lower/S reported), L being a lower bound of a*f on the integer points of the box. '
             'Ghost lemmas: f(x) <= 0 <=> exists integer s in [0,-L]: f(x)+s/a = 0, and the projection statement for b*s.',
        note=A1 + 'ASSUMED callee contracts: content_factor (a*f integer-valued on integer points), evaluate_bound (enclosure), get_kinds, used ids, f64*Function and Function+Linear (pure, value up to an explicit remainder); A3: as_integer_bound returns (it panics on an interval without an integer). Preconditions (observations): no id overflow, oneofs set. Defect D2 (equality constraints accepted) found by this check and repaired in /repo.',
        technique='contract-based deductive verification (Verus) of mechanically extracted Rust functions (prophecy-style &mut contracts) + arithmetic ghost lemmas',
        ref='DESIGN 6 C13'),
    'C08': dict(
        text='Deductive proof (Verus) of the real text of (A) Instance::validate / validate_decision_variable_ids / validate_constraint_ids / used_decision_variable_ids / defined_ids and ParametricInstance::validate* - each succeeds EXACTLY when the ids are (jointly) unique and every used id is defined - '
             'and (B) the whole typed parse layer: trait Parse with its default method parse_as, the Parse impls for Kind, Equality, Sense, Function, Bound, DecisionVariable, Vec<DecisionVariable>, Constraint, RemovedConstraint, Vec<Constraint>, Vec<RemovedConstraint>, OneHot, Sos1, ConstraintHints, as_variable_id/as_constraint_id and TryFrom<v1::Instance>: '
             'each parse succeeds exactly when its rule holds, the typed value carries the same content (unset bound = unbounded, [0,1] for binaries), and every error is the violated rule with the (message, field) path appended innermost-first.',
        note='Assumes the extraction rules (string literals become opaque tags; `?` error conversions made explicit), Verus+Z3, the key models of the id newtypes, std helper contracts (iterator collect, HashMap iteration order universally quantified), (the used-id collects of Quadratic / Polynomial are verified units too: R31 with cloned / flat_map). KNOWN FINDING D7 (listed in known_findings.txt): TryFrom<v1::Instance> does not check that used variable ids are defined. Defect D3 (unset bound became [0,0]) was found by this check and repaired in /repo.',
        technique='contract-based deductive verification (Verus) of mechanically extracted Rust functions; trait-level ghost contract functions (p_ok/p_out/p_err) with a generically verified default method',
        ref='DESIGN 6 C08'),
    'C11': dict(
        text='Deductive proof (Verus) of the real text of Instance::as_pubo_format / as_qubo_format, From<SortedIds> for BinaryIds and TryFrom<Vec<u64>> / TryFrom<SortedIds> for BinaryIdPair (Ok exactly for one or two distinct ids, canonical pair over exactly those ids; slice-pattern match by rule R29): export is refused exactly when active constraints remain, the sense is maximisation or a used variable is not a defined binary (PUBO: Err iff one of these); '
             'keys are canonical (sets of ids / pairs i<=j over ids of the objective, x^k = x) and no stored coefficient is numerically zero; the exported dictionary / matrix+offset IS the specified accumulation of the objective\'s term list (skip |c| <= EPSILON, key, accumulate, remove an entry whose sum became numerically zero) - loop invariant over the BTreeMap - '
             'and ghost lemmas lemma_pubo_value / lemma_qubo_value (induction, map-sum spec): sum_S c_S prod_{i in S} x_i = objective(x) and sum_{i<=j} Q_ij x_i x_j + offset = objective(x) for EVERY 0/1 assignment, minus an explicit remainder (the skipped and removed numerically-zero parts).',
        note=A1 + 'The term iterators of &Function / &Linear / &Quadratic / &Polynomial and used_decision_variable_ids of every kind are verified units of this check (R31); lemma_pubo_objective / lemma_qubo_objective state the identity in terms of the objective itself. ASSUMED: the purity naming of the term list (fterms: the list yielded for a message is a function of the message), binary_ids (prost getter kind()), slice::sort_unstable + Vec::dedup as one std helper, the accumulate idiom entry().and_modify().or_insert() as a helper, BinaryIds determined by its set (ax_binary_ids_ext). The size of the remainder is not bounded here.',
        technique='contract-based deductive verification (Verus) of mechanically extracted Rust functions; accumulation specified as a function of the term list; map-sum spec with permutation lemma; inductive value lemmas',
        ref='DESIGN 6 C11'),
    'C17': dict(
        text='Deductive proof (Verus) of the real text of the table->instance conversion kernels of mps/convert.rs: get_dvar_bound (default [0,+inf); LO -> [l,+inf); UP -> [0,u], only a NEGATIVE UP opens the lower bound; both -> [l,u]), get_dvar_kind, convert_sense, '
             'convert_inequality (E/L rows a.x-b, G rows -a.x+b, equality kinds, every coefficient) and convert_objective (terms of the objective row, constant = -RHS of the FILE\'s objective row).',
        note=A1 + 'ONLY the conversion kernels are PROVED. The line-oriented text layer (sections, markers, bound keywords FR/MI/PL/BV/LI/UI, RANGES, numbers, OBJSENSE, gzip, error reporting) and convert_dvars/convert_constraints (hash iteration, id recovery) are outside the verifier dialect (str/fmt) and covered only by the bounded stand-in (151 rendered MPS texts through the public loader). RowName/ColumnName are opaque names with an assumed key model. Defects D5a, D5c (deductive) and D5b, D5d (bounded stand-in, text layer) found and repaired in /repo.',
        technique='contract-based deductive verification (Verus) of mechanically extracted Rust functions',
        ref='DESIGN 6 C17'),
    'C19': dict(
        text='Deductive proof (Verus) of the real text of the conversion kernels of qplib/convert.rs: to_quadratic (one COO entry per listed lower-triangle entry, each exactly once in any HashMap order, off-diagonal v, DIAGONAL v/2, so that the entries sum to 1/2 x\'Qx), wrap_function (value = quadratic entries + linear terms + constant for every assignment), to_linear (one term per listed entry, each exactly once in any HashMap order, constant 0), convert_dvars (one variable per declared variable in file order: id = position, declared kind, the file\'s bounds, the file\'s name), convert_sense, and convert_objective (the function wrap_function builds from the COO form of Q0, the constant and the linear part - for a zero default b0 one term per listed entry, otherwise one term per variable in index order carrying the listed value or the default, with exactly the zero coefficients removed; observation: a listed index >= num_vars panics).',
        note=A1 + 'ONLY these kernels are PROVED. The section-by-section text reader, convert_constraints (two-sided split) and apply_infinity_threshold are covered only by the bounded stand-in (every problem-type code, 240 rendered QPLIB texts through the public loader). ASSUMED: Quadratic::is_zero. Defect D6 (diagonal not halved) found by this check and repaired in /repo.',
        technique='contract-based deductive verification (Verus) of mechanically extracted Rust functions',
        ref='DESIGN 6 C19'),
}
NA = {
    'C06': 'evaluate_samples is built from FnMut closures capturing &mut state and iterator adapters over HashMap<OrderedFloat,..>: rejected by Verus, far beyond measured Kani limits; leaf lookups alone do not decide the property (DESIGN 6 C06)',
    'C07': 'behaviour lives in prost derive expansion and external .proto/_pb2 artefacts; a static artefact comparison, not a pre/postcondition on a function of /repo (DESIGN 6 C07)',
    'C18': 'round trip through float formatting and str::parse: no str/fmt reasoning in Verus or CBMC (DESIGN 6 C18)',
    'C20': 'only external crates (ocipkg, tar, sha2, serde_json) and the file system; no algorithm of /repo to put under contract (DESIGN 6 C20)',
}
PENDING = 'check not built yet in this session (planned, see DESIGN 6); not claimed until its command exists'

def main():
    props = [json.loads(l)['id'] for l in open(os.path.join(V, 'properties.jsonl'))]
    checks = []
    for pid in props:
        if pid in CLAIMS:
            c = CLAIMS[pid]
            checks.append(dict(
                property_id=pid,
                quick_cmd='./bin/check %s --tier quick' % pid,
                thorough_cmd='./bin/check %s --tier thorough' % pid,
                evidence_file='/verif/evidence/%s.json' % pid,
                replay_cmd_template='./bin/check %s --replay {path}' % pid,
                engine='vx',
                level_claimed=dict(category='proof', text=c['text'], design_ref=c['ref']),
                level_note=c['note'] + BOUNDED,
                technique=c['technique']))
    na = []
    for pid in props:
        if pid not in CLAIMS:
            na.append(dict(property_id=pid, reason=NA.get(pid, PENDING)))
    m = dict(
        version=1,
        setup_cmd='./bin/setup',
        hooks=dict(guard='none', enable='no hooks: engine V reads source text; no cfg flag or feature is added to /repo',
                   baseline_off_cmd='cd /repo && cargo test --workspace --no-fail-fast --offline',
                   source_commits=[], add_only=True),
        engines=[dict(name='vx', path='/verif/vx', serves_properties=sorted(CLAIMS),
                      kind_free_text='Verus (deductive, SMT) on functions extracted mechanically from /repo on every run, with contracts from vx/props/*.py'),
                 dict(name='rx', path='/verif/rx', serves_properties=sorted(CLAIMS),
                      kind_free_text='bounded stand-in and replay crate: links the real ommx crate of the working tree (path dependency), runs executable contracts over fixed finite input families (./bin/rx bounded <id>) and the defect demonstrations (./bin/rx demo <Dn>); never counted as proof')],
        checks=checks,
        notes='exit 0 held / exit 1 VIOLATION / exit 2 undecided (broken check, tool failure with no bounded family): never an alarm. When the deductive route is undecided on a changed tree (lost anchor, tool limit, rlimit) the verdict is that of the bounded stand-in, printed as BOUNDED-STAND-IN ... (exit 0, evidence level exploration) or VIOLATION with the failing input. Known findings in /verif/known_findings.txt.',
        not_applicable=na)
    json.dump(m, open(os.path.join(V, 'MANIFEST.json'), 'w'), indent=1)
    print('claimed:', sorted(CLAIMS), 'not_applicable:', [x['property_id'] for x in na])

main()
