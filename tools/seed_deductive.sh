#!/bin/sh
# for every stored seed: what does the DEDUCTIVE route alone say (scratch worktree $1, default /tmp/clean; /repo untouched)
W=${1:-/tmp/clean}
cd /verif
for d in seeded/C*; do
  p=$(basename $d | cut -c1-3)
  (cd $W && git checkout -q -- . && git apply /verif/$d/patch.diff) || { echo "$(basename $d): patch does not apply"; continue; }
  out=$(VERIF_REPO=$W VERIF_NO_BOUNDED=1 VERIF_OUT=/tmp/sd_out VERIF_EVIDENCE=/tmp/sd_evidence ./bin/check $p 2>&1)
  v=$(echo "$out" | grep -E "^(VIOLATION|OK|UNDECIDED)" | tail -1 | cut -c1-70)
  why=$(echo "$out" | grep -vE "^(VIOLATION|OK|UNDECIDED|failed obligation)" | head -1 | cut -c1-150)
  n=$(echo "$out" | grep -c "^failed obligation")
  echo "$(basename $d): $v | failed=$n | $why"
done
(cd $W && git checkout -q -- .)
