#!/usr/bin/env python3
"""dev helper: run check; if the file was assembled, print compact verifier errors (non-guard)"""
import sys, os, subprocess, re
sys.path.insert(0, os.path.dirname(os.path.dirname(os.path.abspath(__file__))))
from vx import core
prop = sys.argv[1]
r = subprocess.run([os.path.join(core.VERIF, 'bin/check'), prop], capture_output=True, text=True)
print(r.stdout[:1500])
if 'lost-anchor' in r.stdout or r.returncode == 0:
    sys.exit(0)
path = os.path.join(core.OUT, prop + '.rs')
res = core.run_verus(path)
lines = open(path).read().split('\n')
for e in res['errors']:
    if 'assert(false)' in (lines[e['line'] - 1] if e['line'] else ''):
        continue
    print('--- %s @%d: %s' % (e['msg'], e['line'], lines[e['line'] - 1].strip()[:220] if e['line'] else ''))
    if e['line'] == 0 or '-v' in sys.argv:
        print(e['text'][:1500])
    for sp in e['spans'][1:4]:
        if sp != e['line']:
            print('        span %d: %s' % (sp, lines[sp - 1].strip()[:160]))
if 'panicked' in res['stderr']:
    print(res['stderr'][-1500:])
