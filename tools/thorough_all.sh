#!/bin/sh
# runs every thorough command on the current tree (keeps the committed quick-tier evidence records)
cd /verif
rm -rf /tmp/evidence.keep.t; cp -r evidence /tmp/evidence.keep.t
for c in C01 C02 C03 C04 C05 C08 C09 C10 C11 C12 C13 C14 C15 C16 C17 C19; do
  s=$(date +%s); ./bin/check $c --tier thorough > /tmp/thorough.$c.out 2>&1; rc=$?
  echo "$c rc=$rc $(( $(date +%s) - s ))s $(grep -E '^(OK|VIOLATION|UNDECIDED|BOUNDED)' /tmp/thorough.$c.out | tail -1 | cut -c1-160)"
done
rm -rf evidence; mv /tmp/evidence.keep.t evidence
