"""Units of rust/ommx/src/sample_set.rs"""
from vx.core import Unit

S = 'sample_set.rs'


def feasible_relaxed():
    return Unit('SampleSet::feasible_relaxed', S, 'feasible_relaxed', impl=r'impl SampleSet \{', wrap=('impl SampleSet {', '}'),
                sig='pub fn feasible_relaxed(&self) -> &HashMap<u64, bool>',
                header='''pub fn feasible_relaxed(&self) -> (r: &HashMap<u64, bool>)
    // messages written by older releases have no `feasible_relaxed` table: `feasible` then means feasibility for the remaining constraints
    ensures *r == (if self.feasible_relaxed@.len() == 0 { self.feasible } else { self.feasible_relaxed }),''')


def feasible_unrelaxed():
    return Unit('SampleSet::feasible_unrelaxed', S, 'feasible_unrelaxed', impl=r'impl SampleSet \{', wrap=('impl SampleSet {', '}'),
                sig='pub fn feasible_unrelaxed(&self) -> &HashMap<u64, bool>',
                header='''pub fn feasible_unrelaxed(&self) -> (r: &HashMap<u64, bool>)
    ensures *r == (if self.feasible_relaxed@.len() == 0 { self.feasible_unrelaxed } else { self.feasible }),''',
                subs=[('#[allow(deprecated)]', '')])


def sampled_values_get():
    return Unit('SampledValues::get', S, 'get', impl=r'impl SampledValues \{', wrap=('impl SampledValues {', '}'),
                sig='pub fn get(&self, sample_id: u64) -> Option<f64>',
                header='''pub fn get(&self, sample_id: u64) -> (r: Option<F64>)
    ensures
        r is None <==> forall|i: int| 0 <= i < self.entries.len() ==> !(#[trigger] self.entries[i]).ids@.contains(sample_id),
        r is Some ==> exists|i: int| 0 <= i < self.entries.len() && (#[trigger] self.entries[i]).ids@.contains(sample_id) && r->Some_0 == self.entries[i].value
            && forall|j: int| 0 <= j < i ==> !(#[trigger] self.entries[j]).ids@.contains(sample_id),''',
                loops=[dict(kind='for', it='it_1', inv='''invariant
                forall|j: int| 0 <= j < it_1.index@ ==> !(#[trigger] self.entries[j]).ids@.contains(sample_id),''')])


# ---------------------------------------------------------------- C15: best feasible
BEST_SPEC = '''// objective value recorded for a sample: the value of the first entry that lists the id (SampledValues::get)
pub open spec fn sv_get(e: Seq<v1::sampled_values::SampledValuesEntry>, k: int, id: u64) -> Option<F64> decreases e.len() - k {
    if k < 0 || k >= e.len() { None } else if e[k].ids@.contains(id) { Some(e[k].value) } else { sv_get(e, k + 1, id) }
}
pub open spec fn obj_of(s: v1::SampleSet, id: u64) -> Option<F64> { match s.objectives { Some(o) => sv_get(o.entries@, 0, id), None => None } }
pub open spec fn objs_fin(s: v1::SampleSet, ids: Seq<u64>) -> bool { forall|j: int| 0 <= j < ids.len() ==> obj_of(s, #[trigger] ids[j]) is Some && obj_of(s, ids[j])->Some_0@ is Fin }
// `a` is at least as good as `b` under the sense code (1 minimise, 2 maximise)
// feasibility tables (messages written by older releases have no `feasible_relaxed` table)
pub open spec fn rel_table(s: v1::SampleSet) -> Map<u64, bool> { if s.feasible_relaxed@.len() == 0 { s.feasible@ } else { s.feasible_relaxed@ } }
pub open spec fn unrel_table(s: v1::SampleSet) -> Map<u64, bool> { if s.feasible_relaxed@.len() == 0 { s.feasible_unrelaxed@ } else { s.feasible@ } }
pub open spec fn at_least_as_good(sense: i32, a: F64, b: F64) -> bool { if sense == 1 { rv(a) <= rv(b) } else { rv(a) >= rv(b) } }
'''


def sampled_values_get_exact():
    return Unit('SampledValues::get', S, 'get', impl=r'impl SampledValues \{', wrap=('impl SampledValues {', '}'),
                sig='pub fn get(&self, sample_id: u64) -> Option<f64>',
                header='''pub fn get(&self, sample_id: u64) -> (r: Option<F64>)
    ensures
        r == sv_get(self.entries@, 0, sample_id),
        r is None <==> forall|i: int| 0 <= i < self.entries.len() ==> !(#[trigger] self.entries[i]).ids@.contains(sample_id),
        r is Some ==> exists|i: int| 0 <= i < self.entries.len() && (#[trigger] self.entries[i]).ids@.contains(sample_id) && r->Some_0 == self.entries[i].value
            && forall|j: int| 0 <= j < i ==> !(#[trigger] self.entries[j]).ids@.contains(sample_id),''',
                loops=[dict(kind='for', it='it_1', inv='''invariant
                forall|j: int| 0 <= j < it_1.index@ ==> !(#[trigger] self.entries[j]).ids@.contains(sample_id),
                sv_get(self.entries@, 0, sample_id) == sv_get(self.entries@, it_1.index@ as int, sample_id),''')])


def sample_set_objectives():
    return Unit('SampleSet::objectives', S, 'objectives', impl=r'impl SampleSet \{', wrap=('impl SampleSet {', '}'),
                sig='fn objectives(&self) -> Result<&SampledValues>',
                header='''pub fn objectives(&self) -> (r: Result<&SampledValues, VErr>)
    ensures self.objectives is Some ==> r is Ok && *r->Ok_0 == self.objectives->Some_0, self.objectives is None ==> r is Err,''')


def sample_set_best():
    return Unit('SampleSet::best', S, 'best', impl=r'impl SampleSet \{', wrap=('impl SampleSet {', '}'),
                sig='fn best(&self, ids: impl Iterator<Item = u64>) -> Result<u64>',
                header='''pub fn best(&self, ids: Vec<u64>) -> (r: Result<u64, VErr>)
    ensures
        // fails exactly when there is no candidate - provided the set is well formed: objectives present for every candidate, a specified sense
        (self.objectives is Some && (forall|j: int| 0 <= j < ids.len() ==> obj_of(*self, #[trigger] ids[j]) is Some) && 0 <= self.sense < 3) ==> (r is Err <==> ids.len() == 0),
        // the returned sample is one of the candidates ...
        r is Ok ==> ids@.contains(r->Ok_0) && obj_of(*self, r->Ok_0) is Some,
        // ... and no candidate beats it under the sense of the set (an unspecified sense code is treated like maximise by the code)
        r is Ok && objs_fin(*self, ids@) ==> forall|j: int| 0 <= j < ids.len() ==> at_least_as_good(self.sense, obj_of(*self, r->Ok_0)->Some_0, obj_of(*self, #[trigger] ids[j])->Some_0),''',
                rsubs=[(r'ids\.map\(', 'try_map_collect(ids, ', 1),
                       (r'\)\.collect::<Result<Vec<_>, VErr>>\(\)\?;', ')?;', 1),
                       (r'Sense::try_from\(self\.sense\)', 'sense_try_from_i32(self.sense)', 1),
                       (r'(?s)obj\.iter\(\)\.min_by\((.*)\)\.map\((\|\(id, _\)\| \*id)\)\.vctx\(\)', r'opt_map(iter_min_by(&obj, \1), \2).vctx()', 1)],
                closures=[dict(params='id', typed='id: u64', ret='Result<(u64, F64), VErr>',
                               ensures='(ret is Ok <==> sv_get(objectives.entries@, 0, id) is Some), ret is Ok ==> ret->Ok_0.0 == id && Some(ret->Ok_0.1) == sv_get(objectives.entries@, 0, id)'),
                          dict(params='(_, a), (_, b)', typed='x: &(u64, F64), y: &(u64, F64)', ret='core::cmp::Ordering', bind='let a = &x.1; let b = &y.1;',
                               ensures='x.1@ is Fin && y.1@ is Fin ==> (!at_least_as_good(if sense == Sense::Minimize { 1i32 } else { 2i32 }, x.1, y.1) ==> ret is Greater) && (ret is Greater ==> at_least_as_good(if sense == Sense::Minimize { 1i32 } else { 2i32 }, y.1, x.1))'),
                          dict(params='(id, _)', typed='p: &(u64, F64)', ret='u64', bind='let id = &p.0;', ensures='ret == p.0')],
                proofs=[(('before', r'opt_map\(iter_min_by'), '''proof {
            let sc: i32 = if sense == Sense::Minimize { 1i32 } else { 2i32 };
            let leq0 = |x: (u64, F64), y: (u64, F64)| at_least_as_good(sc, x.1, y.1);
            assert(transitive_on(leq0, obj@));
            assert(*objectives == self.objectives->Some_0);
            assert forall|j: int| 0 <= j < obj.len() implies (#[trigger] obj[j]).0 == ids[j] && Some(obj[j].1) == obj_of(*self, ids[j]) by { }
            if objs_fin(*self, ids@) { assert forall|j: int| 0 <= j < obj.len() implies (#[trigger] obj[j]).1@ is Fin by { assert(obj_of(*self, ids[j]) is Some); } }
            assert(self.sense == 1 <==> sense == Sense::Minimize);
        }
        ''')])


def _ids(name, table):
    return Unit('SampleSet::%s' % name, S, name, impl=r'impl SampleSet \{', wrap=('impl SampleSet {', '}'),
                sig='pub fn %s(&self) -> BTreeSet<u64>' % name,
                header='''pub fn %s(&self) -> (r: BTreeSet<u64>)
    ensures forall|u: u64| #[trigger] r@.contains(u) <==> (%s.contains_key(u) && %s[u]),''' % (name, table, table),
                rsubs=[(r'self\.%s\(\)\.iter\(\)\.filter_map\(' % ('feasible_relaxed' if name == 'feasible_ids' else 'feasible_unrelaxed'), 'hashmap_filter_map_set(self.%s(), ' % ('feasible_relaxed' if name == 'feasible_ids' else 'feasible_unrelaxed'), 1),
                       (r'\)\.collect\(\)', ')', 1),
                       (r'is_feasible\.then_some\(\*id\)', 'bool_then_some(*is_feasible, *id)', 1)],
                closures=[dict(params='(id, is_feasible)', typed='e: (&u64, &bool)', ret='Option<u64>', bind='let id = e.0; let is_feasible = e.1;',
                               ensures='ret == (if *e.1 { Some(*e.0) } else { None::<u64> })')],
                )


REL = 'rel_table(*self)'
UNREL = 'unrel_table(*self)'


def feasible_ids():
    return _ids('feasible_ids', REL)


def feasible_unrelaxed_ids():
    return _ids('feasible_unrelaxed_ids', UNREL)


def _best_id(name, idsfn, table):
    return Unit('SampleSet::%s' % name, S, name, impl=r'impl SampleSet \{', wrap=('impl SampleSet {', '}'),
                sig='pub fn %s(&self) -> Result<u64>' % name,
                header='''pub fn %s(&self) -> (r: Result<u64, VErr>)
    ensures
        // the returned sample is feasible in the requested sense ...
        r is Ok ==> %s.contains_key(r->Ok_0) && %s[r->Ok_0] && obj_of(*self, r->Ok_0) is Some,
        // ... no feasible sample beats it under the sense of the set ...
        r is Ok && (forall|u: u64| #[trigger] %s.contains_key(u) && %s[u] ==> obj_of(*self, u) is Some && obj_of(*self, u)->Some_0@ is Fin)
            ==> forall|u: u64| #[trigger] %s.contains_key(u) && %s[u] ==> at_least_as_good(self.sense, obj_of(*self, r->Ok_0)->Some_0, obj_of(*self, u)->Some_0),
        // ... and it fails exactly when no sample is feasible (for a well-formed set: objectives for every feasible sample, a specified sense)
        (self.objectives is Some && 0 <= self.sense < 3 && (forall|u: u64| #[trigger] %s.contains_key(u) && %s[u] ==> obj_of(*self, u) is Some))
            ==> (r is Err <==> forall|u: u64| #[trigger] %s.contains_key(u) ==> !%s[u]),''' % ((name,) + (table,) * 10),
                rsubs=[(r'self\.%s\(\)\.into_iter\(\)' % idsfn, 'btreeset_into_vec(self.%s())' % idsfn, 1)],
                proofs=[(('before', r'self\.best\('), '''let ids0 = btreeset_into_vec(self.%s());
        proof { assert forall|j: int| 0 <= j < ids0.len() implies %s.contains_key(#[trigger] ids0[j]) && %s[ids0[j]] by { assert(ids0@.to_set().contains(ids0[j])); }
            assert forall|u: u64| %s.contains_key(u) && %s[u] implies ids0@.contains(u) by { assert(ids0@.to_set().contains(u)); } }
        ''' % (idsfn, table, table, table, table))],
                post_subs=[('self.best(btreeset_into_vec(self.%s()))' % idsfn, 'self.best(ids0)')])


def best_feasible_id():
    return _best_id('best_feasible_id', 'feasible_ids', REL)


def best_feasible_unrelaxed_id():
    return _best_id('best_feasible_unrelaxed_id', 'feasible_unrelaxed_ids', UNREL)
