"""Units of rust/ommx/src/sample_set.rs"""
from vx.core import Unit

S = 'sample_set.rs'


def feasible_relaxed():
    return Unit('SampleSet::feasible_relaxed', S, 'feasible_relaxed', impl=r'impl SampleSet \{', wrap=('impl SampleSet {', '}'),
                sig='pub fn feasible_relaxed(&self) -> &HashMap<u64, bool>',
                header='''pub fn feasible_relaxed(&self) -> (r: &HashMap<u64, bool>)
    // messages written by older releases have no `feasible_relaxed` table: `feasible` then means feasibility for the remaining constraints
    ensures *r == (if self.feasible_relaxed@.len() == 0 { self.feasible } else { self.feasible_relaxed }),''')


def feasible_unrelaxed():
    return Unit('SampleSet::feasible_unrelaxed', S, 'feasible_unrelaxed', impl=r'impl SampleSet \{', wrap=('impl SampleSet {', '}'),
                sig='pub fn feasible_unrelaxed(&self) -> &HashMap<u64, bool>',
                header='''pub fn feasible_unrelaxed(&self) -> (r: &HashMap<u64, bool>)
    ensures *r == (if self.feasible_relaxed@.len() == 0 { self.feasible_unrelaxed } else { self.feasible }),''',
                subs=[('#[allow(deprecated)]', '')])


def sampled_values_get():
    return Unit('SampledValues::get', S, 'get', impl=r'impl SampledValues \{', wrap=('impl SampledValues {', '}'),
                sig='pub fn get(&self, sample_id: u64) -> Option<f64>',
                header='''pub fn get(&self, sample_id: u64) -> (r: Option<F64>)
    ensures
        r is None <==> forall|i: int| 0 <= i < self.entries.len() ==> !(#[trigger] self.entries[i]).ids@.contains(sample_id),
        r is Some ==> exists|i: int| 0 <= i < self.entries.len() && (#[trigger] self.entries[i]).ids@.contains(sample_id) && r->Some_0 == self.entries[i].value
            && forall|j: int| 0 <= j < i ==> !(#[trigger] self.entries[j]).ids@.contains(sample_id),''',
                loops=[dict(kind='for', it='it_1', inv='''invariant
                forall|j: int| 0 <= j < it_1.index@ ==> !(#[trigger] self.entries[j]).ids@.contains(sample_id),''')])
