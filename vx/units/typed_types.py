"""Mechanical extraction of the typed-layer types (parse.rs, decision_variable.rs, constraint.rs, function.rs, instance.rs)."""
import re
from vx import core


def _strlit(t):
    return t.replace("&'static str", 'StrLit')


AXIOMS = """pub broadcast axiom fn ax_constraint_id_key_model() ensures #[trigger] vstd::std_specs::hash::obeys_key_model::<ConstraintID>();
// T4: derived Ord on the id newtypes is the order of the wrapped u64 (BTreeSet key model)
pub broadcast axiom fn ax_constraint_id_cmp() ensures #[trigger] vstd::std_specs::btree::key_obeys_cmp_spec::<ConstraintID>();
pub broadcast axiom fn ax_variable_id_cmp() ensures #[trigger] vstd::std_specs::btree::key_obeys_cmp_spec::<VariableID>();
"""


def emit(asm):
    R = asm.rules
    out = []
    out.append('''// R8: string literals are opaque tags (identity of the literal text only)
#[derive(Clone, Copy, PartialEq, Eq, Debug)]
pub struct StrLit(pub u64);
unsafe impl Structural for StrLit {}
pub struct DecodeError {}   // prost::DecodeError (opaque)
''')
    for file, kind, name in (('parse.rs', 'struct', 'ParseContext'), ('parse.rs', 'struct', 'ParseError'), ('parse.rs', 'enum', 'RawParseError'),
                             ('decision_variable.rs', 'enum', 'Kind'), ('decision_variable.rs', 'struct', 'DecisionVariable'),
                             ('constraint.rs', 'enum', 'Equality'), ('constraint.rs', 'struct', 'Constraint'), ('constraint.rs', 'struct', 'RemovedConstraint'),
                             ('function.rs', 'enum', 'Function'),
                             ('instance.rs', 'enum', 'Sense'), ('instance.rs', 'struct', 'OneHot'), ('instance.rs', 'struct', 'Sos1'),
                             ('instance.rs', 'struct', 'ConstraintHints'), ('instance.rs', 'struct', 'Instance')):
        t = core.get_type(file, kind, name, R, keep_derives=('Clone', 'Copy', 'PartialEq', 'Eq', 'Default') if name in ('Kind', 'Equality', 'Sense') else ())
        text = _strlit(t['text'])
        if name not in ('Kind', 'Equality', 'Sense'):
            # T4: Clone is structural (used by the R20 rebinding of by-value loops)
            if 'Clone' in t['derives']:
                text += 'impl Clone for %s { #[verifier::external_body] fn clone(&self) -> (r: Self) ensures r == *self { unimplemented!() } }\n' % name
            if 'Default' in t['derives'] and name == 'ConstraintHints':
                text += 'impl Default for ConstraintHints { #[verifier::external_body] fn default() -> (r: Self) ensures r.one_hot_constraints@.len() == 0, r.sos1_constraints@.len() == 0 { unimplemented!() } }\n'
        out.append(text)
    t = core.get_newtype('constraint.rs', 'ConstraintID', R)
    out.append(t['text'] + AXIOMS)
    asm.extracted('\n'.join(out), 'typed-layer types (parse.rs, decision_variable.rs, constraint.rs, function.rs, instance.rs)')
