"""Units of rust/ommx/src/v1_ext/instance.rs (transformations on raw instances)."""
from vx import core
from vx.core import Unit

# "next free id": `self.defined_ids().last().map(|id| id + 1).unwrap_or(0)`, and the neighbouring idiom that takes the LAST ENTRY of decision_variables instead of the largest id
# (a frequent slip: it is only right for a list sorted by id).  Both stay inside the dialect; the contract of the unit decides.
NEXT_ID_RSUBS = [(r'self\s*\.defined_ids\(\)\s*\.last\(\)\s*\.map\(', 'opt_map(btreeset_last(&self.defined_ids()), ', None),
                 (r'self\s*\.decision_variables\s*\.last\(\)\s*\.map\(', 'opt_map(vec_last(&self.decision_variables), ', None)]
NEXT_ID_ALTS = [dict(params='dv', typed='dv: &DecisionVariable', ret='u64', requires='dv.id < u64::MAX', ensures='ret == dv.id + 1')]

F = 'v1_ext/instance.rs'
I = r'impl Instance \{'
W = ('impl Instance {', '}')


def relax_constraint():
    return Unit('Instance::relax_constraint', F, 'relax_constraint', impl=I, wrap=W,
                sig='pub fn relax_constraint( &mut self, constraint_id: u64, removed_reason: String, removed_reason_parameters: HashMap<String, String>, ) -> Result<()>',
                header='''pub fn relax_constraint(&mut self, constraint_id: u64, removed_reason: String, removed_reason_parameters: HashMap<String, String>) -> (r: Result<(), VErr>)
    ensures
        // fails exactly when no ACTIVE constraint has the id, and then changes nothing
        r is Err <==> (forall|j: int| 0 <= j < old(self).constraints.len() ==> (#[trigger] old(self).constraints[j]).id != constraint_id),
        r is Err ==> *final(self) == *old(self),
        // otherwise the first match moves to the end of the removed list, unchanged, with exactly the given reason
        r is Ok ==> ({ let i = first_active(old(self).constraints@, constraint_id);
            &&& 0 <= i < old(self).constraints.len() && old(self).constraints[i].id == constraint_id
            &&& *final(self) == (Instance {
                    constraints: final(self).constraints,
                    removed_constraints: final(self).removed_constraints, ..*old(self) })
            &&& final(self).constraints@ == old(self).constraints@.remove(i)
            &&& final(self).removed_constraints@ == old(self).removed_constraints@.push(RemovedConstraint {
                    constraint: Some(old(self).constraints[i]), removed_reason, removed_reason_parameters }) }),''',
                closures=[dict(params='c', typed='c: &Constraint', ret='bool', ensures='ret == (c.id == constraint_id)')],
                proofs=[(('after', r'let index =[^;]*;'), '\n        proof { lemma_first_active(self.constraints@, constraint_id, index as int); }')])


def restore_constraint():
    return Unit('Instance::restore_constraint', F, 'restore_constraint', impl=I, wrap=W,
                sig='pub fn restore_constraint(&mut self, constraint_id: u64) -> Result<()>',
                header='''pub fn restore_constraint(&mut self, constraint_id: u64) -> (r: Result<(), VErr>)
    ensures
        r is Err <==> (forall|j: int| 0 <= j < old(self).removed_constraints.len() ==> !removed_has_id(#[trigger] old(self).removed_constraints[j], constraint_id)),
        r is Err ==> *final(self) == *old(self),
        r is Ok ==> ({ let i = first_removed(old(self).removed_constraints@, constraint_id);
            &&& 0 <= i < old(self).removed_constraints.len() && removed_has_id(old(self).removed_constraints[i], constraint_id)
            &&& *final(self) == (Instance {
                    constraints: final(self).constraints,
                    removed_constraints: final(self).removed_constraints, ..*old(self) })
            &&& final(self).removed_constraints@ == old(self).removed_constraints@.remove(i)
            &&& final(self).constraints@ == old(self).constraints@.push(old(self).removed_constraints[i].constraint->Some_0) }),''',
                closures=[dict(params='c', typed='c: &RemovedConstraint', ret='bool', ensures='ret == removed_has_id(*c, constraint_id)'),
                          dict(params='c', typed='c: &Constraint', ret='bool', ensures='ret == (c.id == constraint_id)')],
                proofs=[(('after', r'let index =[^;]*;'), '\n        proof { lemma_first_removed(self.removed_constraints@, constraint_id, index as int); }')])


# ---------------------------------------------------------------- C12
def log_encode():
    NEWDV = '''({ let d = %(dvs)s[n0 + j]; let c = %(terms)s;
                    &&& d.id == idb + j && d.kind == 1 && d.bound is Some && d.bound->Some_0.lower@ == XR::Fin(0real) && d.bound->Some_0.upper@ == XR::Fin(1real)
                    &&& d.subscripts@ == seq![decision_variable_id as i64, j as i64] && d.name is Some && d.substituted_value is None
                    &&& c.0 == idb + j && c.1@ == XR::Fin(coef(j as nat, n as nat, uu)) })'''
    return Unit('Instance::log_encode', F, 'log_encode', impl=I, wrap=W,
                sig='pub fn log_encode(&mut self, decision_variable_id: u64) -> Result<Linear>',
                header='''pub fn log_encode(&mut self, decision_variable_id: u64) -> (r: Result<Linear, VErr>)
    // observation (outside the property): ids close to u64::MAX would overflow `max id + 1 + i`
    requires forall|i: int| 0 <= i < old(self).decision_variables.len() ==> (#[trigger] old(self).decision_variables[i]).id < 0xFFFF_FFFF_FFFF_0000,
    ensures
        // an error changes nothing
        r is Err ==> *final(self) == *old(self),
        // Ok exactly for: known id (first match), integer kind, bound set, FINITE bound, containing an integer
        r is Ok <==> ({ let i0 = first_dv(old(self).decision_variables@, decision_variable_id);
            &&& 0 <= i0 < old(self).decision_variables.len() && old(self).decision_variables[i0].id == decision_variable_id
            &&& logenc_ok(old(self).decision_variables[i0]) }),
        r is Ok ==> ({
            let v = old(self).decision_variables[first_dv(old(self).decision_variables@, decision_variable_id)];
            let lo = rceil(v.bound->Some_0.lower@->Fin_0); let uu = rfloor(v.bound->Some_0.upper@->Fin_0) - lo;
            let n0 = old(self).decision_variables.len() as int; let n = r->Ok_0.terms.len() as int;
            &&& r->Ok_0.constant@ == XR::Fin(lo)
            &&& *final(self) == (Instance { decision_variables: final(self).decision_variables, ..*old(self) })
            &&& final(self).decision_variables.len() == n0 + n
            &&& forall|j: int| 0 <= j < n0 ==> #[trigger] final(self).decision_variables[j] == old(self).decision_variables[j]
            // single integer: a constant and no new variable
            &&& (uu == 0real ==> n == 0)
            // otherwise n >= 1 fresh binaries with 2^(n-1) <= U < 2^n and the capped last coefficient
            &&& (uu != 0real ==> n >= 1 && p2((n - 1) as nat) <= uu < p2(n as nat) && is_intr(uu)
                && exists|idb: u64| #![trigger is_next_id(old(self).decision_variables@, idb)] is_next_id(old(self).decision_variables@, idb)
                    && (forall|k: int| n0 <= k < n0 + n ==> ({ let d = #[trigger] final(self).decision_variables[k]; let j = k - n0;
                        &&& d.id == idb + j && d.kind == 1 && d.bound is Some && d.bound->Some_0.lower@ == XR::Fin(0real) && d.bound->Some_0.upper@ == XR::Fin(1real)
                        &&& d.subscripts@ == seq![decision_variable_id as i64, j as i64] && d.name is Some && d.substituted_value is None }))
                    && (forall|j: int| 0 <= j < n ==> (#[trigger] r->Ok_0.terms[j]).id == idb + j && r->Ok_0.terms[j].coefficient@ == XR::Fin(coef(j as nat, n as nat, uu))))
        }),''',
                closures=[dict(params='dv', typed='dv: &&DecisionVariable', ret='bool', ensures='ret == (dv.id == decision_variable_id)'),
                          dict(params='id', typed='id: &u64', ret='u64', requires='*id < u64::MAX', ensures='ret == *id + 1', alts=NEXT_ID_ALTS)],
                          pre_rsubs=NEXT_ID_RSUBS,
                subs=[('(u_l + lit_1p0()).log2().ceil() as usize', 'ceil_log2_usize(u_l + lit_1p0())'),
                      ('let mut terms = Vec::new();', 'let mut terms: Vec<(u64, F64)> = Vec::new();')],
                rsubs=[(r'Linear::new\(terms\.into_iter\(\),', 'Linear::new(terms,', 1)],
                loops=[dict(kind='for', it='it_1', inv='''invariant
                1 <= n <= 1024, idb_ok(old(self).decision_variables@, id_base), uu == rfloor(ub) - rceil(lb), lower@ == XR::Fin(rceil(lb)), u_l@ == XR::Fin(uu), is_intr(uu),
                p2((n - 1) as nat) <= uu < p2(n as nat),
                terms.len() == it_1.index@, n0 == old(self).decision_variables.len(), self.decision_variables.len() == n0 + it_1.index@,
                *self == (Instance { decision_variables: self.decision_variables, ..*old(self) }),
                forall|j: int| 0 <= j < n0 ==> #[trigger] self.decision_variables[j] == old(self).decision_variables[j],
                forall|k: int| n0 <= k < n0 + it_1.index@ ==> ({ let d = #[trigger] self.decision_variables[k]; let j = k - n0;
                    &&& d.id == id_base + j && d.kind == 1 && d.bound is Some && d.bound->Some_0.lower@ == XR::Fin(0real) && d.bound->Some_0.upper@ == XR::Fin(1real)
                    &&& d.subscripts@ == seq![decision_variable_id as i64, j as i64] && d.name is Some && d.substituted_value is None }),
                forall|j: int| 0 <= j < it_1.index@ ==> (#[trigger] terms[j]).0 == id_base + j && terms[j].1@ == XR::Fin(coef(j as nat, n as nat, uu)),''',
                            body_proof=' proof { lemma_p2(i as nat); lemma_p2((n - 1) as nat); }')],
                proofs=[(('after', r'let u_l = upper - lower;'), '''
        let ghost lb = bound.lower@->Fin_0; let ghost ub = bound.upper@->Fin_0; let ghost uu = rfloor(ub) - rceil(lb); let ghost n0 = self.decision_variables.len() as int;
        proof { ax_floor(ub); ax_ceil(lb); ax_int_add(rfloor(ub), rceil(lb)); ax_int_consts(); }'''),
                        (('after', r'let n = ceil_log2_usize\(u_l \+ lit_1p0\(\)\);'), '''
        proof { if bound.lower@ is Fin && bound.upper@ is Fin { ax_discrete(1real, uu); ax_int_add(uu, 1real); lemma_p2((n - 1) as nat); lemma_p2(n as nat); ax_discrete(p2((n - 1) as nat), uu); } }'''),
                        (('before', r'let id_base ='), '''proof {
            let dvs = self.decision_variables@; let all = dv_ids(dvs, dvs.len() as int);
            assert forall|y: u64| all.contains(y) implies y < 0xFFFF_FFFF_FFFF_0000 by { lemma_dv_ids_mem(dvs, dvs.len() as int, y); }
            lemma_dv_ids_mem(dvs, dvs.len() as int, decision_variable_id);
            assert(all.contains(decision_variable_id));
        }
        '''),
                        (('before', r'let mut terms'), '''proof { lemma_next_id(old(self).decision_variables@, id_base); }
        '''),
                        (('before', r'Ok\(__l\)'), '''proof {
            assert forall|j: int| 0 <= j < terms.len() implies (#[trigger] terms[j]).1@ is Fin && rabs(terms[j].1@->Fin_0) > eps_real() by {
                lemma_p2(j as nat); lemma_p2((n - 1) as nat);
            }
        }
        let ghost tp = terms@;
        // R20c: the argument of the tail expression is hoisted into a `let` so that the proof can name the value returned by Linear::new
        let __l = Linear::new(terms, lower);
        proof {
            // Linear::new returns the specified merge of the pairs; for strictly increasing ids and coefficients that are not dropped that merge is the input itself
            let k = tp.len() as int;
            assert(incr_kept(tp));
            assert(pairs_fin(tp));
            lemma_acc_incr(tp, k);
            lemma_sorted_listing_unique(__l.terms@, tp, acc(pairs_terms(tp), k), k);
        }
        ''')],
                post_subs=[('Ok(Linear::new(terms, lower))', 'Ok(__l)')])


def linear_from_f64():
    return Unit('From<f64> for Linear', 'linear.rs', 'from', impl=r'impl From<f64> for Linear \{', sig='fn from(constant: f64) -> Self',
                pre='impl vstd::std_specs::convert::FromSpecImpl<F64> for Linear { open spec fn obeys_from_spec() -> bool { false } open spec fn from_spec(v: F64) -> Self { arbitrary() } }\n',
                wrap=('impl From<F64> for Linear {', '}'),
                header='''fn from(constant: F64) -> (r: Self)
        ensures r.terms.len() == 0, r.constant == constant,''')


# ---------------------------------------------------------------- C15
def as_minimization_problem():
    return Unit('Instance::as_minimization_problem', F, 'as_minimization_problem', impl=I, wrap=W,
                sig='pub fn as_minimization_problem(&mut self)',
                header='''pub fn as_minimization_problem(&mut self)
    // observation (outside the property's valid instances): a present objective whose oneof is unset makes the operator code panic (`expect("Empty Function")`)
    //   ... and so does a Quadratic objective whose COO arrays differ in length (precondition under which C02 proves Neg for Function)
    requires old(self).objective is Some ==> old(self).objective->Some_0.function is Some && fn_coo_ok(old(self).objective->Some_0),
    ensures
        // a minimisation problem is left untouched (idempotence)
        old(self).sense == 1 ==> *final(self) == *old(self),
        // a maximisation problem: sense becomes minimise and the objective is negated; constraints, variables, everything else untouched
        old(self).sense == 2 ==> final(self).sense == 1 && final(self).objective is Some && is_neg(final(self).objective->Some_0, ofun(*old(self)))
            && *final(self) == (Instance { sense: final(self).sense, objective: final(self).objective, ..*old(self) }),
        // in every case the result is a minimisation problem
        final(self).sense == 1,''')


# ---------------------------------------------------------------- C09
PEN_REQ = '''requires
        self.constraints.len() < 0x7FFF_FFFF_FFFF_FFFF,
        // observations (outside the property's valid instances): id arithmetic must not overflow; operator code panics on unset oneofs
        forall|i: int| 0 <= i < self.decision_variables.len() ==> (#[trigger] self.decision_variables[i]).id + self.constraints.len() + 1 < u64::MAX,
        self.objective is Some ==> self.objective->Some_0.function is Some,
        forall|i: int| 0 <= i < self.constraints.len() ==> ((#[trigger] self.constraints[i]).function is Some ==> self.constraints[i].function->Some_0.function is Some),
        // ... and on Quadratic operands whose COO arrays differ in length (precondition under which C02 proves the operator contracts)
        self.objective is Some ==> fn_coo_ok(self.objective->Some_0),
        forall|i: int| 0 <= i < self.constraints.len() ==> ((#[trigger] self.constraints[i]).function is Some ==> fn_coo_ok(self.constraints[i].function->Some_0)),'''
PEN_COMMON = '''            &&& p.constraints.len() == 0
            // every constraint of the input is kept as a removed constraint: those already removed first, then the active ones, unchanged
            &&& p.removed_constraints.len() == nr + nc
            &&& forall|j: int| 0 <= j < nr ==> #[trigger] p.removed_constraints[j] == self.removed_constraints[j]
            &&& forall|i: int| 0 <= i < nc ==> (#[trigger] p.removed_constraints[nr + i]).constraint == Some(self.constraints[i])
            // variables, sense, dependencies, hints, description carried over
            &&& p.decision_variables == self.decision_variables && p.sense == self.sense && p.decision_variable_dependency == self.decision_variable_dependency
            &&& p.constraint_hints == self.constraint_hints && p.description == self.description'''


def penalty_method():
    return Unit('Instance::penalty_method', F, 'penalty_method', impl=I, wrap=W,
                sig='pub fn penalty_method(self) -> Result<ParametricInstance>',
                header='''pub fn penalty_method(self) -> (r: Result<ParametricInstance, VErr>)
    ''' + PEN_REQ + '''
    ensures r is Ok,
        ({ let p = r->Ok_0; let nc = self.constraints.len() as int; let nr = self.removed_constraints.len() as int;
''' + PEN_COMMON + '''
            // one fresh weight parameter per constraint: ids (max defined id)+1+i (0.. when there is no variable), tagged with the constraint id
            &&& p.parameters.len() == nc
            &&& exists|idb: u64| #![trigger next_or_zero(self.decision_variables@, idb)] next_or_zero(self.decision_variables@, idb)
                  && forall|i: int| 0 <= i < nc ==> (#[trigger] p.parameters[i]).id == idb + i && p.parameters[i].subscripts@ == seq![self.constraints[i].id as i64]
            // the objective is  f + sum_i (p_i * g_i) * g_i  built with the Function operators; its value is f + sum w_i g_i^2 by lemma_pen_value
            &&& p.objective == Some(pen_obj(ofun(self), self.constraints@, p.parameters@, nc))
            &&& pen_steps_ok(ofun(self), self.constraints@, p.parameters@, nc)
        }),''',
                closures=[dict(params='id', typed='id: &u64', ret='u64', requires='*id < u64::MAX', ensures='ret == *id + 1', alts=NEXT_ID_ALTS)],
                pre_rsubs=NEXT_ID_RSUBS,
                subs=[
                      ('let mut parameters = Vec::new();', 'let mut parameters: Vec<Parameter> = Vec::new();')],
                rsubs=[(r'let mut removed_constraints =', 'let mut removed_constraints: Vec<RemovedConstraint> =', 1),
                       (r'hashmap!\s*\{\s*("parameter_id"\.to_string\(\))\s*=>\s*([\w\.]+)\.to_string\(\)\s*\}', r'hashmap1(\1, u64_to_string(\2))', 1),
                       (r'self\.constraints\.into_iter\(\)\.enumerate\(\)', 'enumerate_vec(self.constraints)', 1),
                       (r'&parameter \* ((?:\w+)(?:\.\w+\([^()]*\))*)', r'<&Parameter as core::ops::Mul<Function>>::mul(&parameter, \1)', None)],
                loops=[dict(kind='for', it='it_1', rebind='(__e.0, __e.1.vclone())',
                            body_proof=' proof { assert(*__e == __h1[it_1.index@ as int]); }',
                            inv='''invariant
                __h1.len() == cs0.len(), forall|j: int| 0 <= j < __h1.len() ==> (#[trigger] __h1[j]).0 == j && __h1[j].1 == cs0[j],
                forall|j: int| 0 <= j < cs0.len() ==> ((#[trigger] cs0[j]).function is Some ==> cs0[j].function->Some_0.function is Some && fn_coo_ok(cs0[j].function->Some_0)),
                id_base + cs0.len() < u64::MAX, f0.function is Some, fn_coo_ok(objective),
                parameters.len() == it_1.index@, removed_constraints.len() == nr0 + it_1.index@,
                forall|j: int| 0 <= j < nr0 ==> #[trigger] removed_constraints[j] == rs0[j],
                forall|j: int| 0 <= j < it_1.index@ ==> (#[trigger] removed_constraints[nr0 + j]).constraint == Some(cs0[j]),
                forall|j: int| 0 <= j < it_1.index@ ==> (#[trigger] parameters[j]).id == id_base + j && parameters[j].subscripts@ == seq![cs0[j].id as i64],
                objective == pen_obj(f0, cs0, parameters@, it_1.index@ as int), objective.function is Some,
                pen_steps_ok(f0, cs0, parameters@, it_1.index@ as int),''')],
                proofs=[(('before', r'let id_base ='), '''proof {
            let dvs = self.decision_variables@; let all = dv_ids(dvs, dvs.len() as int);
            assert forall|y: u64| all.contains(y) implies y + self.constraints.len() + 1 < u64::MAX by { lemma_dv_ids_mem(dvs, dvs.len() as int, y); }
            if dvs.len() > 0 { lemma_dv_ids_mem(dvs, dvs.len() as int, dvs[0].id); assert(all.contains(dvs[0].id)); }
            else { assert forall|y: u64| !all.contains(y) by { lemma_dv_ids_mem(dvs, 0, y); } }
        }
        '''),
                        (('after', r'let mut removed_constraints[^;]*;'), '''
        let ghost cs0 = self.constraints@; let ghost rs0 = self.removed_constraints@; let ghost nr0 = self.removed_constraints.len() as int; let ghost f0 = ofun(self);
        proof { lemma_next_or_zero(self.decision_variables@, id_base); }''')])


def defined_ids_stub():
    return '''impl Instance {
    // Instance::defined_ids (iterator collect; verified in C08)
    #[verifier::external_body] pub fn defined_ids(&self) -> (r: BTreeSet<u64>) ensures r@ == dv_ids(self.decision_variables@, self.decision_variables.len() as int) { unimplemented!() }
}
'''


def uniform_penalty_method():
    return Unit('Instance::uniform_penalty_method', F, 'uniform_penalty_method', impl=I, wrap=W,
                sig='pub fn uniform_penalty_method(self) -> Result<ParametricInstance>',
                header='''pub fn uniform_penalty_method(self) -> (r: Result<ParametricInstance, VErr>)
    ''' + PEN_REQ + '''
    ensures r is Ok,
        ({ let p = r->Ok_0; let nc = self.constraints.len() as int; let nr = self.removed_constraints.len() as int;
''' + PEN_COMMON + '''
            // one fresh weight parameter
            &&& p.parameters.len() == 1 && next_or_zero(self.decision_variables@, p.parameters[0].id)
            // objective = f + p * (sum_i g_i * g_i); its value is f + w * sum g_i^2 by lemma_uniform_value
            &&& p.objective == Some(fn_add(ofun(self), par_mul(p.parameters[0], quad_acc(self.constraints@, nc))))
            &&& quad_steps_ok(self.constraints@, nc) && is_par_prod(par_mul(p.parameters[0], quad_acc(self.constraints@, nc)), p.parameters[0], quad_acc(self.constraints@, nc))
            &&& is_sum(p.objective->Some_0, ofun(self), par_mul(p.parameters[0], quad_acc(self.constraints@, nc)))
        }),''',
                closures=[dict(params='id', typed='id: &u64', ret='u64', requires='*id < u64::MAX', ensures='ret == *id + 1', alts=NEXT_ID_ALTS)],
                pre_rsubs=NEXT_ID_RSUBS,
                subs=[],
                rsubs=[(r'let mut removed_constraints =', 'let mut removed_constraints: Vec<RemovedConstraint> =', 1),
                       (r'in self\.constraints\.into_iter\(\)', 'in self.constraints', 1),
                       (r'&parameter \* ((?:\w+)(?:\.\w+\([^()]*\))*)', r'<&Parameter as core::ops::Mul<Function>>::mul(&parameter, \1)', None)],
                loops=[dict(kind='for', it='it_1', rebind='__e.vclone()',
                            body_proof=' proof { assert(*__e == __h1[it_1.index@ as int]); }',
                            inv='''invariant
                __h1@ == cs0,
                forall|j: int| 0 <= j < cs0.len() ==> ((#[trigger] cs0[j]).function is Some ==> cs0[j].function->Some_0.function is Some && fn_coo_ok(cs0[j].function->Some_0)),
                fn_coo_ok(quad_sum),
                removed_constraints.len() == nr0 + it_1.index@,
                forall|j: int| 0 <= j < nr0 ==> #[trigger] removed_constraints[j] == rs0[j],
                forall|j: int| 0 <= j < it_1.index@ ==> (#[trigger] removed_constraints[nr0 + j]).constraint == Some(cs0[j]),
                quad_sum == quad_acc(cs0, it_1.index@ as int), quad_sum.function is Some,
                quad_steps_ok(cs0, it_1.index@ as int),''')],
                proofs=[(('before', r'let id_base ='), '''proof {
            let dvs = self.decision_variables@; let all = dv_ids(dvs, dvs.len() as int);
            assert forall|y: u64| all.contains(y) implies y + self.constraints.len() + 1 < u64::MAX by { lemma_dv_ids_mem(dvs, dvs.len() as int, y); }
            if dvs.len() > 0 { lemma_dv_ids_mem(dvs, dvs.len() as int, dvs[0].id); assert(all.contains(dvs[0].id)); }
            else { assert forall|y: u64| !all.contains(y) by { lemma_dv_ids_mem(dvs, 0, y); } }
        }
        '''),
                        (('after', r'let mut quad_sum[^;]*;'), '''
        let ghost cs0 = self.constraints@; let ghost rs0 = self.removed_constraints@; let ghost nr0 = self.removed_constraints.len() as int;
        proof { lemma_next_or_zero(self.decision_variables@, id_base); }''')])


# ---------------------------------------------------------------- C13
SLACK_STUBS = '''impl Instance {
    // Instance::get_kinds (iterator collect into a HashMap; last definition wins)
    #[verifier::external_body] pub fn get_kinds(&self) -> (r: HashMap<VariableID, Kind>) ensures kinds_of(self.decision_variables@, r@) { unimplemented!() }
}
impl Function {
    // Function::used_decision_variable_ids (iterator collects, verified in C08)
    #[verifier::external_body] pub fn used_decision_variable_ids(&self) -> (r: BTreeSet<u64>)
        requires fn_coo_ok(*self)      // for COO arrays of different lengths the collected ids (all rows and columns) exceed fn_ids (positions below the shortest length)
        ensures r@ == fn_ids(*self) { unimplemented!() }
    // Function::content_factor (C16): a positive finite multiplier that makes every coefficient integral, hence a*f integer-valued on integer points
    #[verifier::external_body] pub fn content_factor(&self) -> (r: Result<F64, VErr>)
        requires fn_coo_ok(*self)      // the term iterator asserts equal COO lengths
        ensures r is Ok ==> r->Ok_0@ is Fin && r->Ok_0@->Fin_0 > 0real
            && forall|m: Map<u64, F64>| #![trigger fn_val(*self, m)] int_state(m, fn_ids(*self)) ==> is_intr(r->Ok_0@->Fin_0 * fn_val(*self, m))
    { unimplemented!() }
    // Function::evaluate_bound (C16): interval enclosure over the box
    #[verifier::external_body] pub fn evaluate_bound(&self, bounds: &Bounds) -> (r: Bound)
        requires bounds_wf(bounds@), small_degree(*self), fn_coo_ok(*self)      // as proved in C16 (finiteness is the antecedent below)
        ensures r.wf(), fn_fin(*self) ==> forall|m: Map<u64, F64>| #![trigger fn_val(*self, m)] in_box(m, bounds@, fn_ids(*self)) ==> contains(r, fn_val(*self, m))
    { unimplemented!() }
}
// f64 * Function (impl_mul_inverse!(f64, Function)) and Function + Linear (impl_add_from!(Function, Linear)): decided in C02
impl MulSpecImpl<Function> for F64 { open spec fn obeys_mul_spec() -> bool { false } open spec fn mul_req(self, rhs: Function) -> bool { rhs.function is Some && fn_coo_ok(rhs) } open spec fn mul_spec(self, rhs: Function) -> Function { arbitrary() } }
impl core::ops::Mul<Function> for F64 { type Output = Function;
    #[verifier::external_body] fn mul(self, rhs: Function) -> (r: Function) ensures r == fn_scale(self, rhs), is_scaled(r, self, rhs), fn_coo_ok(r),
        small_degree(rhs) ==> small_degree(r),    // ASSUMED and not part of the C02 contract: a scalar multiple keeps (or empties) the monomials' id lists
    { unimplemented!() } }
impl AddSpecImpl<Linear> for Function { open spec fn obeys_add_spec() -> bool { false } open spec fn add_req(self, rhs: Linear) -> bool { self.function is Some && fn_coo_ok(self) } open spec fn add_spec(self, rhs: Linear) -> Function { arbitrary() } }
impl core::ops::Add<Linear> for Function { type Output = Function;
    #[verifier::external_body] fn add(self, rhs: Linear) -> (r: Function) ensures r == fn_add_linear(self, rhs), is_sum_linear(r, self, rhs), fn_coo_ok(r) { unimplemented!() } }
impl Bound {
    // Bound::as_integer_bound (C16) - ASSUMPTION A3: the call returns, i.e. the interval contains an integer (it panics otherwise)
    #[verifier::external_body] pub fn as_integer_bound(&self) -> (r: Bound)
        requires self.wf()
        ensures r.wf(), forall|k: real| #![trigger contains(*self, k)] contains_int(*self, k) ==> contains_int(r, k),
            r.lower@ is Fin ==> is_int(r.lower@->Fin_0), r.upper@ is Fin ==> is_int(r.upper@->Fin_0),
    { unimplemented!() }
}
'''


def linear_single_term():
    return Unit('Linear::single_term', 'linear.rs', 'single_term', impl=r'impl Linear \{', wrap=('impl Linear {', '}'),
                sig='pub fn single_term(id: u64, coefficient: f64) -> Self',
                header='''pub fn single_term(id: u64, coefficient: F64) -> (r: Self)
        ensures r.terms@ == seq![LinearTerm { id, coefficient }], r.constant@ == XR::Fin(0real),''')


def v1bound_from_bound():
    return Unit('From<Bound> for v1::Bound', 'bound.rs', 'from', impl=r'impl From<Bound> for v1::Bound \{', sig='fn from(bound: Bound) -> Self',
                pre='impl vstd::std_specs::convert::FromSpecImpl<Bound> for v1::Bound { open spec fn obeys_from_spec() -> bool { false } open spec fn from_spec(v: Bound) -> Self { arbitrary() } }\n',
                wrap=('impl From<Bound> for v1::Bound {', '}'),
                header='''fn from(bound: Bound) -> (r: Self)
        ensures r.lower == bound.lower, r.upper == bound.upper,''')


SLACK_REQ = '''requires
        // observations outside the property: no id overflow; operator code panics on an unset oneof
        forall|i: int| 0 <= i < old(self).decision_variables.len() ==> (#[trigger] old(self).decision_variables[i]).id < u64::MAX - 1,
        forall|i: int| 0 <= i < old(self).constraints.len() ==> ((#[trigger] old(self).constraints[i]).function is Some ==> old(self).constraints[i].function->Some_0.function is Some),
        // ... the preconditions under which C16 / C02 prove the callee contracts: Quadratic COO arrays of equal lengths (the term iterator and the operators assert it),
        // and monomials of degree < 256 (evaluate_bound casts multiplicities to u8)
        forall|i: int| 0 <= i < old(self).constraints.len() ==> ((#[trigger] old(self).constraints[i]).function is Some ==> fn_coo_ok(old(self).constraints[i].function->Some_0) && small_degree(old(self).constraints[i].function->Some_0)),'''
SLACK_REJECT = '''        // rejected WITHOUT modifying the instance
        r is Err ==> same_inst(*final(self), *old(self)),
        // unknown id, not an inequality (equality code 2 = LessThanOrEqualToZero), no function, or a used variable that is undefined or not integer/binary
        !has_c(old(self).constraints@, constraint_id) ==> r is Err,
        has_c(old(self).constraints@, constraint_id) ==> ({ let c = old(self).constraints[first_active(old(self).constraints@, constraint_id)];
            &&& (c.equality != 2 ==> r is Err)
            &&& (c.function is None ==> r is Err)
            &&& (c.function is Some && !all_int_kind(old(self).decision_variables@, fn_ids(c.function->Some_0)) ==> r is Err) }),'''
SLACK_COMMON_SUBS = dict(
    closures=[dict(params='id', typed='id: &u64', ret='u64', requires='*id < u64::MAX', ensures='ret == *id + 1', alts=NEXT_ID_ALTS),
              dict(params='c', typed='c: &Constraint', ret='bool', ensures='ret == (c.id == constraint_id)')],
    pre_rsubs=NEXT_ID_RSUBS,
)


def convert_inequality():
    return Unit('Instance::convert_inequality_to_equality_with_integer_slack', F, 'convert_inequality_to_equality_with_integer_slack', impl=I, wrap=W,
                sig='pub fn convert_inequality_to_equality_with_integer_slack( &mut self, constraint_id: u64, max_integer_range: u64, ) -> Result<()>',
                header='''#[verifier::loop_isolation(false)]
pub fn convert_inequality_to_equality_with_integer_slack(&mut self, constraint_id: u64, max_integer_range: u64) -> (r: Result<(), VErr>)
    ''' + SLACK_REQ + '''
    ensures
''' + SLACK_REJECT + '''
        r is Ok ==> ({ let i = first_active(old(self).constraints@, constraint_id); let c = old(self).constraints[i]; let f = c.function->Some_0;
            ||| // interval analysis shows the inequality always holds: moved to the removed constraints, unchanged
                (final(self).constraints@ == old(self).constraints@.remove(i)
                 && final(self).removed_constraints.len() == old(self).removed_constraints.len() + 1
                 && final(self).removed_constraints@.last().constraint == Some(c)
                 && final(self).decision_variables == old(self).decision_variables
                 && exists|a: F64| #![trigger moved_ok(*old(self), constraint_id, a)] moved_ok(*old(self), constraint_id, a))
            ||| // otherwise: one new integer slack variable s in [0, -L] with a fresh id, and the constraint becomes f + s/a = 0 (same id)
                (exists|a: F64, big_l: real| #![trigger slack_post(*old(self), *final(self), constraint_id, max_integer_range, a, big_l)]
                    slack_post(*old(self), *final(self), constraint_id, max_integer_range, a, big_l)) }),''',
                closures=SLACK_COMMON_SUBS['closures'], pre_rsubs=SLACK_COMMON_SUBS['pre_rsubs'],
                subs=[
                      ('max_integer_range as F64', 'u64_as_f64(max_integer_range)')],
                rsubs=[(r'for id in function\.used_decision_variable_ids\(\) \{', 'for id in btreeset_to_vec(&function.used_decision_variable_ids()) {', 1)],
                loops=[dict(kind='for', it='it_1', rebind='*__e', body_proof=' proof { assert(*__e == __h1[it_1.index@ as int]); }', inv='''invariant
                forall|j: int| 0 <= j < it_1.index@ ==> int_kind_id(old(self).decision_variables@, #[trigger] __h1[j]),''')],
                proofs=[(('before', r'let next_id ='), '''proof {
            let dvs = self.decision_variables@; let all = dv_ids(dvs, dvs.len() as int);
            assert forall|y: u64| all.contains(y) implies y < u64::MAX - 1 by { lemma_dv_ids_mem(dvs, dvs.len() as int, y); }
            if dvs.len() > 0 { lemma_dv_ids_mem(dvs, dvs.len() as int, dvs[0].id); assert(all.contains(dvs[0].id)); }
            else { assert forall|y: u64| !all.contains(y) by { lemma_dv_ids_mem(dvs, 0, y); } }
        }
        '''),
                        (('after', r'let next_id =[^;]*;'), '''
        proof { lemma_next_or_zero(self.decision_variables@, next_id); }'''),
                        (('after', r'let bound = af\.evaluate_bound\(&bounds\)\.as_integer_bound\(\);'), '''
        let ghost big_l = match bound.lower@ { XR::Fin(v) => v, _ => 0real };'''),
                        (('before', r'self\.relax_constraint\('), '''proof { assert(self.constraints@ =~= old(self).constraints@); assert(moved_ok(*old(self), constraint_id, a)); }
            '''),
                        (('before', r'Ok\(\(\)\)\s*\}\s*$'), '''proof { assert(slack_post(*old(self), *self, constraint_id, max_integer_range, a, big_l)); }
        ''')])


def add_integer_slack():
    return Unit('Instance::add_integer_slack_to_inequality', F, 'add_integer_slack_to_inequality', impl=I, wrap=W,
                sig='pub fn add_integer_slack_to_inequality( &mut self, constraint_id: u64, slack_upper_bound: u64, ) -> Result<Option<f64>>',
                header='''#[verifier::loop_isolation(false)]
pub fn add_integer_slack_to_inequality(&mut self, constraint_id: u64, slack_upper_bound: u64) -> (r: Result<Option<F64>, VErr>)
    ''' + SLACK_REQ + '''
    ensures
''' + SLACK_REJECT + '''
        r is Ok ==> ({ let i = first_active(old(self).constraints@, constraint_id); let c = old(self).constraints[i]; let f = c.function->Some_0;
            ||| // always satisfied: moved to the removed constraints unchanged, nothing reported
                (r->Ok_0 is None && final(self).constraints@ == old(self).constraints@.remove(i)
                 && final(self).removed_constraints.len() == old(self).removed_constraints.len() + 1
                 && final(self).removed_constraints@.last().constraint == Some(c)
                 && final(self).decision_variables == old(self).decision_variables
                 && always_le0(old(self).decision_variables@, f, false))
            ||| // otherwise a bounded integer slack term b*s is added and b is reported
                (exists|lower: XR, bb: F64| #![trigger slack_add_post(*old(self), *final(self), constraint_id, slack_upper_bound, bb, lower)]
                    r->Ok_0 == Some(bb) && slack_add_post(*old(self), *final(self), constraint_id, slack_upper_bound, bb, lower)) }),''',
                closures=SLACK_COMMON_SUBS['closures'], pre_rsubs=SLACK_COMMON_SUBS['pre_rsubs'],
                subs=[],
                rsubs=[(r'for id in f\.used_decision_variable_ids\(\) \{', 'for id in btreeset_to_vec(&f.used_decision_variable_ids()) {', 1),
                       (r'slack_upper_bound as F64', 'u64_as_f64(slack_upper_bound)', None)],
                loops=[dict(kind='for', it='it_1', rebind='*__e', body_proof=' proof { assert(*__e == __h1[it_1.index@ as int]); }', inv='''invariant
                forall|j: int| 0 <= j < it_1.index@ ==> int_kind_id(old(self).decision_variables@, #[trigger] __h1[j]),''')],
                proofs=[(('before', r'let slack_id ='), '''proof {
            let dvs = self.decision_variables@; let all = dv_ids(dvs, dvs.len() as int);
            assert forall|y: u64| all.contains(y) implies y < u64::MAX - 1 by { lemma_dv_ids_mem(dvs, dvs.len() as int, y); }
            if dvs.len() > 0 { lemma_dv_ids_mem(dvs, dvs.len() as int, dvs[0].id); assert(all.contains(dvs[0].id)); }
            else { assert forall|y: u64| !all.contains(y) by { lemma_dv_ids_mem(dvs, 0, y); } }
        }
        '''),
                        (('after', r'let slack_id =[^;]*;'), '''
        proof { lemma_next_or_zero(self.decision_variables@, slack_id); }'''),
                        (('after', r'let bound = f\.evaluate_bound\(&bounds\);'), '''
        let ghost lower0 = bound.lower@;'''),
                        (('before', r'self\.relax_constraint\('), '''proof { assert(self.constraints@ =~= old(self).constraints@); assert(always_le0(old(self).decision_variables@, *f, false)); }
            '''),
                        (('before', r'Ok\(Some\(b\)\)\s*\}\s*$'), '''proof { assert(slack_add_post(*old(self), *self, constraint_id, slack_upper_bound, b, lower0)); }
        ''')])
