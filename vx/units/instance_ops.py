"""Units of rust/ommx/src/v1_ext/instance.rs (transformations on raw instances)."""
from vx import core
from vx.core import Unit

F = 'v1_ext/instance.rs'
I = r'impl Instance \{'
W = ('impl Instance {', '}')


def relax_constraint():
    return Unit('Instance::relax_constraint', F, 'relax_constraint', impl=I, wrap=W,
                sig='pub fn relax_constraint( &mut self, constraint_id: u64, removed_reason: String, removed_reason_parameters: HashMap<String, String>, ) -> Result<()>',
                header='''pub fn relax_constraint(&mut self, constraint_id: u64, removed_reason: String, removed_reason_parameters: HashMap<String, String>) -> (r: Result<(), VErr>)
    ensures
        // fails exactly when no ACTIVE constraint has the id, and then changes nothing
        r is Err <==> (forall|j: int| 0 <= j < old(self).constraints.len() ==> (#[trigger] old(self).constraints[j]).id != constraint_id),
        r is Err ==> *final(self) == *old(self),
        // otherwise the first match moves to the end of the removed list, unchanged, with exactly the given reason
        r is Ok ==> ({ let i = first_active(old(self).constraints@, constraint_id);
            &&& 0 <= i < old(self).constraints.len() && old(self).constraints[i].id == constraint_id
            &&& *final(self) == (Instance {
                    constraints: final(self).constraints,
                    removed_constraints: final(self).removed_constraints, ..*old(self) })
            &&& final(self).constraints@ == old(self).constraints@.remove(i)
            &&& final(self).removed_constraints@ == old(self).removed_constraints@.push(RemovedConstraint {
                    constraint: Some(old(self).constraints[i]), removed_reason, removed_reason_parameters }) }),''',
                closures=[dict(params='c', typed='c: &Constraint', ret='bool', ensures='ret == (c.id == constraint_id)')],
                proofs=[(('after', r'let index =[^;]*;'), '\n        proof { lemma_first_active(self.constraints@, constraint_id, index as int); }')])


def restore_constraint():
    return Unit('Instance::restore_constraint', F, 'restore_constraint', impl=I, wrap=W,
                sig='pub fn restore_constraint(&mut self, constraint_id: u64) -> Result<()>',
                header='''pub fn restore_constraint(&mut self, constraint_id: u64) -> (r: Result<(), VErr>)
    ensures
        r is Err <==> (forall|j: int| 0 <= j < old(self).removed_constraints.len() ==> !removed_has_id(#[trigger] old(self).removed_constraints[j], constraint_id)),
        r is Err ==> *final(self) == *old(self),
        r is Ok ==> ({ let i = first_removed(old(self).removed_constraints@, constraint_id);
            &&& 0 <= i < old(self).removed_constraints.len() && removed_has_id(old(self).removed_constraints[i], constraint_id)
            &&& *final(self) == (Instance {
                    constraints: final(self).constraints,
                    removed_constraints: final(self).removed_constraints, ..*old(self) })
            &&& final(self).removed_constraints@ == old(self).removed_constraints@.remove(i)
            &&& final(self).constraints@ == old(self).constraints@.push(old(self).removed_constraints[i].constraint->Some_0) }),''',
                closures=[dict(params='c', typed='c: &RemovedConstraint', ret='bool', ensures='ret == removed_has_id(*c, constraint_id)'),
                          dict(params='c', typed='c: &Constraint', ret='bool', ensures='ret == (c.id == constraint_id)')],
                proofs=[(('after', r'let index =[^;]*;'), '\n        proof { lemma_first_removed(self.removed_constraints@, constraint_id, index as int); }')])
