"""C04: Instance::substitute (structural layer) and Function::substitute (the expression built with the Function operators)."""
from vx import core
from vx.core import Unit

ZERO_SPEC = '''pub uninterp spec fn zero_f64() -> F64;
pub broadcast axiom fn ax_zero_f64() ensures (#[trigger] zero_f64())@ == XR::Fin(0real);
pub open spec fn zero_fn() -> v1::Function { v1::Function { function: Some(v1::function::Function::Constant(zero_f64())) } }
'''

SUBST_SPEC = '''// ===== substitution (C04) =====
// what Function::substitute returns (its verified postcondition): the function itself for an empty map, otherwise the expression of spec/substitute_spec.rs
pub open spec fn subst_post(f: v1::Function, rep: Map<u64, v1::Function>, r: v1::Function) -> bool {
    &&& rep.len() == 0 ==> r == f
    // the term list is one the (verified) term iterators yield for f: its terms sum to f (lemma_fn_terms)
    &&& rep.len() != 0 ==> fn_titems_ok(fn_terms(f), f)
    &&& rep.len() != 0 ==> exists|fss: Seq<Seq<v1::Function>>| #![trigger sub_acc(fn_terms(f), fss, fn_terms(f).len() as int)]
            all_factors_ok(fn_terms(f), fss, rep, fn_terms(f).len() as int) && r == sub_acc(fn_terms(f), fss, fn_terms(f).len() as int) && acc_steps_ok(fn_terms(f), fss, fn_terms(f).len() as int)
}
pub open spec fn opt_subst(o: Option<v1::Function>, n: Option<v1::Function>, rep: Map<u64, v1::Function>) -> bool {
    match o { Some(f) => n is Some && subst_post(f, rep, n->Some_0), None => n is None }
}
pub open spec fn c_subst(o: v1::Constraint, n: v1::Constraint, rep: Map<u64, v1::Function>) -> bool {
    opt_subst(o.function, n.function, rep) && n == (v1::Constraint { function: n.function, ..o })
}
pub open spec fn rc_subst(o: v1::RemovedConstraint, n: v1::RemovedConstraint, rep: Map<u64, v1::Function>) -> bool {
    match o.constraint {
        Some(c) => n.constraint is Some && c_subst(c, n.constraint->Some_0, rep) && n.removed_reason == o.removed_reason && n.removed_reason_parameters == o.removed_reason_parameters,
        None => n == o,
    }
}
'''

SUBST_SPEC += '''// observation: the term iterator and the operators assert that Quadratic COO arrays have equal lengths; every function of the instance is well-formed in that sense
pub open spec fn ofn_coo_ok(o: Option<v1::Function>) -> bool { match o { Some(f) => fn_coo_ok(f), None => true } }
pub open spec fn inst_coo_ok(i: v1::Instance) -> bool {
    &&& ofn_coo_ok(i.objective)
    &&& forall|j: int| 0 <= j < i.constraints.len() ==> ofn_coo_ok((#[trigger] i.constraints[j]).function)
    &&& forall|j: int| 0 <= j < i.removed_constraints.len() ==> ((#[trigger] i.removed_constraints[j]).constraint is Some ==> ofn_coo_ok(i.removed_constraints[j].constraint->Some_0.function))
    &&& forall|k: u64| #[trigger] i.decision_variable_dependency@.contains_key(k) ==> fn_coo_ok(i.decision_variable_dependency@[k])
}
'''

SUBST_STUBS = '''// `for (_id, f) in map.iter_mut() { *f = f.substitute(&replacement)?; }` : HashMap::iter_mut has no specification in vstd; the loop is a helper whose
// contract is the loop's meaning (every value replaced by its substitution, same keys; an error of any call is propagated)
#[verifier::external_body] pub fn substitute_all_values(map: &mut HashMap<u64, Function>, replacement: &HashMap<u64, Function>) -> (r: Result<(), VErr>)
    requires forall|k: u64| #[trigger] replacement@.contains_key(k) ==> replacement@[k].function is Some && fn_coo_ok(replacement@[k]),
        forall|k: u64| #[trigger] old(map)@.contains_key(k) ==> fn_coo_ok(old(map)@[k]),
    ensures r is Ok ==> (forall|k: u64| #[trigger] final(map)@.contains_key(k) <==> old(map)@.contains_key(k))
        && (forall|k: u64| old(map)@.contains_key(k) ==> subst_post(old(map)@[k], replacement@, #[trigger] final(map)@[k]))
{ unimplemented!() }
// HashMap::extend(other): entries of `other` are inserted (overwriting equal keys)
#[verifier::external_body] pub fn hashmap_extend(map: &mut HashMap<u64, Function>, other: HashMap<u64, Function>)
    ensures forall|k: u64| #[trigger] final(map)@.contains_key(k) <==> (old(map)@.contains_key(k) || other@.contains_key(k)),
        forall|k: u64| other@.contains_key(k) ==> #[trigger] final(map)@[k] == other@[k],
        forall|k: u64| old(map)@.contains_key(k) && !other@.contains_key(k) ==> #[trigger] final(map)@[k] == old(map)@[k],
{ unimplemented!() }
'''


def instance_substitute():
    return Unit('Instance::substitute', 'v1_ext/instance.rs', 'substitute', impl=r'impl Instance \{',
                sig='pub fn substitute(&mut self, replacement: HashMap<u64, Function>) -> Result<()>', wrap=('impl Instance {', '}'),
                header='''#[verifier::loop_isolation(false)]
pub fn substitute(&mut self, replacement: HashMap<u64, Function>) -> (r: Result<(), VErr>)
    // observation: the Function operators panic on an unset oneof, and (with the term iterator) on Quadratic COO arrays of different lengths
    requires forall|k: u64| #[trigger] replacement@.contains_key(k) ==> replacement@[k].function is Some && fn_coo_ok(replacement@[k]),
        inst_coo_ok(*old(self)),
    ensures r is Ok ==> ({
        let o = *old(self); let n = *final(self); let rep = replacement@;
        // objective, every active and every removed constraint: the function is replaced by its substitution, everything else is kept
        &&& opt_subst(o.objective, n.objective, rep)
        &&& n.constraints.len() == o.constraints.len()
        &&& forall|i: int| 0 <= i < o.constraints.len() ==> c_subst(o.constraints[i], #[trigger] n.constraints[i], rep)
        &&& n.removed_constraints.len() == o.removed_constraints.len()
        &&& forall|i: int| 0 <= i < o.removed_constraints.len() ==> rc_subst(o.removed_constraints[i], #[trigger] n.removed_constraints[i], rep)
        // dependencies: the old ones are substituted too, and EVERY replacement is recorded (so evaluation reports the replaced variables)
        &&& forall|k: u64| #[trigger] n.decision_variable_dependency@.contains_key(k) <==> (o.decision_variable_dependency@.contains_key(k) || rep.contains_key(k))
        &&& forall|k: u64| rep.contains_key(k) ==> #[trigger] n.decision_variable_dependency@[k] == rep[k]
        &&& forall|k: u64| o.decision_variable_dependency@.contains_key(k) && !rep.contains_key(k) ==> subst_post(o.decision_variable_dependency@[k], rep, #[trigger] n.decision_variable_dependency@[k])
        // untouched
        &&& n.decision_variables == o.decision_variables && n.sense == o.sense && n.description == o.description && n.parameters == o.parameters && n.constraint_hints == o.constraint_hints
    }),''',
                rsubs=[(r'for \(_id, f\) in self\.decision_variable_dependency\.iter_mut\(\) \{\s*\*f = f\.substitute\(&replacement\)\?;\s*\}', 'substitute_all_values(&mut self.decision_variable_dependency, &replacement)?;', 1),
                       (r'self\.decision_variable_dependency\.extend\(replacement\);', 'hashmap_extend(&mut self.decision_variable_dependency, replacement);', 1)],
                loops=[dict(kind='for', mut_index=True, inv='''invariant
                0 <= __i1 <= self.constraints.len(), self.constraints.len() == old(self).constraints.len(),
                *self == (Instance { constraints: self.constraints, ..mid1 }),
                forall|j: int| 0 <= j < __i1 ==> c_subst(old(self).constraints[j], #[trigger] self.constraints[j], replacement@),
                forall|j: int| __i1 <= j < self.constraints.len() ==> #[trigger] self.constraints[j] == old(self).constraints[j],
            decreases self.constraints.len() - __i1'''),
                       dict(kind='for', mut_index=True, inv='''invariant
                0 <= __i2 <= self.removed_constraints.len(), self.removed_constraints.len() == old(self).removed_constraints.len(),
                *self == (Instance { removed_constraints: self.removed_constraints, ..mid2 }),
                forall|j: int| 0 <= j < __i2 ==> rc_subst(old(self).removed_constraints[j], #[trigger] self.removed_constraints[j], replacement@),
                forall|j: int| __i2 <= j < self.removed_constraints.len() ==> #[trigger] self.removed_constraints[j] == old(self).removed_constraints[j],
            decreases self.removed_constraints.len() - __i2''')],
                proofs=[(('before', r'let mut __i1: usize = 0;'), 'let ghost mid1 = *self;\n        '),
                        (('before', r'let mut __i2: usize = 0;'), 'let ghost mid2 = *self;\n        '),
                        (('before', r'substitute_all_values\('), 'let ghost mid3 = *self;\n        ')])


FN_SUBST_STUBS = '''// ---- assumed callee contracts of Function::substitute (T5) ----
// purity naming (ASSUMED): the list the term iterator yields for a message is a function of the message.  Everything else about that list is proved (function_terms below)
#[verifier::external_body]
pub fn name_terms(v: Vec<(SortedIds, F64)>, f: &Function) -> (r: Vec<(SortedIds, F64)>)
    ensures r == v, r@ == fn_terms(*f)
{ v }
// glue (verified): `for (ids, coefficient) in self` is the real IntoIterator for &Function (a verified unit of this file), then the purity naming
pub fn function_terms(f: &Function) -> (r: Vec<(SortedIds, F64)>)
    requires fn_coo_ok(*f)      // IntoIterator for &Quadratic asserts equal COO lengths
    ensures r@ == fn_terms(*f), fn_titems_ok(fn_terms(*f), *f)
{ let v = f.into_iter(); let r = name_terms(v, f); r }
// SortedIds derefs to [u64]: `.iter()` enumerates the ids in order
pub fn sorted_ids_to_vec(s: &SortedIds) -> (r: Vec<u64>) ensures r@ == s@ { s.0.clone() }
impl Function {
    // Zero::zero for Function / From<f64> for Function (v1_ext/function.rs; bodies verified in C02)
    #[verifier::external_body] pub fn zero() -> (r: Function) ensures r == zero_fn() { unimplemented!() }
}
impl vstd::std_specs::convert::FromSpecImpl<F64> for Function { open spec fn obeys_from_spec() -> bool { false } open spec fn from_spec(v: F64) -> Self { arbitrary() } }
impl From<F64> for Function { #[verifier::external_body] fn from(f: F64) -> (r: Function) ensures r == fn_of_f64(f) { unimplemented!() } }
impl Linear {
    // Linear::single_term (linear.rs; verified in C13)
    #[verifier::external_body] pub fn single_term(id: u64, coefficient: F64) -> (r: Linear)
        ensures r.terms@.len() == 1, r.terms@[0].id == id, r.terms@[0].coefficient == coefficient, r.constant@ == XR::Fin(0real) { unimplemented!() }
}
// Function * Linear (impl_mul_from!(Function, Linear, Function), verified in C02): the product with the upcast operand
impl MulSpecImpl<Linear> for Function { open spec fn obeys_mul_spec() -> bool { false } open spec fn mul_req(self, rhs: Linear) -> bool { self.function is Some && fn_coo_ok(self) } open spec fn mul_spec(self, rhs: Linear) -> Function { arbitrary() } }
impl core::ops::Mul<Linear> for Function { type Output = Function;
    #[verifier::external_body] fn mul(self, rhs: Linear) -> (r: Function) ensures r == fn_mul(self, fn_of_linear(rhs)), is_prod(r, self, fn_of_linear(rhs)), fn_coo_ok(r) { unimplemented!() } }
'''


def function_substitute():
    return Unit('Function::substitute', 'v1_ext/function.rs', 'substitute', impl=r'impl Function \{',
                sig='pub fn substitute(&self, replacements: &HashMap<u64, Self>) -> Result<Self>', wrap=('impl Function {', '}'),
                header='''#[verifier::loop_isolation(false)]
pub fn substitute(&self, replacements: &HashMap<u64, Self>) -> (r: Result<Self, VErr>)
    // observation: the operators panic on an unset oneof
    //   ... and on Quadratic operands whose COO arrays differ in length (precondition under which C02 proves the operator contracts)
    requires forall|k: u64| #[trigger] replacements@.contains_key(k) ==> replacements@[k].function is Some && fn_coo_ok(replacements@[k]),
        fn_coo_ok(*self),
    // for an empty map the function itself; otherwise the expression  sum_t ( c_t * prod_j factor_{t,j} )  built with the Function operators, where each
    // factor is the replacement of the j-th id of term t, or a function whose value is that variable; lemma_substitute_value evaluates it
    ensures r is Ok, subst_post(*self, replacements@, r->Ok_0),''',
                rsubs=[(r'for \(ids, coefficient\) in self \{', 'for (ids, coefficient) in function_terms(self) {', 1),
                       (r'for id in ids\.iter\(\) \{', 'for id in sorted_ids_to_vec(&ids) {', 1)],
                loops=[dict(kind='for', it='it_1', rebind='(__e.0.vclone(), __e.1)',
                            body_proof=' proof { assert(*__e == __h1[it_1.index@ as int]); fs = Seq::empty(); }',
                            inv='''invariant
                __h1@ == fn_terms(*self), fn_titems_ok(fn_terms(*self), *self), out.function is Some, fn_coo_ok(out),
                fss.len() == it_1.index@, all_factors_ok(__h1@, fss, replacements@, it_1.index@ as int),
                out == sub_acc(__h1@, fss, it_1.index@ as int), acc_steps_ok(__h1@, fss, it_1.index@ as int),'''),
                       dict(kind='for', it='it_2', rebind='__e',
                            body_proof=' proof { assert(*__e == __h2[it_2.index@ as int]); } let ghost v0 = v;',
                            inv='''invariant
                    __h2@ == ids@, ids@ == __h1@[it_1.index@ as int].0@, coefficient == __h1@[it_1.index@ as int].1, 0 <= it_1.index@ < __h1.len(),
                    v.function is Some, fn_coo_ok(v), fn_coo_ok(out), fs.len() == it_2.index@, factors_ok(ids@, fs, replacements@, it_2.index@ as int),
                    v == sub_term(coefficient, fs, it_2.index@ as int), term_steps_ok(coefficient, fs, it_2.index@ as int),
                    fss.len() == it_1.index@, all_factors_ok(__h1@, fss, replacements@, it_1.index@ as int),
                    out == sub_acc(__h1@, fss, it_1.index@ as int), acc_steps_ok(__h1@, fss, it_1.index@ as int), out.function is Some,''')],
                proofs=[(('before', r'let __h1 = function_terms\(self\);'), 'let ghost mut fss: Seq<Seq<Function>> = Seq::empty(); let ghost mut fs: Seq<Function> = Seq::empty();\n        '),
                        (('after', r'v = v \* replacement\.vclone\(\);'), '''
                    proof { let g = *replacement; let k = it_2.index@ as int; let fs0 = fs; fs = fs.push(g);
                        assert(forall|q: int| 0 <= q < k ==> fs[q] == fs0[q]);
                        lemma_sub_term_ext(coefficient, fs0, fs, k); lemma_term_steps_ext(coefficient, fs0, fs, k); }'''),
                        (('after', r'v = v \* Linear::single_term\(\*id, lit_1p0\(\)\);'), '''
                    proof { let k = it_2.index@ as int; let fs0 = fs;
                        let l = choose|l: Linear| v == fn_mul(v0, fn_of_linear(l)) && is_prod(v, v0, fn_of_linear(l)) && l.terms@.len() == 1 && l.terms@[0].id == *id && l.terms@[0].coefficient@ == XR::Fin(1real) && l.constant@ == XR::Fin(0real);
                        let g = fn_of_linear(l);
                        assert forall|m: Map<u64, F64>| #![trigger fn_val(g, m)] fn_val(g, m) == sval(m, *id) by { lemma_single_val(l, *id, m); }
                        assert(fn_fin(g)) by { lemma_single_val(l, *id, Map::empty()); }
                        fs = fs.push(g);
                        assert(forall|q: int| 0 <= q < k ==> fs[q] == fs0[q]);
                        lemma_sub_term_ext(coefficient, fs0, fs, k); lemma_term_steps_ext(coefficient, fs0, fs, k); }'''),
                        (('after', r'out = out \+ v;'), '''
            proof { let n = it_1.index@ as int; let fss0 = fss; fss = fss.push(fs);
                assert(forall|q: int| 0 <= q < n ==> fss[q] == fss0[q]);
                lemma_sub_acc_ext(__h1@, fss0, fss, n); lemma_acc_steps_ext(__h1@, fss0, fss, n); }'''),
                        (('before', r'Ok\(out\)\s*\}\s*$'), '''proof { assert(all_factors_ok(fn_terms(*self), fss, replacements@, fn_terms(*self).len() as int) && out == sub_acc(fn_terms(*self), fss, fn_terms(*self).len() as int)); }
        ''')])
