"""C02: function arithmetic.  Generated contracts for the operator zoo.

Every operator impl `impl Op<B> for A { type Output = C }` gets the same contract shape, taken from the property statement:

    fin(a) && fin(b) ==> fin(r) && forall m. val_C(r, m) == val_A(a, m) OP val_B(b, m) - rem_op_A_B(a, b, m)
    ids_C(r) subset of ids_A(a) U ids_B(b)

`rem` is the explicit "documented dropping of coefficients below machine epsilon": 0 (open spec) for map-free code, an
uninterpreted function of the operands for the BTreeMap-merge leaves that stay assumed, and a DEFINED combination of callee
remainders for dispatch / macro-generated impls, which are verified.
"""
from vx import core
from vx.core import Unit

T = {
    'f64': dict(rust='F64', val='rv({x})', fin='fin({x})', ids='Set::<u64>::empty()'),
    'Linear': dict(rust='Linear', val='linear_val({x}, m)', fin='linear_fin({x})', ids='linear_ids({x})'),
    'Quadratic': dict(rust='Quadratic', val='quadratic_val({x}, m)', fin='quadratic_fin({x})', ids='quadratic_ids({x})'),
    'Polynomial': dict(rust='Polynomial', val='polynomial_val({x}, m)', fin='poly_fin({x}.terms@)', ids='polynomial_ids({x})'),
    'Function': dict(rust='Function', val='fn_val({x}, m)', fin='fn_fin({x})', ids='fn_ids({x})'),
}
OPSYM = {'add': '+', 'mul': '*', 'sub': '-'}
TRAIT = {'add': 'Add', 'mul': 'Mul', 'sub': 'Sub'}


def low(t):
    return t.lower()


def rem_name(op, a, b):
    return 'rem_%s_%s_%s' % (op, low(a), low(b))


def v(t, x):
    return T[t]['val'].format(x=x)


def f(t, x):
    return T[t]['fin'].format(x=x)


def i(t, x):
    return T[t]['ids'].format(x=x)


# leaf operator impls: (op, A, B, C, kind) kind: 'map' = BTreeMap merge (assumed, uninterpreted remainder), 'free' = map-free (remainder 0)
LEAVES = [
    ('add', 'Linear', 'f64', 'Linear', 'free'), ('add', 'Linear', 'Linear', 'Linear', 'map'),
    ('add', 'Quadratic', 'f64', 'Quadratic', 'free'), ('add', 'Quadratic', 'Linear', 'Quadratic', 'map'), ('add', 'Quadratic', 'Quadratic', 'Quadratic', 'map'),
    ('add', 'Polynomial', 'f64', 'Polynomial', 'map'), ('add', 'Polynomial', 'Linear', 'Polynomial', 'map'), ('add', 'Polynomial', 'Quadratic', 'Polynomial', 'map'),
    ('add', 'Polynomial', 'Polynomial', 'Polynomial', 'map'),
    ('mul', 'Linear', 'f64', 'Linear', 'free'), ('mul', 'Linear', 'Linear', 'Quadratic', 'map'),
    ('mul', 'Quadratic', 'f64', 'Quadratic', 'free'), ('mul', 'Quadratic', 'Linear', 'Polynomial', 'map'), ('mul', 'Quadratic', 'Quadratic', 'Polynomial', 'map'),
    ('mul', 'Polynomial', 'f64', 'Polynomial', 'free'), ('mul', 'Polynomial', 'Linear', 'Polynomial', 'map'), ('mul', 'Polynomial', 'Quadratic', 'Polynomial', 'map'),
    ('mul', 'Polynomial', 'Polynomial', 'Polynomial', 'map'),
]


def contract(op, a, b, c, rem=None, lhs='self', rhs='rhs'):
    rem = rem or '%s(%s, %s, m)' % (rem_name(op, a, b), lhs, rhs)
    # for products the commuted form is stated too (real multiplication of two spec terms: Z3 does not always normalise the order)
    comm = (' && %s == %s %s %s - %s' % (v(c, 'r'), v(b, rhs), OPSYM[op], v(a, lhs), rem)) if op == 'mul' else ''
    return ('''%s && %s ==> %s && forall|m: Map<u64, F64>| #![trigger %s] %s == %s %s %s - %s%s,
            %s.subset_of(%s.union(%s)),''' % (f(a, lhs), f(b, rhs), f(c, 'r'), v(c, 'r'), v(c, 'r'), v(a, lhs), OPSYM[op], v(b, rhs), rem, comm,
                                             i(c, 'r'), i(a, lhs), i(b, rhs)))


def spec_impl(op, a, b, c, req='true'):
    tr = TRAIT[op]
    return ('impl %sSpecImpl<%s> for %s { open spec fn obeys_%s_spec() -> bool { false } open spec fn %s_req(self, rhs: %s) -> bool { %s } '
            'open spec fn %s_spec(self, rhs: %s) -> %s { arbitrary() } }\n' % (tr, T[b]['rust'], T[a]['rust'], op, op, T[b]['rust'], req, op, T[b]['rust'], T[c]['rust']))


def leaf_spec_text():
    out = ['// ---- leaf remainders: 0 for map-free code, uninterpreted for the assumed BTreeMap-merge leaves ----\n']
    for op, a, b, c, kind in LEAVES:
        sig = 'pub %s spec fn %s(x: v1::%s, y: %s, m: Map<u64, F64>) -> real' % ('open' if kind == 'free' else 'uninterp', rem_name(op, a, b), a, 'F64' if b == 'f64' else 'v1::' + b)
        out.append(sig + (' { 0real }\n' if kind == 'free' else ';\n'))
    # Function-level remainders by case on the dispatch arms (the order of the operands of the leaf call is that of the code)
    def arms(op):
        K = ['Constant', 'Linear', 'Quadratic', 'Polynomial']
        ty = {'Constant': 'f64', 'Linear': 'Linear', 'Quadratic': 'Quadratic', 'Polynomial': 'Polynomial'}
        lines = []
        for ka in K:
            for kb in K:
                if ka == 'Constant' and kb == 'Constant':
                    r = '0real'
                else:
                    # the code always calls  higher-kind OP lower-kind  (lhs = the higher one)
                    hi, lo, xa, xb = (ka, kb, 'x', 'y') if K.index(ka) >= K.index(kb) else (kb, ka, 'y', 'x')
                    r = '%s(%s, %s, m)' % (rem_name(op, ty[hi], ty[lo]), xa, xb)
                lines.append('        (Some(v1::function::Function::%s(x)), Some(v1::function::Function::%s(y))) => %s,' % (ka, kb, r))
        return '\n'.join(lines)
    for op, nm in (('add', 'add_rem'), ('mul', 'mul_rem')):
        out.append('pub open spec fn %s(a: v1::Function, b: v1::Function, m: Map<u64, F64>) -> real {\n    match (a.function, b.function) {\n%s\n        _ => 0real,\n    }\n}\n' % (nm, arms(op)))
    out.append('pub open spec fn neg_rem(a: v1::Function, m: Map<u64, F64>) -> real { 0real }\n')
    return ''.join(out)


def leaf_stubs():
    """assumed contracts of the BTreeMap-merge leaves (T5)"""
    out = []
    names = []
    for op, a, b, c, kind in LEAVES:
        if kind != 'map':
            continue
        tr = TRAIT[op]
        out.append(spec_impl(op, a, b, c))
        out.append('impl core::ops::%s<%s> for %s { type Output = %s;\n    #[verifier::external_body] fn %s(self, rhs: %s) -> (r: %s)\n        ensures %s\n    { unimplemented!() } }\n'
                   % (tr, T[b]['rust'], T[a]['rust'], T[c]['rust'], op, T[b]['rust'], T[c]['rust'], contract(op, a, b, c)))
        names.append('%s %s %s' % (a, OPSYM[op], b))
    return ''.join(out), names


# ---------------------------------------------------------------- real units: map-free leaves
def linear_add_f64():
    return Unit('Add<f64> for Linear', 'linear.rs', 'add', impl=r'impl Add<f64> for Linear \{', sig='fn add(self, rhs: f64) -> Self', anyhow=False,
                pre=spec_impl('add', 'Linear', 'f64', 'Linear'), wrap=('impl core::ops::Add<F64> for Linear { type Output = Linear;', '}'),
                header='fn add(self, rhs: F64) -> (r: Linear)\n        ensures ' + contract('add', 'Linear', 'f64', 'Linear') + '\n            r.terms == self.terms,')


def linear_mul_f64():
    return Unit('Mul<f64> for Linear', 'linear.rs', 'mul', impl=r'impl Mul<f64> for Linear \{', sig='fn mul(mut self, rhs: f64) -> Self', anyhow=False, mut_self=True,
                pre=spec_impl('mul', 'Linear', 'f64', 'Linear'), wrap=('impl core::ops::Mul<F64> for Linear { type Output = Linear;', '}'),
                header='fn mul(self, rhs: F64) -> (r: Linear)\n        ensures ' + contract('mul', 'Linear', 'f64', 'Linear'),
                loops=[dict(kind='for', mut_index=True, inv='''invariant
                0 <= __i1 <= this.terms.len(), this.terms.len() == self.terms.len(), this.constant == self.constant,
                forall|j: int| 0 <= j < __i1 ==> (#[trigger] this.terms[j]).id == self.terms[j].id && (fin(self.terms[j].coefficient) && fin(rhs) ==> this.terms[j].coefficient@ == XR::Fin(rv(self.terms[j].coefficient) * rv(rhs))),
                forall|j: int| __i1 <= j < this.terms.len() ==> #[trigger] this.terms[j] == self.terms[j],
            decreases this.terms.len() - __i1''')],
                proofs=[(('before', r'return\s+Linear::zero\(\)\s*;'), '''proof { if fin(rhs) { assert(rv(rhs) == 0real); assert forall|m: Map<u64, F64>| #![trigger linear_val(self, m)] linear_val(self, m) * rv(rhs) == 0real by {
                assert(linear_val(self, m) * 0real == 0real) by(nonlinear_arith); } } }
            '''),
                        (('before', r'this\s*\}\s*$'), '''proof { if linear_fin(self) && fin(rhs) { assert forall|m: Map<u64, F64>| #![trigger linear_val(this, m)] linear_val(this, m) == linear_val(self, m) * rv(rhs) by {
                lemma_lin_scale(self.terms@, this.terms@, self.terms.len() as int, rv(rhs), m);
                assert((rv(self.constant) + lin_all(self.terms@, m)) * rv(rhs) == rv(self.constant) * rv(rhs) + lin_all(self.terms@, m) * rv(rhs)) by(nonlinear_arith); }
            }
            lemma_lin_ids_same(self.terms@, this.terms@, self.terms.len() as int); }
        ''')])


def zero_linear():
    return [Unit('Zero::zero for Linear', 'linear.rs', 'zero', impl=r'impl Zero for Linear \{', sig='fn zero() -> Self', anyhow=False, wrap=('impl Zero for Linear {', ''),
                 header='fn zero() -> (r: Self)\n        ensures r.terms.len() == 0, r.constant@ == XR::Fin(0real), linear_ids(r) == Set::<u64>::empty(),'),
            Unit('Zero::is_zero for Linear', 'linear.rs', 'is_zero', impl=r'impl Zero for Linear \{', sig='fn is_zero(&self) -> bool', anyhow=False, wrap=('', '}'),
                 header='fn is_zero(&self) -> (r: bool)\n        ensures r == (self.terms.len() == 0 && self.constant@ == XR::Fin(0real)),')]


def from_units():
    U = []
    def FROM(name, file, impl_rx, src, dst, sig, ens):
        return Unit(name, file, 'from', impl=impl_rx, sig=sig, anyhow=False,
                    pre='impl vstd::std_specs::convert::FromSpecImpl<%s> for %s { open spec fn obeys_from_spec() -> bool { false } open spec fn from_spec(v: %s) -> Self { arbitrary() } }\n' % (src, dst, src),
                    wrap=('impl From<%s> for %s {' % (src, dst), '}'), header='fn from(%s) -> (r: Self)\n        ensures %s' % (sig, ens))
    U.append(FROM('From<f64> for Linear', 'linear.rs', r'impl From<f64> for Linear \{', 'F64', 'Linear', 'constant: F64', 'r.terms.len() == 0, r.constant == constant,'))
    U[-1].sig = 'fn from(constant: f64) -> Self'
    for src, var, arm in (('function::Function', 'f', None), ('Linear', 'linear', 'Linear'), ('Quadratic', 'q', 'Quadratic'), ('Polynomial', 'poly', 'Polynomial'), ('f64', 'f', 'Constant')):
        rs = 'F64' if src == 'f64' else ('FunctionEnum' if src == 'function::Function' else src)
        ens = 'r.function == Some(%s),' % (var if arm is None else 'FunctionEnum::%s(%s)' % (arm, var))
        u = FROM('From<%s> for Function' % src, 'v1_ext/function.rs', r'impl From<%s> for Function \{' % core.re.escape(src), rs, 'Function', '%s: %s' % (var, rs), ens)
        u.sig = 'fn from(%s: %s) -> Self' % (var, src)
        U.append(u)
    return U


DISPATCH_REQ = 'self.function is Some && rhs.function is Some'


def function_add():
    return Unit('Add for Function', 'v1_ext/function.rs', 'add', impl=r'impl Add for Function \{', sig='fn add(self, rhs: Self) -> Self', anyhow=False,
                pre=spec_impl('add', 'Function', 'Function', 'Function', req=DISPATCH_REQ), wrap=('impl core::ops::Add for Function { type Output = Function;', '}'),
                header='fn add(self, rhs: Self) -> (r: Self)\n        // every one of the 16 operand-kind pairs: the sum of the two polynomials (explicit epsilon-drop remainder), in a kind able to hold it\n        ensures r.function is Some,\n            fn_ids(r).subset_of(fn_ids(self).union(fn_ids(rhs))),\n            fn_fin(self) && fn_fin(rhs) ==> fn_fin(r),\n            fn_fin(self) && fn_fin(rhs) ==> forall|m: Map<u64, F64>| #![trigger fn_val(r, m)] fn_val(r, m) == fn_val(self, m) + fn_val(rhs, m) - add_rem(self, rhs, m),\n            is_sum(r, self, rhs),',
                subs=[('self.function.expect(StrLit(%d))' % __import__('zlib').crc32(b'Empty Function'), 'self.function.unwrap()')] if False else [],
                rsubs=[(r'\.expect\("Empty Function"\)', '.unwrap()', 2)])


def function_mul():
    return Unit('Mul for Function', 'v1_ext/function.rs', 'mul', impl=r'impl Mul for Function \{', sig='fn mul(self, rhs: Self) -> Self', anyhow=False,
                pre=spec_impl('mul', 'Function', 'Function', 'Function', req=DISPATCH_REQ), wrap=('impl core::ops::Mul for Function { type Output = Function;', '}'),
                header='fn mul(self, rhs: Self) -> (r: Self)\n        // products that raise the degree are returned in a kind able to hold every resulting term\n        ensures r.function is Some,\n            fn_ids(r).subset_of(fn_ids(self).union(fn_ids(rhs))),\n            fn_fin(self) && fn_fin(rhs) ==> fn_fin(r),\n            fn_fin(self) && fn_fin(rhs) ==> forall|m: Map<u64, F64>| #![trigger fn_val(r, m)] fn_val(r, m) == fn_val(self, m) * fn_val(rhs, m) - mul_rem(self, rhs, m),\n            is_prod(r, self, rhs),',
                rsubs=[(r'\.expect\("Empty Function"\)', '.unwrap()', 2)])


LEMMAS = '''// ---- scaling lemma for the map-free leaves ----
pub proof fn lemma_lin_scale(a: Seq<v1::linear::Term>, b: Seq<v1::linear::Term>, n: int, c: real, m: Map<u64, F64>)
    requires 0 <= n <= a.len(), n <= b.len(), forall|j: int| 0 <= j < n ==> (#[trigger] b[j]).id == a[j].id && rv(b[j].coefficient) == rv(a[j].coefficient) * c
    ensures lin_sum(b, n, m) == lin_sum(a, n, m) * c
    decreases n
{
    if n > 0 {
        lemma_lin_scale(a, b, n - 1, c, m);
        let s = lin_sum(a, n - 1, m); let k = rv(a[n - 1].coefficient); let x = sval(m, a[n - 1].id);
        assert((s + k * x) * c == s * c + (k * c) * x) by(nonlinear_arith);
    }
}
pub proof fn lemma_lin_ids_same(a: Seq<v1::linear::Term>, b: Seq<v1::linear::Term>, n: int)
    requires 0 <= n <= a.len(), n <= b.len(), forall|j: int| 0 <= j < n ==> (#[trigger] b[j]).id == a[j].id
    ensures lin_ids(b, n) == lin_ids(a, n)
    decreases n
{ if n > 0 { lemma_lin_ids_same(a, b, n - 1); } }
'''


def quadratic_add_f64():
    return Unit('Add<f64> for Quadratic', 'quadratic.rs', 'add', impl=r'impl Add<f64> for Quadratic \{', sig='fn add(mut self, rhs: f64) -> Self', anyhow=False, mut_self=True,
                pre=spec_impl('add', 'Quadratic', 'f64', 'Quadratic'), wrap=('impl core::ops::Add<F64> for Quadratic { type Output = Quadratic;', '}'),
                header='fn add(self, rhs: F64) -> (r: Quadratic)\n        ensures ' + contract('add', 'Quadratic', 'f64', 'Quadratic'))


def quadratic_mul_f64():
    return Unit('Mul<f64> for Quadratic', 'quadratic.rs', 'mul', impl=r'impl Mul<f64> for Quadratic \{', sig='fn mul(mut self, rhs: f64) -> Self', anyhow=False, mut_self=True,
                pre=spec_impl('mul', 'Quadratic', 'f64', 'Quadratic'), wrap=('impl core::ops::Mul<F64> for Quadratic { type Output = Quadratic;', '}'),
                header='fn mul(self, rhs: F64) -> (r: Quadratic)\n        ensures ' + contract('mul', 'Quadratic', 'f64', 'Quadratic'),
                loops=[dict(kind='for', mut_index=True, inv='''invariant
                0 <= __i1 <= this.values.len(), this.values.len() == self.values.len(), this.rows == self.rows, this.columns == self.columns, this.linear == self.linear,
                forall|j: int| 0 <= j < __i1 ==> (fin(self.values[j]) && fin(rhs) ==> (#[trigger] this.values[j])@ == XR::Fin(rv(self.values[j]) * rv(rhs))),
                forall|j: int| __i1 <= j < this.values.len() ==> #[trigger] this.values[j] == self.values[j],
            decreases this.values.len() - __i1''')],
                proofs=[(('before', r'if let Some\(linear\) = this\.linear'), '''proof { if quadratic_fin(self) && fin(rhs) { assert forall|m: Map<u64, F64>| quad_sum(this.rows@, this.columns@, this.values@, quad_n(this), m) == quad_sum(self.rows@, self.columns@, self.values@, quad_n(self), m) * rv(rhs) by {
                lemma_quad_scale(self.rows@, self.columns@, self.values@, this.values@, quad_n(self), rv(rhs), m); } } }
        let ghost mid = this;
        '''),
                        (('before', r'this\s*\}\s*$'), '''proof { if quadratic_fin(self) && fin(rhs) { assert forall|m: Map<u64, F64>| #![trigger quadratic_val(this, m)] quadratic_val(this, m) == quadratic_val(self, m) * rv(rhs) by {
                let a = quadratic_lin_val(self, m); let b = quad_sum(self.rows@, self.columns@, self.values@, quad_n(self), m);
                assert((a + b) * rv(rhs) == a * rv(rhs) + b * rv(rhs)) by(nonlinear_arith);
                assert(quad_sum(this.rows@, this.columns@, this.values@, quad_n(this), m) == quad_sum(mid.rows@, mid.columns@, mid.values@, quad_n(mid), m));
            } } }
        ''')])


def polynomial_mul_f64():
    return Unit('Mul<f64> for Polynomial', 'polynomial.rs', 'mul', impl=r'impl Mul<f64> for Polynomial \{', sig='fn mul(mut self, rhs: f64) -> Self', anyhow=False, mut_self=True,
                pre=spec_impl('mul', 'Polynomial', 'f64', 'Polynomial'), wrap=('impl core::ops::Mul<F64> for Polynomial { type Output = Polynomial;', '}'),
                header='fn mul(self, rhs: F64) -> (r: Polynomial)\n        ensures ' + contract('mul', 'Polynomial', 'f64', 'Polynomial'),
                loops=[dict(kind='for', mut_index=True, inv='''invariant
                0 <= __i1 <= this.terms.len(), this.terms.len() == self.terms.len(),
                forall|j: int| 0 <= j < __i1 ==> (#[trigger] this.terms[j]).ids == self.terms[j].ids && (fin(self.terms[j].coefficient) && fin(rhs) ==> this.terms[j].coefficient@ == XR::Fin(rv(self.terms[j].coefficient) * rv(rhs))),
                forall|j: int| __i1 <= j < this.terms.len() ==> #[trigger] this.terms[j] == self.terms[j],
            decreases this.terms.len() - __i1''')],
                proofs=[(('before', r'this\s*\}\s*$'), '''proof { if poly_fin(self.terms@) && fin(rhs) { assert forall|m: Map<u64, F64>| #![trigger polynomial_val(this, m)] polynomial_val(this, m) == polynomial_val(self, m) * rv(rhs) by {
                lemma_poly_scale(self.terms@, this.terms@, self.terms.len() as int, rv(rhs), m); } }
            lemma_poly_ids_same(self.terms@, this.terms@, self.terms.len() as int); }
        ''')])


def zero_quadratic_polynomial():
    return [Unit('Zero::zero for Quadratic', 'quadratic.rs', 'zero', impl=r'impl Zero for Quadratic \{', sig='fn zero() -> Self', anyhow=False,
                 wrap=('impl Zero for Quadratic {', '''    // is_zero: closure over Option::is_none_or (T5 assumed)
    #[verifier::external_body] fn is_zero(&self) -> (r: bool)
        ensures r == (self.columns.len() == 0 && self.rows.len() == 0 && self.values.len() == 0 && (self.linear is None || (self.linear->Some_0.terms.len() == 0 && self.linear->Some_0.constant@ == XR::Fin(0real))))
    { unimplemented!() }
}'''),
                 header='fn zero() -> (r: Self)\n        ensures r.columns.len() == 0, r.rows.len() == 0, r.values.len() == 0, r.linear is Some, r.linear->Some_0.terms.len() == 0, r.linear->Some_0.constant@ == XR::Fin(0real),'),
            Unit('Zero::zero for Polynomial', 'polynomial.rs', 'zero', impl=r'impl Zero for Polynomial \{', sig='fn zero() -> Self', anyhow=False,
                 wrap=('impl Zero for Polynomial {', '''    #[verifier::external_body] fn is_zero(&self) -> bool { unimplemented!() }
}'''),
                 header='fn zero() -> (r: Self)\n        ensures r.terms.len() == 0,')]


LEMMAS += '''pub proof fn lemma_quad_scale(r: Seq<u64>, c: Seq<u64>, a: Seq<F64>, b: Seq<F64>, n: int, k: real, m: Map<u64, F64>)
    requires 0 <= n <= a.len(), n <= b.len(), n <= r.len(), n <= c.len(), forall|j: int| 0 <= j < n ==> rv(#[trigger] b[j]) == rv(a[j]) * k
    ensures quad_sum(r, c, b, n, m) == quad_sum(r, c, a, n, m) * k
    decreases n
{
    if n > 0 {
        lemma_quad_scale(r, c, a, b, n - 1, k, m);
        let s = quad_sum(r, c, a, n - 1, m); let v = rv(a[n - 1]); let x = sval(m, r[n - 1]); let y = sval(m, c[n - 1]);
        let vb = rv(b[n - 1]); let sb = quad_sum(r, c, b, n - 1, m);
        assert(vb == v * k);
        assert(sb == s * k);
        assert(quad_sum(r, c, b, n, m) == sb + vb * x * y);
        assert(quad_sum(r, c, a, n, m) == s + v * x * y);
        assert(sb + vb * x * y == (s + v * x * y) * k) by(nonlinear_arith) requires sb == s * k, vb == v * k;
    }
}
pub proof fn lemma_mono_scale(c: real, k: real, ids: Seq<u64>, j: int, m: Map<u64, F64>)
    requires 0 <= j <= ids.len()
    ensures mono_val(c * k, ids, j, m) == mono_val(c, ids, j, m) * k
    decreases j
{
    if j > 0 {
        lemma_mono_scale(c, k, ids, j - 1, m);
        let p = mono_val(c, ids, j - 1, m); let x = sval(m, ids[j - 1]);
        assert((p * k) * x == (p * x) * k) by(nonlinear_arith);
    }
}
pub proof fn lemma_poly_scale(a: Seq<v1::Monomial>, b: Seq<v1::Monomial>, n: int, k: real, m: Map<u64, F64>)
    requires 0 <= n <= a.len(), n <= b.len(), forall|j: int| 0 <= j < n ==> (#[trigger] b[j]).ids == a[j].ids && rv(b[j].coefficient) == rv(a[j].coefficient) * k
    ensures poly_sum(b, n, m) == poly_sum(a, n, m) * k
    decreases n
{
    if n > 0 {
        lemma_poly_scale(a, b, n - 1, k, m);
        lemma_mono_scale(rv(a[n - 1].coefficient), k, a[n - 1].ids@, a[n - 1].ids.len() as int, m);
        let s = poly_sum(a, n - 1, m); let t = mono_val(rv(a[n - 1].coefficient), a[n - 1].ids@, a[n - 1].ids.len() as int, m);
        assert((s + t) * k == s * k + t * k) by(nonlinear_arith);
    }
}
pub proof fn lemma_poly_ids_same(a: Seq<v1::Monomial>, b: Seq<v1::Monomial>, n: int)
    requires 0 <= n <= a.len(), n <= b.len(), forall|j: int| 0 <= j < n ==> (#[trigger] b[j]).ids == a[j].ids
    ensures poly_ids(b, n) == poly_ids(a, n)
    decreases n
{ if n > 0 { lemma_poly_ids_same(a, b, n - 1); } }
'''
