"""C02: function arithmetic.  Generated contracts for the operator zoo.

Every operator impl `impl Op<B> for A { type Output = C }` gets the same contract shape, taken from the property statement:

    fin(a) && fin(b) ==> fin(r) && forall m. val_C(r, m) == val_A(a, m) OP val_B(b, m) - rem_op_A_B(a, b, m)
    ids_C(r) subset of ids_A(a) U ids_B(b)

`rem` is the explicit "documented dropping of coefficients below machine epsilon": 0 (open spec) for map-free code, an
uninterpreted function of the operands for the BTreeMap-merge leaves that stay assumed, and a DEFINED combination of callee
remainders for dispatch / macro-generated impls, which are verified.
"""
import re
from vx import core
from vx.core import Unit

T = {
    'f64': dict(rust='F64', val='rv({x})', fin='fin({x})', ids='Set::<u64>::empty()'),
    'Linear': dict(rust='Linear', val='linear_val({x}, m)', fin='linear_fin({x})', ids='linear_ids({x})'),
    'Quadratic': dict(rust='Quadratic', val='quadratic_val({x}, m)', fin='quadratic_fin({x})', ids='quadratic_ids({x})'),
    'Polynomial': dict(rust='Polynomial', val='polynomial_val({x}, m)', fin='poly_fin({x}.terms@)', ids='polynomial_ids({x})'),
    'Function': dict(rust='Function', val='fn_val({x}, m)', fin='fn_fin({x})', ids='fn_ids({x})'),
}
OPSYM = {'add': '+', 'mul': '*', 'sub': '-'}
TRAIT = {'add': 'Add', 'mul': 'Mul', 'sub': 'Sub'}


def low(t):
    return t.lower()


def rem_name(op, a, b):
    return 'rem_%s_%s_%s' % (op, low(a), low(b))


def v(t, x):
    return T[t]['val'].format(x=x)


def f(t, x):
    return T[t]['fin'].format(x=x)


def i(t, x):
    return T[t]['ids'].format(x=x)


# leaf operator impls: (op, A, B, C, kind) kind: 'map' = BTreeMap merge (assumed, uninterpreted remainder), 'free' = map-free (remainder 0)
LEAVES = [
    ('add', 'Linear', 'f64', 'Linear', 'free'), ('add', 'Linear', 'Linear', 'Linear', 'merge'),
    ('add', 'Quadratic', 'f64', 'Quadratic', 'free'), ('add', 'Quadratic', 'Linear', 'Quadratic', 'deleg'), ('add', 'Quadratic', 'Quadratic', 'Quadratic', 'merge2'),
    ('add', 'Polynomial', 'f64', 'Polynomial', 'up'), ('add', 'Polynomial', 'Linear', 'Polynomial', 'up'), ('add', 'Polynomial', 'Quadratic', 'Polynomial', 'up'),
    ('add', 'Polynomial', 'Polynomial', 'Polynomial', 'pmerge'),
    ('mul', 'Linear', 'f64', 'Linear', 'free'), ('mul', 'Linear', 'Linear', 'Quadratic', 'mulll'),
    ('mul', 'Quadratic', 'f64', 'Quadratic', 'free'), ('mul', 'Quadratic', 'Linear', 'Polynomial', 'gmull'), ('mul', 'Quadratic', 'Quadratic', 'Polynomial', 'gmul'),
    ('mul', 'Polynomial', 'f64', 'Polynomial', 'free'), ('mul', 'Polynomial', 'Linear', 'Polynomial', 'mup'), ('mul', 'Polynomial', 'Quadratic', 'Polynomial', 'mup'),
    ('mul', 'Polynomial', 'Polynomial', 'Polynomial', 'pmul'),
]


def contract(op, a, b, c, rem=None, lhs='self', rhs='rhs'):
    rem = rem or '%s(%s, %s, m)' % (rem_name(op, a, b), lhs, rhs)
    # for products the commuted form is stated too (real multiplication of two spec terms: Z3 does not always normalise the order)
    comm = (' && %s == %s %s %s - %s' % (v(c, 'r'), v(b, rhs), OPSYM[op], v(a, lhs), rem)) if op == 'mul' else ''
    coo = ''
    if c == 'Quadratic':
        # COO arrays of equal lengths are preserved (Quadratic::quad_iter panics otherwise)
        pre = ' && '.join(['qcoo(%s)' % x for t, x in ((a, lhs), (b, rhs)) if t == 'Quadratic']) or 'true'
        coo = '\n            %s ==> qcoo(r),' % pre
    return ('''%s && %s ==> %s && forall|m: Map<u64, F64>| #![trigger %s] %s == %s %s %s - %s%s,
            %s.subset_of(%s.union(%s)),''' % (f(a, lhs), f(b, rhs), f(c, 'r'), v(c, 'r'), v(c, 'r'), v(a, lhs), OPSYM[op], v(b, rhs), rem, comm,
                                             i(c, 'r'), i(a, lhs), i(b, rhs))) + coo


def contract_conj(op, a, b, c, lhs='self', rhs='rhs'):
    """the same contract as one conjunction (for use under a quantifier)"""
    t = contract(op, a, b, c, lhs=lhs, rhs=rhs)
    clauses = [x.strip().rstrip(',') for x in t.split(',\n') if x.strip().rstrip(',')]
    return ' && '.join('(%s)' % x for x in clauses)


def spec_impl(op, a, b, c, req='true'):
    tr = TRAIT[op]
    return ('impl %sSpecImpl<%s> for %s { open spec fn obeys_%s_spec() -> bool { false } open spec fn %s_req(self, rhs: %s) -> bool { %s } '
            'open spec fn %s_spec(self, rhs: %s) -> %s { arbitrary() } }\n' % (tr, T[b]['rust'], T[a]['rust'], op, op, T[b]['rust'], req, op, T[b]['rust'], T[c]['rust']))


def leaf_spec_text():
    out = ['// ---- leaf remainders: 0 for map-free code, uninterpreted for the assumed BTreeMap-merge leaves ----\n']
    for op, a, b, c, kind in LEAVES:
        sig = 'pub %s spec fn %s(x: v1::%s, y: %s, m: Map<u64, F64>) -> real' % ('open' if kind in ('free', 'merge', 'deleg', 'merge2', 'mulll', 'pmerge', 'pmul', 'up', 'gmul', 'gmull', 'mup') else 'uninterp', rem_name(op, a, b), a, 'F64' if b == 'f64' else 'v1::' + b)
        if kind == 'merge2':
            assert (op, a, b) == ('add', 'Quadratic', 'Quadratic')
            out.append('pub open spec fn rem_add_quadratic_quadratic(x: v1::Quadratic, y: v1::Quadratic, m: Map<u64, F64>) -> real {\n'
                       '    quad_sum(x.rows@, x.columns@, x.values@, quad_n(x), m) + quad_sum(y.rows@, y.columns@, y.values@, quad_n(y), m)\n'
                       '        - ksum(kacc(quad_items(y), quad_n(y), true, kins(quad_items(x), quad_n(x))), qw2(m))\n'
                       '        + (match (x.linear, y.linear) { (Some(l), Some(r)) => rem_add_linear_linear(l, r, m), _ => 0real })\n}\n')
            continue
        if kind == 'pmerge':
            # verified leaf: Polynomial + Polynomial is the specified merge keyed by the id lists (accumulate, drop when |sum| <= EPSILON); remainder DEFINED as the difference
            assert (op, a, b) == ('add', 'Polynomial', 'Polynomial')
            out.append('pub open spec fn rem_add_polynomial_polynomial(x: v1::Polynomial, y: v1::Polynomial, m: Map<u64, F64>) -> real {\n'
                       '    polynomial_val(x, m) + polynomial_val(y, m) - ksum(kacc(pitems(x.terms@ + y.terms@), (x.terms.len() + y.terms.len()) as int, true, Map::empty()), pw(m))\n}\n')
            continue
        if kind == 'up':
            # verified macro instance impl_add_from!(Polynomial, B) = self + Polynomial::from(rhs): the upcast lists a map g (spec/up_spec.rs), and Polynomial + Polynomial merges that listing into the
            # accumulated terms of self - the result is kapply(.., g), whatever the order of the listing; the remainder is DEFINED as the difference to it
            assert op == 'add' and a == 'Polynomial'
            g = {'f64': 'cmap(y)', 'Linear': 'lmap(y)', 'Quadratic': 'qmap(y)'}[b]
            out.append(sig + ' { rem_add_up(x, %s, %s, m) }\n' % (g, v(b, 'y')))
            continue
        if kind == 'gmul':
            # verified leaf: the loops of Quadratic * Quadratic build the EXACT product of the two term lists (spec/iter_spec.rs) under canonical keys; the final collect drops the entries with |v| <= EPSILON
            assert (op, a, b) == ('mul', 'Quadratic', 'Quadratic')
            out.append(sig + ' { rem_gmul(quad_titems(x), quad_titems(y), m) }\n')
            continue
        if kind == 'gmull':
            # verified macro instance impl_mul_from!(Quadratic, Linear, Polynomial) = self * Quadratic::from(rhs): the upcast is exact (the linear part is rhs, no COO entries), so the term list of the
            # second operand is the keyed term list of rhs
            assert (op, a, b) == ('mul', 'Quadratic', 'Linear')
            out.append(sig + ' { rem_gmul(quad_titems(x), lkeyed(y), m) }\n')
            continue
        if kind == 'mup':
            # verified macro instance impl_mul_from!(Polynomial, B, Polynomial) = self * Polynomial::from(rhs): the upcast lists a map g with sorted keys; the product map of Polynomial * Polynomial does
            # not depend on the order of that listing (lemma_gmat_listing); the remainder is DEFINED: what the upcast dropped, times self, plus the entries the final collect drops
            assert op == 'mul' and a == 'Polynomial'
            g = {'Linear': 'lmap(y)', 'Quadratic': 'qmap(y)'}[b]
            out.append(sig + ' { rem_mul_up(x, %s, %s, m) }\n' % (g, v(b, 'y')))
            continue
        if kind == 'pmul':
            # verified leaf: the loops of Polynomial * Polynomial build the EXACT product under canonical (sorted) keys; the final collect drops the entries with |v| <= EPSILON
            assert (op, a, b) == ('mul', 'Polynomial', 'Polynomial')
            out.append('pub open spec fn rem_mul_polynomial_polynomial(x: v1::Polynomial, y: v1::Polynomial, m: Map<u64, F64>) -> real {\n'
                       '    let g = pmat(x.terms@, y.terms@, x.terms.len() as int); ksum(g, pw(m)) - ksum(kdrop(g), pw(m))\n}\n')
            continue
        if kind == 'mulll':
            # verified leaf: the quadratic part of Linear * Linear is exact; the linear part is (x * r) + (c * y) - r * c, whose only inexact step is that one Linear + Linear
            assert (op, a, b) == ('mul', 'Linear', 'Linear')
            out.append('pub open spec fn rem_mul_linear_linear(x: v1::Linear, y: v1::Linear, m: Map<u64, F64>) -> real {\n'
                       '    let p = lmul_parts(x, y); rem_add_linear_linear(p.0, p.1, m)\n}\n')
            continue
        if kind == 'deleg':
            # verified leaf that delegates to Linear + Linear on the linear part
            assert (op, a, b) == ('add', 'Quadratic', 'Linear')
            out.append('pub open spec fn rem_add_quadratic_linear(x: v1::Quadratic, y: v1::Linear, m: Map<u64, F64>) -> real {\n'
                       '    match x.linear { Some(l) => rem_add_linear_linear(l, y, m), None => 0real }\n}\n')
            continue
        if kind == 'merge':
            # verified leaf: the remainder is DEFINED as the difference to the specified BTreeMap merge (accumulate, drop when |sum| <= EPSILON)
            assert (op, a, b) == ('add', 'Linear', 'Linear')
            out.append('pub open spec fn rem_add_linear_linear(x: v1::Linear, y: v1::Linear, m: Map<u64, F64>) -> real {\n'
                       '    lin_all(x.terms@, m) + lin_all(y.terms@, m) - msum(acc(x.terms@ + y.terms@, (x.terms.len() + y.terms.len()) as int), m)\n}\n')
            continue
        out.append(sig + (' { 0real }\n' if kind == 'free' else ';\n'))
    # Function-level remainders by case on the dispatch arms (the order of the operands of the leaf call is that of the code)
    def arms(op):
        K = ['Constant', 'Linear', 'Quadratic', 'Polynomial']
        ty = {'Constant': 'f64', 'Linear': 'Linear', 'Quadratic': 'Quadratic', 'Polynomial': 'Polynomial'}
        lines = []
        for ka in K:
            for kb in K:
                if ka == 'Constant' and kb == 'Constant':
                    r = '0real'
                else:
                    # the code always calls  higher-kind OP lower-kind  (lhs = the higher one)
                    hi, lo, xa, xb = (ka, kb, 'x', 'y') if K.index(ka) >= K.index(kb) else (kb, ka, 'y', 'x')
                    r = '%s(%s, %s, m)' % (rem_name(op, ty[hi], ty[lo]), xa, xb)
                lines.append('        (Some(v1::function::Function::%s(x)), Some(v1::function::Function::%s(y))) => %s,' % (ka, kb, r))
        return '\n'.join(lines)
    for op, nm in (('add', 'add_rem'), ('mul', 'mul_rem')):
        out.append('pub open spec fn %s(a: v1::Function, b: v1::Function, m: Map<u64, F64>) -> real {\n    match (a.function, b.function) {\n%s\n        _ => 0real,\n    }\n}\n' % (nm, arms(op)))
    out.append('pub open spec fn neg_rem(a: v1::Function, m: Map<u64, F64>) -> real { 0real }\n')
    return ''.join(out)


def leaf_stubs():
    """assumed contracts of the BTreeMap-merge leaves (T5)"""
    out = []
    names = []
    for op, a, b, c, kind in LEAVES:
        if kind != 'map':
            continue
        tr = TRAIT[op]
        # the term iterator of a Quadratic operand asserts equal COO lengths
        req = ' && '.join(['qcoo(%s)' % x for t, x in ((a, 'self'), (b, 'rhs')) if t == 'Quadratic']) or 'true'
        out.append(spec_impl(op, a, b, c, req=req))
        out.append('impl core::ops::%s<%s> for %s { type Output = %s;\n    #[verifier::external_body] fn %s(self, rhs: %s) -> (r: %s)\n        ensures %s\n    { unimplemented!() } }\n'
                   % (tr, T[b]['rust'], T[a]['rust'], T[c]['rust'], op, T[b]['rust'], T[c]['rust'], contract(op, a, b, c)))
        names.append('%s %s %s' % (a, OPSYM[op], b))
    return ''.join(out), names


# ---------------------------------------------------------------- real units: map-free leaves
def linear_add_f64():
    return Unit('Add<f64> for Linear', 'linear.rs', 'add', impl=r'impl Add<f64> for Linear \{', sig='fn add(self, rhs: f64) -> Self', anyhow=False,
                pre=spec_impl('add', 'Linear', 'f64', 'Linear'), wrap=('impl core::ops::Add<F64> for Linear { type Output = Linear;', '}'),
                header='fn add(self, rhs: F64) -> (r: Linear)\n        ensures ' + contract('add', 'Linear', 'f64', 'Linear') + '\n            r.terms == self.terms,')


def linear_mul_f64():
    return Unit('Mul<f64> for Linear', 'linear.rs', 'mul', impl=r'impl Mul<f64> for Linear \{', sig='fn mul(mut self, rhs: f64) -> Self', anyhow=False, mut_self=True,
                pre=spec_impl('mul', 'Linear', 'f64', 'Linear'), wrap=('impl core::ops::Mul<F64> for Linear { type Output = Linear;', '}'),
                header='fn mul(self, rhs: F64) -> (r: Linear)\n        ensures ' + contract('mul', 'Linear', 'f64', 'Linear') + '\n            linear_fin(self) && fin(rhs) ==> lin_scaled(r, self, rhs),',
                loops=[dict(kind='for', mut_index=True, inv='''invariant
                0 <= __i1 <= this.terms.len(), this.terms.len() == self.terms.len(), this.constant == self.constant,
                forall|j: int| 0 <= j < __i1 ==> (#[trigger] this.terms[j]).id == self.terms[j].id && (fin(self.terms[j].coefficient) && fin(rhs) ==> this.terms[j].coefficient@ == XR::Fin(rv(self.terms[j].coefficient) * rv(rhs))),
                forall|j: int| __i1 <= j < this.terms.len() ==> #[trigger] this.terms[j] == self.terms[j],
            decreases this.terms.len() - __i1''')],
                proofs=[(('before', r'return\s+Linear::zero\(\)\s*;'), '''proof { if fin(rhs) { assert(rv(rhs) == 0real); assert forall|m: Map<u64, F64>| #![trigger linear_val(self, m)] linear_val(self, m) * rv(rhs) == 0real by {
                assert(linear_val(self, m) * 0real == 0real) by(nonlinear_arith); } } }
            '''),
                        (('before', r'this\s*\}\s*$'), '''proof { if linear_fin(self) && fin(rhs) { assert forall|m: Map<u64, F64>| #![trigger linear_val(this, m)] linear_val(this, m) == linear_val(self, m) * rv(rhs) by {
                lemma_lin_scale(self.terms@, this.terms@, self.terms.len() as int, rv(rhs), m);
                assert((rv(self.constant) + lin_all(self.terms@, m)) * rv(rhs) == rv(self.constant) * rv(rhs) + lin_all(self.terms@, m) * rv(rhs)) by(nonlinear_arith); }
            }
            lemma_lin_ids_same(self.terms@, this.terms@, self.terms.len() as int); }
        ''')])


def zero_linear():
    return [Unit('Zero::zero for Linear', 'linear.rs', 'zero', impl=r'impl Zero for Linear \{', sig='fn zero() -> Self', anyhow=False, wrap=('impl Zero for Linear {', ''),
                 header='fn zero() -> (r: Self)\n        ensures r.terms.len() == 0, r.constant@ == XR::Fin(0real), linear_ids(r) == Set::<u64>::empty(),'),
            Unit('Zero::is_zero for Linear', 'linear.rs', 'is_zero', impl=r'impl Zero for Linear \{', sig='fn is_zero(&self) -> bool', anyhow=False, wrap=('', '}'),
                 header='fn is_zero(&self) -> (r: bool)\n        ensures r == (self.terms.len() == 0 && self.constant@ == XR::Fin(0real)),')]


def from_units():
    U = []
    def FROM(name, file, impl_rx, src, dst, sig, ens):
        return Unit(name, file, 'from', impl=impl_rx, sig=sig, anyhow=False,
                    pre='impl vstd::std_specs::convert::FromSpecImpl<%s> for %s { open spec fn obeys_from_spec() -> bool { false } open spec fn from_spec(v: %s) -> Self { arbitrary() } }\n' % (src, dst, src),
                    wrap=('impl From<%s> for %s {' % (src, dst), '}'), header='fn from(%s) -> (r: Self)\n        ensures %s' % (sig, ens))
    U.append(FROM('From<f64> for Linear', 'linear.rs', r'impl From<f64> for Linear \{', 'F64', 'Linear', 'constant: F64', 'r.terms.len() == 0, r.constant == constant,'))
    U[-1].sig = 'fn from(constant: f64) -> Self'
    U.append(FROM('From<Linear> for Quadratic', 'quadratic.rs', r'impl From<Linear> for Quadratic \{', 'Linear', 'Quadratic', 'l: Linear', 'r.columns.len() == 0, r.rows.len() == 0, r.values.len() == 0, r.linear == Some(l),'))
    U[-1].sig = 'fn from(l: Linear) -> Self'
    for src, var, arm in (('function::Function', 'f', None), ('Linear', 'linear', 'Linear'), ('Quadratic', 'q', 'Quadratic'), ('Polynomial', 'poly', 'Polynomial'), ('f64', 'f', 'Constant')):
        rs = 'F64' if src == 'f64' else ('FunctionEnum' if src == 'function::Function' else src)
        ens = 'r.function == Some(%s),' % (var if arm is None else 'FunctionEnum::%s(%s)' % (arm, var))
        u = FROM('From<%s> for Function' % src, 'v1_ext/function.rs', r'impl From<%s> for Function \{' % core.re.escape(src), rs, 'Function', '%s: %s' % (var, rs), ens)
        u.sig = 'fn from(%s: %s) -> Self' % (var, src)
        U.append(u)
    return U


DISPATCH_REQ = 'self.function is Some && rhs.function is Some && fn_coo_ok(self) && fn_coo_ok(rhs)'


def function_add():
    return Unit('Add for Function', 'v1_ext/function.rs', 'add', impl=r'impl Add for Function \{', sig='fn add(self, rhs: Self) -> Self', anyhow=False,
                pre=spec_impl('add', 'Function', 'Function', 'Function', req=DISPATCH_REQ), wrap=('impl core::ops::Add for Function { type Output = Function;', '}'),
                header='fn add(self, rhs: Self) -> (r: Self)\n        // every one of the 16 operand-kind pairs: the sum of the two polynomials (explicit epsilon-drop remainder), in a kind able to hold it\n        ensures r.function is Some,\n            fn_ids(r).subset_of(fn_ids(self).union(fn_ids(rhs))),\n            fn_fin(self) && fn_fin(rhs) ==> fn_fin(r),\n            fn_fin(self) && fn_fin(rhs) ==> forall|m: Map<u64, F64>| #![trigger fn_val(r, m)] fn_val(r, m) == fn_val(self, m) + fn_val(rhs, m) - add_rem(self, rhs, m),\n            is_sum(r, self, rhs),\n            fn_coo_ok(r),',
                subs=[('self.function.expect(StrLit(%d))' % __import__('zlib').crc32(b'Empty Function'), 'self.function.unwrap()')] if False else [],
                rsubs=[(r'\.expect\("Empty Function"\)', '.unwrap()', 2)])


def function_mul():
    return Unit('Mul for Function', 'v1_ext/function.rs', 'mul', impl=r'impl Mul for Function \{', sig='fn mul(self, rhs: Self) -> Self', anyhow=False,
                pre=spec_impl('mul', 'Function', 'Function', 'Function', req=DISPATCH_REQ), wrap=('impl core::ops::Mul for Function { type Output = Function;', '}'),
                header='fn mul(self, rhs: Self) -> (r: Self)\n        // products that raise the degree are returned in a kind able to hold every resulting term\n        ensures r.function is Some,\n            fn_ids(r).subset_of(fn_ids(self).union(fn_ids(rhs))),\n            fn_fin(self) && fn_fin(rhs) ==> fn_fin(r),\n            fn_fin(self) && fn_fin(rhs) ==> forall|m: Map<u64, F64>| #![trigger fn_val(r, m)] fn_val(r, m) == fn_val(self, m) * fn_val(rhs, m) - mul_rem(self, rhs, m),\n            is_prod(r, self, rhs),\n            fn_coo_ok(r),',
                rsubs=[(r'\.expect\("Empty Function"\)', '.unwrap()', 2)])


LEMMAS = '''// ---- scaling lemma for the map-free leaves ----
pub proof fn lemma_lin_scale(a: Seq<v1::linear::Term>, b: Seq<v1::linear::Term>, n: int, c: real, m: Map<u64, F64>)
    requires 0 <= n <= a.len(), n <= b.len(), forall|j: int| 0 <= j < n ==> (#[trigger] b[j]).id == a[j].id && rv(b[j].coefficient) == rv(a[j].coefficient) * c
    ensures lin_sum(b, n, m) == lin_sum(a, n, m) * c
    decreases n
{
    if n > 0 {
        lemma_lin_scale(a, b, n - 1, c, m);
        let s = lin_sum(a, n - 1, m); let k = rv(a[n - 1].coefficient); let x = sval(m, a[n - 1].id);
        assert((s + k * x) * c == s * c + (k * c) * x) by(nonlinear_arith);
    }
}
pub proof fn lemma_lin_ids_same(a: Seq<v1::linear::Term>, b: Seq<v1::linear::Term>, n: int)
    requires 0 <= n <= a.len(), n <= b.len(), forall|j: int| 0 <= j < n ==> (#[trigger] b[j]).id == a[j].id
    ensures lin_ids(b, n) == lin_ids(a, n)
    decreases n
{ if n > 0 { lemma_lin_ids_same(a, b, n - 1); } }
'''


def quadratic_add_f64():
    return Unit('Add<f64> for Quadratic', 'quadratic.rs', 'add', impl=r'impl Add<f64> for Quadratic \{', sig='fn add(mut self, rhs: f64) -> Self', anyhow=False, mut_self=True,
                pre=spec_impl('add', 'Quadratic', 'f64', 'Quadratic'), wrap=('impl core::ops::Add<F64> for Quadratic { type Output = Quadratic;', '}'),
                header='fn add(self, rhs: F64) -> (r: Quadratic)\n        ensures ' + contract('add', 'Quadratic', 'f64', 'Quadratic'))


def quadratic_mul_f64():
    return Unit('Mul<f64> for Quadratic', 'quadratic.rs', 'mul', impl=r'impl Mul<f64> for Quadratic \{', sig='fn mul(mut self, rhs: f64) -> Self', anyhow=False, mut_self=True,
                pre=spec_impl('mul', 'Quadratic', 'f64', 'Quadratic'), wrap=('impl core::ops::Mul<F64> for Quadratic { type Output = Quadratic;', '}'),
                header='fn mul(self, rhs: F64) -> (r: Quadratic)\n        ensures ' + contract('mul', 'Quadratic', 'f64', 'Quadratic'),
                loops=[dict(kind='for', mut_index=True, inv='''invariant
                0 <= __i1 <= this.values.len(), this.values.len() == self.values.len(), this.rows == self.rows, this.columns == self.columns, this.linear == self.linear,
                forall|j: int| 0 <= j < __i1 ==> (fin(self.values[j]) && fin(rhs) ==> (#[trigger] this.values[j])@ == XR::Fin(rv(self.values[j]) * rv(rhs))),
                forall|j: int| __i1 <= j < this.values.len() ==> #[trigger] this.values[j] == self.values[j],
            decreases this.values.len() - __i1''')],
                proofs=[(('before', r'if let Some\(linear\) = this\.linear'), '''proof { if quadratic_fin(self) && fin(rhs) { assert forall|m: Map<u64, F64>| quad_sum(this.rows@, this.columns@, this.values@, quad_n(this), m) == quad_sum(self.rows@, self.columns@, self.values@, quad_n(self), m) * rv(rhs) by {
                lemma_quad_scale(self.rows@, self.columns@, self.values@, this.values@, quad_n(self), rv(rhs), m); } } }
        let ghost mid = this;
        '''),
                        (('before', r'this\s*\}\s*$'), '''proof { if quadratic_fin(self) && fin(rhs) { assert forall|m: Map<u64, F64>| #![trigger quadratic_val(this, m)] quadratic_val(this, m) == quadratic_val(self, m) * rv(rhs) by {
                let a = quadratic_lin_val(self, m); let b = quad_sum(self.rows@, self.columns@, self.values@, quad_n(self), m);
                assert((a + b) * rv(rhs) == a * rv(rhs) + b * rv(rhs)) by(nonlinear_arith);
                assert(quad_sum(this.rows@, this.columns@, this.values@, quad_n(this), m) == quad_sum(mid.rows@, mid.columns@, mid.values@, quad_n(mid), m));
            } } }
        ''')])


def polynomial_mul_f64():
    return Unit('Mul<f64> for Polynomial', 'polynomial.rs', 'mul', impl=r'impl Mul<f64> for Polynomial \{', sig='fn mul(mut self, rhs: f64) -> Self', anyhow=False, mut_self=True,
                pre=spec_impl('mul', 'Polynomial', 'f64', 'Polynomial'), wrap=('impl core::ops::Mul<F64> for Polynomial { type Output = Polynomial;', '}'),
                header='fn mul(self, rhs: F64) -> (r: Polynomial)\n        ensures ' + contract('mul', 'Polynomial', 'f64', 'Polynomial'),
                loops=[dict(kind='for', mut_index=True, inv='''invariant
                0 <= __i1 <= this.terms.len(), this.terms.len() == self.terms.len(),
                forall|j: int| 0 <= j < __i1 ==> (#[trigger] this.terms[j]).ids == self.terms[j].ids && (fin(self.terms[j].coefficient) && fin(rhs) ==> this.terms[j].coefficient@ == XR::Fin(rv(self.terms[j].coefficient) * rv(rhs))),
                forall|j: int| __i1 <= j < this.terms.len() ==> #[trigger] this.terms[j] == self.terms[j],
            decreases this.terms.len() - __i1''')],
                proofs=[(('before', r'this\s*\}\s*$'), '''proof { if poly_fin(self.terms@) && fin(rhs) { assert forall|m: Map<u64, F64>| #![trigger polynomial_val(this, m)] polynomial_val(this, m) == polynomial_val(self, m) * rv(rhs) by {
                lemma_poly_scale(self.terms@, this.terms@, self.terms.len() as int, rv(rhs), m); } }
            lemma_poly_ids_same(self.terms@, this.terms@, self.terms.len() as int); }
        ''')])


def zero_quadratic_polynomial():
    return [Unit('Zero::zero for Quadratic', 'quadratic.rs', 'zero', impl=r'impl Zero for Quadratic \{', sig='fn zero() -> Self', anyhow=False,
                 wrap=('impl Zero for Quadratic {', '''    // is_zero: closure over Option::is_none_or (T5 assumed)
    #[verifier::external_body] fn is_zero(&self) -> (r: bool)
        ensures r == (self.columns.len() == 0 && self.rows.len() == 0 && self.values.len() == 0 && (self.linear is None || (self.linear->Some_0.terms.len() == 0 && self.linear->Some_0.constant@ == XR::Fin(0real))))
    { unimplemented!() }
}'''),
                 header='fn zero() -> (r: Self)\n        ensures r.columns.len() == 0, r.rows.len() == 0, r.values.len() == 0, r.linear is Some, r.linear->Some_0.terms.len() == 0, r.linear->Some_0.constant@ == XR::Fin(0real),'),
            Unit('Zero::zero for Polynomial', 'polynomial.rs', 'zero', impl=r'impl Zero for Polynomial \{', sig='fn zero() -> Self', anyhow=False,
                 wrap=('impl Zero for Polynomial {', '''    #[verifier::external_body] fn is_zero(&self) -> bool { unimplemented!() }
}'''),
                 header='fn zero() -> (r: Self)\n        ensures r.terms.len() == 0,')]


LEMMAS += '''pub proof fn lemma_quad_scale(r: Seq<u64>, c: Seq<u64>, a: Seq<F64>, b: Seq<F64>, n: int, k: real, m: Map<u64, F64>)
    requires 0 <= n <= a.len(), n <= b.len(), n <= r.len(), n <= c.len(), forall|j: int| 0 <= j < n ==> rv(#[trigger] b[j]) == rv(a[j]) * k
    ensures quad_sum(r, c, b, n, m) == quad_sum(r, c, a, n, m) * k
    decreases n
{
    if n > 0 {
        lemma_quad_scale(r, c, a, b, n - 1, k, m);
        let s = quad_sum(r, c, a, n - 1, m); let v = rv(a[n - 1]); let x = sval(m, r[n - 1]); let y = sval(m, c[n - 1]);
        let vb = rv(b[n - 1]); let sb = quad_sum(r, c, b, n - 1, m);
        assert(vb == v * k);
        assert(sb == s * k);
        assert(quad_sum(r, c, b, n, m) == sb + vb * x * y);
        assert(quad_sum(r, c, a, n, m) == s + v * x * y);
        assert(sb + vb * x * y == (s + v * x * y) * k) by(nonlinear_arith) requires sb == s * k, vb == v * k;
    }
}
pub proof fn lemma_mono_scale(c: real, k: real, ids: Seq<u64>, j: int, m: Map<u64, F64>)
    requires 0 <= j <= ids.len()
    ensures mono_val(c * k, ids, j, m) == mono_val(c, ids, j, m) * k
    decreases j
{
    if j > 0 {
        lemma_mono_scale(c, k, ids, j - 1, m);
        let p = mono_val(c, ids, j - 1, m); let x = sval(m, ids[j - 1]);
        assert((p * k) * x == (p * x) * k) by(nonlinear_arith);
    }
}
pub proof fn lemma_poly_scale(a: Seq<v1::Monomial>, b: Seq<v1::Monomial>, n: int, k: real, m: Map<u64, F64>)
    requires 0 <= n <= a.len(), n <= b.len(), forall|j: int| 0 <= j < n ==> (#[trigger] b[j]).ids == a[j].ids && rv(b[j].coefficient) == rv(a[j].coefficient) * k
    ensures poly_sum(b, n, m) == poly_sum(a, n, m) * k
    decreases n
{
    if n > 0 {
        lemma_poly_scale(a, b, n - 1, k, m);
        lemma_mono_scale(rv(a[n - 1].coefficient), k, a[n - 1].ids@, a[n - 1].ids.len() as int, m);
        let s = poly_sum(a, n - 1, m); let t = mono_val(rv(a[n - 1].coefficient), a[n - 1].ids@, a[n - 1].ids.len() as int, m);
        assert((s + t) * k == s * k + t * k) by(nonlinear_arith);
    }
}
pub proof fn lemma_poly_ids_same(a: Seq<v1::Monomial>, b: Seq<v1::Monomial>, n: int)
    requires 0 <= n <= a.len(), n <= b.len(), forall|j: int| 0 <= j < n ==> (#[trigger] b[j]).ids == a[j].ids
    ensures poly_ids(b, n) == poly_ids(a, n)
    decreases n
{ if n > 0 { lemma_poly_ids_same(a, b, n - 1); } }
'''


# ---------------------------------------------------------------- macro-generated impls (macros.rs), Function level
CONV = {'f64': 'fn_of_f64', 'Linear': 'fn_of_linear', 'Quadratic': 'fn_of_quadratic', 'Polynomial': 'fn_of_polynomial', 'Function': 'fn_of_function'}
CONV_SPEC = '''// ---- upcasts into Function (the From impls of v1_ext/function.rs, verified as units) ----
pub open spec fn fn_of_f64(c: F64) -> v1::Function { v1::Function { function: Some(v1::function::Function::Constant(c)) } }
pub open spec fn fn_of_linear(l: v1::Linear) -> v1::Function { v1::Function { function: Some(v1::function::Function::Linear(l)) } }
pub open spec fn fn_of_quadratic(q: v1::Quadratic) -> v1::Function { v1::Function { function: Some(v1::function::Function::Quadratic(q)) } }
pub open spec fn fn_of_polynomial(p: v1::Polynomial) -> v1::Function { v1::Function { function: Some(v1::function::Function::Polynomial(p)) } }
pub open spec fn fn_of_function(f: v1::Function) -> v1::Function { f }
// exact negation of a typed operand (`self * -1.0` on a map-free leaf: no remainder)
pub open spec fn neg_f64(n: F64, a: F64) -> bool { n@ == xr_neg(a@) }
pub open spec fn neg_linear(n: v1::Linear, a: v1::Linear) -> bool { linear_ids(n).subset_of(linear_ids(a)) && (linear_fin(a) ==> linear_fin(n) && forall|m: Map<u64, F64>| #![trigger linear_val(n, m)] linear_val(n, m) == -linear_val(a, m)) }
pub open spec fn neg_quadratic(n: v1::Quadratic, a: v1::Quadratic) -> bool { quadratic_ids(n).subset_of(quadratic_ids(a)) && (quadratic_fin(a) ==> quadratic_fin(n) && forall|m: Map<u64, F64>| #![trigger quadratic_val(n, m)] quadratic_val(n, m) == -quadratic_val(a, m)) }
pub open spec fn neg_polynomial(n: v1::Polynomial, a: v1::Polynomial) -> bool { polynomial_ids(n).subset_of(polynomial_ids(a)) && (poly_fin(a.terms@) ==> poly_fin(n.terms@) && forall|m: Map<u64, F64>| #![trigger polynomial_val(n, m)] polynomial_val(n, m) == -polynomial_val(a, m)) }
pub open spec fn neg_function(n: v1::Function, a: v1::Function) -> bool { is_neg(n, a) }
// a - b is built as a + (-b): the difference up to the remainder of that one addition
pub open spec fn is_diff_function(r: v1::Function, a: v1::Function, b: v1::Function) -> bool { exists|n: v1::Function| #![trigger is_sum(r, a, n)] neg_function(n, b) && is_sum(r, a, n) }
pub open spec fn is_diff_f64(r: v1::Function, a: v1::Function, b: F64) -> bool { exists|n: F64| #![trigger fn_of_f64(n)] neg_f64(n, b) && is_sum(r, a, fn_of_f64(n)) }
pub open spec fn is_diff_linear(r: v1::Function, a: v1::Function, b: v1::Linear) -> bool { exists|n: v1::Linear| #![trigger fn_of_linear(n)] neg_linear(n, b) && is_sum(r, a, fn_of_linear(n)) }
pub open spec fn is_diff_quadratic(r: v1::Function, a: v1::Function, b: v1::Quadratic) -> bool { exists|n: v1::Quadratic| #![trigger fn_of_quadratic(n)] neg_quadratic(n, b) && is_sum(r, a, fn_of_quadratic(n)) }
pub open spec fn is_diff_polynomial(r: v1::Function, a: v1::Function, b: v1::Polynomial) -> bool { exists|n: v1::Polynomial| #![trigger fn_of_polynomial(n)] neg_polynomial(n, b) && is_sum(r, a, fn_of_polynomial(n)) }
pub proof fn lemma_mul_rem_const(a: v1::Function, c: F64, m: Map<u64, F64>)
    ensures mul_rem(a, fn_of_f64(c), m) == 0real
{}
'''


def _req_some(x):
    return '%s.function is Some && fn_coo_ok(%s)' % (x, x)


def macro_units():
    """One unit per macro instance of macros.rs in v1_ext/function.rs (and the Neg instances of linear/quadratic/polynomial.rs): the text is the mechanical
    expansion of the macro definition with the instance's arguments."""
    U = []
    FN = 'v1_ext/function.rs'

    def unit(macro, args, ln, file, fname, wrap_head, pre, header, proofs=(), rsubs=()):
        t = core.expand_macro('macros.rs', macro, args)
        return Unit('%s!(%s)' % (macro, ', '.join(args)), file, fname, text=(t, ln), anyhow=False, pre=pre, wrap=(wrap_head, '}'), header=header, proofs=list(proofs),
                    rsubs=[(r'<(\w+)>::from\(', r'\1::from(', None)] + list(rsubs))

    def si(tr, op, a, b, c, req):
        return ('impl %sSpecImpl<%s> for %s { open spec fn obeys_%s_spec() -> bool { false } open spec fn %s_req(self, rhs: %s) -> bool { %s } '
                'open spec fn %s_spec(self, rhs: %s) -> %s { arbitrary() } }\n' % (tr, T[b]['rust'], T[a]['rust'], op, op, T[b]['rust'], req, op, T[b]['rust'], T[c]['rust']))

    for args, ln in core.macro_invocations(FN, 'impl_add_from'):
        a, b = args
        if a != 'Function' or b not in CONV:
            raise core.LostAnchor('unexpected impl_add_from! instance %s' % args)
        U.append(unit('impl_add_from', args, ln, FN, 'add', 'impl core::ops::Add<%s> for Function { type Output = Function;' % T[b]['rust'], si('Add', 'add', a, b, 'Function', _req_some('self') + ' && fn_coo_ok(%s(rhs))' % CONV[b]),
                      'fn add(self, rhs: %s) -> (r: Function)\n        ensures is_sum(r, self, %s(rhs)), fn_coo_ok(r),' % (T[b]['rust'], CONV[b])))
    for args, ln in core.macro_invocations(FN, 'impl_add_inverse'):
        a, b = args
        if b != 'Function' or a not in CONV:
            raise core.LostAnchor('unexpected impl_add_inverse! instance %s' % args)
        U.append(unit('impl_add_inverse', args, ln, FN, 'add', 'impl core::ops::Add<Function> for %s { type Output = Function;' % T[a]['rust'], si('Add', 'add', a, b, 'Function', _req_some('rhs') + ' && fn_coo_ok(%s(self))' % CONV[a]),
                      'fn add(self, rhs: Function) -> (r: Function)\n        // commuted: the sum is computed as rhs + self\n        ensures is_sum(r, rhs, %s(self)), fn_coo_ok(r),' % CONV[a]))
    for args, ln in core.macro_invocations(FN, 'impl_mul_from'):
        a, b, c = args
        if a != 'Function' or c != 'Function' or b not in CONV:
            raise core.LostAnchor('unexpected impl_mul_from! instance %s' % args)
        U.append(unit('impl_mul_from', args, ln, FN, 'mul', 'impl core::ops::Mul<%s> for Function { type Output = Function;' % T[b]['rust'], si('Mul', 'mul', a, b, 'Function', _req_some('self') + ' && fn_coo_ok(%s(rhs))' % CONV[b]),
                      'fn mul(self, rhs: %s) -> (r: Function)\n        ensures is_prod(r, self, %s(rhs)), fn_coo_ok(r),' % (T[b]['rust'], CONV[b])))
    for args, ln in core.macro_invocations(FN, 'impl_mul_inverse'):
        a, b = args
        if b != 'Function' or a not in CONV:
            raise core.LostAnchor('unexpected impl_mul_inverse! instance %s' % args)
        U.append(unit('impl_mul_inverse', args, ln, FN, 'mul', 'impl core::ops::Mul<Function> for %s { type Output = Function;' % T[a]['rust'], si('Mul', 'mul', a, b, 'Function', _req_some('rhs') + ' && fn_coo_ok(%s(self))' % CONV[a]),
                      'fn mul(self, rhs: Function) -> (r: Function)\n        ensures is_prod(r, rhs, %s(self)), fn_coo_ok(r),' % CONV[a]))
    # Neg: `self * -1.0`
    NEGP = {'Function': ('is_neg(r, self) && fn_coo_ok(r)', 'self.function is Some && fn_coo_ok(self)'), 'Linear': ('neg_linear(r, self)', 'true'), 'Quadratic': ('neg_quadratic(r, self) && (qcoo(self) ==> qcoo(r))', 'true'), 'Polynomial': ('neg_polynomial(r, self)', 'true')}
    for file, ty in ((FN, 'Function'), ('linear.rs', 'Linear'), ('quadratic.rs', 'Quadratic'), ('polynomial.rs', 'Polynomial')):
        inv = core.macro_invocations(file, 'impl_neg_by_mul')
        if [a for a, _ in inv] != [[ty]]:
            raise core.LostAnchor('unexpected impl_neg_by_mul! instances in %s: %s' % (file, inv))
        ln = inv[0][1]
        t = core.expand_macro('macros.rs', 'impl_neg_by_mul', [ty])
        # the macro defines two impls: by value and by reference
        parts = t.split('impl ::std::ops::Neg for &')
        if len(parts) != 2:
            raise core.LostAnchor('impl_neg_by_mul! no longer defines exactly the by-value and the by-reference impl')
        post, req = NEGP[ty]
        proof = ''
        negone = ' proof { assert(xr_neg(XR::Fin(10real / 10real)) == XR::Fin(-1real)); }\n'
        if ty == 'Function':
            proof = ' proof { assert forall|c: F64, m: Map<u64, F64>| #![trigger mul_rem(self, fn_of_f64(c), m)] mul_rem(self, fn_of_f64(c), m) == 0real by { lemma_mul_rem_const(self, c, m); } }\n'
        nsi = 'impl NegSpecImpl for %s { open spec fn obeys_neg_spec() -> bool { false } open spec fn neg_req(self) -> bool { %s } open spec fn neg_spec(self) -> %s { arbitrary() } }\n' % (ty, req, ty)
        U.append(Unit('impl_neg_by_mul!(%s) [by value]' % ty, file, 'neg', text=(parts[0], ln), anyhow=False, pre=nsi, wrap=('impl core::ops::Neg for %s { type Output = %s;' % (ty, ty), '}'),
                      header='fn neg(self) -> (r: %s)\n        ensures %s,' % (ty, post), proofs=[('start', negone + proof)]))
        nsi2 = "impl<'a> NegSpecImpl for &'a %s { open spec fn obeys_neg_spec() -> bool { false } open spec fn neg_req(self) -> bool { %s } open spec fn neg_spec(self) -> %s { arbitrary() } }\n" % (ty, req.replace('fn_coo_ok(self)', 'fn_coo_ok(*self)'), ty)
        U.append(Unit('impl_neg_by_mul!(%s) [by reference]' % ty, file, 'neg', text=('impl ::std::ops::Neg for &' + parts[1], ln), anyhow=False, pre=nsi2,
                      wrap=("impl<'a> core::ops::Neg for &'a %s { type Output = %s;" % (ty, ty), '}'),
                      header='fn neg(self) -> (r: %s)\n        ensures %s,' % (ty, post.replace('self', '*self')), proofs=[('start', negone + proof.replace('(self,', '(*self,'))]))
    for args, ln in core.macro_invocations(FN, 'impl_sub_by_neg_add'):
        a, b = args
        if a != 'Function' or b not in CONV:
            raise core.LostAnchor('unexpected impl_sub_by_neg_add! instance %s' % args)
        U.append(unit('impl_sub_by_neg_add', args, ln, FN, 'sub', 'impl core::ops::Sub<%s> for Function { type Output = Function;' % T[b]['rust'],
                      si('Sub', 'sub', a, b, 'Function', _req_some('self') + (' && rhs.function is Some' if b == 'Function' else '') + ' && fn_coo_ok(%s(rhs))' % CONV[b]),
                      'fn sub(self, rhs: %s) -> (r: Function)\n        ensures is_diff_%s(r, self, rhs), fn_coo_ok(r),' % (T[b]['rust'], low(b))))
    return U



# ---------------------------------------------------------------- verified BTreeMap-merge leaf: Linear + Linear (entry API with prophecy contracts)
MERGE_STUBS = '''// BTreeMap::into_iter().map(|(id, coefficient)| Term { id, coefficient }).collect(): the entries in ascending key order (T4)
#[verifier::external_body]
pub fn btree_into_terms(m: BTreeMap<u64, F64>) -> (r: Vec<Term>)
    ensures r.len() == m@.len(),
        forall|i: int| 0 <= i < r.len() ==> m@.contains_key((#[trigger] r[i]).id) && m@[r[i].id] == r[i].coefficient,
        forall|i: int, j: int| 0 <= i < j < r.len() ==> r[i].id < r[j].id,
        forall|k: u64| #[trigger] m@.contains_key(k) ==> exists|i: int| 0 <= i < r.len() && (#[trigger] r[i]).id == k,
{ unimplemented!() }
'''


def linear_add_linear():
    N = '(self.terms.len() + rhs.terms.len()) as int'
    final_proof = '''let ghost n = %s; let ghost am = acc(ch, n);
        // R20c: the field initialiser `terms: <expr>` is hoisted into a `let` in front of the struct literal (same evaluation order) so that the proof can name it
        let __t = btree_into_terms(terms);
        proof {
            if linear_fin(self) && linear_fin(rhs) {
                assert(terms_fin(ch)) by { assert forall|i: int| 0 <= i < ch.len() implies fin((#[trigger] ch[i]).coefficient) by {
                    if i < self.terms.len() { assert(ch[i] == self.terms[i]); } else { assert(ch[i] == rhs.terms[i - self.terms.len()]); } } }
                assert(am.dom() =~= terms@.dom());
                assert(lists_map(__t@, __t.len() as int, am));
                assert forall|m: Map<u64, F64>| lin_sum(__t@, __t.len() as int, m) == msum(am, m) by { lemma_list_sum(__t@, __t.len() as int, am, m); }
                assert forall|m: Map<u64, F64>| lin_all(ch, m) == lin_all(self.terms@, m) + lin_all(rhs.terms@, m) by { lemma_lin_sum_concat(self.terms@, rhs.terms@, rhs.terms.len() as int, m); }
            }
            assert forall|k: u64| lin_ids(__t@, __t.len() as int).contains(k) implies linear_ids(self).union(linear_ids(rhs)).contains(k) by {
                lemma_lin_ids_mem(__t@, __t.len() as int, k);
                let i = choose|i: int| 0 <= i < __t.len() && (#[trigger] __t[i]).id == k;
                assert(terms@.contains_key(__t[i].id));
                lemma_lin_ids_concat(self.terms@, rhs.terms@, n, k); }
        }
        ''' % N
    return Unit('Add for Linear', 'linear.rs', 'add', impl=r'impl Add for Linear \{', sig='fn add(self, rhs: Self) -> Self', anyhow=False,
                pre=spec_impl('add', 'Linear', 'Linear', 'Linear'), wrap=('impl core::ops::Add for Linear { type Output = Linear;', '}'),
                header='''#[verifier::loop_isolation(false)]
fn add(self, rhs: Self) -> (r: Linear)
        // the result IS the specified merge of the two term lists: ids strictly increasing, one term per key of acc(..) with its value, the constants added;
        // hence (remainder defined as the difference to that merge) the value contract shared by all operator impls
        ensures
            linear_fin(self) && linear_fin(rhs) ==> lists_map(r.terms@, r.terms.len() as int, acc(self.terms@ + rhs.terms@, %s)) && r.constant@ == XR::Fin(rv(self.constant) + rv(rhs.constant)),
            forall|i: int, j: int| 0 <= i < j < r.terms.len() ==> r.terms[i].id < r.terms[j].id,
            linear_fin(self) && linear_fin(rhs) ==> linear_fin(r) && forall|m: Map<u64, F64>| #![trigger linear_val(r, m)] linear_val(r, m) == linear_val(self, m) + linear_val(rhs, m) - rem_add_linear_linear(self, rhs, m),
            linear_ids(r).subset_of(linear_ids(self).union(linear_ids(rhs))),''' % N,
                renames=[(r'let mut (\w+) = BTreeMap::new\(\);', 'terms')],
                rsubs=[(r'let mut terms = BTreeMap::new\(\);', 'let mut terms: BTreeMap<u64, F64> = BTreeMap::new();', 1),
                       (r'self\.terms\.iter\(\)\.chain\(rhs\.terms\.iter\(\)\)', 'chain_refs(&self.terms, &rhs.terms)', 1),
                       (r'(?s)terms\.into_iter\(\)\.map\(\|\(id, coefficient\)\| Term \{ id, coefficient \}\)\.collect\(\)', 'btree_into_terms(terms)', 1)],
                loops=[dict(kind='for', it='it_1', rebind='*__e',
                            body_proof=' proof { assert(**__e == ch[it_1.index@ as int]); }',
                            inv='''invariant
                ch == self.terms@ + rhs.terms@, __h1.len() == ch.len(),
                forall|i: int| 0 <= i < ch.len() ==> *(#[trigger] __h1[i]) == ch[i],
                terms_fin(ch) ==> map_matches(terms@, acc(ch, it_1.index@ as int)),
                forall|k: u64| #[trigger] terms@.contains_key(k) ==> lin_ids(ch, it_1.index@ as int).contains(k),''')],
                proofs=[(('before', r'let __h1 = chain_refs'), 'let ghost ch = self.terms@ + rhs.terms@;\n        '),
                        (('before', r'Self \{\s*terms: __t'), final_proof)],
                post_subs=[('terms: btree_into_terms(terms),', 'terms: __t,')])


def linear_new():
    final_proof = '''let ghost n = terms.len() as int; let ghost am = acc(ch, n);
        let __t = btree_into_terms(merged);   // R20c
        proof {
            assert forall|j: int| 0 <= j < __t.len() implies exists|i: int| 0 <= i < terms.len() && (#[trigger] terms[i]).0 == (#[trigger] __t[j]).id by { assert(merged@.contains_key(__t[j].id)); }
            if pairs_fin(terms@) {
                assert(terms_fin(ch)) by { assert forall|i: int| 0 <= i < ch.len() implies fin((#[trigger] ch[i]).coefficient) by { assert(ch[i].coefficient == terms[i].1); } }
                assert(am.dom() =~= merged@.dom());
                assert(lists_map(__t@, __t.len() as int, am));
                assert forall|m: Map<u64, F64>| lin_sum(__t@, __t.len() as int, m) == msum(am, m) by { lemma_list_sum(__t@, __t.len() as int, am, m); }
            }
        }
        '''
    return Unit('Linear::new', 'linear.rs', 'new', impl=r'impl Linear \{', sig='pub fn new(terms: impl Iterator<Item = (u64, f64)>, constant: f64) -> Self', anyhow=False,
                wrap=('impl Linear {', '}'),
                header='''#[verifier::loop_isolation(false)]
pub fn new(terms: Vec<(u64, F64)>, constant: F64) -> (r: Linear)
        // R22: the iterator parameter is instantiated at Vec.  The result IS the specified merge of the given (id, coefficient) pairs: ids strictly increasing,
        // one term per key of acc(..) with its value (equal ids accumulated, entries with |sum| <= EPSILON dropped), the constant as given
        ensures
            r.constant == constant,
            forall|i: int, j: int| 0 <= i < j < r.terms.len() ==> r.terms[i].id < r.terms[j].id,
            pairs_fin(terms@) ==> lists_map(r.terms@, r.terms.len() as int, acc(pairs_terms(terms@), terms.len() as int))
                && forall|m: Map<u64, F64>| #![trigger lin_all(r.terms@, m)] lin_all(r.terms@, m) == msum(acc(pairs_terms(terms@), terms.len() as int), m),
            // every id of the result is an id of the input (for all inputs)
            forall|j: int| 0 <= j < r.terms.len() ==> exists|i: int| 0 <= i < terms.len() && (#[trigger] terms[i]).0 == (#[trigger] r.terms[j]).id,''',
                renames=[(r'let mut (\w+) = BTreeMap::new\(\);', 'merged')],
                rsubs=[(r'let mut merged = BTreeMap::new\(\);', 'let mut merged: BTreeMap<u64, F64> = BTreeMap::new();', 1),
                       (r'(?s)merged\.into_iter\(\)\.map\(\|\(id, coefficient\)\| Term \{ id, coefficient \}\)\.collect\(\)', 'btree_into_terms(merged)', 1)],
                loops=[dict(kind='for', it='it_1', rebind='(__e.0, __e.1)',
                            body_proof=' proof { assert(*__e == terms[it_1.index@ as int]); assert(ch[it_1.index@ as int].id == __e.0 && ch[it_1.index@ as int].coefficient == __e.1); }',
                            inv='''invariant
                ch == pairs_terms(terms@), __h1@ == terms@,
                forall|k: u64| #[trigger] merged@.contains_key(k) ==> exists|i: int| 0 <= i < it_1.index@ && (#[trigger] terms[i]).0 == k,
                terms_fin(ch) ==> map_matches(merged@, acc(ch, it_1.index@ as int)),''')],
                proofs=[(('before', r'let __h1 = terms;'), 'let ghost ch = pairs_terms(terms@);\n        '),
                        (('before', r'Self \{\s*terms: __t'), final_proof)],
                post_subs=[('terms: btree_into_terms(merged),', 'terms: __t,')])



def quadratic_add_linear():
    return Unit('Add<Linear> for Quadratic', 'quadratic.rs', 'add', impl=r'impl Add<Linear> for Quadratic \{', sig='fn add(mut self, rhs: Linear) -> Self', anyhow=False, mut_self=True,
                pre=spec_impl('add', 'Quadratic', 'Linear', 'Quadratic'), wrap=('impl core::ops::Add<Linear> for Quadratic { type Output = Quadratic;', '}'),
                header='fn add(self, rhs: Linear) -> (r: Quadratic)\n        ensures ' + contract('add', 'Quadratic', 'Linear', 'Quadratic') + '\n            r.rows == self.rows && r.columns == self.columns && r.values == self.values,')


# the operator impls that are macro instances on the pinned tree: an instance that disappears means that operator is now implemented by other code, which no contract covers -
# the check must not silently shrink (seed C02 r10: two impl_sub_by_neg_add! instances replaced by hand-written impls)
MACRO_INVENTORY = {
    'linear.rs': ['impl_add_inverse!(f64, Linear)', 'impl_sub_by_neg_add!(Linear, f64)', 'impl_sub_by_neg_add!(Linear, Linear)', 'impl_mul_inverse!(f64, Linear)', 'impl_neg_by_mul!(Linear)'],
    'quadratic.rs': ['impl_add_inverse!(Linear, Quadratic)', 'impl_add_inverse!(f64, Quadratic)', 'impl_sub_by_neg_add!(Quadratic, Linear)', 'impl_sub_by_neg_add!(Quadratic, f64)',
                     'impl_sub_by_neg_add!(Quadratic, Quadratic)', 'impl_mul_from!(Quadratic, Linear, Polynomial)', 'impl_mul_inverse!(Linear, Quadratic)', 'impl_mul_inverse!(f64, Quadratic)', 'impl_neg_by_mul!(Quadratic)'],
    'polynomial.rs': ['impl_add_from!(Polynomial, f64)', 'impl_add_from!(Polynomial, Linear)', 'impl_add_from!(Polynomial, Quadratic)', 'impl_add_inverse!(f64, Polynomial)', 'impl_add_inverse!(Linear, Polynomial)',
                      'impl_add_inverse!(Quadratic, Polynomial)', 'impl_sub_by_neg_add!(Polynomial, Polynomial)', 'impl_mul_from!(Polynomial, Linear, Polynomial)', 'impl_mul_from!(Polynomial, Quadratic, Polynomial)',
                      'impl_mul_inverse!(f64, Polynomial)', 'impl_mul_inverse!(Linear, Polynomial)', 'impl_mul_inverse!(Quadratic, Polynomial)', 'impl_neg_by_mul!(Polynomial)'],
    'v1_ext/function.rs': ['impl_add_from!(Function, f64)', 'impl_add_from!(Function, Linear)', 'impl_add_from!(Function, Quadratic)', 'impl_add_from!(Function, Polynomial)',
                           'impl_add_inverse!(f64, Function)', 'impl_add_inverse!(Linear, Function)', 'impl_add_inverse!(Quadratic, Function)', 'impl_add_inverse!(Polynomial, Function)',
                           'impl_sub_by_neg_add!(Function, Function)', 'impl_sub_by_neg_add!(Function, f64)', 'impl_sub_by_neg_add!(Function, Linear)', 'impl_sub_by_neg_add!(Function, Quadratic)',
                           'impl_sub_by_neg_add!(Function, Polynomial)', 'impl_neg_by_mul!(Function)', 'impl_mul_from!(Function, f64, Function)', 'impl_mul_from!(Function, Linear, Function)',
                           'impl_mul_from!(Function, Quadratic, Function)', 'impl_mul_from!(Function, Polynomial, Function)', 'impl_mul_inverse!(f64, Function)', 'impl_mul_inverse!(Linear, Function)',
                           'impl_mul_inverse!(Quadratic, Function)', 'impl_mul_inverse!(Polynomial, Function)'],
}


def check_macro_inventory():
    for file, want in MACRO_INVENTORY.items():
        have = set()
        for mac in ('impl_add_from', 'impl_add_inverse', 'impl_sub_by_neg_add', 'impl_mul_from', 'impl_mul_inverse', 'impl_neg_by_mul'):
            for args, ln in core.macro_invocations(file, mac):
                have.add('%s!(%s)' % (mac, ', '.join(args)))
        for w in want:
            if w not in have:
                raise core.LostAnchor('operator impl %s of %s is no longer a macro instance: the code that now implements it is under no contract' % (w, file))


def typed_macro_units():
    """macro instances between typed operands whose callees are all verified units: linear.rs, and the Linear-operand instances of quadratic.rs"""
    check_macro_inventory()
    U = []
    NEG = {'f64': 'neg_f64', 'Linear': 'neg_linear', 'Quadratic': 'neg_quadratic', 'Polynomial': 'neg_polynomial'}

    def si(tr, op, a, b, c):
        return ('impl %sSpecImpl<%s> for %s { open spec fn obeys_%s_spec() -> bool { false } open spec fn %s_req(self, rhs: %s) -> bool { true } '
                'open spec fn %s_spec(self, rhs: %s) -> %s { arbitrary() } }\n' % (tr, T[b]['rust'], T[a]['rust'], op, op, T[b]['rust'], op, T[b]['rust'], T[c]['rust']))

    def unit(file, macro, args, ln, fname, wrap_head, pre, header, proofs=()):
        t = core.expand_macro('macros.rs', macro, args)
        return Unit('%s!(%s)' % (macro, ', '.join(args)), file, fname, text=(t, ln), anyhow=False, pre=pre, wrap=(wrap_head, '}'), header=header, proofs=list(proofs),
                    rsubs=[(r'<(\w+)>::from\(', r'\1::from(', None)])
    # the instances we can decide: (file, macro, (lhs, rhs)) -> contract of the callee with swapped operands / exact negation
    def si_req(tr, op, a, b, c, req):
        return si(tr, op, a, b, c).replace('_req(self, rhs: %s) -> bool { true }' % T[b]['rust'], '_req(self, rhs: %s) -> bool { %s }' % (T[b]['rust'], req))

    def qreq(a, b):
        return ' && '.join(['qcoo(%s)' % x for t, x in ((a, 'self'), (b, 'rhs')) if t == 'Quadratic']) or 'true'
    OUT = {(op, x, y): c for op, x, y, c, _ in LEAVES}
    for file, ty in (('linear.rs', 'Linear'), ('quadratic.rs', 'Quadratic'), ('polynomial.rs', 'Polynomial')):
        for args, ln in core.macro_invocations(file, 'impl_add_inverse'):
            a, b = args
            if b != ty or a not in ('f64', 'Linear', 'Quadratic'):
                continue
            if ty == 'Polynomial':
                c = OUT[('add', b, a)]
                U.append(unit(file, 'impl_add_inverse', args, ln, 'add', 'impl core::ops::Add<%s> for %s { type Output = %s;' % (T[b]['rust'], T[a]['rust'], T[c]['rust']), si_req('Add', 'add', a, b, c, qreq(a, b)),
                              'fn add(self, rhs: %s) -> (r: %s)\n        ensures %s' % (T[b]['rust'], T[c]['rust'], contract('add', b, a, c, lhs='rhs', rhs='self'))))
                continue
            # a + b is computed as b + a: the contract of (b + a) with the operands swapped
            U.append(unit(file, 'impl_add_inverse', args, ln, 'add', 'impl core::ops::Add<%s> for %s { type Output = %s;' % (T[b]['rust'], T[a]['rust'], T[b]['rust']), si('Add', 'add', a, b, b),
                          'fn add(self, rhs: %s) -> (r: %s)\n        ensures %s' % (T[b]['rust'], T[b]['rust'], contract('add', b, a, b, lhs='rhs', rhs='self'))))
        for args, ln in core.macro_invocations(file, 'impl_mul_inverse'):
            a, b = args
            if b == ty and (ty == 'Polynomial' or a == 'Linear') and a in ('f64', 'Linear', 'Quadratic'):
                # a * b is computed as b * a: the contract of the (assumed or verified) leaf b * a with the operands swapped
                c = OUT[('mul', b, a)]
                U.append(unit(file, 'impl_mul_inverse', args, ln, 'mul', 'impl core::ops::Mul<%s> for %s { type Output = %s;' % (T[b]['rust'], T[a]['rust'], T[c]['rust']), si_req('Mul', 'mul', a, b, c, qreq(a, b)),
                              'fn mul(self, rhs: %s) -> (r: %s)\n        ensures %s' % (T[b]['rust'], T[c]['rust'], contract('mul', b, a, c, lhs='rhs', rhs='self'))))
                continue
            if b != ty or a != 'f64':
                continue
            U.append(unit(file, 'impl_mul_inverse', args, ln, 'mul', 'impl core::ops::Mul<%s> for %s { type Output = %s;' % (T[b]['rust'], T[a]['rust'], T[b]['rust']), si('Mul', 'mul', a, b, b),
                          'fn mul(self, rhs: %s) -> (r: %s)\n        ensures %s' % (T[b]['rust'], T[b]['rust'], contract('mul', b, a, b, lhs='rhs', rhs='self'))
                          + ('\n            linear_fin(rhs) && fin(self) ==> lin_scaled(r, rhs, self),' if b == 'Linear' else '')))
    # Polynomial + B = self + Polynomial::from(rhs) (impl_add_from!): the upcast lists a map, the merge of that listing is order-independent (lemma_padd_up)
    for args, ln in core.macro_invocations('polynomial.rs', 'impl_add_from'):
        a, b = args
        if a != 'Polynomial' or b not in ('f64', 'Linear', 'Quadratic'):
            continue
        g = {'f64': 'cmap(rhs)', 'Linear': 'lmap(rhs)', 'Quadratic': 'qmap(rhs)'}[b]
        u = unit('polynomial.rs', 'impl_add_from', args, ln, 'add', 'impl core::ops::Add<%s> for Polynomial { type Output = Polynomial;' % T[b]['rust'], si_req('Add', 'add', a, b, a, qreq(a, b)),
                 'fn add(self, rhs: %s) -> (r: Polynomial)\n        ensures %s' % (T[b]['rust'], contract('add', a, b, a)),
                 proofs=[(('before', r'__r\s*\}\s*$'), '''proof {
            if %s && %s {
                lemma_plists_fin(__p, %s);
                assert forall|m: Map<u64, F64>| #![trigger polynomial_val(__r, m)] polynomial_val(__r, m) == polynomial_val(self, m) + %s - %s(self, rhs, m) by { lemma_padd_up(self, __p, %s, m); }
            }
        }
        ''' % (f(a, 'self'), f(b, 'rhs'), g, v(b, 'rhs'), rem_name('add', a, b), g))])
        u.rsubs += [(r'self \+ Polynomial::from\(rhs\)', 'let __p = Polynomial::from%s(rhs); let __r = self + __p; __r' % ('_quadratic' if b == 'Quadratic' else ''), 1)]
        U.append(u)
    # Polynomial * B = self * Polynomial::from(rhs) (impl_mul_from!)
    for args, ln in core.macro_invocations('polynomial.rs', 'impl_mul_from'):
        a, b, c = args
        if (a, c) != ('Polynomial', 'Polynomial') or b not in ('Linear', 'Quadratic'):
            continue
        g = {'Linear': 'lmap(rhs)', 'Quadratic': 'qmap(rhs)'}[b]
        u = unit('polynomial.rs', 'impl_mul_from', args, ln, 'mul', 'impl core::ops::Mul<%s> for Polynomial { type Output = Polynomial;' % T[b]['rust'], si_req('Mul', 'mul', a, b, a, qreq(a, b)),
                 'fn mul(self, rhs: %s) -> (r: Polynomial)\n        ensures %s' % (T[b]['rust'], contract('mul', a, b, a)),
                 proofs=[(('before', r'__r\s*\}\s*$'), '''proof {
            if %(fa)s && %(fb)s {
                lemma_plists_fin(__p, %(g)s);
                assert forall|m: Map<u64, F64>| #![trigger polynomial_val(__r, m)] polynomial_val(__r, m) == polynomial_val(self, m) * %(vb)s - %(rem)s(self, rhs, m)
                    && polynomial_val(__r, m) == %(vb)s * polynomial_val(self, m) - %(rem)s(self, rhs, m) by {
                    lemma_pmul_up(self, __p, %(g)s, %(vb)s, m);
                    let x = polynomial_val(self, m); let y = %(vb)s;
                    assert(x * y == y * x) by(nonlinear_arith);
                }
            }
        }
        ''' % dict(fa=f(a, 'self'), fb=f(b, 'rhs'), g=g, vb=v(b, 'rhs'), rem=rem_name('mul', a, b)))])
        u.rsubs += [(r'self \* Polynomial::from\(rhs\)', 'let __p = Polynomial::from%s(rhs); let __r = self * __p; __r' % ('_quadratic' if b == 'Quadratic' else ''), 1)]
        U.append(u)
    # Quadratic * Linear = self * Quadratic::from(rhs) (impl_mul_from!): the upcast is exact
    for args, ln in core.macro_invocations('quadratic.rs', 'impl_mul_from'):
        if tuple(args) != ('Quadratic', 'Linear', 'Polynomial'):
            continue
        u = unit('quadratic.rs', 'impl_mul_from', args, ln, 'mul', 'impl core::ops::Mul<Linear> for Quadratic { type Output = Polynomial;', si_req('Mul', 'mul', 'Quadratic', 'Linear', 'Polynomial', 'qcoo(self)'),
                 'fn mul(self, rhs: Linear) -> (r: Polynomial)\n        ensures %s' % contract('mul', 'Quadratic', 'Linear', 'Polynomial'),
                 proofs=[(('before', r'__r\s*\}\s*$'), '''proof {
            assert(quad_titems(__q) =~= lkeyed(rhs));
            assert(quadratic_ids(__q) =~= linear_ids(rhs));
            assert forall|m: Map<u64, F64>| #![trigger quadratic_val(__q, m)] quadratic_val(__q, m) == linear_val(rhs, m) by { }
        }
        ''')])
        u.rsubs += [(r'self \* Quadratic::from\(rhs\)', 'let __q = Quadratic::from(rhs); let __r = self * __q; __r', 1)]
        U.append(u)
    # a - b is computed as a + (-b) with an exact negation: the contract of a + n for the (existentially named) negation n of b
    for file in ('linear.rs', 'quadratic.rs', 'polynomial.rs'):
        for args, ln in core.macro_invocations(file, 'impl_sub_by_neg_add'):
            a, b = args
            if (a, b) == ('Linear', 'f64') or a not in T or b not in T or a == 'Function':
                continue
            c = OUT[('add', a, b)]
            req = ' && '.join(['qcoo(%s)' % x for t, x in ((a, 'self'), (b, 'rhs')) if t == 'Quadratic']) or 'true'
            U.append(unit(file, 'impl_sub_by_neg_add', args, ln, 'sub', 'impl core::ops::Sub<%s> for %s { type Output = %s;' % (T[b]['rust'], T[a]['rust'], T[c]['rust']),
                          'impl SubSpecImpl<%s> for %s { open spec fn obeys_sub_spec() -> bool { false } open spec fn sub_req(self, rhs: %s) -> bool { %s } open spec fn sub_spec(self, rhs: %s) -> %s { arbitrary() } }\n'
                          % (T[b]['rust'], T[a]['rust'], T[b]['rust'], req, T[b]['rust'], T[c]['rust']),
                          'fn sub(self, rhs: %s) -> (r: %s)\n        ensures exists|n: %s| #![trigger %s] %s(n, rhs)%s && %s,'
                          % (T[b]['rust'], T[c]['rust'], T[b]['rust'], ('n@' if b == 'f64' else '%s(n, rhs)' % NEG[b]), NEG[b], ' && (qcoo(rhs) ==> qcoo(n))' if b == 'Quadratic' else '', contract_conj('add', a, b, c, lhs='self', rhs='n'))))
    for args, ln in core.macro_invocations('linear.rs', 'impl_sub_by_neg_add'):
        a, b = args
        if (a, b) != ('Linear', 'f64'):
            continue
        U.append(unit('linear.rs', 'impl_sub_by_neg_add', args, ln, 'sub', 'impl core::ops::Sub<F64> for Linear { type Output = Linear;',
                      'impl SubSpecImpl<F64> for Linear { open spec fn obeys_sub_spec() -> bool { false } open spec fn sub_req(self, rhs: F64) -> bool { true } open spec fn sub_spec(self, rhs: F64) -> Linear { arbitrary() } }\n',
                      '''fn sub(self, rhs: F64) -> (r: Linear)
        ensures linear_fin(self) && fin(rhs) ==> linear_fin(r) && forall|m: Map<u64, F64>| #![trigger linear_val(r, m)] linear_val(r, m) == linear_val(self, m) - rv(rhs),
            linear_ids(r).subset_of(linear_ids(self)),'''))
    return U


# ---------------------------------------------------------------- Linear * Linear: nested accumulation loop (entry API), FromIterator for Quadratic, linear part by the typed operators
def linear_mul_linear():
    FIN = 'linear_fin(self) && linear_fin(rhs)'
    final_proof = '''proof {
            assert(linear_ids(__lin).subset_of(linear_ids(self).union(linear_ids(rhs))));
            assert forall|k: u64| quad_ids(quad.rows@, quad.columns@, quad_n(quad)).contains(k) implies linear_ids(self).union(linear_ids(rhs)).contains(k) by {
                lemma_quad_ids_mem(quad.rows@, quad.columns@, quad_n(quad), k);
                let j = choose|j: int| 0 <= j < quad_n(quad) && #[trigger] pos_has(quad.rows@, quad.columns@, j, k);
                let i = choose|i: int| 0 <= i < lst.len() && canon2((#[trigger] lst[i]).0) == (quad.rows[j], quad.columns[j]);
                assert(tm.contains_key(lst[i].0));
            }
            if %s {
                assert(gm.dom() =~= tm.dom());
                assert(klists(lst, lst.len() as int, gm));
                assert(kfin(lst));
                assert forall|m: Map<u64, F64>| #![trigger quadratic_val(quad, m)] quadratic_val(quad, m) == linear_val(self, m) * linear_val(rhs, m) - rem_mul_linear_linear(self, rhs, m) by {
                    lemma_klist_sum(lst, lst.len() as int, gm, qw2(m));
                    lemma_lmul_rem(self, rhs, __l1, __l2, m);
                    lemma_lmul_total(lin_all(self.terms@, m), lin_all(rhs.terms@, m), rv(self.constant), rv(rhs.constant));
                    assert(linear_val(__l1, m) == linear_val(self, m) * rv(rhs.constant));
                    assert(linear_val(__l2, m) == linear_val(rhs, m) * rv(self.constant));
                    assert(linear_val(__lin, m) == linear_val(__s, m) - rv(rhs.constant) * rv(self.constant));
                }
                assert forall|m: Map<u64, F64>| #![trigger quadratic_val(quad, m)] quadratic_val(quad, m) == linear_val(rhs, m) * linear_val(self, m) - rem_mul_linear_linear(self, rhs, m) by {
                    assert(linear_val(self, m) * linear_val(rhs, m) == linear_val(rhs, m) * linear_val(self, m)) by(nonlinear_arith); }
            }
        }
        ''' % FIN
    return Unit('Mul for Linear', 'linear.rs', 'mul', impl=r'impl Mul for Linear \{', sig='fn mul(self, rhs: Self) -> Quadratic', anyhow=False,
                pre=spec_impl('mul', 'Linear', 'Linear', 'Quadratic'), wrap=('impl core::ops::Mul for Linear { type Output = Quadratic;', '}'),
                header='''#[verifier::loop_isolation(false)]
fn mul(self, rhs: Self) -> (r: Quadratic)
        // the quadratic part is EXACTLY the product of the two term lists (accumulated under canonical positions, nothing dropped); the linear part is
        // self * r + c * rhs - r * c, whose only inexact step is that one Linear + Linear: the remainder is DEFINED as the remainder of that addition
        ensures ''' + contract('mul', 'Linear', 'Linear', 'Quadratic'),
                renames=[(r'let mut (\w+) = BTreeMap::new\(\);', 'terms')],
                rsubs=[(r'let mut terms = BTreeMap::new\(\);', 'let mut terms: BTreeMap<(u64, u64), F64> = BTreeMap::new();', 1),
                       # R20c: the product is bound by a `let` in front of the statement that uses it
                       (r'\*terms\.entry\(\(row, col\)\)\.or_default\(\) \+= a\.coefficient \* b\.coefficient;',
                        'let __p = a.coefficient * b.coefficient; *terms.entry((row, col)).or_default() += __p;', 1),
                       (r'let mut quad: Quadratic = terms\.into_iter\(\)\.collect\(\);', 'let __l = btree_into_vec2(terms); let ghost lst = __l@; let mut quad: Quadratic = Quadratic::from_iter(__l);', 1),
                       # R20c: the operands of the operator chain are bound by `let`s in evaluation order (left to right)
                       (r'quad\.linear = Some\(self \* r \+ c \* rhs - r \* c\);',
                        'let __l1 = self * r; let __l2 = c * rhs; let __s = __l1 + __l2; let __lin = __s - r * c; quad.linear = Some(__lin);', 1)],
                loops=[dict(kind='for', it='it_1', inv='''invariant
                forall|k: (u64, u64)| #[trigger] terms@.contains_key(k) ==> ids.contains(k.0) && ids.contains(k.1),
                %s ==> kmatches(terms@, gm) && forall|x: Map<u64, F64>| #![trigger ksum(gm, qw2(x))] ksum(gm, qw2(x)) == lin_sum(self.terms@, it_1.index@ as int, x) * lin_all(rhs.terms@, x),''' % FIN),
                       dict(kind='for', it='it_2', inv='''invariant
                *a == self.terms[it_1.index@ as int], 0 <= it_1.index@ < self.terms.len(),
                forall|k: (u64, u64)| #[trigger] terms@.contains_key(k) ==> ids.contains(k.0) && ids.contains(k.1),
                %s ==> kmatches(terms@, gm) && forall|x: Map<u64, F64>| #![trigger ksum(gm, qw2(x))] ksum(gm, qw2(x)) ==
                    lin_sum(self.terms@, it_1.index@ as int, x) * lin_all(rhs.terms@, x) + (rv(a.coefficient) * sval(x, a.id)) * lin_sum(rhs.terms@, it_2.index@ as int, x),''' % FIN)],
                proofs=[(('after', r'let mut terms: BTreeMap<\(u64, u64\), F64> = BTreeMap::new\(\);'), '''
        let ghost ids = linear_ids(self).union(linear_ids(rhs));
        let ghost mut gm: Map<(u64, u64), real> = Map::empty();
        proof { assert forall|x: Map<u64, F64>| #![trigger ksum(gm, qw2(x))] ksum(gm, qw2(x)) == 0real * lin_all(rhs.terms@, x) by { lemma_ksum_empty::<(u64, u64)>(qw2(x)); assert(0real * lin_all(rhs.terms@, x) == 0real) by(nonlinear_arith); } }'''),
                        (('after', r'\+= __p;'), '''
                proof {
                    lemma_lin_ids_has(self.terms@, self.terms.len() as int, it_1.index@ as int); lemma_lin_ids_has(rhs.terms@, rhs.terms.len() as int, it_2.index@ as int);
                    if %s {
                        let key = (row, col); let c = rv(a.coefficient) * rv(b.coefficient); let gm0 = gm;
                        gm = gm.insert(key, (if gm.contains_key(key) { gm[key] } else { 0real }) + c);
                        assert forall|x: Map<u64, F64>| #![trigger ksum(gm, qw2(x))] ksum(gm, qw2(x)) ==
                            lin_sum(self.terms@, it_1.index@ as int, x) * lin_all(rhs.terms@, x) + (rv(a.coefficient) * sval(x, a.id)) * lin_sum(rhs.terms@, it_2.index@ as int + 1, x) by {
                            lemma_ksum_bump(gm0, qw2(x), key, c);
                            lemma_prod_step(lin_sum(self.terms@, it_1.index@ as int, x) * lin_all(rhs.terms@, x), rv(a.coefficient), sval(x, a.id), lin_sum(rhs.terms@, it_2.index@ as int, x), rv(b.coefficient), sval(x, b.id));
                        }
                    }
                }''' % FIN),
                        (('before', r'\}\s*let __l = btree_into_vec2'), '''proof { if %s {
                assert forall|x: Map<u64, F64>| #![trigger ksum(gm, qw2(x))] ksum(gm, qw2(x)) == lin_sum(self.terms@, it_1.index@ as int + 1, x) * lin_all(rhs.terms@, x) by {
                    lemma_prod_row(lin_sum(self.terms@, it_1.index@ as int, x), rv(a.coefficient) * sval(x, a.id), lin_all(rhs.terms@, x)); } } }
        ''' % FIN),
                        (('before', r'let __l = btree_into_vec2\(terms\);'), 'let ghost tm = terms@;\n        '),
                        (('before', r'quad\s*\}\s*$'), final_proof)])



# ---------------------------------------------------------------- Quadratic: quad_iter, FromIterator, Add (entry API over (u64, u64) keys)
def quadratic_quad_iter():
    return Unit('Quadratic::quad_iter', 'quadratic.rs', 'quad_iter', impl=r'impl Quadratic \{', sig="pub fn quad_iter(&self) -> impl Iterator<Item = ((u64, u64), f64)> + '_", anyhow=False,
                wrap=('impl Quadratic {', '}'),
                header='''pub fn quad_iter(&self) -> (r: Vec<((u64, u64), F64)>)
        // R22: the returned `impl Iterator` is instantiated at Vec.  observation: the two assert_eq! panic on COO arrays of different lengths
        requires self.columns.len() == self.rows.len(), self.columns.len() == self.values.len(),
        ensures r@ == quad_items(*self),''',
                rsubs=[(r'assert_eq!\(([^;]*?), ([^;]*?)\);', r'vassert_eq(\1, \2);', 2),
                       (r'(?s)self\.columns\.iter\(\)\.zip\(self\.rows\.iter\(\)\)\.zip\(self\.values\.iter\(\)\)\.map\((.*)\)\s*\}\s*$', r'let __r = vec_map_collect(zip_zip(&self.columns, &self.rows, &self.values), \1); proof { assert(__r@ =~= quad_items(*self)); } __r }', 1)],
                closures=[dict(params='((column, row), value)', typed='p: ((&u64, &u64), &F64)', ret='((u64, u64), F64)', bind='let column = p.0.0; let row = p.0.1; let value = p.1;',
                               ensures='ret == ((*p.0.0, *p.0.1), *p.1)')])


def quadratic_from_iter():
    final_proof = '''proof {
            let am = kacc(ci, ci.len() as int, false, Map::empty());
            assert forall|j: int| 0 <= j < rows.len() implies exists|i: int| 0 <= i < iter.len() && canon2((#[trigger] iter[i]).0) == (#[trigger] rows[j], columns[j]) by {
                assert(tm.contains_key(__h2[j].0)); }
            if kfin(iter@) {
                assert(kfin(ci)) by { assert forall|i: int| 0 <= i < ci.len() implies fin((#[trigger] ci[i]).1) by { assert(ci[i].1 == iter[i].1); } }
                assert(am.dom() =~= tm.dom());
                assert(klists(__h2@, __h2.len() as int, am));
                assert forall|j: int| 0 <= j < values.len() implies fin(#[trigger] values[j]) by { assert(tm.contains_key(__h2[j].0)); assert(values[j] == __h2[j].1); }
                assert forall|x: Map<u64, F64>| quad_sum(rows@, columns@, values@, rows.len() as int, x) == kseq_sum(iter@, iter.len() as int, qw2(x)) by {
                    lemma_listing_quad_sum(__h2@, rows@, columns@, values@, __h2.len() as int, x);
                    lemma_klist_sum(__h2@, __h2.len() as int, am, qw2(x));
                    lemma_kacc_exact(ci, ci.len() as int, Map::empty(), qw2(x));
                    lemma_ksum_empty::<(u64, u64)>(qw2(x));
                    lemma_canon_sum(iter@, iter.len() as int, x);
                }
            }
        }
        '''
    return Unit('FromIterator<((u64, u64), f64)> for Quadratic', 'quadratic.rs', 'from_iter', impl=r'impl FromIterator<\(\(u64, u64\), f64\)> for Quadratic \{',
                sig='fn from_iter<I: IntoIterator<Item = ((u64, u64), f64)>>(iter: I) -> Self', anyhow=False, wrap=('impl Quadratic {', '}'),
                header='''#[verifier::loop_isolation(false)]
pub fn from_iter(iter: Vec<((u64, u64), F64)>) -> (r: Quadratic)
        // R22: the IntoIterator parameter is instantiated at Vec.  Positions are made canonical (smaller id first), equal positions accumulated, nothing is dropped:
        // the quadratic form of the result is EXACTLY the sum of the given items
        ensures r.linear is None, r.rows.len() == r.columns.len(), r.rows.len() == r.values.len(),
            kfin(iter@) ==> vals_fin(r.values@) && forall|x: Map<u64, F64>| #![trigger quad_sum(r.rows@, r.columns@, r.values@, r.rows.len() as int, x)]
                quad_sum(r.rows@, r.columns@, r.values@, r.rows.len() as int, x) == kseq_sum(iter@, iter.len() as int, qw2(x)),
            forall|j: int| 0 <= j < r.rows.len() ==> exists|i: int| 0 <= i < iter.len() && canon2((#[trigger] iter[i]).0) == (#[trigger] r.rows[j], r.columns[j]),''',
                renames=[(r'let mut (\w+) = BTreeMap::new\(\);', 'terms')],
                rsubs=[(r'let mut terms = BTreeMap::new\(\);', 'let mut terms: BTreeMap<(u64, u64), F64> = BTreeMap::new();', 1),
                       (r'let mut (columns|rows) = Vec::new\(\);', r'let mut \1: Vec<u64> = Vec::new();', 2),
                       (r'let mut values = Vec::new\(\);', 'let mut values: Vec<F64> = Vec::new();', 1),
                       (r'in terms \{', 'in btree_into_vec2(terms) {', 1)],
                loops=[dict(kind='for', it='it_1', rebind='((__e.0.0, __e.0.1), __e.1)',
                            body_proof=' proof { assert(*__e == iter[it_1.index@ as int]); assert(ci[it_1.index@ as int] == (canon2(__e.0), __e.1)); }',
                            inv='''invariant
                ci == canon_items(iter@), __h1@ == iter@,
                kfin(ci) ==> kmatches(terms@, kacc(ci, it_1.index@ as int, false, Map::empty())),
                forall|k: (u64, u64)| #[trigger] terms@.contains_key(k) ==> exists|i: int| 0 <= i < it_1.index@ && canon2((#[trigger] iter[i]).0) == k,'''),
                       dict(kind='for', it='it_2', rebind='((__e.0.0, __e.0.1), __e.1)',
                            body_proof=' proof { assert(*__e == __h2[it_2.index@ as int]); }',
                            inv='''invariant
                rows.len() == it_2.index@, columns.len() == it_2.index@, values.len() == it_2.index@,
                forall|j: int| 0 <= j < it_2.index@ ==> (#[trigger] __h2[j]).0 == (rows[j], columns[j]) && __h2[j].1 == values[j],''')],
                proofs=[(('before', r'let __h1 = iter;'), 'let ghost ci = canon_items(iter@);\n        '),
                        (('before', r'let __h2 = btree_into_vec2\(terms\);'), 'let ghost tm = terms@;\n        '),
                        (('before', r'Self \{\s*columns,'), final_proof)])


def quadratic_add_quadratic():
    NX = 'quad_n(self)'
    final_proof = '''proof {
            // ids: every position of the result comes (made canonical) from a key of the map, every key from a position of self or rhs
            assert forall|k: u64| quad_ids(out.rows@, out.columns@, quad_n(out)).contains(k) implies quadratic_ids(self).union(quadratic_ids(rhs)).contains(k) by {
                lemma_quad_ids_mem(out.rows@, out.columns@, quad_n(out), k);
                let j = choose|j: int| 0 <= j < quad_n(out) && #[trigger] pos_has(out.rows@, out.columns@, j, k);
                let i = choose|i: int| 0 <= i < lst.len() && canon2((#[trigger] lst[i]).0) == (out.rows[j], out.columns[j]);
                let key = lst[i].0;
                assert(mapv.contains_key(key));
                assert(key.0 == k || key.1 == k);
                if exists|i2: int| 0 <= i2 < xs.len() && (#[trigger] xs[i2]).0 == key {
                    let i2 = choose|i2: int| 0 <= i2 < xs.len() && (#[trigger] xs[i2]).0 == key;
                    assert(xs[i2].0 == (self.columns[i2], self.rows[i2]));
                    lemma_quad_ids_mem(self.rows@, self.columns@, quad_n(self), k);
                    assert(pos_has(self.rows@, self.columns@, i2, k));
                } else {
                    let i2 = choose|i2: int| 0 <= i2 < ys.len() && (#[trigger] ys[i2]).0 == key;
                    assert(ys[i2].0 == (rhs.columns[i2], rhs.rows[i2]));
                    lemma_quad_ids_mem(rhs.rows@, rhs.columns@, quad_n(rhs), k);
                    assert(pos_has(rhs.rows@, rhs.columns@, i2, k));
                }
            }
            if quadratic_fin(self) && quadratic_fin(rhs) {
                assert(kfin(ys)); assert(kfin(xs));
                assert(m1.dom() =~= mapv.dom());
                assert(klists(lst, lst.len() as int, m1));
                assert forall|x: Map<u64, F64>| quad_sum(out.rows@, out.columns@, out.values@, out.rows.len() as int, x) == ksum(m1, qw2(x)) by { lemma_klist_sum(lst, lst.len() as int, m1, qw2(x)); }
                assert forall|x: Map<u64, F64>| kseq_sum(xs, xs.len() as int, qw2(x)) == quad_sum(self.rows@, self.columns@, self.values@, quad_n(self), x) by { lemma_quad_items_sum(self, quad_n(self), x); }
                assert forall|x: Map<u64, F64>| kseq_sum(ys, ys.len() as int, qw2(x)) == quad_sum(rhs.rows@, rhs.columns@, rhs.values@, quad_n(rhs), x) by { lemma_quad_items_sum(rhs, quad_n(rhs), x); }
            }
        }
        '''
    return Unit('Add for Quadratic', 'quadratic.rs', 'add', impl=r'impl Add for Quadratic \{', sig='fn add(self, rhs: Self) -> Self', anyhow=False,
                pre=spec_impl('add', 'Quadratic', 'Quadratic', 'Quadratic', req='self.columns.len() == self.rows.len() && self.columns.len() == self.values.len() && rhs.columns.len() == rhs.rows.len() && rhs.columns.len() == rhs.values.len()'),
                wrap=('impl core::ops::Add for Quadratic { type Output = Quadratic;', '}'),
                header='''#[verifier::loop_isolation(false)]
fn add(self, rhs: Self) -> (r: Quadratic)
        // the quadratic part is the specified merge (positions of self inserted, positions of rhs accumulated with dropping, then made canonical), the linear parts are added;
        // the remainder is DEFINED as the difference to that merge
        ensures ''' + contract('add', 'Quadratic', 'Quadratic', 'Quadratic'),
                rsubs=[(r'self\.quad_iter\(\)\.collect\(\)', 'btreemap_collect2(self.quad_iter())', 1),
                       (r'let mut out: Self = map\.into_iter\(\)\.collect\(\);', 'let __l = btree_into_vec2(map); let ghost lst = __l@; let mut out: Self = Quadratic::from_iter(__l);', 1)],
                loops=[dict(kind='for', it='it_1', rebind='(__e.0, __e.1)',
                            body_proof=' proof { assert(*__e == ys[it_1.index@ as int]); }',
                            inv='''invariant
                xs == quad_items(self), ys == quad_items(rhs), __h1@ == ys,
                kfin(xs) && kfin(ys) ==> kmatches(map@, kacc(ys, it_1.index@ as int, true, kins(xs, xs.len() as int))),
                forall|k: (u64, u64)| #[trigger] map@.contains_key(k) ==> (exists|i: int| 0 <= i < xs.len() && (#[trigger] xs[i]).0 == k) || (exists|i: int| 0 <= i < it_1.index@ && (#[trigger] ys[i]).0 == k),''')],
                proofs=[(('before', r'let mut map: BTreeMap'), 'let ghost xs = quad_items(self); let ghost ys = quad_items(rhs);\n        '),
                        (('after', r'let mut map: BTreeMap<\(u64, u64\), F64> = btreemap_collect2\(self\.quad_iter\(\)\);'), '''
        proof { if kfin(xs) { assert(kmatches(map@, kins(xs, xs.len() as int))) by {
            let n = xs.len() as int;
            assert forall|k: (u64, u64)| map@.contains_key(k) <==> kins(xs, n).contains_key(k) by {
                if map@.contains_key(k) { let i = choose|i: int| 0 <= i < n && (#[trigger] xs[i]).0 == k && xs[i].1 == map@[k] && forall|j: int| i < j < n ==> (#[trigger] xs[j]).0 != k; lemma_kins_has(xs, n, i); }
                if kins(xs, n).contains_key(k) { let i = lemma_kins_from(xs, n, k); assert(map@.contains_key(xs[i].0)); } }
            assert forall|k: (u64, u64)| map@.contains_key(k) implies (#[trigger] map@[k])@ == XR::Fin(kins(xs, n)[k]) by {
                let i = choose|i: int| 0 <= i < n && (#[trigger] xs[i]).0 == k && xs[i].1 == map@[k] && forall|j: int| i < j < n ==> (#[trigger] xs[j]).0 != k;
                lemma_kins_last(xs, n, i); } } } }'''),
                        (('before', r'let __l = btree_into_vec2\(map\);'), 'let ghost mapv = map@; let ghost m1 = kacc(ys, ys.len() as int, true, kins(xs, xs.len() as int));\n        '),
                        (('before', r'out\s*\}\s*$'), final_proof)])


# ---------------------------------------------------------------- decision variables and parameters as operands (parameter.rs, v1_ext/decision_variable.rs)
VAR_SPEC = '''// ---- a decision variable / parameter as an operand is the linear function 1.0 * x_id ----
pub open spec fn var_lin(l: v1::Linear, id: u64) -> bool { l.terms@.len() == 1 && l.terms@[0].id == id && l.terms@[0].coefficient@ == XR::Fin(1real) && l.constant@ == XR::Fin(0real) }
pub proof fn lemma_var_lin(l: v1::Linear, id: u64)
    requires var_lin(l, id)
    ensures linear_fin(l), linear_ids(l) =~= Set::<u64>::empty().insert(id), forall|m: Map<u64, F64>| #![trigger linear_val(l, m)] linear_val(l, m) == sval(m, id)
{
    assert(lin_ids(l.terms@, 1) =~= lin_ids(l.terms@, 0).insert(id));
    assert forall|m: Map<u64, F64>| #![trigger linear_val(l, m)] linear_val(l, m) == sval(m, id) by {
        assert(lin_sum(l.terms@, 1, m) == lin_sum(l.terms@, 0, m) + rv(l.terms@[0].coefficient) * sval(m, l.terms@[0].id));
        assert(1real * sval(m, id) == sval(m, id)) by(nonlinear_arith); }
}
'''


def var_units():
    """operator impls with a `&DecisionVariable` / `&Parameter` operand: each converts the operand with `Linear::from` and applies the typed operator - proved
    against the contract of that operator (verified or assumed leaf) with the converted operand existentially named (`var_lin`)"""
    U = []
    OUT = {(op, x, y): c for op, x, y, c, _ in LEAVES}
    ORDER = ['f64', 'Linear', 'Quadratic', 'Polynomial']

    def fsi(src, dst):
        return ("impl<'a> vstd::std_specs::convert::FromSpecImpl<&'a %s> for %s { open spec fn obeys_from_spec() -> bool { false } open spec fn from_spec(v: &'a %s) -> Self { arbitrary() } }\n" % (src, dst, src))
    U.append(Unit('From<u64> for Linear', 'linear.rs', 'from', impl=r'impl From<u64> for Linear \{', sig='fn from(id: u64) -> Self', anyhow=False,
                  pre='impl vstd::std_specs::convert::FromSpecImpl<u64> for Linear { open spec fn obeys_from_spec() -> bool { false } open spec fn from_spec(v: u64) -> Self { arbitrary() } }\n',
                  wrap=('impl From<u64> for Linear {', '}'), header='fn from(id: u64) -> (r: Self)\n        ensures var_lin(r, id),'))
    for file, P in (('parameter.rs', 'Parameter'), ('v1_ext/decision_variable.rs', 'DecisionVariable')):
        U.append(Unit('From<&%s> for Linear' % P, file, 'from', impl=r'impl From<&%s> for Linear \{' % P, sig='fn from(dv: &%s) -> Self' % P, anyhow=False, pre=fsi(P, 'Linear'),
                      wrap=("impl<'a> From<&'a %s> for Linear {" % P, '}'), header="fn from(dv: &'a %s) -> (r: Self)\n        ensures var_lin(r, dv.id)," % P))

    def lin_op(op, t, other, lin, lin_first=True):
        """contract (one conjunction) and output type of  Linear OP t  /  t OP Linear  with the Linear operand named `lin` and the other operand named `other`"""
        if t == 'Linear' and not lin_first:
            c = OUT[(op, 'Linear', 'Linear')]
            return contract_conj(op, 'Linear', 'Linear', c, lhs=other, rhs=lin), c
        if t == 'Function':
            pred = {'add': 'is_sum', 'mul': 'is_prod'}[op]
            return '%s(r, %s, fn_of_linear(%s)) && fn_coo_ok(r)' % (pred, other, lin), 'Function'
        if ORDER.index(t) <= ORDER.index('Linear'):
            c = OUT[(op, 'Linear', t)]
            return contract_conj(op, 'Linear', t, c, lhs=lin, rhs=other), c
        c = OUT[(op, t, 'Linear')]
        return contract_conj(op, t, 'Linear', c, lhs=other, rhs=lin), c

    def req_of(t, x):
        return {'Function': '%s.function is Some && fn_coo_ok(%s)' % (x, x), 'Quadratic': 'qcoo(%s)' % x}.get(t, 'true')

    def si(tr, op, lhs_ty, rhs_ty, out, req, lt=''):
        return ('impl%s %sSpecImpl<%s> for %s { open spec fn obeys_%s_spec() -> bool { false } open spec fn %s_req(self, rhs: %s) -> bool { %s } '
                'open spec fn %s_spec(self, rhs: %s) -> %s { arbitrary() } }\n' % (lt, tr, rhs_ty, lhs_ty, op, op, rhs_ty, req, op, rhs_ty, out))

    for file, P, suffix in (('parameter.rs', 'Parameter', 'parameter'), ('v1_ext/decision_variable.rs', 'DecisionVariable', 'decision_variable')):
        RP = "&'a %s" % P
        for op, tr in (('add', 'Add'), ('mul', 'Mul')):
            macro = 'impl_%s_%s' % (op, suffix)
            for args, ln in core.macro_invocations(file, macro):
                (t,) = args
                if t not in T:
                    raise core.LostAnchor('unexpected %s! instance %s' % (macro, args))
                text = core.expand_macro(file, macro, args)
                parts = re.split(r'(?=impl %s<&%s> for )' % (tr, P), text)
                if len(parts) != 2:
                    raise core.LostAnchor('%s! no longer defines exactly the two impls (&%s OP T, T OP &%s)' % (macro, P, P))
                body1, out = lin_op(op, t, 'rhs', 'a')
                # &P OP T  =  Linear::from(self) OP rhs
                U.append(Unit('%s!(%s) [&%s %s T]' % (macro, t, P, OPSYM[op]), file, op, text=(parts[0], ln), anyhow=False,
                              pre=si(tr, op, RP, T[t]['rust'], T[out]['rust'], req_of(t, 'rhs'), lt="<'a>"),
                              wrap=("impl<'a> core::ops::%s<%s> for %s { type Output = %s;" % (tr, T[t]['rust'], RP, T[out]['rust']), '}'),
                              header='fn %s(self, rhs: %s) -> (r: %s)\n        ensures exists|a: Linear| #![trigger var_lin(a, self.id)] var_lin(a, self.id) && %s,' % (op, T[t]['rust'], T[out]['rust'], body1)))
                body2, out2 = lin_op(op, t, 'self', 'a', lin_first=False)
                # T OP &P  =  self OP Linear::from(rhs)
                U.append(Unit('%s!(%s) [T %s &%s]' % (macro, t, OPSYM[op], P), file, op, text=(parts[1], ln), anyhow=False,
                              pre=si(tr, op, T[t]['rust'], RP, T[out2]['rust'], req_of(t, 'self'), lt="<'a>"),
                              wrap=("impl<'a> core::ops::%s<%s> for %s { type Output = %s;" % (tr, RP, T[t]['rust'], T[out2]['rust']), '}'),
                              header='fn %s(self, rhs: %s) -> (r: %s)\n        ensures exists|a: Linear| #![trigger var_lin(a, rhs.id)] var_lin(a, rhs.id) && %s,' % (op, RP, T[out2]['rust'], body2)))
    U.append(Unit('Neg for &DecisionVariable', 'v1_ext/decision_variable.rs', 'neg', impl=r'impl Neg for &DecisionVariable \{', sig='fn neg(self) -> Self::Output', anyhow=False,
                  pre="impl<'a> NegSpecImpl for &'a DecisionVariable { open spec fn obeys_neg_spec() -> bool { false } open spec fn neg_req(self) -> bool { true } open spec fn neg_spec(self) -> Linear { arbitrary() } }\n",
                  wrap=("impl<'a> core::ops::Neg for &'a DecisionVariable { type Output = Linear;", '}'),
                  header='fn neg(self) -> (r: Linear)\n        ensures exists|a: Linear| #![trigger var_lin(a, self.id)] var_lin(a, self.id) && neg_linear(r, a),'))
    # the hand-written impls between two variables / parameters
    for file, lhs, rhs in (('parameter.rs', 'Parameter', 'Parameter'), ('parameter.rs', 'Parameter', 'DecisionVariable'), ('parameter.rs', 'DecisionVariable', 'Parameter'),
                           ('v1_ext/decision_variable.rs', 'DecisionVariable', 'DecisionVariable')):
        for op, tr in (('add', 'Add'), ('mul', 'Mul')):
            out = OUT[(op, 'Linear', 'Linear')]
            same = lhs == rhs
            impl_rx = (r'impl %s for &%s \{' % (tr, lhs)) if same else (r'impl %s<&%s> for &%s \{' % (tr, rhs, lhs))
            RL, RR = "&'a %s" % lhs, "&'b %s" % rhs
            U.append(Unit('%s<&%s> for &%s' % (tr, rhs, lhs), file, op, impl=impl_rx, sig='fn %s(self, rhs: %s) -> Self::Output' % (op, 'Self' if same else '&' + rhs), anyhow=False,
                          pre=si(tr, op, RL, RR, T[out]['rust'], 'true', lt="<'a, 'b>"),
                          wrap=("impl<'a, 'b> core::ops::%s<%s> for %s { type Output = %s;" % (tr, RR, RL, T[out]['rust']), '}'),
                          header='fn %s(self, rhs: %s) -> (r: %s)\n        ensures exists|a: Linear, b: Linear| #![trigger var_lin(a, self.id), var_lin(b, rhs.id)] var_lin(a, self.id) && var_lin(b, rhs.id) && %s,'
                                 % (op, RR, T[out]['rust'], contract_conj(op, 'Linear', 'Linear', out, lhs='a', rhs='b'))))
    return U


# ---------------------------------------------------------------- Polynomial + Polynomial (map keyed by id lists: VMap, R28)
PMERGE_STUBS = '''// BTreeMap<Vec<u64>, f64>::into_iter().map(|(ids, coefficient)| Monomial { ids, coefficient }).collect(): one monomial per entry (ascending key order; only distinctness is used)
#[verifier::external_body]
pub fn vmap_into_monomials(m: VMap) -> (r: Vec<Monomial>)
    ensures r.len() == m@.len(),
        forall|i: int| 0 <= i < r.len() ==> m@.contains_key((#[trigger] r[i]).ids@) && m@[r[i].ids@] == r[i].coefficient,
        forall|i: int, j: int| 0 <= i < j < r.len() ==> (#[trigger] r[i]).ids@ != (#[trigger] r[j]).ids@,
        forall|k: Seq<u64>| #[trigger] m@.contains_key(k) ==> exists|i: int| 0 <= i < r.len() && (#[trigger] r[i]).ids@ == k,
{ unimplemented!() }
'''


def polynomial_add_polynomial():
    N = '(self.terms.len() + rhs.terms.len()) as int'
    FIN = 'poly_fin(self.terms@) && poly_fin(rhs.terms@)'
    final_proof = '''let ghost n = %s; let ghost its = pitems(ch); let ghost am = kacc(its, n, true, Map::empty());
        proof {
            let pt = pitems(__t@);
            if %s {
                assert(kfin(its)) by { assert forall|i: int| 0 <= i < its.len() implies fin((#[trigger] its[i]).1) by {
                    if i < self.terms.len() { assert(ch[i] == self.terms[i]); } else { assert(ch[i] == rhs.terms[i - self.terms.len()]); } } }
                assert(am.dom() =~= terms@.dom());
                assert(klists(pt, __t.len() as int, am)) by {
                    assert forall|i: int| 0 <= i < __t.len() implies am.contains_key((#[trigger] pt[i]).0) && pt[i].1@ == XR::Fin(am[pt[i].0]) by { assert(terms@.contains_key(__t[i].ids@)); }
                    assert forall|i: int, j: int| 0 <= i < j < __t.len() implies (#[trigger] pt[i]).0 != (#[trigger] pt[j]).0 by { assert(__t[i].ids@ != __t[j].ids@); }
                }
                assert forall|i: int| 0 <= i < __t.len() implies fin((#[trigger] __t@[i]).coefficient) by { assert(terms@.contains_key(__t[i].ids@)); }
                assert forall|m: Map<u64, F64>| poly_sum(__t@, __t.len() as int, m) == ksum(am, pw(m)) by { lemma_pitems_sum(__t@, __t.len() as int, m); lemma_klist_sum(pt, __t.len() as int, am, pw(m)); }
                assert forall|m: Map<u64, F64>| poly_sum(ch, n, m) == polynomial_val(self, m) + polynomial_val(rhs, m) by { lemma_poly_sum_concat(self.terms@, rhs.terms@, rhs.terms.len() as int, m); }
            }
            assert forall|k: u64| poly_ids(__t@, __t.len() as int).contains(k) implies polynomial_ids(self).union(polynomial_ids(rhs)).contains(k) by {
                lemma_poly_ids_mem(__t@, __t.len() as int, k);
                let i = choose|i: int| 0 <= i < __t.len() && #[trigger] mono_ids(__t@[i].ids@, __t@[i].ids.len() as int).contains(k);
                assert(terms@.contains_key(__t[i].ids@));
                let j = choose|j: int| 0 <= j < ch.len() && (#[trigger] ch[j]).ids@ == __t[i].ids@;
                assert(ch[j].ids.len() == __t[i].ids.len());
                if j < self.terms.len() { assert(ch[j] == self.terms[j]); lemma_poly_ids_mem(self.terms@, self.terms.len() as int, k); assert(mono_ids(self.terms@[j].ids@, self.terms@[j].ids.len() as int).contains(k)); }
                else { let q = j - self.terms.len(); assert(ch[j] == rhs.terms[q]); lemma_poly_ids_mem(rhs.terms@, rhs.terms.len() as int, k); assert(mono_ids(rhs.terms@[q].ids@, rhs.terms@[q].ids.len() as int).contains(k)); }
            }
        }
        ''' % (N, FIN)
    return Unit('Add for Polynomial', 'polynomial.rs', 'add', impl=r'impl Add for Polynomial \{', sig='fn add(self, rhs: Self) -> Self', anyhow=False,
                pre=spec_impl('add', 'Polynomial', 'Polynomial', 'Polynomial'), wrap=('impl core::ops::Add for Polynomial { type Output = Polynomial;', '}'),
                header='''#[verifier::loop_isolation(false)]
fn add(self, rhs: Self) -> (r: Polynomial)
        // the result lists, one monomial per key, the specified merge of the two monomial lists keyed by the id list (equal id lists accumulated, an entry dropped when |sum| <= EPSILON);
        // the remainder is DEFINED as the difference to that merge
        ensures ''' + contract('add', 'Polynomial', 'Polynomial', 'Polynomial'),
                rsubs=[(r'let mut terms = BTreeMap::new\(\);', 'let mut terms: VMap = VMap::new();', 1),      # R28
                       (r'self\.terms\.iter\(\)\.chain\(rhs\.terms\.iter\(\)\)', 'chain_refs(&self.terms, &rhs.terms)', 1),
                       (r'(?s)terms\.into_iter\(\)\.map\(\|\(ids, coefficient\)\| Monomial \{ ids, coefficient \}\)\.collect\(\)', 'vmap_into_monomials(terms)', 1),
                       (r'Self \{\s*terms: vmap_into_monomials\(terms\),?\s*\}', 'let __t = vmap_into_monomials(terms); Self { terms: __t }', None)],     # R20c
                renames=[(r'let mut (\w+) = BTreeMap::new\(\);', 'terms'), (r'let (\w+) = terms\.into_iter\(\)\.map\(', '__t')],
                loops=[dict(kind='for', it='it_1', rebind='*__e',
                            body_proof=' proof { assert(**__e == ch[it_1.index@ as int]); assert(pitems(ch)[it_1.index@ as int] == (term.ids@, term.coefficient)); }',
                            inv='''invariant
                ch == self.terms@ + rhs.terms@, __h1.len() == ch.len(),
                forall|i: int| 0 <= i < ch.len() ==> *(#[trigger] __h1[i]) == ch[i],
                kfin(pitems(ch)) ==> kmatches(terms@, kacc(pitems(ch), it_1.index@ as int, true, Map::empty())),
                forall|k: Seq<u64>| #[trigger] terms@.contains_key(k) ==> exists|j: int| 0 <= j < it_1.index@ && (#[trigger] ch[j]).ids@ == k,''')],
                proofs=[(('before', r'let __h1 = chain_refs'), 'let ghost ch = self.terms@ + rhs.terms@;\n        '),
                        (('before', r'Self \{\s*terms: __t'), final_proof)],
                post_subs=[])


# ---------------------------------------------------------------- Polynomial * Polynomial: SortedIds, the term iterator of &Polynomial, the epsilon-dropping collect, the product loops
def sorted_ids_type():
    src = core.load('sorted_ids.rs')
    if not re.search(r'pub struct SortedIds\(Vec<u64>\);', src):
        raise core.LostAnchor('newtype SortedIds changed')
    return ('pub struct SortedIds(pub Vec<u64>);\n'
            'impl Clone for SortedIds { #[verifier::external_body] fn clone(&self) -> (r: Self) ensures r == *self { unimplemented!() } }\n'
            '// the hand-written Ord of SortedIds (graded lexicographic) is only used as the key order of BTreeMap<SortedIds, f64>, which R28 replaces by the model SMap\n'
            'impl PartialEq for SortedIds { #[verifier::external_body] fn eq(&self, o: &Self) -> bool { unimplemented!() } }\nimpl Eq for SortedIds {}\n'
            'impl PartialOrd for SortedIds { #[verifier::external_body] fn partial_cmp(&self, o: &Self) -> Option<core::cmp::Ordering> { unimplemented!() } }\n'
            'impl Ord for SortedIds { #[verifier::external_body] fn cmp(&self, o: &Self) -> core::cmp::Ordering { unimplemented!() } }\n')


def smap_model():
    """R28 for BTreeMap<SortedIds, f64>: the VMap model with the key type SortedIds (same text, generated)"""
    t = open(core.os.path.join(core.VERIF, 'vx', 'prelude', 'vmap_model.rs')).read()
    t = t.split('\n', 4)[4]      # drop the header comment (it describes VMap)
    t = t.replace('VMap', 'SMap').replace('VEntry', 'SEntry').replace('ventry_', 'sentry_').replace('Vec<u64>', 'SortedIds').replace('key@', 'key.0@')
    return '// ===== generated from prelude/vmap_model.rs: the same model for BTreeMap<SortedIds, f64> (keys compared by the content of the id list) =====\n' + t


PMUL_STUBS = '''// slice::sort_unstable (T4): the same elements in non-decreasing order
#[verifier::external_body] pub fn vec_sort_unstable(v: &mut Vec<u64>)
    ensures sorted_seq(final(v)@), perm(final(v)@, old(v)@)
{ unimplemented!() }
// Vec::extend(other) (T4)
#[verifier::external_body] pub fn vec_extend_u64(v: &mut Vec<u64>, other: Vec<u64>)
    ensures final(v)@ == old(v)@ + other@
{ unimplemented!() }
// BTreeMap<SortedIds, f64>::into_iter().map(|(ids, coefficient)| Monomial { ids: ids.into_inner(), coefficient }).collect(): one monomial per entry
#[verifier::external_body]
pub fn smap_into_monomials(m: SMap) -> (r: Vec<Monomial>)
    ensures r.len() == m@.len(),
        forall|i: int| 0 <= i < r.len() ==> m@.contains_key((#[trigger] r[i]).ids@) && m@[r[i].ids@] == r[i].coefficient,
        forall|i: int, j: int| 0 <= i < j < r.len() ==> (#[trigger] r[i]).ids@ != (#[trigger] r[j]).ids@,
        forall|k: Seq<u64>| #[trigger] m@.contains_key(k) ==> exists|i: int| 0 <= i < r.len() && (#[trigger] r[i]).ids@ == k,
{ unimplemented!() }
// BTreeMap<SortedIds, f64>::into_iter() collected: one (key, value) pair per entry
#[verifier::external_body]
pub fn smap_into_vec(m: SMap) -> (r: Vec<(SortedIds, F64)>)
    ensures r.len() == m@.len(),
        forall|i: int| 0 <= i < r.len() ==> m@.contains_key((#[trigger] r[i]).0.0@) && m@[r[i].0.0@] == r[i].1,
        forall|i: int, j: int| 0 <= i < j < r.len() ==> (#[trigger] r[i]).0.0@ != (#[trigger] r[j]).0.0@,
        forall|k: Seq<u64>| #[trigger] m@.contains_key(k) ==> exists|i: int| 0 <= i < r.len() && (#[trigger] r[i]).0.0@ == k,
{ unimplemented!() }
'''


def sorted_ids_units():
    S = 'sorted_ids.rs'
    new = Unit('SortedIds::new', S, 'new', impl=r'impl SortedIds \{', sig='pub fn new(ids: Vec<u64>) -> Self', anyhow=False, wrap=('impl SortedIds {', '}'),
               header='pub fn new(ids: Vec<u64>) -> (r: Self)\n        ensures sorted_seq(r.0@), perm(r.0@, ids@), r.0@ == skey(ids@),',
               rsubs=[(r'ids\.sort_unstable\(\);', 'vec_sort_unstable(&mut ids);', 1)],
               proofs=[(('before', r'Self\(ids\)\s*\}\s*$'), 'proof { lemma_skey(ids@, __ids0); }\n        '),
                       (('after', r'let mut ids = ids;'), ' let ghost __ids0 = ids@;')])
    inner = Unit('SortedIds::into_inner', S, 'into_inner', impl=r'impl SortedIds \{', sig='pub fn into_inner(self) -> Vec<u64>', anyhow=False, wrap=('impl SortedIds {', '}'),
                 header='pub fn into_inner(self) -> (r: Vec<u64>)\n        ensures r == self.0,')
    add = Unit('Add for SortedIds', S, 'add', impl=r'impl Add for SortedIds \{', sig='fn add(self, other: Self) -> Self::Output', anyhow=False,
               pre='impl AddSpecImpl<SortedIds> for SortedIds { open spec fn obeys_add_spec() -> bool { false } open spec fn add_req(self, rhs: SortedIds) -> bool { true } open spec fn add_spec(self, rhs: SortedIds) -> SortedIds { arbitrary() } }\n',
               wrap=('impl core::ops::Add for SortedIds { type Output = SortedIds;', '}'),
               header='fn add(self, other: Self) -> (r: SortedIds)\n        ensures sorted_seq(r.0@), perm(r.0@, self.0@ + other.0@), r.0@ == skey(self.0@ + other.0@),',
               rsubs=[(r'ids\.extend\(other\.0\);', 'vec_extend_u64(&mut ids, other.0);', 1), (r'ids\.sort_unstable\(\);', 'vec_sort_unstable(&mut ids);', 1)],
               proofs=[(('before', r'Self\(ids\)\s*\}\s*$'), 'proof { lemma_skey(ids@, self.0@ + other.0@); }\n        ')])
    return [new, inner, add]


def polynomial_terms():
    return Unit('IntoIterator for &Polynomial', 'polynomial.rs', 'into_iter', impl=r"impl<'a> IntoIterator for &'a Polynomial \{", sig='fn into_iter(self) -> Self::IntoIter', anyhow=False,
                wrap=('impl Polynomial {', '}'),
                header='''pub fn into_iter(&self) -> (r: Vec<(SortedIds, F64)>)
        // R22: the boxed iterator is instantiated at Vec.  One (sorted ids, coefficient) pair per monomial, in order
        ensures tlist_ok(r@, self.terms@),''',
                rsubs=[(r'(?s)Box::new\(\s*self\.terms\.iter\(\)\.map\((.*)\),?\s*\)\s*\}\s*$', r'let __r = vec_map_collect(vec_refs(&self.terms), \1); __r }', 1)],
                closures=[dict(params='term', typed='term: &Monomial', ret='(SortedIds, F64)',
                               ensures='ret.1 == term.coefficient && ret.0.0@ == skey(term.ids@) && sorted_seq(ret.0.0@) && perm(ret.0.0@, term.ids@)')])


def polynomial_from_iter():
    final_proof = '''let ghost n = iter.len() as int; let ghost am = kacc(its, n, true, Map::empty());
        proof {
            let pt = pitems(__t@);
            if kfin(its) {
                assert(am.dom() =~= tm.dom());
                assert(klists(pt, __t.len() as int, am)) by {
                    assert forall|i: int| 0 <= i < __t.len() implies am.contains_key((#[trigger] pt[i]).0) && pt[i].1@ == XR::Fin(am[pt[i].0]) by { assert(tm.contains_key(__t[i].ids@)); }
                    assert forall|i: int, j: int| 0 <= i < j < __t.len() implies (#[trigger] pt[i]).0 != (#[trigger] pt[j]).0 by { assert(__t[i].ids@ != __t[j].ids@); }
                }
                assert forall|i: int| 0 <= i < __t.len() implies fin((#[trigger] __t@[i]).coefficient) by { assert(tm.contains_key(__t[i].ids@)); }
                assert forall|m: Map<u64, F64>| poly_sum(__t@, __t.len() as int, m) == ksum(am, pw(m)) by { lemma_pitems_sum(__t@, __t.len() as int, m); lemma_klist_sum(pt, __t.len() as int, am, pw(m)); }
            }
            assert forall|j: int| 0 <= j < __t.len() implies exists|i: int| 0 <= i < iter.len() && (#[trigger] iter[i]).0.0@ == (#[trigger] __t[j]).ids@ by { assert(tm.contains_key(__t[j].ids@)); }
        }
        '''
    return Unit('FromIterator<(SortedIds, f64)> for Polynomial', 'polynomial.rs', 'from_iter', impl=r'impl FromIterator<\(SortedIds, f64\)> for Polynomial \{',
                sig='fn from_iter<I: IntoIterator<Item = (SortedIds, f64)>>(iter: I) -> Self', anyhow=False, wrap=('impl Polynomial {', '}'),
                header='''#[verifier::loop_isolation(false)]
pub fn from_iter(iter: Vec<(SortedIds, F64)>) -> (r: Polynomial)
        // R22: the IntoIterator parameter is instantiated at Vec.  The monomials of the result list, one per key, the epsilon-dropping merge of the given (ids, coefficient) items
        ensures
            kfin(sitems(iter@)) ==> poly_fin(r.terms@) && forall|m: Map<u64, F64>| #![trigger polynomial_val(r, m)] polynomial_val(r, m) == ksum(kacc(sitems(iter@), iter.len() as int, true, Map::empty()), pw(m)),
            // r lists the merged map: one monomial per key, its coefficient the accumulated value
            kfin(sitems(iter@)) ==> klists(pitems(r.terms@), r.terms.len() as int, kacc(sitems(iter@), iter.len() as int, true, Map::empty())),
            forall|j: int| 0 <= j < r.terms.len() ==> exists|i: int| 0 <= i < iter.len() && (#[trigger] iter[i]).0.0@ == (#[trigger] r.terms[j]).ids@,''',
                rsubs=[(r'let mut terms = BTreeMap::new\(\);', 'let mut terms: SMap = SMap::new();', 1),      # R28
                       (r'(?s)terms\.into_iter\(\)\.map\(\|\(ids, coefficient\)\| Monomial \{\s*ids: ids\.into_inner\(\),\s*coefficient,?\s*\}\)\.collect\(\)', 'smap_into_monomials(terms)', 1),
                       (r'Self \{\s*terms: smap_into_monomials\(terms\),?\s*\}', 'let __t = smap_into_monomials(terms); Self { terms: __t }', None)],     # R20c
                renames=[(r'let mut (\w+) = BTreeMap::new\(\);', 'terms'), (r'let (\w+) = terms\.into_iter\(\)\.map\(', '__t')],
                loops=[dict(kind='for', it='it_1', rebind='(__e.0.vclone(), __e.1)',
                            body_proof=' proof { assert(*__e == iter[it_1.index@ as int]); assert(its[it_1.index@ as int] == (ids.0@, coefficient)); }',
                            inv='''invariant
                its == sitems(iter@), __h1@ == iter@,
                kfin(its) ==> kmatches(terms@, kacc(its, it_1.index@ as int, true, Map::empty())),
                forall|k: Seq<u64>| #[trigger] terms@.contains_key(k) ==> exists|i: int| 0 <= i < it_1.index@ && (#[trigger] iter[i]).0.0@ == k,''')],
                proofs=[(('before', r'let __h1 = iter;'), 'let ghost its = sitems(iter@);\n        '),
                        (('before', r'let __t = smap_into_monomials\(terms\);'), 'let ghost tm = terms@;\n        '),
                        (('after', r'let __t = smap_into_monomials\(terms\);'), '\n        ' + final_proof)],
                post_subs=[])


def polynomial_mul_polynomial():
    FIN = 'poly_fin(self.terms@) && poly_fin(rhs.terms@)'
    final_proof = '''proof {
            let si = sitems(lv); let n = lv.len() as int;
            assert(gm == pmat(a, b, a.len() as int));
            if %s {
                assert(gm.dom() =~= tm.dom());
                assert(klists(si, n, gm)) by {
                    assert forall|i: int| 0 <= i < n implies gm.contains_key((#[trigger] si[i]).0) && si[i].1@ == XR::Fin(gm[si[i].0]) by { assert(tm.contains_key(lv[i].0.0@)); }
                    assert forall|i: int, j: int| 0 <= i < j < n implies (#[trigger] si[i]).0 != (#[trigger] si[j]).0 by { assert(lv[i].0.0@ != lv[j].0.0@); }
                }
                assert(kfin(si)) by { assert forall|i: int| 0 <= i < n implies fin((#[trigger] si[i]).1) by { assert(tm.contains_key(lv[i].0.0@)); } }
                lemma_kacc_listing(si, n, gm);
                assert forall|m: Map<u64, F64>| #![trigger polynomial_val(__r, m)] polynomial_val(__r, m) == polynomial_val(self, m) * polynomial_val(rhs, m) - rem_mul_polynomial_polynomial(self, rhs, m) by {
                    assert(ksum(gm, pw(m)) == poly_sum(a, a.len() as int, m) * poly_sum(b, b.len() as int, m)); }
                assert forall|m: Map<u64, F64>| #![trigger polynomial_val(__r, m)] polynomial_val(__r, m) == polynomial_val(rhs, m) * polynomial_val(self, m) - rem_mul_polynomial_polynomial(self, rhs, m) by {
                    assert(polynomial_val(self, m) * polynomial_val(rhs, m) == polynomial_val(rhs, m) * polynomial_val(self, m)) by(nonlinear_arith); }
            }
            assert forall|k: u64| polynomial_ids(__r).contains(k) implies idset.contains(k) by {
                lemma_poly_ids_mem(__r.terms@, __r.terms.len() as int, k);
                let j = choose|j: int| 0 <= j < __r.terms.len() && #[trigger] mono_ids(__r.terms@[j].ids@, __r.terms@[j].ids.len() as int).contains(k);
                lemma_mono_ids_mem(__r.terms@[j].ids@, __r.terms@[j].ids.len() as int, k);
                let q = choose|q: int| 0 <= q < __r.terms@[j].ids.len() && __r.terms@[j].ids@[q] == k;
                let i = choose|i: int| 0 <= i < lv.len() && (#[trigger] lv[i]).0.0@ == (#[trigger] __r.terms[j]).ids@;
                assert(tm.contains_key(lv[i].0.0@));
                assert(lv[i].0.0@[q] == k);
            }
        }
        ''' % FIN
    return Unit('Mul for Polynomial', 'polynomial.rs', 'mul', impl=r'impl Mul for Polynomial \{', sig='fn mul(self, rhs: Self) -> Self', anyhow=False,
                pre=spec_impl('mul', 'Polynomial', 'Polynomial', 'Polynomial'), wrap=('impl core::ops::Mul for Polynomial { type Output = Polynomial;', '}'),
                header='''#[verifier::loop_isolation(false)]
fn mul(self, rhs: Self) -> (r: Polynomial)
        // the two loops build the EXACT product of the two monomial lists under canonical (sorted) id lists - nothing is dropped there -; the final collect drops the entries with
        // |v| <= EPSILON, which is the remainder
        ensures ''' + contract('mul', 'Polynomial', 'Polynomial', 'Polynomial'),
                renames=[(r'let mut (\w+) = BTreeMap::new\(\);', 'terms')],
                rsubs=[(r'let mut terms = BTreeMap::new\(\);', 'let mut terms: SMap = SMap::new();', 1),      # R28
                       # R20c: the product is bound by a `let` in front of the statement that uses it
                       (r'\*terms\.entry\(ids\)\.or_default\(\) \+= ([^;]+);', r'let __p = \1; let ghost key = ids.0@; *terms.entry(ids).or_default() += __p;', 1),
                       (r'terms\.into_iter\(\)\.collect\(\)\s*\}\s*$', 'let __v = smap_into_vec(terms); let ghost lv = __v@; let __r = Polynomial::from_iter(__v); __r }', 1)],
                loops=[dict(kind='for', it='it_1', rebind='(__e.0.vclone(), __e.1)',
                            body_proof=' proof { assert(*__e == la[it_1.index@ as int]); }',
                            inv='''invariant
                a == self.terms@, b == rhs.terms@, la == __h1@, tlist_ok(la, a),
                forall|key: Seq<u64>| #[trigger] terms@.contains_key(key) ==> forall|q: int| 0 <= q < key.len() ==> idset.contains(#[trigger] key[q]),
                gm == pmat(a, b, it_1.index@ as int),
                %s ==> kmatches(terms@, gm) && forall|x: Map<u64, F64>| #![trigger ksum(gm, pw(x))] ksum(gm, pw(x)) == poly_sum(a, it_1.index@ as int, x) * poly_sum(b, b.len() as int, x),''' % FIN),
                       dict(kind='for', it='it_2', rebind='(__e.0.vclone(), __e.1)',
                            body_proof=' proof { assert(*__e == __h2[it_2.index@ as int]); }',
                            inv='''invariant
                    0 <= it_1.index@ < a.len(), tlist_ok(__h2@, b), id_l.0@ == la[it_1.index@ as int].0.0@, value_l == la[it_1.index@ as int].1,
                    forall|key: Seq<u64>| #[trigger] terms@.contains_key(key) ==> forall|q: int| 0 <= q < key.len() ==> idset.contains(#[trigger] key[q]),
                    gm == prow(pmat(a, b, it_1.index@ as int), a[it_1.index@ as int], b, it_2.index@ as int),
                    %s ==> kmatches(terms@, gm) && forall|x: Map<u64, F64>| #![trigger ksum(gm, pw(x))] ksum(gm, pw(x)) ==
                        poly_sum(a, it_1.index@ as int, x) * poly_sum(b, b.len() as int, x)
                        + mono_val(rv(a[it_1.index@ as int].coefficient), a[it_1.index@ as int].ids@, a[it_1.index@ as int].ids.len() as int, x) * poly_sum(b, it_2.index@ as int, x),''' % FIN)],
                proofs=[(('after', r'let mut terms: SMap = SMap::new\(\);'), '''
        let ghost a = self.terms@; let ghost b = rhs.terms@; let ghost idset = polynomial_ids(self).union(polynomial_ids(rhs));
        let ghost mut gm: Map<Seq<u64>, real> = Map::empty();
        proof { assert forall|x: Map<u64, F64>| #![trigger ksum(gm, pw(x))] ksum(gm, pw(x)) == 0real * poly_sum(b, b.len() as int, x) by { lemma_ksum_empty::<Seq<u64>>(pw(x)); assert(0real * poly_sum(b, b.len() as int, x) == 0real) by(nonlinear_arith); } }'''),
                        (('after', r'let __h1 = self\.into_iter\(\);'), ' let ghost la = __h1@;'),
                        (('after', r'\+= __p;'), '''
                proof {
                    let i = it_1.index@ as int; let j = it_2.index@ as int; let ai = a[i]; let bj = b[j];
                    assert(id_r.0@ == skey(bj.ids@) && id_l.0@ == skey(ai.ids@));
                    assert(key == skey(skey(bj.ids@) + skey(ai.ids@)));
                    // ids of the key come from the two monomials
                    assert forall|q: int| 0 <= q < key.len() implies idset.contains(#[trigger] key[q]) by {
                        let k = key[q]; assert(key.contains(k));
                        lemma_perm_mem(key, id_r.0@ + id_l.0@, k);
                        let w = choose|w: int| 0 <= w < (id_r.0@ + id_l.0@).len() && (id_r.0@ + id_l.0@)[w] == k;
                        if w < id_r.0@.len() { assert(id_r.0@.contains(k)); lemma_perm_mem(id_r.0@, bj.ids@, k); lemma_mono_ids_mem(bj.ids@, bj.ids.len() as int, k); lemma_poly_ids_mem(b, b.len() as int, k);
                            assert(mono_ids(b[j].ids@, b[j].ids.len() as int).contains(k)); }
                        else { assert(id_l.0@[w - id_r.0@.len()] == k); assert(id_l.0@.contains(k)); lemma_perm_mem(id_l.0@, ai.ids@, k); lemma_mono_ids_mem(ai.ids@, ai.ids.len() as int, k); lemma_poly_ids_mem(a, a.len() as int, k);
                            assert(mono_ids(a[i].ids@, a[i].ids.len() as int).contains(k)); }
                    }
                    let c = rv(ai.coefficient) * rv(bj.coefficient); let g0 = gm;
                    if poly_fin(self.terms@) && poly_fin(rhs.terms@) { assert(__p@ == XR::Fin(c)); }
                    gm = kbump(gm, key, c);
                    if %s {
                        assert forall|x: Map<u64, F64>| #![trigger ksum(gm, pw(x))] ksum(gm, pw(x)) ==
                            poly_sum(a, i, x) * poly_sum(b, b.len() as int, x) + mono_val(rv(ai.coefficient), ai.ids@, ai.ids.len() as int, x) * poly_sum(b, j + 1, x) by {
                            lemma_ksum_kbump(g0, pw(x), key, c);
                            let wa = mono_val(1real, ai.ids@, ai.ids.len() as int, x); let wb = mono_val(1real, bj.ids@, bj.ids.len() as int, x);
                            lemma_mono_perm(1real, key, id_r.0@ + id_l.0@, x);
                            lemma_mono_concat(id_r.0@, id_l.0@, id_l.0@.len() as int, x);
                            lemma_mono_perm(1real, id_r.0@, bj.ids@, x); lemma_mono_perm(1real, id_l.0@, ai.ids@, x);
                            assert(pw(x)(key) == wb * wa);
                            lemma_mono_unit(rv(ai.coefficient), ai.ids@, ai.ids.len() as int, x); lemma_mono_unit(rv(bj.coefficient), bj.ids@, bj.ids.len() as int, x);
                            lemma_prod_step(poly_sum(a, i, x) * poly_sum(b, b.len() as int, x), rv(ai.coefficient), wa, poly_sum(b, j, x), rv(bj.coefficient), wb);
                        }
                    }
                }''' % FIN),
                        # end of the outer body: the row is complete
                        (('before', r'\}\s*let __v = smap_into_vec'), '''proof { if %s {
                let i = it_1.index@ as int;
                assert forall|x: Map<u64, F64>| #![trigger ksum(gm, pw(x))] ksum(gm, pw(x)) == poly_sum(a, i + 1, x) * poly_sum(b, b.len() as int, x) by {
                    lemma_prod_row(poly_sum(a, i, x), mono_val(rv(a[i].coefficient), a[i].ids@, a[i].ids.len() as int, x), poly_sum(b, b.len() as int, x)); } } }
        ''' % FIN),
                        (('before', r'let __v = smap_into_vec'), 'let ghost tm = terms@;\n        '),
                        (('before', r'__r\s*\}\s*$'), final_proof)])
