"""Units for C11 (PUBO/QUBO export): v1_ext/instance.rs, sorted_ids.rs"""
from vx.core import Unit

F = 'v1_ext/instance.rs'
I = r'impl Instance \{'
W = ('impl Instance {', '}')

STUBS = '''impl Instance {
    // Instance::binary_ids (iterator filter/map/collect; T5 assumed): ids of the variables of kind Binary (code 1)
    #[verifier::external_body] pub fn binary_ids(&self) -> (r: BTreeSet<u64>)
        ensures forall|k: u64| #[trigger] r@.contains(k) <==> exists|i: int| 0 <= i < self.decision_variables.len() && (#[trigger] self.decision_variables[i]).id == k && self.decision_variables[i].kind == 1
    { unimplemented!() }
}
// purity naming (ASSUMED): the list the term iterator yields for a message is a function of the message.  Everything else about that list is proved (fn_terms below)
#[verifier::external_body]
pub fn name_terms(v: Vec<(SortedIds, F64)>, f: &Function) -> (r: Vec<(SortedIds, F64)>)
    ensures r == v, r@ == fterms(*f)
{ v }
// `for (ids, c) in self.objective().into_iter()` (glue, verified): the real IntoIterator for &Function (a verified unit of this file), then the purity naming
pub fn fn_terms(f: &Function) -> (r: Vec<(SortedIds, F64)>)
    requires fn_coo_ok(*f)      // IntoIterator for &Quadratic asserts equal COO lengths
    ensures r@ == fterms(*f), fn_titems_ok(fterms(*f), *f),
        fn_fin(*f) ==> ft_fin(r@),
        forall|j: int| 0 <= j < r.len() ==> ids_sorted((#[trigger] r[j]).0.0@) && forall|t: int| 0 <= t < r[j].0.0.len() ==> fn_used(*f).contains(r[j].0.0[t])
{
    let v = f.into_iter(); let r = name_terms(v, f);
    proof {
        lemma_fn_ids_used(*f);
        assert forall|j: int| 0 <= j < r.len() implies (fn_fin(*f) ==> fin((#[trigger] r[j]).1)) && ids_sorted(r[j].0.0@) && (forall|t: int| 0 <= t < r[j].0.0.len() ==> fn_used(*f).contains(r[j].0.0[t])) by {
            lemma_fn_titems_from(r@, *f, j);
            assert forall|t: int| 0 <= t < r[j].0.0.len() implies fn_used(*f).contains(r[j].0.0[t]) by { assert(fn_ids(*f).contains(r[j].0.0@[t])); }
        }
    }
    r
}
// `ids.dedup()` on a sorted vector (Vec::dedup removes consecutive repeats; T4): the distinct elements in strictly increasing order.  (On an unsorted vector dedup does
// something else: the precondition makes a dedup without the preceding sort fail an obligation instead of being trusted.)
#[verifier::external_body] pub fn vec_dedup_sorted(v: &mut Vec<u64>)
    requires sorted_seq(old(v)@)
    ensures forall|i: int, j: int| 0 <= i < j < final(v).len() ==> final(v)[i] < final(v)[j],
        forall|x: u64| final(v)@.contains(x) <==> old(v)@.contains(x),
        final(v).len() == old(v)@.to_set().len(),
{ unimplemented!() }
'''


TERMS_LEMMAS = '''pub proof fn lemma_ft_kseq(t: Seq<(SortedIds, F64)>, n: int, x: Map<u64, F64>)
    requires 0 <= n <= t.len()
    ensures ft_sum(t, n, x) == kseq_sum(sitems(t), n, pw(x))
    decreases n
{ if n > 0 { lemma_ft_kseq(t, n - 1, x); lemma_mono_unit(rv(t[n - 1].1), t[n - 1].0.0@, t[n - 1].0.0@.len() as int, x); } }
// (formerly an axiom) the terms of the list sum to the function
pub proof fn lemma_fterms_sum(f: v1::Function, x: Map<u64, F64>)
    requires fn_coo_ok(f), fn_titems_ok(fterms(f), f)
    ensures ft_sum(fterms(f), fterms(f).len() as int, x) == fn_val(f, x)
{ lemma_fn_titems_sum(fterms(f), f, x); lemma_ft_kseq(fterms(f), fterms(f).len() as int, x); }
// THE PROPERTY in terms of the objective: on every 0/1 assignment the exported dictionary / matrix + offset reproduce the objective, minus the explicit remainder
pub proof fn lemma_pubo_objective(f: v1::Function, x: Map<u64, F64>)
    requires fn_coo_ok(f), fn_titems_ok(fterms(f), f), forall|j: int| 0 <= j < fterms(f).len() ==> binary_on(x, (#[trigger] fterms(f)[j]).0.0@)
    ensures psum(pacc(fterms(f), fterms(f).len() as int), x) == fn_val(f, x) - prem(fterms(f), fterms(f).len() as int, x)
{ lemma_fterms_sum(f, x); lemma_pubo_value(fterms(f), fterms(f).len() as int, x); }
pub proof fn lemma_qubo_objective(f: v1::Function, x: Map<u64, F64>)
    requires fn_coo_ok(f), fn_titems_ok(fterms(f), f), q_terms_ok(fterms(f), fterms(f).len() as int), forall|j: int| 0 <= j < fterms(f).len() ==> binary_on(x, (#[trigger] fterms(f)[j]).0.0@)
    ensures qsum(qacc(fterms(f), fterms(f).len() as int), x) + qconst(fterms(f), fterms(f).len() as int) == fn_val(f, x) - qrem(fterms(f), fterms(f).len() as int, x)
{ lemma_fterms_sum(f, x); lemma_qubo_value(fterms(f), fterms(f).len() as int, x); }
// ids of the value (fn_ids) are ids validation sees (fn_used)
pub proof fn lemma_fn_ids_used(f: v1::Function)
    requires fn_coo_ok(f)
    ensures fn_ids(f).subset_of(fn_used(f))
{
    match f.function {
        Some(v1::function::Function::Quadratic(q)) => {
            assert forall|k: u64| quad_ids(q.rows@, q.columns@, quad_n(q)).contains(k) implies q.rows@.to_set().contains(k) || q.columns@.to_set().contains(k) by {
                lemma_quad_ids_mem(q.rows@, q.columns@, quad_n(q), k);
                let i = choose|i: int| 0 <= i < quad_n(q) && #[trigger] pos_has(q.rows@, q.columns@, i, k);
                if q.rows[i] == k { assert(q.rows@.contains(k)); } else { assert(q.columns@.contains(k)); }
            }
        }
        _ => {}
    }
}
'''


def binary_ids_from_sorted():
    return Unit('From<SortedIds> for BinaryIds', 'sorted_ids.rs', 'from', impl=r'impl From<SortedIds> for BinaryIds \{', sig='fn from(ids: SortedIds) -> Self', anyhow=False,
                pre='impl vstd::std_specs::convert::FromSpecImpl<SortedIds> for BinaryIds { open spec fn obeys_from_spec() -> bool { false } open spec fn from_spec(v: SortedIds) -> Self { arbitrary() } }\n',
                wrap=('impl From<SortedIds> for BinaryIds {', '}'),
                header='''fn from(ids: SortedIds) -> (r: Self)
        // x^k = x for binaries: the key is the SET of the ids of the monomial
        ensures r.0@ =~= ids.0@.to_set(),''',
                rsubs=[(r'ids\.0\.into_iter\(\)\.collect\(\)', 'vec_to_btreeset(ids.0)', 1)])


REFUSE = '''        // export is refused when active constraints remain, the sense is maximisation, or a non-binary (or undefined) variable is used
        self.constraints.len() > 0 ==> r is Err,
        self.sense == 2 ==> r is Err,
        (exists|k: u64| #![trigger fn_used(ofun(*self)).contains(k)] fn_used(ofun(*self)).contains(k) && !is_binary_id(self.decision_variables@, k)) ==> r is Err,'''


def as_pubo_format():
    return Unit('Instance::as_pubo_format', F, 'as_pubo_format', impl=I, wrap=W,
                sig='pub fn as_pubo_format(&self) -> Result<BTreeMap<BinaryIds, f64>>',
                header='''pub fn as_pubo_format(&self) -> (r: Result<BTreeMap<BinaryIds, F64>, VErr>)
    // observation: the term iterator panics on a Quadratic objective whose COO arrays differ in length
    requires fn_coo_ok(ofun(*self)),
    ensures
''' + REFUSE + '''
        r is Err ==> (self.constraints.len() > 0 || self.sense == 2 || exists|k: u64| #![trigger fn_used(ofun(*self)).contains(k)] fn_used(ofun(*self)).contains(k) && !is_binary_id(self.decision_variables@, k)),
        // no stored coefficient is (numerically) zero; keys are sets of binary ids of the objective
        r is Ok ==> forall|key: BinaryIds| #[trigger] r->Ok_0@.contains_key(key) ==> !xr_lt(xr_abs(r->Ok_0@[key]@), XR::Fin(eps_real()))
            && forall|k: u64| #[trigger] key.0@.contains(k) ==> fn_used(ofun(*self)).contains(k),
        // the dictionary IS the specified accumulation of the objective's terms (skip |c| <= EPSILON, key = set of the ids, accumulate, remove an entry whose sum became
        // numerically zero); lemma_pubo_value: sum_S c_S prod_{i in S} x_i = objective(x) on every 0/1 assignment minus the explicit remainder prem
        r is Ok && fn_fin(ofun(*self)) ==> pmap_matches(r->Ok_0@, pacc(fterms(ofun(*self)), fterms(ofun(*self)).len() as int)),
        // ... and that term list is one the (verified) term iterator yields: its terms sum to the objective (lemma_pubo_objective)
        r is Ok ==> fn_titems_ok(fterms(ofun(*self)), ofun(*self)),''',
                rsubs=[(r'self\.objective\(\)\.used_decision_variable_ids\(\)\.is_subset\(&self\.binary_ids\(\)\)', 'btreeset_is_subset(&self.objective().used_decision_variable_ids(), &self.binary_ids())', 1),
                       (r'in self\.objective\(\)\.into_iter\(\) \{', 'in fn_terms(&self.objective()) {', 1),
                       (r'out\.entry\(key\.vclone\(\)\)\.and_modify\(\|v\| \*v \+= c\)\.or_insert\(c\)', 'btreemap_add_or_insert(&mut out, key.vclone(), c)', None),
                       (r'out\.entry\(key\.vclone\(\)\)\.or_insert\(c\)', 'btreemap_or_insert(&mut out, key.vclone(), c)', None),   # the same statement without the accumulation: still in the dialect, its contract says what it does
                       (r'let mut out = BTreeMap::new\(\);', 'let mut out: BTreeMap<BinaryIds, F64> = BTreeMap::new();', 1)],
                loops=[dict(kind='for', it='it_1', rebind='(__e.0.vclone(), __e.1)', body_proof=' proof { assert(*__e == __h1[it_1.index@ as int]); }', inv='''invariant
                forall|j: int| 0 <= j < __h1.len() ==> ids_sorted((#[trigger] __h1[j]).0.0@) && forall|t: int| 0 <= t < __h1[j].0.0.len() ==> fn_used(ofun(*self)).contains(__h1[j].0.0[t]),
                forall|key: BinaryIds| #[trigger] out@.contains_key(key) ==> !xr_lt(xr_abs(out@[key]@), XR::Fin(eps_real()))
                    && forall|k: u64| #[trigger] key.0@.contains(k) ==> fn_used(ofun(*self)).contains(k),
                __h1@ == fterms(ofun(*self)), fn_titems_ok(__h1@, ofun(*self)), fn_fin(ofun(*self)) ==> ft_fin(__h1@),
                fn_fin(ofun(*self)) ==> pmap_matches(out@, pacc(__h1@, it_1.index@ as int)),''')],
                proofs=[(('after', r'let key = BinaryIds::from\(ids\);'), '''
                proof { broadcast use ax_bkey, ax_binary_ids_ext; assert(key.0@ == bkey(__h1@[it_1.index@ as int].0.0@).0@); assert(key == bkey(__h1@[it_1.index@ as int].0.0@)); }''')])


def as_qubo_format():
    return Unit('Instance::as_qubo_format', F, 'as_qubo_format', impl=I, wrap=W,
                sig='pub fn as_qubo_format(&self) -> Result<(BTreeMap<BinaryIdPair, f64>, f64)>',
                header='''pub fn as_qubo_format(&self) -> (r: Result<(BTreeMap<BinaryIdPair, F64>, F64), VErr>)
    // observation: the term iterator panics on a Quadratic objective whose COO arrays differ in length
    requires fn_coo_ok(ofun(*self)),
    ensures
''' + REFUSE + '''
        // keys are canonical pairs i <= j over ids of the objective, no stored coefficient is (numerically) zero
        r is Ok ==> forall|key: BinaryIdPair| #[trigger] r->Ok_0.0@.contains_key(key) ==> key.0 <= key.1 && !xr_lt(xr_abs(r->Ok_0.0@[key]@), XR::Fin(eps_real()))
            && fn_used(ofun(*self)).contains(key.0) && fn_used(ofun(*self)).contains(key.1),
        // the matrix and the offset ARE the specified accumulation of the objective's terms (skip |c| <= EPSILON, key (first id, last id), accumulate, remove an entry
        // whose sum became numerically zero); lemma_qubo_value: sum Q_ij x_i x_j + offset = objective(x) on every 0/1 assignment minus the explicit remainder qrem
        r is Ok && fn_fin(ofun(*self)) ==> ({ let t = fterms(ofun(*self)); let n = t.len() as int;
            q_terms_ok(t, n) && qmap_matches(r->Ok_0.0@, qacc(t, n)) && r->Ok_0.1@ == XR::Fin(qconst(t, n)) }),
        // ... and that term list is one the (verified) term iterator yields: its terms sum to the objective (lemma_qubo_objective)
        r is Ok ==> fn_titems_ok(fterms(ofun(*self)), ofun(*self)),''',
                rsubs=[(r'self\.objective\(\)\.used_decision_variable_ids\(\)\.is_subset\(&self\.binary_ids\(\)\)', 'btreeset_is_subset(&self.objective().used_decision_variable_ids(), &self.binary_ids())', 1),
                       (r'in self\.objective\(\)\.into_iter\(\) \{', 'in fn_terms(&self.objective()) {', 1),
                       (r'quad\.entry\(key\)\.and_modify\(\|v\| \*v \+= c\)\.or_insert\(c\)', 'btreemap_add_or_insert(&mut quad, key, c)', None),
                       (r'quad\.entry\(key\)\.or_insert\(c\)', 'btreemap_or_insert(&mut quad, key, c)', None),
                       (r'BinaryIdPair::try_from\(ids\)\?', 'BinaryIdPair::try_from_sorted(ids)?', 1),
                       (r'let mut quad = BTreeMap::new\(\);', 'let mut quad: BTreeMap<BinaryIdPair, F64> = BTreeMap::new();', 1)],
                loops=[dict(kind='for', it='it_1', cont=True, rebind='(__e.0.vclone(), __e.1)', inv='''invariant
                0 <= __i1 <= __h1.len(),
                forall|j: int| 0 <= j < __h1.len() ==> ids_sorted((#[trigger] __h1[j]).0.0@) && forall|t: int| 0 <= t < __h1[j].0.0.len() ==> fn_used(ofun(*self)).contains(__h1[j].0.0[t]),
                forall|key: BinaryIdPair| #[trigger] quad@.contains_key(key) ==> key.0 <= key.1 && !xr_lt(xr_abs(quad@[key]@), XR::Fin(eps_real()))
                    && fn_used(ofun(*self)).contains(key.0) && fn_used(ofun(*self)).contains(key.1),
                __h1@ == fterms(ofun(*self)), fn_titems_ok(__h1@, ofun(*self)), fn_fin(ofun(*self)) ==> ft_fin(__h1@),
                fn_fin(ofun(*self)) ==> q_terms_ok(__h1@, __i1 as int) && qmap_matches(quad@, qacc(__h1@, __i1 as int)) && constant@ == XR::Fin(qconst(__h1@, __i1 as int)),
            decreases __h1.len() - __i1''')],
                proofs=[(('after', r'let key = BinaryIdPair::try_from_sorted\(ids\)\?;'), '''
                proof { let s = __h1@[__i1 - 1].0.0@;
                    // ids sorted, every id is one of the two key ids and both occur: the key is (first id, last id)
                    let t0 = choose|t: int| 0 <= t < s.len() && s[t] == key.0; let t1 = choose|t: int| 0 <= t < s.len() && s[t] == key.1;
                    assert(s[0] <= s[t0]); assert(s[t1] <= s[s.len() - 1]);
                    assert(s[0] == key.0 || s[0] == key.1); assert(s[s.len() - 1] == key.0 || s[s.len() - 1] == key.1);
                    assert(key == pair_of(s)); assert(two_vars(s)); }''')])


def binary_id_pair_try_from():
    POST = '''r is Ok <==> 1 <= ids@.to_set().len() <= 2,
        // canonical pair over exactly the distinct ids of the list (x^k = x for binaries: a single id gives (a, a))
        r is Ok ==> r->Ok_0.0 <= r->Ok_0.1 && (forall|t: int| 0 <= t < ids.len() ==> ids[t] == r->Ok_0.0 || ids[t] == r->Ok_0.1)
            && (exists|t: int| 0 <= t < ids.len() && ids[t] == r->Ok_0.0) && (exists|t: int| 0 <= t < ids.len() && ids[t] == r->Ok_0.1),'''
    u1 = Unit('TryFrom<Vec<u64>> for BinaryIdPair', 'sorted_ids.rs', 'try_from', impl=r'impl TryFrom<Vec<u64>> for BinaryIdPair \{',
              sig='fn try_from(mut ids: Vec<u64>) -> Result<Self, Self::Error>', wrap=('impl BinaryIdPair {', '}'), mut_self=False,
              header='''pub fn try_from(ids: Vec<u64>) -> (r: Result<Self, VErr>)
    // R29: the slice-pattern match is an if-chain on the length.  Ok exactly when the list has one or two distinct ids
    ensures ''' + POST,
              rsubs=[(r'ids\.sort_unstable\(\);', 'vec_sort_unstable(&mut ids); let ghost ids1 = ids@;', None), (r'ids\.dedup\(\);', 'vec_dedup_sorted(&mut ids);', None)],
              proofs=[('start', ' let ghost ids0 = ids@; let mut ids = ids;'),
                      # what the sort and the dedup say about the list the length test looks at, relative to the argument: same members, hence the same number of distinct ids
                      (('before', r'(?<!else )if ids\.len\(\) == '), '''proof {
            assert forall|x: u64| ids1.contains(x) <==> ids0.contains(x) by {
                assert(perm(ids0, ids1)) by { assert forall|k: u64| cnt(ids0, ids0.len() as int, k) == cnt(ids1, ids1.len() as int, k) by { } }
                if ids0.contains(x) { lemma_perm_mem(ids0, ids1, x); }
                if ids1.contains(x) { lemma_perm_mem(ids1, ids0, x); }
            }
            assert(ids1.to_set() =~= ids0.to_set());
            assert(ids@.to_set() =~= ids0.to_set());
            assert forall|t: int| 0 <= t < ids0.len() implies ids@.contains(#[trigger] ids0[t]) by { assert(ids0.contains(ids0[t])); }
            assert forall|t: int| 0 <= t < ids.len() implies ids0.contains(#[trigger] ids[t]) by { assert(ids@.contains(ids[t])); }
        }
        ''')])
    u2 = Unit('TryFrom<SortedIds> for BinaryIdPair', 'sorted_ids.rs', 'try_from', impl=r'impl TryFrom<SortedIds> for BinaryIdPair \{',
              sig='fn try_from(ids: SortedIds) -> Result<Self, Self::Error>', wrap=('impl BinaryIdPair {', '}'),
              header='''pub fn try_from_sorted(ids: SortedIds) -> (r: Result<Self, VErr>)
    ensures ''' + POST.replace('ids@', 'ids.0@').replace('ids.len()', 'ids.0.len()').replace('ids[t]', 'ids.0[t]'))
    return [u1, u2]
