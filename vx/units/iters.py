"""Term iterators (IntoIterator for &Linear / &Quadratic / &Function) and the upcasts built on them (C02).

R22/R31: the boxed iterator is instantiated at Vec; every adapter of the pipeline becomes one helper call with the adapter's std contract."""
from vx.core import Unit


def linear_terms():
    final = '''proof {
            let raw = lin_raw(*self);
            assert(__map1@ =~= raw.subrange(0, self.terms.len() as int)) by {
                assert forall|i: int| 0 <= i < self.terms.len() implies #[trigger] __map1@[i] == raw[i] by { assert(*__refs1[i] == self.terms[i]); } }
            assert(__chain1@ =~= raw);
            let b = choose|b: Seq<bool>| b.len() == __chain1.len() && (forall|i: int| 0 <= i < __chain1.len() ==> __c2.ensures((&__chain1[i],), #[trigger] b[i])) && __filter1@ == sel(__chain1@, b, __chain1.len() as int);
            assert forall|i: int| 0 <= i < raw.len() implies b[i] == nz(raw)[i] by { assert(__c2.ensures((&__chain1[i],), b[i])); }
            lemma_sel_ext(raw, b, nz(raw), raw.len() as int);
        }
        '''
    return Unit('IntoIterator for &Linear', 'linear.rs', 'into_iter', impl=r"impl<'a> IntoIterator for &'a Linear \{", sig='fn into_iter(self) -> Self::IntoIter', anyhow=False,
                wrap=('impl Linear {', '}'),
                header='''pub fn into_iter(&self) -> (r: Vec<(Option<u64>, F64)>)
        // R22: the boxed iterator is instantiated at Vec.  (Some(id), coefficient) per term in storage order, then (None, constant); items with a zero coefficient are skipped
        ensures r@ == lin_items(*self),''',
                pipes=[],
                rsubs=[(r'let __filter1 = vec_filter\(__chain1, ', 'let __c2 = ', 1), (r'\); __filter1 \}', '; let __filter1 = vec_filter(__chain1, __c2); __filter1 }', 1)],
                closures=[dict(params='term', typed='term: &v1::linear::Term', ret='(Option<u64>, F64)', ensures='ret == (Some(term.id), term.coefficient)'),
                          dict(params='(_, c)', typed='__e: &(Option<u64>, F64)', ret='bool', bind='let c = &__e.1;', ensures='ret == (__e.1@ != XR::Fin(0real))')],
                proofs=[(('before', r'__filter1 \}'), final)])


S = 'sorted_ids.rs'


def sorted_ids_from_units():
    fi = Unit('FromIterator<u64> for SortedIds', S, 'from_iter', impl=r'impl FromIterator<u64> for SortedIds \{', sig='fn from_iter<I: IntoIterator<Item = u64>>(iter: I) -> Self', anyhow=False,
              wrap=('impl SortedIds {', '}'),
              header='''pub fn from_iter(iter: Vec<u64>) -> (r: Self)
        // R22: the IntoIterator parameter is instantiated at Vec (collecting it into a Vec is then the identity)
        ensures sorted_seq(r.0@), perm(r.0@, iter@), r.0@ == skey(iter@),''',
              rsubs=[(r'iter\.into_iter\(\)\.collect::<Vec<_>>\(\)', 'iter', 1)])
    fo = Unit('From<Option<u64>> for SortedIds', S, 'from', impl=r'impl From<Option<u64>> for SortedIds \{', sig='fn from(id: Option<u64>) -> Self', anyhow=False,
              pre='impl vstd::std_specs::convert::FromSpecImpl<Option<u64>> for SortedIds { open spec fn obeys_from_spec() -> bool { false } open spec fn from_spec(v: Option<u64>) -> Self { arbitrary() } }\n',
              wrap=('impl From<Option<u64>> for SortedIds {', '}'),
              header='''fn from(id: Option<u64>) -> (r: Self)
        ensures r.0@ == okey(id), r.0@ == skey(okey(id)), sorted_seq(r.0@),''',
              rsubs=[(r'id\.into_iter\(\)\.collect\(\)', 'let __r = SortedIds::from_iter(opt_into_vec(id)); proof { lemma_okey(id); } __r', 1)])
    return [fi, fo]


KEYED = dict(params='(id, c)', typed='__e: (Option<u64>, F64)', ret='(SortedIds, F64)', bind='let id = __e.0; let c = __e.1;', ensures='ret.1 == __e.1 && ret.0.0@ == skey(okey(__e.0))')


def quadratic_terms():
    return Unit('IntoIterator for &Quadratic', 'quadratic.rs', 'into_iter', impl=r"impl<'a> IntoIterator for &'a Quadratic \{", sig='fn into_iter(self) -> Self::IntoIter', anyhow=False,
                wrap=('impl Quadratic {', '}'),
                header='''pub fn into_iter(&self) -> (r: Vec<(SortedIds, F64)>)
        // R22: the boxed iterator is instantiated at Vec.  observation: the two assert_eq! panic on COO arrays of different lengths.
        // One item per COO entry under the sorted pair (column, row), then the items of the linear part
        requires qcoo(*self),
        ensures sitems(r@) == quad_titems(*self), keys_sorted(r@),''',
                pipes=[],
                rsubs=[(r'assert_eq!\(([^;]*?), ([^;]*?)\);', r'vassert_eq(\1, \2);', 2),
                       (r'id\.into_iter\(\)\.collect\(\)', 'SortedIds::from_iter(opt_into_vec(id))', None)],
                closures=[dict(params='i', typed='i: usize', ret='(SortedIds, F64)', requires='i < self.columns.len() && i < self.rows.len() && i < self.values.len()',
                               ensures='ret.1 == self.values[i as int] && ret.0.0@ == skey(seq![self.columns[i as int], self.rows[i as int]])'),
                          KEYED],
                proofs=[(('after', r'let quad = __map1;'), ''' proof { assert(sitems(quad@) =~= qpart(*self)) by { assert forall|i: int| 0 <= i < quad.len() implies #[trigger] sitems(quad@)[i] == qpart(*self)[i] by { lemma_pair_key(self.columns[i], self.rows[i]); } } assert forall|j: int| 0 <= j < quad.len() implies sorted_seq((#[trigger] quad[j]).0.0@) by { lemma_pair_key(self.columns[j], self.rows[j]); } }'''),
                        (('before', r'__chain1 \}'), '''proof {
                let lk = lkeyed(*linear);
                assert(sitems(__map2@) =~= lk) by { assert forall|i: int| 0 <= i < __map2.len() implies #[trigger] sitems(__map2@)[i] == lk[i] by { assert(__map2[i].1 == __into1[i].1); lemma_okey(__into1[i].0); } }
                assert(sitems(__chain1@) =~= sitems(quad@) + sitems(__map2@));
                assert forall|j: int| 0 <= j < __chain1.len() implies sorted_seq((#[trigger] __chain1[j]).0.0@) by { if j >= quad.len() { let i = j - quad.len(); assert(__chain1[j] == __map2[i]); lemma_okey(__into1[i].0); } }
            }
            ''')])


def function_terms():
    return Unit('IntoIterator for &Function', 'v1_ext/function.rs', 'into_iter', impl=r"impl<'a> IntoIterator for &'a Function \{", sig='fn into_iter(self) -> Self::IntoIter', anyhow=False,
                wrap=('impl Function {', '}'),
                header='''pub fn into_iter(&self) -> (r: Vec<(SortedIds, F64)>)
        // R22: the boxed iterator is instantiated at Vec.  By kind: the constant under the empty key (also when it is zero); the items of the linear / quadratic / polynomial message;
        // nothing for an unset oneof.  observation: the iterator of a Quadratic panics on COO arrays of different lengths
        requires fn_coo_ok(*self),
        ensures fn_titems_ok(r@, *self), keys_sorted(r@),''',
                pipes=[],
                rsubs=[(r'id\.into\(\)', 'SortedIds::from(id)', None),
                       (r'let __once1 = vec_once\((.*?)\); __once1', r'let __once1 = vec_once(\1); proof { assert(sitems(__once1@) =~= seq![(Seq::<u64>::empty(), *c)]); } __once1', 1)],
                closures=[dict(params='(id, c)', typed='__e: (Option<u64>, F64)', ret='(SortedIds, F64)', bind='let id = __e.0; let c = __e.1;', ensures='ret.1 == __e.1 && ret.0.0@ == okey(__e.0)')],
                proofs=[(('before', r'__map1 \}'), '''proof {
                    let lk = lkeyed(*linear);
                    assert(sitems(__map1@) =~= lk) by { assert forall|i: int| 0 <= i < __map1.len() implies #[trigger] sitems(__map1@)[i] == lk[i] by { assert(__map1[i].1 == __into1[i].1); } }
                    assert forall|j: int| 0 <= j < __map1.len() implies sorted_seq((#[trigger] __map1[j]).0.0@) by { lemma_okey(__into1[j].0); }
                }
                ''')])


def sorted_ids_empty():
    return Unit('SortedIds::empty', S, 'empty', impl=r'impl SortedIds \{', sig='pub fn empty() -> Self', anyhow=False, wrap=('impl SortedIds {', '}'),
                header='pub fn empty() -> (r: Self)\n        ensures r.0@ == Seq::<u64>::empty(),')


P = 'polynomial.rs'


def _from_pre(src):
    return 'impl vstd::std_specs::convert::FromSpecImpl<%s> for Polynomial { open spec fn obeys_from_spec() -> bool { false } open spec fn from_spec(v: %s) -> Self { arbitrary() } }\n' % (src, src)


IDS_PROOF = '''assert forall|k: u64| polynomial_ids(__r).contains(k) implies %(ids)s.contains(k) by {
                lemma_poly_ids_mem(__r.terms@, __r.terms.len() as int, k);
                let j = choose|j: int| 0 <= j < __r.terms.len() && #[trigger] mono_ids(__r.terms@[j].ids@, __r.terms@[j].ids.len() as int).contains(k);
                lemma_mono_ids_mem(__r.terms@[j].ids@, __r.terms@[j].ids.len() as int, k);
                let q = choose|q: int| 0 <= q < __r.terms@[j].ids.len() && __r.terms@[j].ids@[q] == k;
                let i = choose|i: int| 0 <= i < %(v)s.len() && (#[trigger] %(v)s[i]).0.0@ == (#[trigger] __r.terms[j]).ids@;
                %(why)s
            }'''


def polynomial_from_units():
    SORT = '''            assert forall|j: int| 0 <= j < __r.terms.len() implies sorted_seq((#[trigger] __r.terms[j]).ids@) by {
                let i = choose|i: int| 0 <= i < %(v)s.len() && (#[trigger] %(v)s[i]).0.0@ == (#[trigger] __r.terms[j]).ids@;
                %(why)s
            }'''
    SORT = '\n' + SORT
    f64u = Unit('From<f64> for Polynomial', P, 'from', impl=r'impl From<f64> for Polynomial \{', sig='fn from(c: f64) -> Self', anyhow=False,
                pre=_from_pre('F64'), wrap=('impl From<F64> for Polynomial {', '}'),
                header='''fn from(c: F64) -> (r: Self)
        // nothing for a zero constant, else the one monomial with the empty id list (no epsilon test here)
        ensures fin(c) ==> plists(r, cmap(c)),
            polynomial_ids(r) =~= Set::<u64>::empty(), keys_sorted_p(r),''',
                rsubs=[(r'(?s)Self \{\s*terms: vec!\[Monomial \{\s*ids: vec!\[\],\s*coefficient: c,?\s*\}\],?\s*\}', 'let mut __t: Vec<Monomial> = Vec::new(); __t.push(Monomial { ids: Vec::new(), coefficient: c }); let __r = Self { terms: __t }; __r', 1)],
                proofs=[(('before', r'__r\s*\}\s*$'), '''proof {
            let g = cmap(c); let e = Seq::<u64>::empty();
            if fin(c) {
                assert(__r.terms@[0].ids@ =~= e);
                assert(g.dom() =~= Set::<Seq<u64>>::empty().insert(e));
                assert(pitems(__r.terms@)[0] == (__r.terms@[0].ids@, c));
            }
            assert(poly_ids(__r.terms@, 1) == poly_ids(__r.terms@, 0).union(mono_ids(__r.terms@[0].ids@, 0)));
        }
        '''),
                        (('before', r'return Self::zero\(\);'), 'proof { assert(cmap(c).dom() =~= Set::<Seq<u64>>::empty()); }\n            ')])
    lin = Unit('From<Linear> for Polynomial', P, 'from', impl=r'impl From<Linear> for Polynomial \{', sig='fn from(l: Linear) -> Self', anyhow=False,
               pre=_from_pre('Linear'), wrap=('impl From<Linear> for Polynomial {', '}'),
               header='''fn from(l: Linear) -> (r: Self)
        // the items of the term iterator, keyed by their (sorted) id lists, merged with the epsilon rule of FromIterator: r lists that map
        ensures linear_fin(l) ==> plists(r, lmap(l)),
            polynomial_ids(r).subset_of(linear_ids(l)), keys_sorted_p(r),''',
               pipes=[r'(?s)^\{\s*(.*)\.collect\(\)\s*\}\s*$'],
               rsubs=[(r'id\.into_iter\(\)\.collect\(\)', 'SortedIds::from_iter(opt_into_vec(id))', None),
                      (r'(?s)^\{\s*\{ (.*) __map1 \}\s*\.collect\(\)\s*\}\s*$', r'{ \1 let __r = Polynomial::from_iter(__map1); __r }', 1)],
               closures=[KEYED],
               proofs=[(('before', r'__r \}\s*$'), '''proof {
            let lk = lkeyed(l);
            assert(sitems(__map1@) =~= lk) by { assert forall|i: int| 0 <= i < __map1.len() implies #[trigger] sitems(__map1@)[i] == lk[i] by { assert(__map1[i].1 == __into1[i].1); lemma_okey(__into1[i].0); } }
            if linear_fin(l) { assert(kfin(lk)) by { assert forall|i: int| 0 <= i < lk.len() implies fin((#[trigger] lk[i]).1) by { lemma_lkeyed_from(l, i); } } }
            ''' + IDS_PROOF % dict(ids='linear_ids(l)', v='__map1', why='assert(sitems(__map1@)[i] == lk[i]); lemma_lkeyed_from(l, i); assert(lk[i].0[q] == k);') + SORT % dict(v='__map1', why='lemma_okey(__into1[i].0);') + '''
        }
        ''')])
    quad = Unit('From<Quadratic> for Polynomial', P, 'from', impl=r'impl From<Quadratic> for Polynomial \{', sig='fn from(q: Quadratic) -> Self', anyhow=False,
                wrap=('impl Polynomial {', '}'),
                header='''pub fn from_quadratic(q: Quadratic) -> (r: Self)
        // (a trait impl cannot carry a precondition in Verus: the From impl is placed as the inherent function from_quadratic, and its callers are renamed accordingly)
        // observation: the term iterator panics on COO arrays of different lengths
        requires qcoo(q),
        ensures quadratic_fin(q) ==> plists(r, qmap(q)),
            polynomial_ids(r).subset_of(quadratic_ids(q)), keys_sorted_p(r),''',
                rsubs=[(r'q\.into_iter\(\)\.collect\(\)', 'let __p1 = q.into_iter(); let __r = Polynomial::from_iter(__p1); __r', 1)],
                proofs=[(('before', r'__r\s*\}\s*$'), '''proof {
            let f = fn_of_quadratic(q);
            assert(fn_titems_ok(__p1@, f));
            if quadratic_fin(q) { assert(kfin(sitems(__p1@))) by { assert forall|i: int| 0 <= i < __p1.len() implies fin((#[trigger] sitems(__p1@)[i]).1) by { lemma_fn_titems_from(__p1@, f, i); } } }
            ''' + IDS_PROOF % dict(ids='quadratic_ids(q)', v='__p1', why='lemma_fn_titems_from(__p1@, f, i); assert(__p1[i].0.0@[q] == k);') + SORT % dict(v='__p1', why='assert(sorted_seq(__p1[i].0.0@));') + '''
        }
        ''')])
    return [f64u, lin, quad]


def quadratic_mul_quadratic():
    from vx.units.algebra import contract, spec_impl
    FIN = 'quadratic_fin(self) && quadratic_fin(rhs)'
    final_proof = '''proof {
            let si = sitems(lv); let n = lv.len() as int;
            assert(gm == gmat(a, b, a.len() as int));
            if %s {
                assert(gm.dom() =~= tm.dom());
                assert(klists(si, n, gm)) by {
                    assert forall|i: int| 0 <= i < n implies gm.contains_key((#[trigger] si[i]).0) && si[i].1@ == XR::Fin(gm[si[i].0]) by { assert(tm.contains_key(lv[i].0.0@)); }
                    assert forall|i: int, j: int| 0 <= i < j < n implies (#[trigger] si[i]).0 != (#[trigger] si[j]).0 by { assert(lv[i].0.0@ != lv[j].0.0@); }
                }
                assert(kfin(si)) by { assert forall|i: int| 0 <= i < n implies fin((#[trigger] si[i]).1) by { assert(tm.contains_key(lv[i].0.0@)); } }
                lemma_kacc_listing(si, n, gm);
                assert forall|m: Map<u64, F64>| #![trigger polynomial_val(__r, m)] polynomial_val(__r, m) == quadratic_val(self, m) * quadratic_val(rhs, m) - rem_mul_quadratic_quadratic(self, rhs, m) by {
                    lemma_quad_titems_sum(self, m); lemma_quad_titems_sum(rhs, m);
                    assert(ksum(gm, pw(m)) == kseq_sum(a, a.len() as int, pw(m)) * kseq_sum(b, b.len() as int, pw(m))); }
                assert forall|m: Map<u64, F64>| #![trigger polynomial_val(__r, m)] polynomial_val(__r, m) == quadratic_val(rhs, m) * quadratic_val(self, m) - rem_mul_quadratic_quadratic(self, rhs, m) by {
                    assert(quadratic_val(self, m) * quadratic_val(rhs, m) == quadratic_val(rhs, m) * quadratic_val(self, m)) by(nonlinear_arith); }
            }
            assert forall|k: u64| polynomial_ids(__r).contains(k) implies idset.contains(k) by {
                lemma_poly_ids_mem(__r.terms@, __r.terms.len() as int, k);
                let j = choose|j: int| 0 <= j < __r.terms.len() && #[trigger] mono_ids(__r.terms@[j].ids@, __r.terms@[j].ids.len() as int).contains(k);
                lemma_mono_ids_mem(__r.terms@[j].ids@, __r.terms@[j].ids.len() as int, k);
                let q = choose|q: int| 0 <= q < __r.terms@[j].ids.len() && __r.terms@[j].ids@[q] == k;
                let i = choose|i: int| 0 <= i < lv.len() && (#[trigger] lv[i]).0.0@ == (#[trigger] __r.terms[j]).ids@;
                assert(tm.contains_key(lv[i].0.0@));
                assert(lv[i].0.0@[q] == k);
            }
        }
        ''' % FIN
    return Unit('Mul for Quadratic', 'quadratic.rs', 'mul', impl=r'impl Mul for Quadratic \{', sig='fn mul(self, rhs: Self) -> Self::Output', anyhow=False,
                pre=spec_impl('mul', 'Quadratic', 'Quadratic', 'Polynomial', req='qcoo(self) && qcoo(rhs)'), wrap=('impl core::ops::Mul for Quadratic { type Output = Polynomial;', '}'),
                header='''#[verifier::loop_isolation(false)]
fn mul(self, rhs: Self) -> (r: Polynomial)
        // the two loops build the EXACT product of the two term lists under canonical (sorted) id lists - nothing is dropped there -; the final collect drops the entries with
        // |v| <= EPSILON, which is the remainder
        ensures ''' + contract('mul', 'Quadratic', 'Quadratic', 'Polynomial'),
                renames=[(r'let mut (\w+) = BTreeMap::new\(\);', 'terms')],
                rsubs=[(r'let mut terms = BTreeMap::new\(\);', 'let mut terms: SMap = SMap::new();', 1),      # R28
                       (r'\*terms\.entry\(ids\)\.or_default\(\) \+= ([^;]+);', r'let __p = \1; let ghost key = ids.0@; *terms.entry(ids).or_default() += __p;', 1),
                       (r'terms\.into_iter\(\)\.collect\(\)\s*\}\s*$', 'let __v = smap_into_vec(terms); let ghost lv = __v@; let __r = Polynomial::from_iter(__v); __r }', 1)],
                loops=[dict(kind='for', it='it_1', rebind='(__e.0.vclone(), __e.1)',
                            body_proof=' proof { assert(*__e == la[it_1.index@ as int]); assert(a[it_1.index@ as int] == (la[it_1.index@ as int].0.0@, la[it_1.index@ as int].1)); }',
                            inv='''invariant
                a == quad_titems(self), b == quad_titems(rhs), la == __h1@, sitems(la) == a, qcoo(self), qcoo(rhs),
                forall|key: Seq<u64>| #[trigger] terms@.contains_key(key) ==> forall|q: int| 0 <= q < key.len() ==> idset.contains(#[trigger] key[q]),
                gm == gmat(a, b, it_1.index@ as int),
                %s ==> kmatches(terms@, gm) && forall|x: Map<u64, F64>| #![trigger ksum(gm, pw(x))] ksum(gm, pw(x)) == kseq_sum(a, it_1.index@ as int, pw(x)) * kseq_sum(b, b.len() as int, pw(x)),''' % FIN),
                       dict(kind='for', it='it_2', rebind='(__e.0.vclone(), __e.1)',
                            body_proof=' proof { assert(*__e == __h2[it_2.index@ as int]); assert(b[it_2.index@ as int] == (__h2[it_2.index@ as int].0.0@, __h2[it_2.index@ as int].1)); }',
                            inv='''invariant
                    0 <= it_1.index@ < a.len(), sitems(__h2@) == b, id_l.0@ == a[it_1.index@ as int].0, value_l == a[it_1.index@ as int].1,
                    forall|key: Seq<u64>| #[trigger] terms@.contains_key(key) ==> forall|q: int| 0 <= q < key.len() ==> idset.contains(#[trigger] key[q]),
                    gm == grow(gmat(a, b, it_1.index@ as int), a[it_1.index@ as int], b, it_2.index@ as int),
                    %s ==> kmatches(terms@, gm) && forall|x: Map<u64, F64>| #![trigger ksum(gm, pw(x))] ksum(gm, pw(x)) ==
                        kseq_sum(a, it_1.index@ as int, pw(x)) * kseq_sum(b, b.len() as int, pw(x))
                        + (rv(a[it_1.index@ as int].1) * pw(x)(a[it_1.index@ as int].0)) * kseq_sum(b, it_2.index@ as int, pw(x)),''' % FIN)],
                proofs=[(('after', r'let mut terms: SMap = SMap::new\(\);'), '''
        let ghost a = quad_titems(self); let ghost b = quad_titems(rhs); let ghost idset = quadratic_ids(self).union(quadratic_ids(rhs));
        let ghost fa = fn_of_quadratic(self); let ghost fb = fn_of_quadratic(rhs);
        let ghost mut gm: Map<Seq<u64>, real> = Map::empty();
        proof { assert forall|x: Map<u64, F64>| #![trigger ksum(gm, pw(x))] ksum(gm, pw(x)) == 0real * kseq_sum(b, b.len() as int, pw(x)) by { lemma_ksum_empty::<Seq<u64>>(pw(x)); assert(0real * kseq_sum(b, b.len() as int, pw(x)) == 0real) by(nonlinear_arith); } }'''),
                        (('after', r'let __h1 = self\.into_iter\(\);'), ' let ghost la = __h1@;'),
                        (('after', r'\+= __p;'), '''
                proof {
                    let i = it_1.index@ as int; let j = it_2.index@ as int; let ai = a[i]; let bj = b[j];
                    assert(fn_titems_ok(la, fa)); assert(fn_titems_ok(__h2@, fb));
                    lemma_fn_titems_from(la, fa, i); lemma_fn_titems_from(__h2@, fb, j);
                    assert(id_r.0@ == bj.0 && id_l.0@ == ai.0);
                    assert(key == skey(bj.0 + ai.0));
                    // ids of the key come from the two items
                    assert forall|q: int| 0 <= q < key.len() implies idset.contains(#[trigger] key[q]) by {
                        let k = key[q]; assert(key.contains(k));
                        lemma_perm_mem(key, id_r.0@ + id_l.0@, k);
                        let w = choose|w: int| 0 <= w < (id_r.0@ + id_l.0@).len() && (id_r.0@ + id_l.0@)[w] == k;
                        if w < id_r.0@.len() { assert(__h2[j].0.0@[w] == k); } else { assert(la[i].0.0@[w - id_r.0@.len()] == k); }
                    }
                    let c = rv(ai.1) * rv(bj.1); let g0 = gm;
                    if %s { assert(__p@ == XR::Fin(c)); }
                    gm = kbump(gm, key, c);
                    if %s {
                        assert forall|x: Map<u64, F64>| #![trigger ksum(gm, pw(x))] ksum(gm, pw(x)) ==
                            kseq_sum(a, i, pw(x)) * kseq_sum(b, b.len() as int, pw(x)) + (rv(ai.1) * pw(x)(ai.0)) * kseq_sum(b, j + 1, pw(x)) by {
                            lemma_ksum_kbump(g0, pw(x), key, c);
                            lemma_pw_merge(key, bj.0, ai.0, x);
                            lemma_prod_step(kseq_sum(a, i, pw(x)) * kseq_sum(b, b.len() as int, pw(x)), rv(ai.1), pw(x)(ai.0), kseq_sum(b, j, pw(x)), rv(bj.1), pw(x)(bj.0));
                        }
                    }
                }''' % (FIN, FIN)),
                        (('before', r'\}\s*let __v = smap_into_vec'), '''proof { if %s {
                let i = it_1.index@ as int;
                assert forall|x: Map<u64, F64>| #![trigger ksum(gm, pw(x))] ksum(gm, pw(x)) == kseq_sum(a, i + 1, pw(x)) * kseq_sum(b, b.len() as int, pw(x)) by {
                    lemma_prod_row(kseq_sum(a, i, pw(x)), rv(a[i].1) * pw(x)(a[i].0), kseq_sum(b, b.len() as int, pw(x))); } } }
        ''' % FIN),
                        (('before', r'let __v = smap_into_vec'), 'let ghost tm = terms@;\n        '),
                        (('before', r'__r\s*\}\s*$'), final_proof)])


# ---------------------------------------------------------------- the term iterators as a bundle for the properties that consume them (C04, C11, C16)
ITER_SPECS = ['spec/merge_spec.rs', 'spec/kmerge_spec.rs', 'spec/padd_spec.rs', 'spec/perm_spec.rs', 'spec/iter_spec.rs']
SORT_STUB = '''// slice::sort_unstable (T4): the same elements in non-decreasing order
#[verifier::external_body] pub fn vec_sort_unstable(v: &mut Vec<u64>)
    ensures sorted_seq(final(v)@), perm(final(v)@, old(v)@)
{ unimplemented!() }
'''


def iterator_units():
    """the real code behind `for (ids, c) in &function`: the four IntoIterator impls and the SortedIds constructors they call"""
    from vx.units import algebra as al
    new = al.sorted_ids_units()[0]
    return [new, sorted_ids_empty()] + sorted_ids_from_units() + [linear_terms(), quadratic_terms(), al.polynomial_terms(), function_terms()]
