"""Units for C17: table -> instance conversion kernels of mps/convert.rs (the text layer is not applicable)."""
from vx.core import Unit

F = 'mps/convert.rs'


def get_dvar_bound():
    return Unit('mps::convert::get_dvar_bound', F, 'get_dvar_bound', impl=None, anyhow=False,
                sig='fn get_dvar_bound( var_name: &ColumnName, l: &HashMap<ColumnName, f64>, u: &HashMap<ColumnName, f64>, ) -> v1::Bound',
                header='''pub fn get_dvar_bound(var_name: &ColumnName, l: &HashMap<ColumnName, F64>, u: &HashMap<ColumnName, F64>) -> (r: v1::Bound)
    ensures
        // default [0, +inf); LO only -> [l, +inf); UP only -> [0, u], and a NEGATIVE UP without LO opens the lower bound; both -> [l, u]
        !l@.contains_key(*var_name) && !u@.contains_key(*var_name) ==> r.lower@ == XR::Fin(0real) && r.upper@ == XR::PosInf,
        l@.contains_key(*var_name) && !u@.contains_key(*var_name) ==> r.lower == l@[*var_name] && r.upper@ == XR::PosInf,
        l@.contains_key(*var_name) && u@.contains_key(*var_name) ==> r.lower == l@[*var_name] && r.upper == u@[*var_name],
        !l@.contains_key(*var_name) && u@.contains_key(*var_name) ==> r.upper == u@[*var_name]
            && (if xr_lt(u@[*var_name]@, XR::Fin(0real)) { r.lower@ == XR::NegInf } else { r.lower@ == XR::Fin(0real) }),''',
                # ref patterns `Some(&x)` are outside the dialect: the scrutinee is `.copied()` and the `&` dropped (same values for Copy f64)
                rsubs=[(r'match \(l\.get\(var_name\), u\.get\(var_name\)\)', 'match (opt_copied(l.get(var_name)), opt_copied(u.get(var_name)))', 1),
                       (r'Some\(&(\w+)\)', r'Some(\1)', 4)])


def get_dvar_kind():
    return Unit('mps::convert::get_dvar_kind', F, 'get_dvar_kind', impl=None, anyhow=False,
                sig='fn get_dvar_kind( name: &ColumnName, integer: &HashSet<ColumnName>, binary: &HashSet<ColumnName>, real: &HashSet<ColumnName>, ) -> i32',
                header='''pub fn get_dvar_kind(name: &ColumnName, integer: &HashSet<ColumnName>, binary: &HashSet<ColumnName>, real_: &HashSet<ColumnName>) -> (r: i32)
    ensures r == (if integer@.contains(*name) { 2i32 } else if binary@.contains(*name) { 1i32 } else if real_@.contains(*name) { 3i32 } else { 0i32 }),''',
                rsubs=[(r'\breal\b', 'real_', 1)])  # `real` is a type keyword of the Verus dialect


def convert_sense():
    return Unit('mps::convert::convert_sense', F, 'convert_sense', impl=None, anyhow=False, sig='fn convert_sense(sense: ObjSense) -> i32',
                header='''pub fn convert_sense(sense: ObjSense) -> (r: i32)
    ensures r == (if sense == ObjSense::Min { 1i32 } else { 2i32 }),''')


def convert_inequality():
    return Unit('mps::convert::convert_inequality', F, 'convert_inequality', impl=None, anyhow=False,
                sig='fn convert_inequality( mut terms: Vec<v1::linear::Term>, mut b: f64, name: &RowName, eq: &HashSet<RowName>, ge: &HashSet<RowName>, le: &HashSet<RowName>, ) -> (v1::Function, i32)',
                header='''pub fn convert_inequality(terms0: Vec<v1::linear::Term>, b0: F64, name: &RowName, eq: &HashSet<RowName>, ge: &HashSet<RowName>, le: &HashSet<RowName>) -> (r: (v1::Function, i32))
    requires b0@ is Fin, forall|i: int| 0 <= i < terms0.len() ==> (#[trigger] terms0[i]).coefficient@ is Fin,
    ensures
        // E rows: a.x - b = 0; L rows: a.x - b <= 0; G rows: -a.x + b <= 0 (right-hand side moved to the left with the correct sign)
        r.1 == (if eq@.contains(*name) { 1i32 } else if le@.contains(*name) || ge@.contains(*name) { 2i32 } else { 0i32 }),
        ({ let flip = !eq@.contains(*name) && !le@.contains(*name) && ge@.contains(*name);
           let sgn = if flip { -1real } else { 1real };
           &&& r.0.function is Some
           &&& terms0.len() == 0 ==> r.0.function->Some_0 is Constant && r.0.function->Some_0->Constant_0@ == XR::Fin(-sgn * b0@->Fin_0)
           &&& terms0.len() > 0 ==> r.0.function->Some_0 is Linear && ({ let l = r.0.function->Some_0->Linear_0;
                 l.constant@ == XR::Fin(-sgn * b0@->Fin_0) && l.terms.len() == terms0.len()
                 && forall|i: int| 0 <= i < terms0.len() ==> (#[trigger] l.terms[i]).id == terms0[i].id && l.terms[i].coefficient@ == XR::Fin(sgn * terms0[i].coefficient@->Fin_0) }) }),''',
                proofs=[('start', ' let mut terms = terms0; let mut b = b0;')],
                rsubs=[(r'terms\.iter_mut\(\)\.for_each\(\|t\| (.*?)\);', r'for t in terms.iter_mut() { \1; }', 1)],
                loops=[dict(kind='for', mut_index=True, inv='''invariant
                0 <= __i1 <= terms.len(), terms.len() == terms0.len(),
                forall|i: int| 0 <= i < __i1 ==> (#[trigger] terms[i]).id == terms0[i].id && terms[i].coefficient@ == XR::Fin(terms0[i].coefficient@->Fin_0 * (-1real)),
                forall|i: int| __i1 <= i < terms.len() ==> #[trigger] terms[i] == terms0[i],
                forall|i: int| 0 <= i < terms0.len() ==> (#[trigger] terms0[i]).coefficient@ is Fin,
            decreases terms.len() - __i1''')])


def convert_objective():
    return Unit('mps::convert::convert_objective', F, 'convert_objective', impl=None, anyhow=False,
                sig='fn convert_objective(mps: &Mps, name_id_map: &HashMap<ColumnName, u64>) -> v1::Function',
                header='''pub fn convert_objective(mps: &Mps, name_id_map: &HashMap<ColumnName, u64>) -> (r: v1::Function)
    requires forall|k: RowName| #[trigger] mps.b@.contains_key(k) ==> mps.b@[k]@ is Fin,
    ensures
        // terms = the objective row's coefficients; constant = -(RHS of the FILE'S objective row), 0 when that row has no RHS
        r.function is Some,
        ({ let k = if mps.b@.contains_key(mps.objective_name) { -(mps.b@[mps.objective_name]@->Fin_0) } else { 0real };
           let ts = terms_of(mps.c@, name_id_map@);
           &&& ts.len() == 0 ==> r.function->Some_0 is Constant && r.function->Some_0->Constant_0@ == XR::Fin(k)
           &&& ts.len() > 0 ==> r.function->Some_0 is Linear && r.function->Some_0->Linear_0.terms@ == ts && r.function->Some_0->Linear_0.constant@ == XR::Fin(k) }),''')
