"""Units of rust/ommx/src/evaluate.rs.

The `impl Evaluate for T` methods are emitted as inherent methods of T (method-call resolution at the call sites is
unchanged; `evaluate_samples` is outside reach and dropped, see C06)."""
from vx import core
from vx.core import Unit

E = 'evaluate.rs'
RES = 'Result<(F64, BTreeSet<u64>), VErr>'


def linear_evaluate():
    return Unit('Linear::evaluate', E, 'evaluate', impl=r'impl Evaluate for Linear \{',
                sig='fn evaluate(&self, solution: &State) -> Result<(f64, BTreeSet<u64>)>',
                wrap=('impl Linear {', '}'),
                header='''pub fn evaluate(&self, solution: &State) -> (r: %s)
    ensures
        r is Ok <==> linear_present(*self, solution.entries@),
        r is Ok ==> r->Ok_0.1@ == linear_ids(*self),
        r is Ok && linear_fin(*self) && state_fin(solution.entries@) ==> r->Ok_0.0@ == XR::Fin(linear_val(*self, solution.entries@)),''' % RES,
                loops=[dict(kind='for', it='it_1', inv='''invariant
                ids_present(self.terms@, it_1.index@ as int, solution.entries@),
                used_ids@ == lin_ids(self.terms@, it_1.index@ as int),
                linear_fin(*self) && state_fin(solution.entries@) ==>
                    sum@ == XR::Fin(rv(self.constant) + lin_sum(self.terms@, it_1.index@ as int, solution.entries@)),''')])


def quadratic_evaluate():
    return Unit('Quadratic::evaluate', E, 'evaluate', impl=r'impl Evaluate for Quadratic \{',
                sig='fn evaluate(&self, solution: &State) -> Result<(f64, BTreeSet<u64>)>',
                wrap=('impl Quadratic {', '}'),
                header='''pub fn evaluate(&self, solution: &State) -> (r: %s)
    ensures
        r is Ok <==> quadratic_present(*self, solution.entries@),
        r is Ok ==> r->Ok_0.1@ == quadratic_ids(*self),
        r is Ok && quadratic_fin(*self) && state_fin(solution.entries@) ==> r->Ok_0.0@ == XR::Fin(quadratic_val(*self, solution.entries@)),''' % RES,
                subs=[('in\n            itertools::multizip((self.rows.iter(), self.columns.iter(), self.values.iter()))',
                       'in zip3(&self.rows, &self.columns, &self.values)')],
                loops=[dict(kind='for', it='it_1', rebind='(&__e.0, &__e.1, &__e.2)', body_proof=' proof { let k0 = it_1.index@ as int; assert(*__e == __h1[k0]); assert(__e.0 == self.rows[k0] && __e.1 == self.columns[k0] && __e.2 == self.values[k0]); }', inv='''invariant
                __h1.len() == quad_n(*self),
                forall|k: int| 0 <= k < __h1.len() ==> (#[trigger] __h1[k]).0 == self.rows[k] && __h1[k].1 == self.columns[k] && __h1[k].2 == self.values[k],
                quad_present(self.rows@, self.columns@, it_1.index@ as int, solution.entries@),
                self.linear is Some ==> linear_present(self.linear->Some_0, solution.entries@),
                used_ids@ == (match self.linear { Some(l) => linear_ids(l), None => Set::empty() }).union(quad_ids(self.rows@, self.columns@, it_1.index@ as int)),
                quadratic_fin(*self) && state_fin(solution.entries@) ==>
                    sum@ == XR::Fin(quadratic_lin_val(*self, solution.entries@) + quad_sum(self.rows@, self.columns@, self.values@, it_1.index@ as int, solution.entries@)),''')])


def polynomial_evaluate():
    return Unit('Polynomial::evaluate', E, 'evaluate', impl=r'impl Evaluate for Polynomial \{',
                sig='fn evaluate(&self, solution: &State) -> Result<(f64, BTreeSet<u64>)>',
                wrap=('impl Polynomial {', '}'),
                header='''pub fn evaluate(&self, solution: &State) -> (r: %s)
    ensures
        r is Ok <==> polynomial_present(*self, solution.entries@),
        r is Ok ==> r->Ok_0.1@ == polynomial_ids(*self),
        r is Ok && poly_fin(self.terms@) && state_fin(solution.entries@) ==> r->Ok_0.0@ == XR::Fin(polynomial_val(*self, solution.entries@)),''' % RES,
                loops=[dict(kind='for', it='it_1', inv='''invariant
                poly_present(self.terms@, it_1.index@ as int, solution.entries@),
                used_ids@ == poly_ids(self.terms@, it_1.index@ as int),
                poly_fin(self.terms@) && state_fin(solution.entries@) ==>
                    sum@ == XR::Fin(poly_sum(self.terms@, it_1.index@ as int, solution.entries@)),'''),
                       dict(kind='for', it='it_2', inv='''invariant
                    *term == self.terms[it_1.index@ as int], 0 <= it_1.index@ < self.terms.len(),
                    poly_present(self.terms@, it_1.index@ as int, solution.entries@),
                    forall|j: int| 0 <= j < it_2.index@ ==> solution.entries@.contains_key(#[trigger] term.ids[j]),
                    used_ids@ == poly_ids(self.terms@, it_1.index@ as int).union(mono_ids(term.ids@, it_2.index@ as int)),
                    poly_fin(self.terms@) && state_fin(solution.entries@) ==>
                        v@ == XR::Fin(mono_val(rv(term.coefficient), term.ids@, it_2.index@ as int, solution.entries@)),''')])


def function_evaluate():
    return Unit('Function::evaluate', E, 'evaluate', impl=r'impl Evaluate for Function \{',
                sig='fn evaluate(&self, solution: &State) -> Result<(f64, BTreeSet<u64>)>',
                wrap=('impl Function {', '}'),
                header='''pub fn evaluate(&self, solution: &State) -> (r: %s)
    ensures
        r is Ok <==> fn_present(*self, solution.entries@),
        r is Ok ==> r->Ok_0.1@ == fn_ids(*self),
        r is Ok && fn_fin(*self) && state_fin(solution.entries@) ==> r->Ok_0.0@ == XR::Fin(fn_val(*self, solution.entries@)),
        r is Ok && self.function is None ==> r->Ok_0.0@ == XR::Fin(0real),
        r is Ok && self.function is Some && self.function->Some_0 is Constant ==> r->Ok_0.0 == self.function->Some_0->Constant_0,''' % RES)
