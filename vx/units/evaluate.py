"""Units of rust/ommx/src/evaluate.rs.

The `impl Evaluate for T` methods are emitted as inherent methods of T (method-call resolution at the call sites is
unchanged; `evaluate_samples` is outside reach and dropped, see C06)."""
from vx import core
from vx.core import Unit

E = 'evaluate.rs'
RES = 'Result<(F64, BTreeSet<u64>), VErr>'


def linear_evaluate():
    return Unit('Linear::evaluate', E, 'evaluate', impl=r'impl Evaluate for Linear \{',
                sig='fn evaluate(&self, solution: &State) -> Result<(f64, BTreeSet<u64>)>',
                wrap=('impl Linear {', '}'),
                header='''pub fn evaluate(&self, solution: &State) -> (r: %s)
    ensures
        r is Ok <==> linear_present(*self, solution.entries@),
        r is Ok ==> r->Ok_0.1@ == linear_ids(*self),
        r is Ok && linear_fin(*self) && state_fin(solution.entries@) ==> r->Ok_0.0@ == XR::Fin(linear_val(*self, solution.entries@)),''' % RES,
                loops=[dict(kind='for', it='it_1', inv='''invariant
                ids_present(self.terms@, it_1.index@ as int, solution.entries@),
                used_ids@ == lin_ids(self.terms@, it_1.index@ as int),
                linear_fin(*self) && state_fin(solution.entries@) ==>
                    sum@ == XR::Fin(rv(self.constant) + lin_sum(self.terms@, it_1.index@ as int, solution.entries@)),''')])


def quadratic_evaluate():
    return Unit('Quadratic::evaluate', E, 'evaluate', impl=r'impl Evaluate for Quadratic \{',
                sig='fn evaluate(&self, solution: &State) -> Result<(f64, BTreeSet<u64>)>',
                wrap=('impl Quadratic {', '}'),
                header='''pub fn evaluate(&self, solution: &State) -> (r: %s)
    ensures
        r is Ok <==> quadratic_present(*self, solution.entries@),
        r is Ok ==> r->Ok_0.1@ == quadratic_ids(*self),
        r is Ok && quadratic_fin(*self) && state_fin(solution.entries@) ==> r->Ok_0.0@ == XR::Fin(quadratic_val(*self, solution.entries@)),''' % RES,
                subs=[('in\n            itertools::multizip((self.rows.iter(), self.columns.iter(), self.values.iter()))',
                       'in zip3(&self.rows, &self.columns, &self.values)')],
                loops=[dict(kind='for', it='it_1', rebind='(&__e.0, &__e.1, &__e.2)', body_proof=' proof { let k0 = it_1.index@ as int; assert(*__e == __h1[k0]); assert(__e.0 == self.rows[k0] && __e.1 == self.columns[k0] && __e.2 == self.values[k0]); }', inv='''invariant
                __h1.len() == quad_n(*self),
                forall|k: int| 0 <= k < __h1.len() ==> (#[trigger] __h1[k]).0 == self.rows[k] && __h1[k].1 == self.columns[k] && __h1[k].2 == self.values[k],
                quad_present(self.rows@, self.columns@, it_1.index@ as int, solution.entries@),
                self.linear is Some ==> linear_present(self.linear->Some_0, solution.entries@),
                used_ids@ == (match self.linear { Some(l) => linear_ids(l), None => Set::empty() }).union(quad_ids(self.rows@, self.columns@, it_1.index@ as int)),
                quadratic_fin(*self) && state_fin(solution.entries@) ==>
                    sum@ == XR::Fin(quadratic_lin_val(*self, solution.entries@) + quad_sum(self.rows@, self.columns@, self.values@, it_1.index@ as int, solution.entries@)),''')])


def polynomial_evaluate():
    return Unit('Polynomial::evaluate', E, 'evaluate', impl=r'impl Evaluate for Polynomial \{',
                sig='fn evaluate(&self, solution: &State) -> Result<(f64, BTreeSet<u64>)>',
                wrap=('impl Polynomial {', '}'),
                header='''pub fn evaluate(&self, solution: &State) -> (r: %s)
    ensures
        r is Ok <==> polynomial_present(*self, solution.entries@),
        r is Ok ==> r->Ok_0.1@ == polynomial_ids(*self),
        r is Ok && poly_fin(self.terms@) && state_fin(solution.entries@) ==> r->Ok_0.0@ == XR::Fin(polynomial_val(*self, solution.entries@)),''' % RES,
                loops=[dict(kind='for', it='it_1', inv='''invariant
                poly_present(self.terms@, it_1.index@ as int, solution.entries@),
                used_ids@ == poly_ids(self.terms@, it_1.index@ as int),
                poly_fin(self.terms@) && state_fin(solution.entries@) ==>
                    sum@ == XR::Fin(poly_sum(self.terms@, it_1.index@ as int, solution.entries@)),'''),
                       dict(kind='for', it='it_2', inv='''invariant
                    *term == self.terms[it_1.index@ as int], 0 <= it_1.index@ < self.terms.len(),
                    poly_present(self.terms@, it_1.index@ as int, solution.entries@),
                    forall|j: int| 0 <= j < it_2.index@ ==> solution.entries@.contains_key(#[trigger] term.ids[j]),
                    used_ids@ == poly_ids(self.terms@, it_1.index@ as int).union(mono_ids(term.ids@, it_2.index@ as int)),
                    poly_fin(self.terms@) && state_fin(solution.entries@) ==>
                        v@ == XR::Fin(mono_val(rv(term.coefficient), term.ids@, it_2.index@ as int, solution.entries@)),''')])


def function_evaluate():
    return Unit('Function::evaluate', E, 'evaluate', impl=r'impl Evaluate for Function \{',
                sig='fn evaluate(&self, solution: &State) -> Result<(f64, BTreeSet<u64>)>',
                wrap=('impl Function {', '}'),
                header='''pub fn evaluate(&self, solution: &State) -> (r: %s)
    ensures
        r is Ok <==> fn_present(*self, solution.entries@),
        r is Ok ==> r->Ok_0.1@ == fn_ids(*self),
        r is Ok && fn_fin(*self) && state_fin(solution.entries@) ==> r->Ok_0.0@ == XR::Fin(fn_val(*self, solution.entries@)),
        r is Ok && self.function is None ==> r->Ok_0.0@ == XR::Fin(0real),
        r is Ok && self.function is Some && self.function->Some_0 is Constant ==> r->Ok_0.0 == self.function->Some_0->Constant_0,''' % RES)


# ---------------------------------------------------------------- C05 units
EC_RES = 'Result<(EvaluatedConstraint, BTreeSet<u64>), VErr>'


def constraint_function():
    return Unit('Constraint::function', 'v1_ext/constraint.rs', 'function', impl=r'impl Constraint \{',
                sig='pub fn function(&self) -> Cow<Function>', wrap=('impl Constraint {', '}'),
                header='''pub fn function(&self) -> (r: Function)
    ensures r == cfun(*self),''',
                subs=[('Cow::Borrowed(f)', 'f.vclone()'), ('Cow::Owned(Function::zero())', 'Function::zero()')])


def instance_objective():
    return Unit('Instance::objective', 'v1_ext/instance.rs', 'objective', impl=r'impl Instance \{',
                sig='pub fn objective(&self) -> Cow<Function>', wrap=('impl Instance {', '}'),
                header='''pub fn objective(&self) -> (r: Function)
    ensures r == ofun(*self),''',
                subs=[('Cow::Borrowed(f)', 'f.vclone()'), ('Cow::Owned(Function::zero())', 'Function::zero()')])


def is_feasible():
    return Unit('EvaluatedConstraint::is_feasible', 'v1_ext/constraint.rs', 'is_feasible', impl=r'impl EvaluatedConstraint \{',
                sig='pub fn is_feasible(&self, atol: f64) -> Result<bool>', wrap=('impl EvaluatedConstraint {', '}'),
                header='''pub fn is_feasible(&self, atol: F64) -> (r: Result<bool, VErr>)
    ensures r is Ok <==> (xr_lt(XR::Fin(0real), atol@) && eq_ok(self.equality)),
            r is Ok ==> r->Ok_0 == holds(self.equality, self.evaluated_value@, atol@),''')


def constraint_evaluate():
    return Unit('Constraint::evaluate', E, 'evaluate', impl=r'impl Evaluate for Constraint \{',
                sig='fn evaluate(&self, solution: &State) -> Result<(Self::Output, BTreeSet<u64>)>',
                wrap=('impl Constraint {', '}'),
                header='''pub fn evaluate(&self, solution: &State) -> (r: %s)
    ensures r is Ok <==> fn_present(cfun(*self), solution.entries@),
            r is Ok ==> ec_of(*self, solution.entries@, r->Ok_0.0) && r->Ok_0.0.removed_reason is None && r->Ok_0.0.dual_variable is None
                && r->Ok_0.0.removed_reason_parameters@ =~= Map::empty(),
            r is Ok ==> r->Ok_0.1@ == fn_ids(cfun(*self)),''' % EC_RES,
                subs=[('used_ids.iter().cloned().collect()', 'btreeset_to_vec(&used_ids)')])


def removed_constraint_evaluate():
    return Unit('RemovedConstraint::evaluate', E, 'evaluate', impl=r'impl Evaluate for RemovedConstraint \{',
                sig='fn evaluate(&self, solution: &State) -> Result<(Self::Output, BTreeSet<u64>)>',
                wrap=('impl RemovedConstraint {', '}'),
                header='''pub fn evaluate(&self, solution: &State) -> (r: %s)
    ensures r is Ok <==> self.constraint is Some && fn_present(cfun(self.constraint->Some_0), solution.entries@),
            r is Ok ==> ec_of(self.constraint->Some_0, solution.entries@, r->Ok_0.0)
                && r->Ok_0.0.removed_reason == Some(self.removed_reason) && r->Ok_0.0.removed_reason_parameters == self.removed_reason_parameters
                && r->Ok_0.0.dual_variable is None,
            r is Ok ==> r->Ok_0.1@ == fn_ids(cfun(self.constraint->Some_0)),''' % EC_RES)


def bound_try_from_v1bound():
    return Unit('TryFrom<v1::Bound> for Bound', 'bound.rs', 'try_from', impl=r'impl TryFrom<v1::Bound> for Bound \{', anyhow=False,
                sig='fn try_from(value: v1::Bound) -> Result<Self, Self::Error>',
                wrap=('impl Bound {', '}'),
                header='''pub fn try_from_v1_bound(value: v1::Bound) -> (r: Result<Self, BoundError>)
        ensures r is Ok <==> inv(value.lower@, value.upper@),
                r is Ok ==> r->Ok_0.lower == value.lower && r->Ok_0.upper == value.upper,''')


def bound_try_from_dv():
    return Unit('TryFrom<&v1::DecisionVariable> for Bound', 'bound.rs', 'try_from', impl=r'impl TryFrom<&v1::DecisionVariable> for Bound \{', anyhow=False,
                sig='fn try_from(v: &v1::DecisionVariable) -> Result<Self, Self::Error>',
                wrap=('impl Bound {', '}'),
                header='''pub fn try_from_dv(v: &v1::DecisionVariable) -> (r: Result<Self, BoundError>)
        ensures r is Ok <==> dv_bound_ok(*v),
                r is Ok ==> r->Ok_0.wf() && r->Ok_0.lower@ == dv_lower(*v) && r->Ok_0.upper@ == dv_upper(*v),''',
                subs=[('Self::try_from(bound.vclone())', 'Self::try_from_v1_bound(bound.vclone())')])


def get_bounds():
    return Unit('Instance::get_bounds', 'v1_ext/instance.rs', 'get_bounds', impl=r'impl Instance \{',
                sig='pub fn get_bounds(&self) -> Result<Bounds>', wrap=('impl Instance {', '}'),
                header='''pub fn get_bounds(&self) -> (r: Result<Bounds, VErr>)
    ensures r is Ok <==> forall|i: int| 0 <= i < self.decision_variables.len() ==> dv_bound_ok(#[trigger] self.decision_variables[i]),
            r is Ok ==> bounds_of(self.decision_variables@, self.decision_variables.len() as int, r->Ok_0@),''',
                subs=[('bound.vclone().try_into()?', 'Bound::try_from_v1_bound(bound.vclone())?')],
                loops=[dict(kind='for', it='it_1', inv='''invariant
            forall|i: int| 0 <= i < it_1.index@ ==> dv_bound_ok(#[trigger] self.decision_variables[i]),
            bounds_of(self.decision_variables@, it_1.index@ as int, bounds@),''')])


def check_bound():
    return Unit('Instance::check_bound', 'v1_ext/instance.rs', 'check_bound', impl=r'impl Instance \{',
                sig='pub fn check_bound(&self, state: &State, atol: f64) -> Result<()>', wrap=('impl Instance {', '}'),
                header='''pub fn check_bound(&self, state: &State, atol: F64) -> (r: Result<(), VErr>)
    ensures r is Ok <==> ((forall|i: int| 0 <= i < self.decision_variables.len() ==> dv_bound_ok(#[trigger] self.decision_variables[i]))
                && state_in_bounds(self.decision_variables@, state.entries@, atol@)),''',
                subs=[('state.entries.iter()', 'hashmap_iter_collect(&state.entries)')],
                loops=[dict(kind='for', it='it_1', rebind='(__e.0, __e.1)',
                            body_proof=' proof { assert(*__e == __h1[it_1.index@ as int]); }',
                            inv='''invariant
            bounds_of(self.decision_variables@, self.decision_variables.len() as int, bounds@),
            forall|j: int| 0 <= j < __h1.len() ==> state.entries@.contains_key(*(#[trigger] __h1[j]).0) && state.entries@[*__h1[j].0] == *__h1[j].1,
            forall|k: u64| state.entries@.contains_key(k) ==> exists|j: int| 0 <= j < __h1.len() && *(#[trigger] __h1[j]).0 == k,
            forall|j: int| 0 <= j < it_1.index@ ==> value_in_bounds(self.decision_variables@, *(#[trigger] __h1[j]).0, (*__h1[j].1)@, atol@),''')],
                proofs=[(('before', r'Ok\(\(\)\)\s*\}\s*$'), '''proof {
            assert forall|k: u64| state.entries@.contains_key(k) implies value_in_bounds(self.decision_variables@, k, state.entries@[k]@, atol@) by {
                let j = choose|j: int| 0 <= j < __h1.len() && *(#[trigger] __h1[j]).0 == k;
                assert(value_in_bounds(self.decision_variables@, *__h1[j].0, (*__h1[j].1)@, atol@));
            }
        }
        ''')])


def instance_evaluate():
    return Unit('Instance::evaluate', E, 'evaluate', impl=r'impl Evaluate for Instance \{',
                sig='fn evaluate(&self, state: &State) -> Result<(Self::Output, BTreeSet<u64>)>',
                wrap=('impl Instance {', '}'),
                header='''pub fn evaluate(&self, state: &State) -> (r: Result<(Solution, BTreeSet<u64>), VErr>)
    ensures
      // rejected states: a bound violated by more than 1e-7 (or an invalid bound), or a used variable without a value
      r is Ok ==> (forall|i: int| 0 <= i < self.decision_variables.len() ==> dv_bound_ok(#[trigger] self.decision_variables[i]))
            && state_in_bounds(self.decision_variables@, state.entries@, XR::Fin(1real / 10000000real)),
      r is Ok ==> fn_present(ofun(*self), state.entries@)
            && (forall|i: int| 0 <= i < self.constraints.len() ==> fn_present(cfun(#[trigger] self.constraints[i]), state.entries@))
            && (forall|j: int| 0 <= j < self.removed_constraints.len() ==> (#[trigger] self.removed_constraints[j]).constraint is Some
                    && fn_present(cfun(self.removed_constraints[j].constraint->Some_0), state.entries@)),
      r is Ok ==> ({
        let sol = r->Ok_0.0;
        let nc = self.constraints.len() as int;
        let nr = self.removed_constraints.len() as int;
        let st = state.entries@;
        let atol = XR::Fin(1real / 1000000real);
        // every active then every removed constraint, exactly once, in order
        &&& sol.evaluated_constraints.len() == nc + nr
        &&& forall|i: int| 0 <= i < nc ==> ec_of(self.constraints[i], st, #[trigger] sol.evaluated_constraints[i]) && sol.evaluated_constraints[i].removed_reason is None
        &&& forall|j: int| 0 <= j < nr ==> ec_of(self.removed_constraints[j].constraint->Some_0, st, #[trigger] sol.evaluated_constraints[nc + j])
              && sol.evaluated_constraints[nc + j].removed_reason == Some(self.removed_constraints[j].removed_reason)
              && sol.evaluated_constraints[nc + j].removed_reason_parameters == self.removed_constraints[j].removed_reason_parameters
        // feasibility flags
        &&& sol.feasible_relaxed == Some(out_hold(sol.evaluated_constraints@, nc, atol))
        &&& sol.feasible == out_hold(sol.evaluated_constraints@, nc + nr, atol)
        // objective
        &&& fn_fin(ofun(*self)) && state_fin(st) ==> sol.objective@ == XR::Fin(fn_val(ofun(*self), st))
        &&& sol.decision_variables == self.decision_variables
        // reported state
        &&& sol.state is Some
        &&& forall|i: int| 0 <= i < self.decision_variables.len() ==> sol.state->Some_0.entries@.contains_key((#[trigger] self.decision_variables[i]).id)
        &&& ({ let mid0 = subst_map(self.decision_variables@, self.decision_variables.len() as int, st);
             let fin_st = sol.state->Some_0.entries@;
             // given and previously fixed values are kept unless a dependency defines the id
             &&& forall|k: u64| mid0.contains_key(k) ==> #[trigger] fin_st.contains_key(k)
             &&& forall|k: u64| mid0.contains_key(k) && !self.decision_variable_dependency@.contains_key(k) ==> #[trigger] fin_st[k] == mid0[k]
             &&& forall|k: u64| self.decision_variable_dependency@.contains_key(k) ==> #[trigger] fin_st.contains_key(k)
             // dependent variables (not given or fixed by the caller) carry the value of their defining function at the reported state
             &&& disj(self.decision_variable_dependency@, mid0) ==> forall|k: u64| #[trigger] self.decision_variable_dependency@.contains_key(k)
                    ==> dep_ok(self.decision_variable_dependency@[k], fin_st, fin_st[k])
             // everything else is a defined variable filled with the point of its bound nearest to zero
             &&& forall|k: u64| #![trigger fin_st.contains_key(k)] fin_st.contains_key(k) && !mid0.contains_key(k) && !self.decision_variable_dependency@.contains_key(k)
                    ==> exists|i: int| 0 <= i < self.decision_variables.len() && (#[trigger] self.decision_variables[i]).id == k
                        && is_ntz(dv_lower(self.decision_variables[i]), dv_upper(self.decision_variables[i]), fin_st[k]@)
           })
      }),
      r is Ok ==> r->Ok_0.1@ == inst_used_ids(*self),''',
                subs=[('if let HashMapEntry::Vacant(e) = state.entries.entry(v.id) {', 'if !state.entries.contains_key(&v.id) {'),
                      ('let bound: Bound = v.try_into()?;', 'let bound: Bound = Bound::try_from_dv(v)?;'),
                      ('e.insert(', 'state.entries.insert(v.id, '),
                      ('Optimality::Unspecified.into()', 'optimality_as_i32(Optimality::Unspecified)'),
                      ('Relaxation::Unspecified.into()', 'relaxation_as_i32(Relaxation::Unspecified)')],
                rsubs=[(r'used_ids\.extend\((\w+)\);', r'btreeset_extend(&mut used_ids, \1);', None)],
                loops=[
                    dict(kind='for', it='it_1', inv='''invariant
                evaluated_constraints.len() == it_1.index@,
                forall|i: int| 0 <= i < it_1.index@ ==> fn_present(cfun(#[trigger] self.constraints[i]), state.entries@),
                forall|i: int| 0 <= i < it_1.index@ ==> ec_of(self.constraints[i], state.entries@, #[trigger] evaluated_constraints[i]) && evaluated_constraints[i].removed_reason is None,
                feasible_relaxed == out_hold(evaluated_constraints@, it_1.index@ as int, XR::Fin(1real / 1000000real)),
                used_ids@ == active_ids(self.constraints@, it_1.index@ as int),'''),
                    dict(kind='for', it='it_2', inv='''invariant
                nc == self.constraints.len(),
                evaluated_constraints.len() == nc + it_2.index@,
                forall|i: int| 0 <= i < nc ==> ec_of(self.constraints[i], state.entries@, #[trigger] evaluated_constraints[i]) && evaluated_constraints[i].removed_reason is None,
                forall|j: int| 0 <= j < it_2.index@ ==> (#[trigger] self.removed_constraints[j]).constraint is Some && fn_present(cfun(self.removed_constraints[j].constraint->Some_0), state.entries@),
                forall|j: int| 0 <= j < it_2.index@ ==> ec_of(self.removed_constraints[j].constraint->Some_0, state.entries@, #[trigger] evaluated_constraints[nc + j])
                    && evaluated_constraints[nc + j].removed_reason == Some(self.removed_constraints[j].removed_reason)
                    && evaluated_constraints[nc + j].removed_reason_parameters == self.removed_constraints[j].removed_reason_parameters,
                feasible_relaxed == out_hold(evaluated_constraints@, nc, XR::Fin(1real / 1000000real)),
                feasible == out_hold(evaluated_constraints@, nc + it_2.index@ as int, XR::Fin(1real / 1000000real)),
                used_ids@ == active_ids(self.constraints@, nc).union(removed_ids(self.removed_constraints@, it_2.index@ as int)),'''),
                    dict(kind='for', it='it_3', inv='''invariant
                state.entries@ == subst_map(self.decision_variables@, it_3.index@ as int, st0),'''),
                    dict(kind='for', it='it_4', inv='''invariant
                forall|k: u64| #[trigger] mid.contains_key(k) ==> state.entries@.contains_key(k) && state.entries@[k] == mid[k],
                forall|i: int| 0 <= i < it_4.index@ ==> state.entries@.contains_key((#[trigger] self.decision_variables[i]).id),
                forall|k: u64| #[trigger] self.decision_variable_dependency@.contains_key(k) ==> mid.contains_key(k),
                dep_all ==> forall|k: u64| #[trigger] self.decision_variable_dependency@.contains_key(k) ==> dep_ok(self.decision_variable_dependency@[k], state.entries@, state.entries@[k]),
                forall|k: u64| #![trigger state.entries@.contains_key(k)] state.entries@.contains_key(k) && !mid.contains_key(k)
                    ==> exists|i: int| 0 <= i < it_4.index@ && (#[trigger] self.decision_variables[i]).id == k
                        && is_ntz(dv_lower(self.decision_variables[i]), dv_upper(self.decision_variables[i]), state.entries@[k]@),'''),
                ],
                proofs=[(('before', r'let mut feasible = feasible_relaxed;'), 'let ghost nc = self.constraints.len() as int;\n        '),
                        (('before', r'let mut state = state\.vclone\(\);'), 'let ghost st0 = state.entries@;\n        '),
                        (('after', r'eval_dependencies\(&self\.decision_variable_dependency, &mut state\)\?;'), '\n        let ghost mid = state.entries@; let ghost dep_all = disj(self.decision_variable_dependency@, subst_map(self.decision_variables@, self.decision_variables.len() as int, st0));')])


# ---------------------------------------------------------------- C04
def eval_dependencies():
    PEND = '''forall|j: int| 0 <= j < %(v)s.len() ==> dependencies@.contains_key(*(#[trigger] %(v)s[j]).0) && dependencies@[*%(v)s[j].0] == *%(v)s[j].1,
            disj(dependencies@, old(state).entries@) ==> forall|j: int| 0 <= j < %(v)s.len() ==> !state.entries@.contains_key(*(#[trigger] %(v)s[j]).0),
            forall|i: int, j: int| 0 <= i < j < %(v)s.len() ==> *(#[trigger] %(v)s[i]).0 != *(#[trigger] %(v)s[j]).0,'''
    COMMON = '''forall|k: u64| #[trigger] old(state).entries@.contains_key(k) ==> state.entries@.contains_key(k),
            forall|k: u64| #![trigger old(state).entries@[k]] #![trigger state.entries@[k]] old(state).entries@.contains_key(k) && !dependencies@.contains_key(k) ==> state.entries@[k] == old(state).entries@[k],
            forall|k: u64| #[trigger] state.entries@.contains_key(k) ==> old(state).entries@.contains_key(k) || dependencies@.contains_key(k),
            disj(dependencies@, old(state).entries@) ==> forall|k: u64| #![trigger dependencies@.contains_key(k)] dependencies@.contains_key(k) && state.entries@.contains_key(k) ==> dep_ok(dependencies@[k], state.entries@, state.entries@[k]),
            forall|k: u64| #[trigger] dependencies@.contains_key(k) ==> state.entries@.contains_key(k)
                || in_keys(bucket@, bucket.len() as int, k) || in_keys(not_evaluated@, not_evaluated.len() as int, k),
            forall|i: int, j: int| 0 <= i < bucket.len() && 0 <= j < not_evaluated.len() ==> *(#[trigger] bucket[i]).0 != *(#[trigger] not_evaluated[j]).0,
            ''' + PEND % dict(v='bucket') + '\n            ' + PEND % dict(v='not_evaluated')
    return Unit('eval_dependencies', E, 'eval_dependencies', impl=None,
                sig='fn eval_dependencies( dependencies: &HashMap<u64, Function>, state: &mut State, ) -> Result<BTreeSet<u64>>',
                header='''pub fn eval_dependencies(dependencies: &HashMap<u64, Function>, state: &mut State) -> (r: Result<BTreeSet<u64>, VErr>)
    ensures
        // Ok only when EVERY dependent variable got a value (no partial answer); given values of non-dependent ids are untouched
        r is Ok ==> (forall|k: u64| #[trigger] old(state).entries@.contains_key(k) ==> final(state).entries@.contains_key(k))
            && (forall|k: u64| #[trigger] dependencies@.contains_key(k) ==> final(state).entries@.contains_key(k))
            && (forall|k: u64| #![trigger old(state).entries@[k]] #![trigger final(state).entries@[k]] old(state).entries@.contains_key(k) && !dependencies@.contains_key(k) ==> final(state).entries@[k] == old(state).entries@[k])
            && (forall|k: u64| #[trigger] final(state).entries@.contains_key(k) ==> old(state).entries@.contains_key(k) || dependencies@.contains_key(k)),
        // under the instance-level well-formedness of the property (dependent ids are not given by the caller's state):
        // each dependent variable equals its defining function at the FINAL state, through chains, for every iteration order
        r is Ok && disj(dependencies@, old(state).entries@) ==> forall|k: u64| #[trigger] dependencies@.contains_key(k) ==> dep_ok(dependencies@[k], final(state).entries@, final(state).entries@[k]),
    // termination (no hang on cyclic / unsatisfiable dependencies) is the `decreases` obligations of the two loops''',
                subs=[('dependencies.iter().collect()', 'hashmap_iter_collect(dependencies)'),
                      ('used_ids.append(&mut used);', 'btreeset_append(&mut used_ids, &mut used);'),
                      ('let mut not_evaluated = Vec::new();', 'let mut not_evaluated: Vec<(&u64, &Function)> = Vec::new();')],
                loops=[dict(kind='loop', inv='''invariant not_evaluated.len() == 0, bucket.len() <= last_size,
            ''' + COMMON + '''
        decreases last_size,'''),
                       dict(kind='while', inv='''invariant bucket.len() + not_evaluated.len() <= last_size,
            ''' + COMMON + '''
            ensures bucket.len() == 0,
            decreases bucket.len(),''')],
                proofs=[(('after', r'let mut bucket[^;]*;'), '''
    proof {
        assert forall|k: u64| #[trigger] dependencies@.contains_key(k) implies in_keys(bucket@, bucket.len() as int, k) by {
            let j = choose|j: int| 0 <= j < bucket.len() && *(#[trigger] bucket[j]).0 == k;
            lemma_in_keys_intro(bucket@, bucket.len() as int, j, k);
        }
    }''')])


# ---------------------------------------------------------------- C03
PE_RES = 'Result<BTreeSet<u64>, VErr>'


def linear_partial_evaluate():
    return Unit('Linear::partial_evaluate', E, 'partial_evaluate', impl=r'impl Evaluate for Linear \{',
                sig='fn partial_evaluate(&mut self, state: &State) -> Result<BTreeSet<u64>>', wrap=('impl Linear {', '}'),
                header='''pub fn partial_evaluate(&mut self, state: &State) -> (r: %s)
    ensures
        r is Ok,
        // the result no longer mentions any fixed variable, and mentions only variables of the original
        forall|j: int| 0 <= j < final(self).terms.len() ==> !state.entries@.contains_key((#[trigger] final(self).terms[j]).id),
        linear_ids(*final(self)).subset_of(linear_ids(*old(self))),
        // returned set = fixed variables that actually occurred
        dom_disjoint(linear_ids(*final(self)), state.entries@),
        r->Ok_0@ =~= ids_in(linear_ids(*old(self)), state.entries@),
        // value: for every total assignment m that agrees with the fixed part, the value is unchanged (exactly; no dropping here)
        linear_fin(*old(self)) && state_fin(state.entries@) ==> linear_fin(*final(self)),
        linear_fin(*old(self)) && state_fin(state.entries@) ==> forall|m: Map<u64, F64>| #![trigger linear_val(*final(self), m)] agree(state.entries@, m) ==> linear_val(*final(self), m) == linear_val(*old(self), m),''' % PE_RES,
                loops=[dict(kind='while', inv='''invariant
                0 <= i <= self.terms.len(),
                forall|j: int| 0 <= j < i ==> !state.entries@.contains_key((#[trigger] self.terms[j]).id),
                linear_ids(*old(self)) =~= used@.union(lin_ids(self.terms@, self.terms.len() as int)),
                forall|k: u64| #[trigger] used@.contains(k) ==> state.entries@.contains_key(k),
                linear_fin(*old(self)) && state_fin(state.entries@) ==> linear_fin(*self),
                linear_fin(*old(self)) && state_fin(state.entries@) ==> forall|m: Map<u64, F64>| #![trigger lin_all(self.terms@, m)] agree(state.entries@, m) ==> rv(self.constant) + lin_all(self.terms@, m) == linear_val(*old(self), m),
            decreases self.terms.len() - i''', body_proof=' let ghost t0 = self.terms@;')],
                proofs=[(('after', r'self\.terms\.swap_remove\(i\);'), ' proof { lemma_swap_removed_ids(t0, i as int, t0.len() - 1); assert(self.terms@ =~= t0.update(i as int, t0.last()).drop_last()); }'),
                        (('before', r'Ok\(used\)\s*\}\s*$'), '''proof {
            let ids0 = linear_ids(*old(self)); let fil = ids_in(ids0, state.entries@);
            assert forall|k: u64| used@.contains(k) <==> fil.contains(k) by {
                lemma_lin_ids_mem(self.terms@, self.terms.len() as int, k);
                if fil.contains(k) && !used@.contains(k) {
                    assert(lin_ids(self.terms@, self.terms.len() as int).contains(k));
                    let j = choose|j: int| 0 <= j < self.terms.len() && (#[trigger] self.terms@[j]).id == k;
                    assert(!state.entries@.contains_key(self.terms[j].id));
                }
            }
            assert(used@ =~= fil);
            assert(linear_ids(*self).subset_of(ids0));
            assert forall|k: u64| #[trigger] linear_ids(*self).contains(k) implies !state.entries@.contains_key(k) by {
                lemma_lin_ids_mem(self.terms@, self.terms.len() as int, k);
                let j = choose|j: int| 0 <= j < self.terms.len() && (#[trigger] self.terms@[j]).id == k;
                assert(!state.entries@.contains_key(self.terms[j].id));
            }
        }
        ''')])


def function_partial_evaluate():
    return Unit('Function::partial_evaluate', E, 'partial_evaluate', impl=r'impl Evaluate for Function \{',
                sig='fn partial_evaluate(&mut self, state: &State) -> Result<BTreeSet<u64>>', wrap=('impl Function {', '}'),
                header='''pub fn partial_evaluate(&mut self, state: &State) -> (r: %s)
    ensures
        r is Ok ==> pe_rel(*old(self), *final(self), state.entries@, r->Ok_0@),
        // it can only fail inside the quadratic arm (COO arrays of different lengths)
        r is Err ==> old(self).function is Some && old(self).function->Some_0 is Quadratic,''' % PE_RES)


def constraint_partial_evaluate():
    return Unit('Constraint::partial_evaluate', E, 'partial_evaluate', impl=r'impl Evaluate for Constraint \{',
                sig='fn partial_evaluate(&mut self, state: &State) -> Result<BTreeSet<u64>>', wrap=('impl Constraint {', '}'),
                header='''pub fn partial_evaluate(&mut self, state: &State) -> (r: %s)
    ensures
        r is Ok ==> c_pe_rel(*old(self), *final(self), state.entries@, r->Ok_0@),
        r is Err ==> old(self).function is Some && old(self).function->Some_0.function is Some && old(self).function->Some_0.function->Some_0 is Quadratic,''' % PE_RES)


def removed_constraint_partial_evaluate():
    return Unit('RemovedConstraint::partial_evaluate', E, 'partial_evaluate', impl=r'impl Evaluate for RemovedConstraint \{',
                sig='fn partial_evaluate(&mut self, state: &State) -> Result<BTreeSet<u64>>', wrap=('impl RemovedConstraint {', '}'),
                header='''pub fn partial_evaluate(&mut self, state: &State) -> (r: %s)
    ensures
        r is Ok ==> old(self).constraint is Some && final(self).constraint is Some
            && c_pe_rel(old(self).constraint->Some_0, final(self).constraint->Some_0, state.entries@, r->Ok_0@)
            && final(self).removed_reason == old(self).removed_reason && final(self).removed_reason_parameters == old(self).removed_reason_parameters,
        old(self).constraint is None ==> r is Err,''' % PE_RES)


def instance_partial_evaluate():
    return Unit('Instance::partial_evaluate', E, 'partial_evaluate', impl=r'impl Evaluate for Instance \{',
                sig='fn partial_evaluate(&mut self, state: &State) -> Result<BTreeSet<u64>>', wrap=('impl Instance {', '}'),
                header='''pub fn partial_evaluate(&mut self, state: &State) -> (r: %s)
    ensures r is Ok ==> ({
        let o = *old(self); let n = *final(self); let st = state.entries@;
        // each fixed value is recorded on the corresponding decision variable, nothing else of the variables changes
        &&& n.decision_variables.len() == o.decision_variables.len()
        &&& forall|i: int| 0 <= i < o.decision_variables.len() ==> #[trigger] n.decision_variables[i] == (DecisionVariable {
                substituted_value: if st.contains_key(o.decision_variables[i].id) { Some(st[o.decision_variables[i].id]) } else { o.decision_variables[i].substituted_value },
                ..o.decision_variables[i] })
        // objective, every active and every removed constraint are partially evaluated (same order, same metadata)
        &&& (o.objective is None ==> n.objective is None)
        &&& (o.objective is Some ==> n.objective is Some && pe(o.objective->Some_0, n.objective->Some_0, st))
        &&& n.constraints.len() == o.constraints.len()
        &&& forall|i: int| 0 <= i < o.constraints.len() ==> c_pe(o.constraints[i], #[trigger] n.constraints[i], st)
        &&& n.removed_constraints.len() == o.removed_constraints.len()
        &&& forall|i: int| 0 <= i < o.removed_constraints.len() ==> rc_pe_rel(o.removed_constraints[i], #[trigger] n.removed_constraints[i], st)
        // dependency functions too (same keys)
        &&& forall|k: u64| #[trigger] n.decision_variable_dependency@.contains_key(k) <==> o.decision_variable_dependency@.contains_key(k)
        &&& forall|k: u64| o.decision_variable_dependency@.contains_key(k) ==> pe(o.decision_variable_dependency@[k], #[trigger] n.decision_variable_dependency@[k], st)
        // everything else is untouched
        &&& n.sense == o.sense && n.description == o.description && n.parameters == o.parameters && n.constraint_hints == o.constraint_hints
        // returned ids are fixed variables only
        &&& forall|k: u64| #[trigger] r->Ok_0@.contains(k) ==> st.contains_key(k)
    }),''' % PE_RES,
                subs=[('''for d in self.decision_variable_dependency.values_mut() {
            let mut new = d.partial_evaluate(state)?;
            used.append(&mut new);
        }''', 'pe_dependency_values(&mut self.decision_variable_dependency, state, &mut used)?;')],
                subs_all=[('used.append(&mut new);', 'btreeset_append(&mut used, &mut new);', 2)],
                loops=[dict(kind='for', mut_index=True, inv='''invariant
                0 <= __i1 <= self.decision_variables.len(), self.decision_variables.len() == old(self).decision_variables.len(),
                *self == (Instance { decision_variables: self.decision_variables, ..*old(self) }),
                forall|j: int| 0 <= j < __i1 ==> #[trigger] self.decision_variables[j] == (DecisionVariable {
                    substituted_value: if state.entries@.contains_key(old(self).decision_variables[j].id) { Some(state.entries@[old(self).decision_variables[j].id]) } else { old(self).decision_variables[j].substituted_value },
                    ..old(self).decision_variables[j] }),
                forall|j: int| __i1 <= j < self.decision_variables.len() ==> #[trigger] self.decision_variables[j] == old(self).decision_variables[j],
            decreases self.decision_variables.len() - __i1'''),
                       dict(kind='for', mut_index=True, inv='''invariant
                0 <= __i2 <= self.constraints.len(), self.constraints.len() == old(self).constraints.len(),
                *self == (Instance { constraints: self.constraints, ..mid1 }),
                forall|j: int| 0 <= j < __i2 ==> c_pe(old(self).constraints[j], #[trigger] self.constraints[j], state.entries@),
                forall|j: int| __i2 <= j < self.constraints.len() ==> #[trigger] self.constraints[j] == old(self).constraints[j],
                forall|k: u64| #[trigger] used@.contains(k) ==> state.entries@.contains_key(k),
            decreases self.constraints.len() - __i2'''),
                       dict(kind='for', mut_index=True, inv='''invariant
                0 <= __i3 <= self.removed_constraints.len(), self.removed_constraints.len() == old(self).removed_constraints.len(),
                *self == (Instance { removed_constraints: self.removed_constraints, ..mid2 }),
                forall|j: int| 0 <= j < __i3 ==> rc_pe_rel(old(self).removed_constraints[j], #[trigger] self.removed_constraints[j], state.entries@),
                forall|j: int| __i3 <= j < self.removed_constraints.len() ==> #[trigger] self.removed_constraints[j] == old(self).removed_constraints[j],
                forall|k: u64| #[trigger] used@.contains(k) ==> state.entries@.contains_key(k),
            decreases self.removed_constraints.len() - __i3''')],
                proofs=[(('before', r'let mut __i2: usize = 0;'), 'let ghost mid1 = *self;\n        '),
                        (('before', r'let mut __i3: usize = 0;'), 'let ghost mid2 = *self;\n        ')])


# ---------------------------------------------------------------- C03: Quadratic::partial_evaluate (entry API, swap_remove, Linear::new)
QPE_HELPERS = '''// ---- helpers of Quadratic::partial_evaluate (declared substitutions; T4 std contracts) ----
// `self.linear.as_ref().map_or(0.0, |l| l.constant)`
#[verifier::external_body] pub fn opt_linear_constant(l: &Option<Linear>) -> (r: F64)
    ensures match *l { Some(x) => r == x.constant, None => r@ == XR::Fin(0real) }
{ unimplemented!() }
// `self.linear.iter().flat_map(|l| l.terms.iter())`: the terms of the linear part if there is one, in order
#[verifier::external_body] pub fn opt_linear_terms(l: &Option<Linear>) -> (r: Vec<LinearTerm>)
    ensures r@ == opt_terms(*l)
{ unimplemented!() }
// BTreeMap<u64, f64>::into_iter(): the entries in ascending key order, each exactly once
#[verifier::external_body] pub fn btree_into_pairs(m: BTreeMap<u64, F64>) -> (r: Vec<(u64, F64)>)
    ensures r.len() == m@.len(),
        forall|i: int| 0 <= i < r.len() ==> m@.contains_key((#[trigger] r[i]).0) && m@[r[i].0] == r[i].1,
        forall|i: int, j: int| 0 <= i < j < r.len() ==> (#[trigger] r[i]).0 < (#[trigger] r[j]).0,
        forall|k: u64| #[trigger] m@.contains_key(k) ==> exists|i: int| 0 <= i < r.len() && (#[trigger] r[i]).0 == k,
{ unimplemented!() }
'''


def linear_new_stub():
    """Linear::new as an assumed callee: the header of the unit verified in C02 / C12, body replaced"""
    from vx.units import algebra as al
    h = al.linear_new().header
    h = h.replace('#[verifier::loop_isolation(false)]\n', '')
    return 'impl Linear {\n    #[verifier::external_body] ' + h + '\n    { unimplemented!() }\n}\n'


def quadratic_partial_evaluate():
    FIN = 'quadratic_fin(*old(self)) && state_fin(state.entries@)'
    Q0 = '*old(self)'
    COMMON_INV = '''forall|k: u64| #[trigger] used@.contains(k) ==> state.entries@.contains_key(k),
                forall|k: u64| #[trigger] gm.contains_key(k) ==> !state.entries@.contains_key(k),
                linear@.dom() =~= gm.dom(),'''
    final_proof = '''proof {
            let st = state.entries@; let o = %s; let n = *self;
            let fo = Function { function: Some(FunctionEnum::Quadratic(o)) }; let fnw = Function { function: Some(FunctionEnum::Quadratic(n)) };
            assert(quad_n(o) == o.rows.len()); assert(quad_n(n) == n.rows.len());
            // ids
            assert(quadratic_ids(n).subset_of(quadratic_ids(o)) && dom_disjoint(quadratic_ids(n), st)) by {
                assert forall|k: u64| quadratic_ids(n).contains(k) implies quadratic_ids(o).contains(k) && !st.contains_key(k) by {
                    if quad_ids(n.rows@, n.columns@, n.rows.len() as int).contains(k) {
                        assert(n.rows@ == rows1 && n.columns@ == cols1);
                        lemma_unfixed_ids(rows1, cols1, st, k);
                    } else {
                        assert(n.linear is Some);
                        lemma_lin_ids_mem(n.linear->Some_0.terms@, n.linear->Some_0.terms.len() as int, k);
                        let j = choose|j: int| 0 <= j < n.linear->Some_0.terms.len() && (#[trigger] n.linear->Some_0.terms@[j]).id == k;
                        assert(gm.contains_key(k));
                    }
                }
            }
            assert forall|k: u64| used@.contains(k) <==> ids_in(quadratic_ids(o), st).contains(k) by {
                if quadratic_ids(o).contains(k) && st.contains_key(k) && !used@.contains(k) {
                    assert(!gm.dom().contains(k));
                    assert(quad_ids(n.rows@, n.columns@, n.rows.len() as int).contains(k));
                    assert(n.rows@ == rows1 && n.columns@ == cols1);
                    lemma_unfixed_ids(rows1, cols1, st, k);
                }
                if used@.contains(k) { assert(used@.union(gm.dom()).union(quad_ids(n.rows@, n.columns@, n.rows.len() as int)).contains(k)); }
            }
            assert(used@ =~= ids_in(quadratic_ids(o), st));
            if %s {
                assert forall|m: Map<u64, F64>| #![trigger fn_val(fnw, m)] agree(st, m) implies fn_val(fnw, m) == fn_val(fo, m) - quad_pe_rem(o, st, m) by {
                    assert(rv(constant) + msum(gm, m) + quad_sum(n.rows@, n.columns@, n.values@, n.rows.len() as int, m) == quadratic_val(o, m));
                }
            }
            assert(fn_ids(fnw) == quadratic_ids(n) && fn_ids(fo) == quadratic_ids(o));
            assert(dom_disjoint(fn_ids(fnw), st));
            assert(fn_ids(fnw).subset_of(fn_ids(fo)));
            assert(used@.subset_of(ids_in(fn_ids(fo), st)));
            assert(fn_fin(fo) && state_fin(st) ==> fn_fin(fnw));
            assert(fo.function is Some && fnw.function is Some);
            assert(pe_rel(fo, fnw, st, used@));
        }
        ''' % (Q0, FIN)
    return Unit('Quadratic::partial_evaluate', E, 'partial_evaluate', impl=r'impl Evaluate for Quadratic \{',
                sig='fn partial_evaluate(&mut self, state: &State) -> Result<BTreeSet<u64>>', wrap=('impl Quadratic {', '}'),
                header='''#[verifier::loop_isolation(false)]
pub fn partial_evaluate(&mut self, state: &State) -> (r: %s)
    // fails exactly on COO arrays of different lengths, leaving the function untouched; otherwise the relation shared by every partial_evaluate: no fixed variable is
    // mentioned any more, the returned set is exactly the fixed variables that occurred, and at every assignment that agrees with the fixed part the value is the old value
    // minus quad_pe_rem = the entries with |v| <= EPSILON of the exact linear part qpe_lin(old, state) (what Linear::new drops)
    ensures
        r is Ok <==> (old(self).rows.len() == old(self).columns.len() && old(self).rows.len() == old(self).values.len()),
        r is Err ==> *final(self) == *old(self),
        r is Ok ==> pe_rel(Function { function: Some(FunctionEnum::Quadratic(*old(self))) }, Function { function: Some(FunctionEnum::Quadratic(*final(self))) }, state.entries@, r->Ok_0@),
        // the returned set is EXACTLY the fixed variables that occurred (the shared relation only says "only")
        r is Ok ==> r->Ok_0@ =~= ids_in(quadratic_ids(*old(self)), state.entries@),''' % PE_RES,
                rsubs=[(r'let mut used = BTreeSet::new\(\);', 'let mut used: BTreeSet<u64> = BTreeSet::new();', 1),
                       (r'let mut linear = BTreeMap::new\(\);', 'let mut linear: BTreeMap<u64, F64> = BTreeMap::new();', 1),
                       (r'self\.linear\.as_ref\(\)\.map_or\(lit_0p0\(\), \|l\| l\.constant\)', 'opt_linear_constant(&self.linear)', 1),
                       (r'self\.linear\.iter\(\)\.flat_map\(\|l\| l\.terms\.iter\(\)\)', 'opt_linear_terms(&self.linear)', 1),
                       # R20c: the listing handed to Linear::new is bound by a `let` so that the proof can name it
                       (r'self\.linear = Some\(Linear::new\(linear\.into_iter\(\), constant\)\);',
                        'let __l = btree_into_pairs(linear); let ghost lst = __l@; let __new = Linear::new(__l, constant); self.linear = Some(__new);', 1)],
                loops=[dict(kind='for', it='it_1', rebind='__e',
                            body_proof=' proof { assert(*__e == lt[it_1.index@ as int]); }',
                            inv='''invariant
                __h1@ == lt, lt == opt_terms(old(self).linear), *self == *old(self),
                ''' + COMMON_INV + '''
                lin_ids(lt, it_1.index@ as int) =~= used@.union(gm.dom()),
                gm == lacc(lt, it_1.index@ as int, state.entries@),
                %s ==> kmatches(linear@, gm) && fin(constant) && forall|m: Map<u64, F64>| #![trigger msum(gm, m)] agree(state.entries@, m) ==>
                    rv(constant) + msum(gm, m) == opt_const(old(self).linear) + lin_sum(lt, it_1.index@ as int, m),''' % FIN),
                       dict(kind='while', inv='''invariant
                0 <= i <= self.rows.len(), self.rows.len() == self.columns.len(), self.rows.len() == self.values.len(),
                old(self).rows.len() == old(self).columns.len(), old(self).rows.len() == old(self).values.len(),
                self.linear == old(self).linear,
                unfixed(self.rows@, self.columns@, i as int, state.entries@),
                ''' + COMMON_INV + '''
                quadratic_ids(*old(self)) =~= used@.union(gm.dom()).union(quad_ids(self.rows@, self.columns@, self.rows.len() as int)),
                qpe_run(self.rows@, self.columns@, self.values@, i as int, state.entries@, gm) == qpe_lin(*old(self), state.entries@),
                %s ==> kmatches(linear@, gm) && fin(constant) && vals_fin(self.values@) && forall|m: Map<u64, F64>| #![trigger msum(gm, m)] agree(state.entries@, m) ==>
                    rv(constant) + msum(gm, m) + quad_sum(self.rows@, self.columns@, self.values@, self.rows.len() as int, m) == quadratic_val(*old(self), m),
            decreases self.rows.len() - i''' % FIN)],
                proofs=[(('after', r'let mut constant = opt_linear_constant\(&self\.linear\);'), '''
        let ghost lt = opt_terms(old(self).linear); let ghost mut gm: Map<u64, real> = Map::empty();
        proof { assert forall|m: Map<u64, F64>| #![trigger msum(gm, m)] msum(gm, m) == 0real by { lemma_msum_empty(m); } }'''),
                        # first loop, fixed term
                        (('after', r'if let Some\(value\) = state\.entries\.get\(&term\.id\) \{\s*[^;{}]*;'), '''
                proof { assert(agree(state.entries@, state.entries@)); }'''),
                        # first loop, free term
                        (('after', r'used\.insert\(term\.id\);\s*\} else \{\s*[^;{}]*;'), '''
                proof { let g0 = gm; gm = bump(gm, term.id, rv(term.coefficient));
                    assert forall|m: Map<u64, F64>| #![trigger msum(gm, m)] msum(gm, m) == msum(g0, m) + rv(term.coefficient) * sval(m, term.id) by { lemma_msum_bump(g0, m, term.id, rv(term.coefficient)); } }'''),
                        # between the loops
                        (('before', r'let mut i = 0;'), '''proof {
            assert(lt.len() == 0 ==> lin_ids(lt, 0) =~= Set::<u64>::empty());
            assert(quadratic_ids(*old(self)) =~= used@.union(gm.dom()).union(quad_ids(self.rows@, self.columns@, self.rows.len() as int)));
        }
        '''),
                        # second loop: remember the arrays before the swap_removes
                        (('before', r'match \(state\.entries\.get\(&row\), state\.entries\.get\(&column\)\)'), 'let ghost r0 = self.rows@; let ghost c0 = self.columns@; let ghost v0 = self.values@; let ghost g0 = gm; let ghost k0 = constant;\n            '),
                        (('after', r'\(Some\(u\), None\) => \{\s*[^;{}]*;'), '''
                    proof { gm = bump(gm, column, rv(value) * rv(*u)); }'''),
                        (('after', r'\(None, Some\(v\)\) => \{\s*[^;{}]*;'), '''
                    proof { gm = bump(gm, row, rv(value) * rv(*v)); }'''),
                        (('before', r'i \+= 1;\s*continue;'), '''proof { assert(!state.entries@.contains_key(row) && !state.entries@.contains_key(column)); assert(row == self.rows[i as int] && column == self.columns[i as int]);
                        assert(qpe_run(self.rows@, self.columns@, self.values@, i as int, state.entries@, gm) == qpe_run(self.rows@, self.columns@, self.values@, i as int + 1, state.entries@, gm)); }
                    '''),
                        (('before', r'continue;'), '''proof {
                        lemma_unfixed_step(self.rows@, self.columns@, i as int - 1, state.entries@);
                        assert(qpe_run(self.rows@, self.columns@, self.values@, i as int, state.entries@, gm) == qpe_lin(*old(self), state.entries@)); }
                    '''),
                        (('before', r'if linear\.is_empty\(\)'), '''proof { assert(i == self.rows.len()); }
        let ghost rows1 = self.rows@; let ghost cols1 = self.columns@;
        proof { assert(unfixed(rows1, cols1, rows1.len() as int, state.entries@)); }
        '''),
                        (('after', r'self\.values\.swap_remove\(i\);'), '''
            proof {
                let st = state.entries@; let ii = i as int;
                assert(self.rows@ =~= swap_rm(r0, ii) && self.columns@ =~= swap_rm(c0, ii) && self.values@ =~= swap_rm(v0, ii));
                lemma_unfixed_swap(r0, c0, ii, st);
                lemma_quad_ids_swap_removed(r0, c0, ii);
                if %s {
                    assert forall|m: Map<u64, F64>| #![trigger msum(gm, m)] agree(st, m) implies
                        rv(constant) + msum(gm, m) + quad_sum(self.rows@, self.columns@, self.values@, self.rows.len() as int, m) == quadratic_val(*old(self), m) by {
                        lemma_quad_swap_removed(r0, c0, v0, ii, m);
                        assert(rv(k0) + msum(g0, m) + quad_sum(r0, c0, v0, r0.len() as int, m) == quadratic_val(*old(self), m));
                        let a = rv(v0[ii]); let x = sval(m, r0[ii]); let y = sval(m, c0[ii]);
                        if st.contains_key(r0[ii]) && st.contains_key(c0[ii]) { assert(m[r0[ii]] == st[r0[ii]] && m[c0[ii]] == st[c0[ii]]); }
                        else if st.contains_key(r0[ii]) { assert(m[r0[ii]] == st[r0[ii]]); lemma_msum_bump(g0, m, c0[ii], a * x); assert((a * x) * y == a * x * y) by(nonlinear_arith); }
                        else { assert(m[c0[ii]] == st[c0[ii]]); lemma_msum_bump(g0, m, r0[ii], a * y); assert((a * y) * x == a * x * y) by(nonlinear_arith); }
                    }
                }
            }''' % FIN),
                        (('before', r'self\.linear = None;'), '''proof { assert(gm.dom() =~= Set::<u64>::empty()); assert(gm =~= Map::<u64, real>::empty());
                assert forall|m: Map<u64, F64>| #![trigger msum(gm, m)] msum(gm, m) == 0real && msum(drop_eps(gm), m) == 0real by { lemma_msum_empty(m); assert(drop_eps(gm) =~= Map::<u64, real>::empty()); } }
            '''),
                        (('after', r'let __new = Linear::new\(__l, constant\);'), '''
            proof {
                if %s {
                    assert(pairs_fin(lst)) by { assert forall|j: int| 0 <= j < lst.len() implies fin((#[trigger] lst[j]).1) by { assert(linear@.contains_key(lst[j].0)); } }
                    assert(klists(lst, lst.len() as int, gm));
                    lemma_acc_listing(lst, lst.len() as int, gm);
                }
                assert forall|j: int| 0 <= j < __new.terms.len() implies gm.contains_key((#[trigger] __new.terms@[j]).id) by {
                    let i = choose|i: int| 0 <= i < lst.len() && (#[trigger] lst[i]).0 == __new.terms[j].id; assert(linear@.contains_key(lst[i].0)); }
            }''' % FIN),
                        (('before', r'Ok\(used\)\s*\}\s*$'), final_proof)])


# ---------------------------------------------------------------- C03: Polynomial::partial_evaluate (map keyed by id lists: VMap, R28)
def polynomial_partial_evaluate():
    FIN = 'poly_fin(old(self).terms@) && state_fin(state.entries@)'
    T0 = 'old(self).terms@'
    final_proof = '''let ghost n = old(self).terms.len() as int; let ghost am = racc(its, n, Map::empty()); let ghost mv = monomials@; let ghost used0 = used@;
        let __t = vmap_into_monomials(monomials);   // R20c
        proof {
            let st = state.entries@; let t0 = %s; let pt = pitems(__t@);
            let fo = Function { function: Some(FunctionEnum::Polynomial(*old(self))) };
            let fnw = Function { function: Some(FunctionEnum::Polynomial(Polynomial { terms: __t })) };
            assert(am == ppe_map(*old(self), st));
            // ids of the result: every key is the list of unfixed ids of some monomial of the input
            assert forall|k: u64| poly_ids(__t@, __t.len() as int).contains(k) implies polynomial_ids(*old(self)).contains(k) && !st.contains_key(k) by {
                lemma_poly_ids_mem(__t@, __t.len() as int, k);
                let i = choose|i: int| 0 <= i < __t.len() && #[trigger] mono_ids(__t@[i].ids@, __t@[i].ids.len() as int).contains(k);
                assert(mv.contains_key(__t[i].ids@));
                let j = choose|j: int| 0 <= j < n && free_ids((#[trigger] t0[j]).ids@, t0[j].ids.len() as int, st) == __t[i].ids@;
                lemma_mono_ids_mem(__t[i].ids@, __t[i].ids.len() as int, k);
                let q = choose|q: int| 0 <= q < __t[i].ids.len() && __t[i].ids@[q] == k;
                assert(free_ids(t0[j].ids@, t0[j].ids.len() as int, st).contains(k));
                lemma_free_ids_mem(t0[j].ids@, t0[j].ids.len() as int, st, k);
                lemma_mono_ids_mem(t0[j].ids@, t0[j].ids.len() as int, k);
                lemma_poly_ids_mem(t0, n, k);
                assert(mono_ids(t0[j].ids@, t0[j].ids.len() as int).contains(k));
            }
            if %s {
                assert(am.dom() =~= mv.dom());
                assert(klists(pt, __t.len() as int, am)) by {
                    assert forall|i: int| 0 <= i < __t.len() implies am.contains_key((#[trigger] pt[i]).0) && pt[i].1@ == XR::Fin(am[pt[i].0]) by { assert(mv.contains_key(__t[i].ids@)); }
                    assert forall|i: int, j: int| 0 <= i < j < __t.len() implies (#[trigger] pt[i]).0 != (#[trigger] pt[j]).0 by { assert(__t[i].ids@ != __t[j].ids@); }
                }
                assert forall|i: int| 0 <= i < __t.len() implies fin((#[trigger] __t@[i]).coefficient) by { assert(mv.contains_key(__t[i].ids@)); }
                assert forall|m: Map<u64, F64>| #![trigger fn_val(fnw, m)] fn_val(fnw, m) == fn_val(fo, m) - poly_pe_rem(*old(self), st, m) by {
                    lemma_pitems_sum(__t@, __t.len() as int, m); lemma_klist_sum(pt, __t.len() as int, am, pw(m)); }
            }
            assert(used0.subset_of(ids_in(polynomial_ids(*old(self)), st)));
            // the conjuncts of pe_rel one by one (the solver should not have to find them in one step)
            assert(fn_ids(fnw) == poly_ids(__t@, __t.len() as int) && fn_ids(fo) == polynomial_ids(*old(self)));
            assert(dom_disjoint(fn_ids(fnw), st));
            assert(fn_ids(fnw).subset_of(fn_ids(fo)));
            assert(used0.subset_of(ids_in(fn_ids(fo), st)));
            assert(fn_fin(fo) && state_fin(st) ==> fn_fin(fnw));
            assert(fn_fin(fo) && state_fin(st) ==> forall|m: Map<u64, F64>| #![trigger fn_val(fnw, m)] agree(st, m) ==> fn_val(fnw, m) == fn_val(fo, m) - fn_pe_rem(fo, st, m)) by {
                assert forall|m: Map<u64, F64>| fn_pe_rem(fo, st, m) == poly_pe_rem(*old(self), st, m) by {} }
            assert(fo.function is Some && fnw.function is Some);
            assert(pe_rel(fo, fnw, st, used0));
        }
        ''' % (T0, FIN)
    return Unit('Polynomial::partial_evaluate', E, 'partial_evaluate', impl=r'impl Evaluate for Polynomial \{',
                sig='fn partial_evaluate(&mut self, state: &State) -> Result<BTreeSet<u64>>', wrap=('impl Polynomial {', '}'),
                header='''#[verifier::loop_isolation(false)]
pub fn partial_evaluate(&mut self, state: &State) -> (r: %s)
    // never fails.  The monomials of the result list, one per key, the specified merge ppe_map(old, state): each input monomial contributes coefficient * (product of its fixed
    // values) under the list of its unfixed ids (a monomial with |coefficient| <= EPSILON is skipped), equal lists are accumulated, an entry is dropped when |sum| <= EPSILON;
    // the remainder poly_pe_rem is DEFINED as the difference between the old value and the value of that merge
    ensures
        r is Ok,
        pe_rel(Function { function: Some(FunctionEnum::Polynomial(*old(self))) }, Function { function: Some(FunctionEnum::Polynomial(*final(self))) }, state.entries@, r->Ok_0@),''' % PE_RES,
                rsubs=[(r'let mut used = BTreeSet::new\(\);', 'let mut used: BTreeSet<u64> = BTreeSet::new();', 1),
                       (r'let mut monomials = BTreeMap::new\(\);', 'let mut monomials: VMap = VMap::new();', 1),       # R28
                       (r'let mut ids = Vec::new\(\);', 'let mut ids: Vec<u64> = Vec::new();', 1),
                       (r'(?s)self\.terms = monomials\.into_iter\(\)\.map\(\|\(ids, coefficient\)\| Monomial \{ ids, coefficient \}\)\.collect\(\);', 'self.terms = vmap_into_monomials(monomials);', 1)],
                loops=[dict(kind='for', it='it_1', inv='''invariant
                *self == *old(self), its == ppe_items(old(self).terms@, state.entries@),
                forall|k: u64| #[trigger] used@.contains(k) ==> state.entries@.contains_key(k) && poly_ids(old(self).terms@, it_1.index@ as int).contains(k),
                forall|key: Seq<u64>| #[trigger] monomials@.contains_key(key) ==> exists|j: int| 0 <= j < it_1.index@ && free_ids((#[trigger] old(self).terms@[j]).ids@, old(self).terms@[j].ids.len() as int, state.entries@) == key,
                %s ==> kmatches(monomials@, racc(its, it_1.index@ as int, Map::empty())),''' % FIN,
                            body_proof=''' proof { assert(*term == old(self).terms@[it_1.index@ as int]); assert(its[it_1.index@ as int] == ppe_item(*term, state.entries@)); }'''),
                       dict(kind='for', it='it_2', inv='''invariant
                    1 <= __i1 <= self.terms.len(), *term == old(self).terms@[it_1.index@ as int], *self == *old(self),
                    ids@ == free_ids(term.ids@, it_2.index@ as int, state.entries@),
                    %s ==> value@ == XR::Fin(rv(term.coefficient) * fixed_prod(term.ids@, it_2.index@ as int, state.entries@)),
                    forall|k: u64| #[trigger] used@.contains(k) ==> state.entries@.contains_key(k) && (poly_ids(old(self).terms@, it_1.index@ as int).contains(k) || mono_ids(term.ids@, it_2.index@ as int).contains(k)),''' % FIN)],
                proofs=[(('after', r'let mut monomials: VMap = VMap::new\(\);'), '''
        let ghost its = ppe_items(old(self).terms@, state.entries@);'''),
                        # a skipped monomial is an item of value 0: the specified merge does not change
                        (('before', r'continue;'), '''proof { if %s { lemma_racc_zero(its, __i1 as int); } }
                ''' % FIN),
                        (('after', r'let mut ids: Vec<u64> = Vec::new\(\);'), '''
            proof { assert(ids@ =~= free_ids(term.ids@, 0, state.entries@)); if %s { assert(rv(term.coefficient) * 1real == rv(term.coefficient)) by(nonlinear_arith); } }''' % FIN),
                        (('after', r'value \*= v;'), '''
                    proof { let c = rv(term.coefficient); let p = fixed_prod(term.ids@, it_2.index@ as int, state.entries@); let x = rv(*v);
                        assert((c * p) * x == c * (p * x)) by(nonlinear_arith); }'''),
                        (('after', r'used\.insert\(\*id\);[^{}]*\} else \{\s*[^;{}]*;'), '''
                    proof { assert(ids@ =~= free_ids(term.ids@, it_2.index@ as int + 1, state.entries@)); }'''),
                        # after the inner loop: the item of this monomial
                        (('before', r'let coefficient: &mut F64 ='), '''proof {
                assert(term.ids@.len() == term.ids.len());
                assert forall|k: u64| #[trigger] used@.contains(k) implies state.entries@.contains_key(k) && poly_ids(old(self).terms@, it_1.index@ as int + 1).contains(k) by {}
            }
            let ghost key0 = ids@; let ghost val0 = value;
            '''),
                        (('before', r'self\.terms = __t;'), final_proof)],
                post_subs=[('self.terms = vmap_into_monomials(monomials);', 'self.terms = __t;')])
