"""Units of rust/ommx/src/bound.rs (contracts for C16; reused as callee contracts by C05, C08, C12, C13)."""
from vx import core
from vx.core import Unit

B = 'bound.rs'
ENC2 = 'forall|x: real, y: real| contains(self, x) && contains(rhs, y) ==> contains(r, x %s y)'


def spec_impl(T, m, lhs, rhs, req, out='Bound'):
    return ('impl %sSpecImpl<%s> for %s { open spec fn obeys_%s_spec() -> bool { false } '
            'open spec fn %s_req(self, rhs: %s) -> bool { %s } open spec fn %s_spec(self, rhs: %s) -> %s { arbitrary() } }\n'
            % (T, rhs, lhs, m, m, rhs, req, m, rhs, out))


def assign_impl(T, m, lhs, rhs, req):
    return ('impl %sAssignSpecImpl<%s> for %s { open spec fn obeys_%s_assign_spec() -> bool { false } '
            'open spec fn %s_assign_req(&self, rhs: %s) -> bool { %s } open spec fn %s_assign_spec(&self, rhs: %s) -> &%s { arbitrary() } }\n'
            % (T, rhs, lhs, m, m, rhs, req, m, rhs, lhs))


def units():
    """all functions of bound.rs under contract, in emission order"""
    L = []
    U = L.append
    U(Unit('BoundError::check', B, 'check', impl=r'impl BoundError \{', sig='fn check(lower: f64, upper: f64) -> Result<(), BoundError>',
           wrap=('impl BoundError {', '}'), anyhow=False,
           header='''pub fn check(lower: F64, upper: F64) -> (r: Result<(), BoundError>)
        ensures r is Ok <==> inv(lower@, upper@),'''))
    U(Unit('Bound::new', B, 'new', impl=r'impl Bound \{', sig='pub fn new(lower: f64, upper: f64) -> Result<Self, BoundError>',
           wrap=('impl Bound {', '}'), anyhow=False,
           header='''pub fn new(lower: F64, upper: F64) -> (r: Result<Self, BoundError>)
        ensures r is Ok <==> inv(lower@, upper@),
                r is Ok ==> r->Ok_0.lower == lower && r->Ok_0.upper == upper,'''))
    U(Unit('TryFrom<f64> for Bound', B, 'try_from', impl=r'impl TryFrom<f64> for Bound \{', anyhow=False,
           sig='fn try_from(value: f64) -> Result<Self, Self::Error>',
           pre='impl vstd::std_specs::convert::TryFromSpecImpl<F64> for Bound { open spec fn obeys_try_from_spec() -> bool { false } open spec fn try_from_spec(v: F64) -> Result<Self, BoundError> { arbitrary() } }\n',
           wrap=('impl TryFrom<F64> for Bound { type Error = BoundError;', '}'),
           header='''fn try_from(value: F64) -> (r: Result<Self, Self::Error>)
        ensures r is Ok <==> value@ is Fin,
                r is Ok ==> r->Ok_0.lower == value && r->Ok_0.upper == value,'''))
    U(Unit('Default for Bound', B, 'default', impl=r'impl Default for Bound \{', sig='fn default() -> Self', anyhow=False,
           wrap=('impl Default for Bound {', '}'),
           header='''fn default() -> (r: Self)
        ensures r.wf(), r.lower@ == XR::NegInf, r.upper@ == XR::PosInf,'''))
    U(Unit('Zero::zero for Bound', B, 'zero', impl=r'impl Zero for Bound \{', sig='fn zero() -> Self', anyhow=False,
           wrap=('impl Zero for Bound {', ''),
           header='''fn zero() -> (r: Self)
        ensures r.wf(), r.lower@ == XR::Fin(0real), r.upper@ == XR::Fin(0real),'''))
    U(Unit('Zero::is_zero for Bound', B, 'is_zero', impl=r'impl Zero for Bound \{', sig='fn is_zero(&self) -> bool', anyhow=False,
           wrap=('', '}'),
           header='''fn is_zero(&self) -> (r: bool)
        ensures r == (self.lower@ == XR::Fin(0real) && self.upper@ == XR::Fin(0real)),'''))
    U(Unit('Add for Bound', B, 'add', impl=r'impl Add for Bound \{', sig='fn add(self, rhs: Self) -> Self::Output', anyhow=False,
           pre=spec_impl('Add', 'add', 'Bound', 'Bound', 'self.wf() && rhs.wf()'),
           wrap=('impl core::ops::Add for Bound { type Output = Bound;', '}'),
           header='''fn add(self, rhs: Self) -> (r: Self::Output)
        ensures r.wf(),
            %s,
            r.lower@ == xr_add(self.lower@, rhs.lower@), r.upper@ == xr_add(self.upper@, rhs.upper@),''' % (ENC2 % '+')))
    U(Unit('Add<f64> for Bound', B, 'add', impl=r'impl Add<f64> for Bound \{', sig='fn add(self, rhs: f64) -> Self::Output', anyhow=False,
           pre=spec_impl('Add', 'add', 'Bound', 'F64', 'self.wf() && rhs@ is Fin'),
           wrap=('impl core::ops::Add<F64> for Bound { type Output = Bound;', '}'),
           header='''fn add(self, rhs: F64) -> (r: Self::Output)
        ensures r.wf(),
            forall|x: real| contains(self, x) ==> contains(r, x + rhs@->Fin_0),'''))
    # macro instance impl_add_inverse!(f64, Bound) -> impl Add<Bound> for f64 { rhs + self }
    for args, ln in core.macro_invocations(B, 'impl_add_inverse'):
        if [a for a in args] != ['f64', 'Bound']:
            raise core.LostAnchor('unexpected impl_add_inverse! instance in bound.rs: %s' % args)
        t = core.expand_macro('macros.rs', 'impl_add_inverse', args)
        U(Unit('impl_add_inverse!(f64, Bound)', B, 'add', text=(t, ln), anyhow=False,
               pre=spec_impl('Add', 'add', 'F64', 'Bound', 'rhs.wf() && self@ is Fin'),
               wrap=('impl core::ops::Add<Bound> for F64 { type Output = Bound;', '}'),
               header='''fn add(self, rhs: Bound) -> (r: Self::Output)
        ensures r.wf(),
            forall|x: real| contains(rhs, x) ==> contains(r, self@->Fin_0 + x),'''))
    U(Unit('AddAssign for Bound', B, 'add_assign', impl=r'impl AddAssign for Bound \{', sig='fn add_assign(&mut self, rhs: Self)', anyhow=False,
           pre=assign_impl('Add', 'add', 'Bound', 'Bound', 'self.wf() && rhs.wf()'),
           wrap=('impl core::ops::AddAssign for Bound {', '}'),
           header='''fn add_assign(&mut self, rhs: Self)
        ensures final(self).wf(),
            forall|x: real, y: real| contains(*old(self), x) && contains(rhs, y) ==> contains(*final(self), x + y),'''))
    U(Unit('AddAssign<f64> for Bound', B, 'add_assign', impl=r'impl AddAssign<f64> for Bound \{', sig='fn add_assign(&mut self, rhs: f64)', anyhow=False,
           pre=assign_impl('Add', 'add', 'Bound', 'F64', 'self.wf() && rhs@ is Fin'),
           wrap=('impl core::ops::AddAssign<F64> for Bound {', '}'),
           header='''fn add_assign(&mut self, rhs: F64)
        ensures final(self).wf(),
            forall|x: real| contains(*old(self), x) ==> contains(*final(self), x + rhs@->Fin_0),'''))
    U(Unit('Mul for Bound', B, 'mul', impl=r'impl Mul for Bound \{', sig='fn mul(self, rhs: Self) -> Self::Output', anyhow=False,
           pre=spec_impl('Mul', 'mul', 'Bound', 'Bound', 'self.wf() && rhs.wf()'),
           wrap=('impl core::ops::Mul for Bound { type Output = Bound;', '}'),
           header='''fn mul(self, rhs: Self) -> (r: Self::Output)
        ensures r.wf(),
            %s,''' % (ENC2 % '*'),
           proofs=[(('before', r'return Bound::zero\(\);'), '''proof {
                assert forall|x: real, y: real| contains(self, x) && contains(rhs, y) implies x * y == 0real by {
                    assert(x == 0real || y == 0real);
                    assert(x * y == 0real) by(nonlinear_arith) requires x == 0real || y == 0real;
                }
            }
            '''),
                   (('before', r'Bound::new\(a\.min'), 'proof { lemma_mul_corners(self, rhs, a@, b@, c@, d@); }\n        ')]))
    U(Unit('Mul<f64> for Bound', B, 'mul', impl=r'impl Mul<f64> for Bound \{', sig='fn mul(self, rhs: f64) -> Self::Output', anyhow=False,
           pre=spec_impl('Mul', 'mul', 'Bound', 'F64', 'self.wf() && rhs@ is Fin && (rhs@ != XR::Fin(0real) || fin_wf(self))'),
           wrap=('impl core::ops::Mul<F64> for Bound { type Output = Bound;', '}'),
           header='''fn mul(self, rhs: F64) -> (r: Self::Output)
        ensures r.wf(),
            forall|x: real| contains(self, x) ==> contains(r, x * rhs@->Fin_0),''',
           proofs=[('start', ' proof { lemma_scale(self, rhs@->Fin_0); }\n')]))
    for args, ln in core.macro_invocations(B, 'impl_mul_inverse'):
        if args != ['f64', 'Bound']:
            raise core.LostAnchor('unexpected impl_mul_inverse! instance in bound.rs: %s' % args)
        t = core.expand_macro('macros.rs', 'impl_mul_inverse', args)
        U(Unit('impl_mul_inverse!(f64, Bound)', B, 'mul', text=(t, ln), anyhow=False,
               pre=spec_impl('Mul', 'mul', 'F64', 'Bound', 'rhs.wf() && self@ is Fin && (self@ != XR::Fin(0real) || fin_wf(rhs))'),
               wrap=('impl core::ops::Mul<Bound> for F64 { type Output = Bound;', '}'),
               header='''fn mul(self, rhs: Bound) -> (r: Self::Output)
        ensures r.wf(),
            forall|x: real| contains(rhs, x) ==> contains(r, x * self@->Fin_0),'''))
    U(Unit('MulAssign for Bound', B, 'mul_assign', impl=r'impl MulAssign for Bound \{', sig='fn mul_assign(&mut self, rhs: Self)', anyhow=False,
           pre=assign_impl('Mul', 'mul', 'Bound', 'Bound', 'self.wf() && rhs.wf()'),
           wrap=('impl core::ops::MulAssign for Bound {', '}'),
           header='''fn mul_assign(&mut self, rhs: Self)
        ensures final(self).wf(),
            forall|x: real, y: real| contains(*old(self), x) && contains(rhs, y) ==> contains(*final(self), x * y),'''))
    U(Unit('MulAssign<f64> for Bound', B, 'mul_assign', impl=r'impl MulAssign<f64> for Bound \{', sig='fn mul_assign(&mut self, rhs: f64)', anyhow=False,
           pre=assign_impl('Mul', 'mul', 'Bound', 'F64', 'self.wf() && rhs@ is Fin && (rhs@ != XR::Fin(0real) || fin_wf(*self))'),
           wrap=('impl core::ops::MulAssign<F64> for Bound {', '}'),
           header='''fn mul_assign(&mut self, rhs: F64)
        ensures final(self).wf(),
            forall|x: real| contains(*old(self), x) ==> contains(*final(self), x * rhs@->Fin_0),'''))
    U(Unit('PartialEq<f64> for Bound', B, 'eq', impl=r'impl PartialEq<f64> for Bound \{', sig='fn eq(&self, other: &f64) -> bool', anyhow=False,
           pre='impl vstd::std_specs::cmp::PartialEqSpecImpl<F64> for Bound { open spec fn obeys_eq_spec() -> bool { false } open spec fn eq_spec(&self, other: &F64) -> bool { arbitrary() } }\n',
           wrap=('impl PartialEq<F64> for Bound {', '}'),
           header='''fn eq(&self, other: &F64) -> (r: bool)
        ensures r == (!(other@ is NaN) && self.lower@ == other@ && self.upper@ == other@),'''))
    I = r'impl Bound \{'
    W = ('impl Bound {', '}')
    U(Unit('Bound::positive', B, 'positive', impl=I, sig='pub fn positive() -> Self', wrap=W, anyhow=False,
           header='''pub fn positive() -> (r: Self)
        ensures r.wf(), r.lower@ == XR::Fin(0real), r.upper@ == XR::PosInf,'''))
    U(Unit('Bound::negative', B, 'negative', impl=I, sig='pub fn negative() -> Self', wrap=W, anyhow=False,
           header='''pub fn negative() -> (r: Self)
        ensures r.wf(), r.lower@ == XR::NegInf, r.upper@ == XR::Fin(0real),'''))
    U(Unit('Bound::lower', B, 'lower', impl=I, sig='pub fn lower(&self) -> f64', wrap=W, anyhow=False,
           header='''pub fn lower(&self) -> (r: F64)
        ensures r == self.lower,'''))
    U(Unit('Bound::upper', B, 'upper', impl=I, sig='pub fn upper(&self) -> f64', wrap=W, anyhow=False,
           header='''pub fn upper(&self) -> (r: F64)
        ensures r == self.upper,'''))
    U(Unit('Bound::width', B, 'width', impl=I, sig='pub fn width(&self) -> f64', wrap=W, anyhow=False,
           header='''pub fn width(&self) -> (r: F64)
        ensures r@ == xr_sub(self.upper@, self.lower@),'''))
    U(Unit('Bound::set_lower', B, 'set_lower', impl=I, sig='pub fn set_lower(&mut self, lower: f64) -> Result<(), BoundError>', wrap=W, anyhow=False,
           header='''pub fn set_lower(&mut self, lower: F64) -> (r: Result<(), BoundError>)
        ensures r is Ok <==> inv(lower@, old(self).upper@),
            r is Ok ==> final(self).lower == lower && final(self).upper == old(self).upper,
            r is Err ==> *final(self) == *old(self),'''))
    U(Unit('Bound::set_upper', B, 'set_upper', impl=I, sig='pub fn set_upper(&mut self, upper: f64) -> Result<(), BoundError>', wrap=W, anyhow=False,
           header='''pub fn set_upper(&mut self, upper: F64) -> (r: Result<(), BoundError>)
        ensures r is Ok <==> inv(old(self).lower@, upper@),
            r is Ok ==> final(self).upper == upper && final(self).lower == old(self).lower,
            r is Err ==> *final(self) == *old(self),'''))
    U(Unit('Bound::as_integer_bound', B, 'as_integer_bound', impl=I, sig='pub fn as_integer_bound(&self) -> Self', wrap=W, anyhow=False,
           header='''pub fn as_integer_bound(&self) -> (r: Self)
        requires self.wf(), exists|k: real| contains_int(*self, k)
        ensures r.wf(),
            forall|k: real| contains_int(*self, k) ==> contains_int(r, k),
            r.lower@ is Fin ==> is_int(r.lower@->Fin_0),
            r.upper@ is Fin ==> is_int(r.upper@->Fin_0),
            // the rounding never widens by a whole unit
            forall|x: real| contains(r, x) ==> contains_tol(*self, x, 1real / 1000000real),''',
           proofs=[('start', ' proof { lemma_int_round(*self); if self.lower@ is Fin { ax_ceil(self.lower@->Fin_0 - 1real / 1000000real); } if self.upper@ is Fin { ax_floor(self.upper@->Fin_0 + 1real / 1000000real); } }\n')]))
    U(Unit('Bound::is_finite', B, 'is_finite', impl=I, sig='pub fn is_finite(&self) -> bool', wrap=W, anyhow=False,
           header='''pub fn is_finite(&self) -> (r: bool)
        ensures r == (self.lower@ is Fin && self.upper@ is Fin),'''))
    U(Unit('Bound::intersection', B, 'intersection', impl=I, sig='pub fn intersection(&self, other: &Self) -> Option<Self>', wrap=W, anyhow=False,
           header='''pub fn intersection(&self, other: &Self) -> (r: Option<Self>)
        requires self.wf(), other.wf()
        ensures r is Some <==> exists|x: XR| !(x is NaN) && xr_le(self.lower@, x) && xr_le(x, self.upper@) && xr_le(other.lower@, x) && xr_le(x, other.upper@) && inv(xr_max(self.lower@, other.lower@), xr_min(self.upper@, other.upper@)),
            r is Some ==> r->Some_0.wf() && forall|x: real| contains(r->Some_0, x) <==> (contains(*self, x) && contains(*other, x)),
            r is None ==> forall|x: real| !(contains(*self, x) && contains(*other, x)),''',
           proofs=[('start', ''' proof {
            let lo = xr_max(self.lower@, other.lower@); let hi = xr_min(self.upper@, other.upper@);
            if inv(lo, hi) { assert(xr_le(self.lower@, lo) && xr_le(lo, self.upper@) && xr_le(other.lower@, lo) && xr_le(lo, other.upper@)); }
        }\n''')]))
    U(Unit('Bound::pow', B, 'pow', impl=I, sig='pub fn pow(&self, exp: u8) -> Self', wrap=W, anyhow=False,
           header='''pub fn pow(&self, exp: u8) -> (r: Self)
        requires self.wf()
        ensures r.wf(), forall|x: real| contains(*self, x) ==> contains(r, rpow(x, exp as nat)),''',
           proofs=[('start', ''' proof {
            assert forall|x: real| contains(*self, x) implies pow_point_ok(*self, exp as nat, x) by { lemma_pow_point(*self, exp as nat, x); }
            lemma_pick(self.lower@, self.upper@);
            lemma_pow_point(*self, exp as nat, pick(self.lower@, self.upper@));
        }\n''')]))
    U(Unit('Bound::contains', B, 'contains', impl=I, sig='pub fn contains(&self, value: f64, atol: f64) -> bool', wrap=W, anyhow=False,
           header='''pub fn contains(&self, value: F64, atol: F64) -> (r: bool)
        ensures r == (xr_le(xr_sub(self.lower@, atol@), value@) && xr_le(value@, xr_add(self.upper@, atol@))),'''))
    U(Unit('Bound::nearest_to_zero', B, 'nearest_to_zero', impl=I, sig='pub fn nearest_to_zero(&self) -> f64', wrap=W, anyhow=False,
           header='''pub fn nearest_to_zero(&self) -> (r: F64)
        requires self.wf()
        ensures r@ is Fin, contains(*self, r@->Fin_0),
            forall|x: real| contains(*self, x) ==> rabs(r@->Fin_0) <= #[trigger] rabs(x),'''))

    return L


def types(asm):
    t = core.get_type(B, 'enum', 'BoundError', asm.rules)
    asm.extracted(t['text'], 'enum BoundError')
    t = core.get_type(B, 'struct', 'Bound', asm.rules)
    if 'PartialEq' not in t['derives'] or 'Copy' not in t['derives']:
        raise core.LostAnchor('derive list of Bound changed: %s' % t['derives'])
    asm.extracted(t['text'].replace('PartialEq', '').replace(', ,', ',').replace(', )', ')'), 'struct Bound')
    # T4: derived PartialEq is field-wise `==` (on f64: IEEE equality)
    asm.raw('''impl PartialEq for Bound {
    #[verifier::external_body]
    fn eq(&self, other: &Bound) -> (r: bool)
        ensures r == (self.lower@ == other.lower@ && !(self.lower@ is NaN) && self.upper@ == other.upper@ && !(self.upper@ is NaN))
    { self.lower == other.lower && self.upper == other.upper }
}
''', 'derived PartialEq for Bound (T4)')


