"""Assumed callee contracts for the Function operators (discharged - as far as they are - in C02).
Preconditions as proved there: the oneof is set and Quadratic operands are well-formed COO (fn_coo_ok) - the operators panic otherwise."""

ADD = '''impl AddSpecImpl<Function> for Function { open spec fn obeys_add_spec() -> bool { false } open spec fn add_req(self, rhs: Function) -> bool { self.function is Some && rhs.function is Some && fn_coo_ok(self) && fn_coo_ok(rhs) } open spec fn add_spec(self, rhs: Function) -> Function { arbitrary() } }
impl core::ops::Add for Function { type Output = Function;
    #[verifier::external_body] fn add(self, rhs: Function) -> (r: Function) ensures r == fn_add(self, rhs), is_sum(r, self, rhs), fn_coo_ok(r) { unimplemented!() } }
'''
MUL = '''impl MulSpecImpl<Function> for Function { open spec fn obeys_mul_spec() -> bool { false } open spec fn mul_req(self, rhs: Function) -> bool { self.function is Some && rhs.function is Some && fn_coo_ok(self) && fn_coo_ok(rhs) } open spec fn mul_spec(self, rhs: Function) -> Function { arbitrary() } }
impl core::ops::Mul for Function { type Output = Function;
    #[verifier::external_body] fn mul(self, rhs: Function) -> (r: Function) ensures r == fn_mul(self, rhs), is_prod(r, self, rhs), fn_coo_ok(r) { unimplemented!() } }
'''
NEG = '''impl NegSpecImpl for Function { open spec fn obeys_neg_spec() -> bool { false } open spec fn neg_req(self) -> bool { self.function is Some && fn_coo_ok(self) } open spec fn neg_spec(self) -> Function { arbitrary() } }
impl core::ops::Neg for Function { type Output = Function;
    #[verifier::external_body] fn neg(self) -> (r: Function) ensures r == fn_neg(self), is_neg(r, self), fn_coo_ok(r) { unimplemented!() } }
'''
ZERO = '''impl Function {
    // Zero::zero for Function (v1_ext/function.rs)
    #[verifier::external_body] pub fn zero() -> (r: Function) ensures r == zero_fn() { unimplemented!() }
}
'''
PARMUL = '''impl<'a> MulSpecImpl<Function> for &'a Parameter { open spec fn obeys_mul_spec() -> bool { false } open spec fn mul_req(self, rhs: Function) -> bool { rhs.function is Some && fn_coo_ok(rhs) } open spec fn mul_spec(self, rhs: Function) -> Function { arbitrary() } }
impl<'a> core::ops::Mul<Function> for &'a Parameter { type Output = Function;
    #[verifier::external_body] fn mul(self, rhs: Function) -> (r: Function) ensures r == par_mul(*self, rhs), is_par_prod(r, *self, rhs), fn_coo_ok(r) { unimplemented!() } }
'''
