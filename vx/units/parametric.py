"""Units of rust/ommx/src/parametric_instance.rs"""
from vx.core import Unit

P = 'parametric_instance.rs'


def state_from_parameters():
    return Unit('From<Parameters> for State', P, 'from', impl=r'impl From<Parameters> for State \{',
                sig='fn from(Parameters { entries }: Parameters) -> Self',
                pre='impl vstd::std_specs::convert::FromSpecImpl<Parameters> for State { open spec fn obeys_from_spec() -> bool { false } open spec fn from_spec(v: Parameters) -> Self { arbitrary() } }\n',
                wrap=('impl From<Parameters> for State {', '}'),
                header='''fn from(__p1: Parameters) -> (r: Self)
        ensures r.entries == __p1.entries,''',
                proofs=[('start', ' let Parameters { entries } = __p1;')])


def parameters_from_state():
    return Unit('From<State> for Parameters', P, 'from', impl=r'impl From<State> for Parameters \{',
                sig='fn from(State { entries }: State) -> Self',
                pre='impl vstd::std_specs::convert::FromSpecImpl<State> for Parameters { open spec fn obeys_from_spec() -> bool { false } open spec fn from_spec(v: State) -> Self { arbitrary() } }\n',
                wrap=('impl From<State> for Parameters {', '}'),
                header='''fn from(__p1: State) -> (r: Self)
        ensures r.entries == __p1.entries,''',
                proofs=[('start', ' let State { entries } = __p1;')])


def parametric_from_instance():
    return Unit('From<Instance> for ParametricInstance', P, 'from', impl=r'impl From<Instance> for ParametricInstance \{',
                sig='fn from( Instance { description, objective, constraints, decision_variables, sense, constraint_hints, removed_constraints, parameters: _, decision_variable_dependency, }: Instance, ) -> Self',
                pre='impl vstd::std_specs::convert::FromSpecImpl<Instance> for ParametricInstance { open spec fn obeys_from_spec() -> bool { false } open spec fn from_spec(v: Instance) -> Self { arbitrary() } }\n',
                wrap=('impl From<Instance> for ParametricInstance {', '}'),
                header='''fn from(__p1: Instance) -> (r: Self)
        // the same problem with the (instantiated) parameter values dropped and no declared parameter
        ensures r.description == __p1.description && r.objective == __p1.objective && r.constraints == __p1.constraints && r.decision_variables == __p1.decision_variables
            && r.sense == __p1.sense && r.constraint_hints == __p1.constraint_hints && r.removed_constraints == __p1.removed_constraints
            && r.decision_variable_dependency == __p1.decision_variable_dependency && r.parameters.len() == 0,''',
                proofs=[('start', ' let Instance { description, objective, constraints, decision_variables, sense, constraint_hints, removed_constraints, parameters: _, decision_variable_dependency } = __p1;')])


def with_parameters():
    return Unit('ParametricInstance::with_parameters', P, 'with_parameters', impl=r'impl ParametricInstance \{', wrap=('impl ParametricInstance {', '}'),
                sig='pub fn with_parameters(mut self, parameters: Parameters) -> Result<Instance>',
                header='''pub fn with_parameters(self, parameters: Parameters) -> (r: Result<Instance, VErr>)
    ensures
        // omitting any declared parameter is an error
        (exists|i: int| 0 <= i < self.parameters.len() && !parameters.entries@.contains_key((#[trigger] self.parameters[i]).id)) ==> r is Err,
        // it never fails otherwise, unless a quadratic message is malformed (COO arrays of different lengths)
        r is Err ==> (exists|i: int| 0 <= i < self.parameters.len() && !parameters.entries@.contains_key((#[trigger] self.parameters[i]).id))
            || (self.objective is Some && self.objective->Some_0.function is Some && self.objective->Some_0.function->Some_0 is Quadratic)
            || (exists|i: int| 0 <= i < self.constraints.len() && (#[trigger] self.constraints[i]).function is Some && self.constraints[i].function->Some_0.function is Some
                    && self.constraints[i].function->Some_0.function->Some_0 is Quadratic),
        r is Ok ==> ({ let n = r->Ok_0; let st = parameters.entries@;
            // objective and every active constraint are the parametric functions with the parameter values fixed (C03 relation: value at (x, p))
            &&& (self.objective is None ==> n.objective is None)
            &&& (self.objective is Some ==> n.objective is Some && pe(self.objective->Some_0, n.objective->Some_0, st))
            &&& n.constraints.len() == self.constraints.len()
            &&& forall|i: int| 0 <= i < self.constraints.len() ==> c_pe(self.constraints[i], #[trigger] n.constraints[i], st)
            // everything else unchanged, the supplied values recorded
            &&& n.decision_variables == self.decision_variables && n.sense == self.sense && n.constraint_hints == self.constraint_hints
            &&& n.removed_constraints == self.removed_constraints && n.decision_variable_dependency == self.decision_variable_dependency && n.description == self.description
            &&& n.parameters == Some(parameters)
        }),''',
                closures=[dict(params='p', typed='p: &Parameter', ret='u64', ensures='ret == p.id')],
                rsubs=[(r'this\.parameters\.iter\(\)\.map\((\|p\| p\.id)\)\.collect\(\)', r'iter_map_collect_set(&this.parameters, \1)', 1),
                       (r'parameters\.entries\.keys\(\)\.cloned\(\)\.collect\(\)', 'hashmap_keys_set(&parameters.entries)', 1),
                       # the loop only logs the missing parameters (log::error!): dropped with R8
                       (r'(?s)for ids in required_ids\.difference\(&given_ids\) \{.*?\n            \}\n', '', 1)],
                loops=[dict(kind='for', mut_index=True, inv='''invariant
                0 <= __i1 <= this.constraints.len(), this.constraints.len() == self.constraints.len(),
                this == (ParametricInstance { constraints: this.constraints, ..mid1 }),
                forall|j: int| 0 <= j < __i1 ==> c_pe(self.constraints[j], #[trigger] this.constraints[j], state.entries@),
                forall|j: int| __i1 <= j < this.constraints.len() ==> #[trigger] this.constraints[j] == self.constraints[j],
                forall|j: int| __i1 <= j < self.constraints.len() ==> !((#[trigger] self.constraints[j]).function is Some && self.constraints[j].function->Some_0.function is Some
                    && self.constraints[j].function->Some_0.function->Some_0 is Quadratic) || true,
            decreases this.constraints.len() - __i1''')],
                mut_self=True,
                proofs=[(('before', r'let mut __i1: usize = 0;'), 'let ghost mid1 = this;\n        '),
                        (('after', r'let given_ids[^;]*;'), '''
        proof { assert forall|i: int| 0 <= i < this.parameters.len() implies required_ids@.contains((#[trigger] this.parameters[i]).id) by { } }''')])
