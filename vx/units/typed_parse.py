"""Units for C08 part B: the typed parse layer (parse.rs, decision_variable.rs, constraint.rs, function.rs, instance.rs, bound.rs).

`impl Parse for T` stays a trait impl.  The trait carries three spec functions (p_ok / p_out / p_err) that ARE the contract of
`parse`; the trait-level `ensures` ties every impl's `parse` body to them, and the default method `parse_as` is verified once,
generically, against them.  String literals (message / field / enum names) become opaque `StrLit(<crc32>)` tags (R8)."""
from vx import core
from vx.core import Unit

PARSE_TRAIT_HEAD = '''pub trait Parse: Sized {
    type Output;
    type Context;
    // ---- contract of `parse` (ghost): when it succeeds, what it returns, which errors are allowed ----
    spec fn p_ok(self, c: Self::Context) -> bool;
    spec fn p_out(self, c: Self::Context, o: Self::Output) -> bool;
    spec fn p_err(self, c: Self::Context, e: ParseError) -> bool;
    fn parse(self, context: &Self::Context) -> (r: Result<Self::Output, ParseError>)
        ensures r is Ok <==> self.p_ok(*context), r is Ok ==> self.p_out(*context, r->Ok_0), r is Err ==> self.p_err(*context, r->Err_0);
'''


def parse_as():
    return Unit('Parse::parse_as (default method)', 'parse.rs', 'parse_as', impl=r'pub trait Parse: Sized \{', strlit=True,
                sig="fn parse_as( self, context: &Self::Context, message: &'static str, field: &'static str, ) -> Result<Self::Output, ParseError>",
                wrap=(PARSE_TRAIT_HEAD, '}'), anyhow=False,
                header='''fn parse_as(self, context: &Self::Context, message: StrLit, field: StrLit) -> (r: Result<Self::Output, ParseError>)
        // same outcome as `parse`; on error the (message, field) pair is appended to the path
        ensures r is Ok <==> self.p_ok(*context), r is Ok ==> self.p_out(*context, r->Ok_0),
            r is Err ==> exists|e: ParseError| #![trigger self.p_err(*context, e)] self.p_err(*context, e) && wrapped(r->Err_0, e, message, field),''',
                closures=[dict(params='e', typed='e: ParseError', ret='ParseError', ensures='wrapped(ret, e, message, field)')])


def parse_error_context():
    return Unit('ParseError::context', 'parse.rs', 'context', impl=r'impl ParseError \{', wrap=('impl ParseError {', '}'), anyhow=False, mut_self=True,
                sig="pub fn context(mut self, message: &'static str, field: &'static str) -> Self",
                header='''pub fn context(self, message: StrLit, field: StrLit) -> (r: Self)
        ensures wrapped(r, self, message, field),''')


def raw_parse_error_context():
    return Unit('RawParseError::context', 'parse.rs', 'context', impl=r'impl RawParseError \{', wrap=('impl RawParseError {', '}'), anyhow=False,
                sig="pub fn context(self, message: &'static str, field: &'static str) -> ParseError",
                header='''pub fn context(self, message: StrLit, field: StrLit) -> (r: ParseError)
        ensures r.error == self, r.context@ =~= seq![ctx(message, field)],''')


def parse_error_from_raw():
    return Unit('From<RawParseError> for ParseError', 'parse.rs', 'from', impl=r'impl From<RawParseError> for ParseError \{', anyhow=False,
                sig='fn from(error: RawParseError) -> Self',
                pre='impl vstd::std_specs::convert::FromSpecImpl<RawParseError> for ParseError { open spec fn obeys_from_spec() -> bool { false } open spec fn from_spec(v: RawParseError) -> Self { arbitrary() } }\n',
                wrap=('impl From<RawParseError> for ParseError {', '}'),
                header='''fn from(error: RawParseError) -> (r: Self)
        ensures r.error == error, r.context@.len() == 0,''')


def parse_error_from_bound_error():
    return Unit('From<BoundError> for ParseError', 'bound.rs', 'from', impl=r'impl From<BoundError> for ParseError \{', anyhow=False,
                sig='fn from(e: BoundError) -> Self',
                pre='''impl vstd::std_specs::convert::FromSpecImpl<BoundError> for ParseError { open spec fn obeys_from_spec() -> bool { false } open spec fn from_spec(v: BoundError) -> Self { arbitrary() } }
// thiserror `#[from]` on RawParseError::InvalidBound (R13: generated one-line impl)
impl vstd::std_specs::convert::FromSpecImpl<BoundError> for RawParseError { open spec fn obeys_from_spec() -> bool { false } open spec fn from_spec(v: BoundError) -> Self { arbitrary() } }
impl From<BoundError> for RawParseError { fn from(e: BoundError) -> (r: Self) ensures r == RawParseError::InvalidBound(e) { RawParseError::InvalidBound(e) } }
''',
                wrap=('impl From<BoundError> for ParseError {', '}'),
                header='''fn from(e: BoundError) -> (r: Self)
        ensures r.error == RawParseError::InvalidBound(e), r.context@.len() == 0,''')


def P(name, file, ty, out, ctx, specs, sig='fn parse(self, _: &Self::Context) -> Result<Self::Output, ParseError>', header=None, **kw):
    """an `impl Parse for <ty>` unit; specs = text of the three spec fns (the contract)"""
    impl_rx = r'impl Parse for %s \{' % core.re.escape(ty)
    hdr = header or 'fn parse(self, _p0: &Self::Context) -> (r: Result<Self::Output, ParseError>)'
    return Unit(name, file, 'parse', impl=impl_rx, sig=sig, anyhow=False, strlit=True,
                wrap=('impl Parse for %s {\n    type Output = %s;\n    type Context = %s;\n%s' % (ty, out, ctx, specs), '}'), header=hdr, **kw)


def kind_parse():
    return P('Parse for v1::decision_variable::Kind', 'decision_variable.rs', 'v1::decision_variable::Kind', 'Kind', '()', '''
    open spec fn p_ok(self, c: ()) -> bool { self != v1::decision_variable::Kind::Unspecified }
    open spec fn p_out(self, c: (), o: Kind) -> bool { o == kind_typed(self) }
    open spec fn p_err(self, c: (), e: ParseError) -> bool { err_at(e, RawParseError::UnspecifiedEnum { enum_name: sl!("ommx.v1.decision_variable.Kind") }, seq![]) }
''')


def equality_parse():
    return P('Parse for v1::Equality', 'constraint.rs', 'v1::Equality', 'Equality', '()', '''
    open spec fn p_ok(self, c: ()) -> bool { self != v1::Equality::Unspecified }
    open spec fn p_out(self, c: (), o: Equality) -> bool { o == (if self == v1::Equality::EqualToZero { Equality::EqualToZero } else { Equality::LessThanOrEqualToZero }) }
    open spec fn p_err(self, c: (), e: ParseError) -> bool { err_at(e, RawParseError::UnspecifiedEnum { enum_name: sl!("ommx.v1.Equality") }, seq![]) }
''')


def sense_parse():
    return P('Parse for v1::instance::Sense', 'instance.rs', 'v1::instance::Sense', 'Sense', '()', '''
    open spec fn p_ok(self, c: ()) -> bool { self != v1::instance::Sense::Unspecified }
    open spec fn p_out(self, c: (), o: Sense) -> bool { o == (if self == v1::instance::Sense::Minimize { Sense::Minimize } else { Sense::Maximize }) }
    open spec fn p_err(self, c: (), e: ParseError) -> bool { err_at(e, RawParseError::UnspecifiedEnum { enum_name: sl!("ommx.v1.instance.Sense") }, seq![]) }
''')


def function_parse():
    return P('Parse for v1::Function', 'function.rs', 'v1::Function', 'Function', '()', '''
    open spec fn p_ok(self, c: ()) -> bool { self.function is Some }
    open spec fn p_out(self, c: (), o: Function) -> bool { fn_typed(self, o) }
    open spec fn p_err(self, c: (), e: ParseError) -> bool { err_at(e, RawParseError::UnsupportedV1Function, seq![]) }
''')


def bound_parse():
    return P('Parse for v1::Bound', 'bound.rs', 'v1::Bound', 'Bound', '()', '''
    open spec fn p_ok(self, c: ()) -> bool { inv(self.lower@, self.upper@) }
    open spec fn p_out(self, c: (), o: Bound) -> bool { o.lower == self.lower && o.upper == self.upper }
    open spec fn p_err(self, c: (), e: ParseError) -> bool { e.error is InvalidBound && e.context@.len() == 0 }
''', rsubs=[(r'Bound::new\(self\.lower, self\.upper\)\?', 'Bound::new(self.lower, self.upper).map_err(|e: BoundError| -> (o: ParseError) ensures o.error == RawParseError::InvalidBound(e), o.context@.len() == 0 { ParseError::from(e) })?', 1)])


def dv_parse():
    return P('Parse for v1::DecisionVariable', 'decision_variable.rs', 'v1::DecisionVariable', 'DecisionVariable', '()', '''
    // kind specified and bound valid; an unspecified bound means unbounded ([0,1] for binaries)
    open spec fn p_ok(self, c: ()) -> bool { kind_from_i32(self.kind).p_ok(()) && dv_bound_ok(self) }
    open spec fn p_out(self, c: (), o: DecisionVariable) -> bool {
        &&& o.id == VariableID(self.id) && o.kind == kind_typed(kind_from_i32(self.kind))
        &&& o.bound.wf() && o.bound.lower@ == dv_lower(self) && o.bound.upper@ == dv_upper(self)
        &&& o.substituted_value == self.substituted_value && o.name == self.name && o.subscripts == self.subscripts
        &&& o.parameters == self.parameters && o.description == self.description
    }
    open spec fn p_err(self, c: (), e: ParseError) -> bool {
        ||| (!kind_from_i32(self.kind).p_ok(()) && err_at(e, RawParseError::UnspecifiedEnum { enum_name: sl!("ommx.v1.decision_variable.Kind") }, seq![ctx(sl!("ommx.v1.DecisionVariable"), sl!("kind"))]))
        ||| (!dv_bound_ok(self) && e.error is InvalidBound && e.context@ =~= seq![ctx(sl!("ommx.v1.DecisionVariable"), sl!("bound"))])
    }
''', closures=[dict(params='e', typed='e: BoundError', ret='ParseError', ensures='ret.error == RawParseError::InvalidBound(e) && ret.context@ =~= seq![ctx(message, sl!("bound"))]')],
             rsubs=[(r'Bound::try_from\(&self\)', 'Bound::try_from_dv(&self)', 1)])


def dvs_parse():
    return P('Parse for Vec<v1::DecisionVariable>', 'decision_variable.rs', 'Vec<v1::DecisionVariable>', 'HashMap<VariableID, DecisionVariable>', '()', '''
    // every variable parses and the ids are pairwise distinct
    open spec fn p_ok(self, c: ()) -> bool { (forall|i: int| 0 <= i < self.len() ==> (#[trigger] self[i]).p_ok(())) && dv_ids_distinct(self@) }
    open spec fn p_out(self, c: (), o: HashMap<VariableID, DecisionVariable>) -> bool {
        &&& forall|i: int| 0 <= i < self.len() ==> o@.contains_key(VariableID((#[trigger] self[i]).id)) && self[i].p_out((), o@[VariableID(self[i].id)])
        &&& forall|k: VariableID| #[trigger] o@.contains_key(k) ==> exists|i: int| 0 <= i < self.len() && (#[trigger] self[i]).id == k.0
    }
    open spec fn p_err(self, c: (), e: ParseError) -> bool {
        ||| exists|i: int| 0 <= i < self.len() && !(#[trigger] self[i]).p_ok(()) && self[i].p_err((), e)
        ||| exists|i: int, j: int| 0 <= i < j < self.len() && (#[trigger] self[i]).id == (#[trigger] self[j]).id
                && err_at(e, RawParseError::DuplicatedVariableID { id: VariableID(self[i].id) }, seq![])
    }
''', rsubs=[(r'let mut decision_variables = HashMap::new\(\);', 'let mut decision_variables: HashMap<VariableID, DecisionVariable> = HashMap::new();', 1)],
             loops=[dict(kind='for', it='it_1', rebind='__e.vclone()', body_proof=' proof { assert(*__e == __h1[it_1.index@ as int]); }', inv='''invariant
                __h1@ == self@,
                forall|i: int| 0 <= i < it_1.index@ ==> (#[trigger] self[i]).p_ok(()),
                forall|i: int, j: int| 0 <= i < j < it_1.index@ ==> (#[trigger] self[i]).id != (#[trigger] self[j]).id,
                forall|i: int| 0 <= i < it_1.index@ ==> decision_variables@.contains_key(VariableID((#[trigger] self[i]).id)) && self[i].p_out((), decision_variables@[VariableID(self[i].id)]),
                forall|k: VariableID| #[trigger] decision_variables@.contains_key(k) ==> exists|i: int| 0 <= i < it_1.index@ && (#[trigger] self[i]).id == k.0,''')])


def constraint_parse():
    return P('Parse for v1::Constraint', 'constraint.rs', 'v1::Constraint', 'Constraint', '()', '''
    open spec fn p_ok(self, c: ()) -> bool { equality_from_i32(self.equality).p_ok(()) && self.function is Some && self.function->Some_0.p_ok(()) }
    open spec fn p_out(self, c: (), o: Constraint) -> bool {
        &&& o.id == ConstraintID(self.id) && equality_from_i32(self.equality).p_out((), o.equality) && self.function->Some_0.p_out((), o.function)
        &&& o.name == self.name && o.subscripts == self.subscripts && o.parameters == self.parameters && o.description == self.description
    }
    open spec fn p_err(self, c: (), e: ParseError) -> bool {
        ||| (!equality_from_i32(self.equality).p_ok(()) && err_at(e, RawParseError::UnspecifiedEnum { enum_name: sl!("ommx.v1.Equality") }, seq![ctx(sl!("ommx.v1.Constraint"), sl!("equality"))]))
        ||| (self.function is None && err_at(e, RawParseError::MissingField { message: sl!("ommx.v1.Constraint"), field: sl!("function") }, seq![]))
        ||| (self.function is Some && !self.function->Some_0.p_ok(()) && err_at(e, RawParseError::UnsupportedV1Function, seq![ctx(sl!("ommx.v1.Constraint"), sl!("function"))]))
    }
''')


def removed_constraint_parse():
    return P('Parse for v1::RemovedConstraint', 'constraint.rs', 'v1::RemovedConstraint', 'RemovedConstraint', '()', '''
    open spec fn p_ok(self, c: ()) -> bool { self.constraint is Some && self.constraint->Some_0.p_ok(()) }
    open spec fn p_out(self, c: (), o: RemovedConstraint) -> bool {
        self.constraint->Some_0.p_out((), o.constraint) && o.removed_reason == self.removed_reason && o.removed_reason_parameters == self.removed_reason_parameters
    }
    open spec fn p_err(self, c: (), e: ParseError) -> bool {
        ||| (self.constraint is None && err_at(e, RawParseError::MissingField { message: sl!("ommx.v1.RemovedConstraint"), field: sl!("constraint") }, seq![]))
        ||| (self.constraint is Some && exists|e0: ParseError| #![trigger self.constraint->Some_0.p_err((), e0)] self.constraint->Some_0.p_err((), e0)
                && wrapped(e, e0, sl!("ommx.v1.RemovedConstraint"), sl!("constraint")))
    }
''')


def constraints_parse():
    return P('Parse for Vec<v1::Constraint>', 'constraint.rs', 'Vec<v1::Constraint>', 'HashMap<ConstraintID, Constraint>', '()', '''
    open spec fn p_ok(self, c: ()) -> bool { (forall|i: int| 0 <= i < self.len() ==> (#[trigger] self[i]).p_ok(()))
        && forall|i: int, j: int| 0 <= i < j < self.len() ==> (#[trigger] self[i]).id != (#[trigger] self[j]).id }
    open spec fn p_out(self, c: (), o: HashMap<ConstraintID, Constraint>) -> bool {
        &&& forall|i: int| 0 <= i < self.len() ==> o@.contains_key(ConstraintID((#[trigger] self[i]).id)) && self[i].p_out((), o@[ConstraintID(self[i].id)])
        &&& forall|k: ConstraintID| #[trigger] o@.contains_key(k) ==> exists|i: int| 0 <= i < self.len() && (#[trigger] self[i]).id == k.0
    }
    open spec fn p_err(self, c: (), e: ParseError) -> bool {
        ||| exists|i: int| 0 <= i < self.len() && !(#[trigger] self[i]).p_ok(()) && self[i].p_err((), e)
        ||| exists|i: int, j: int| 0 <= i < j < self.len() && (#[trigger] self[i]).id == (#[trigger] self[j]).id
                && err_at(e, RawParseError::DuplicatedConstraintID { id: ConstraintID(self[i].id) }, seq![])
    }
''', rsubs=[(r'let mut constraints = HashMap::new\(\);', 'let mut constraints: HashMap<ConstraintID, Constraint> = HashMap::new();', 1)],
             loops=[dict(kind='for', it='it_1', rebind='__e.vclone()', body_proof=' proof { assert(*__e == __h1[it_1.index@ as int]); }', inv='''invariant
                __h1@ == self@,
                forall|i: int| 0 <= i < it_1.index@ ==> (#[trigger] self[i]).p_ok(()),
                forall|i: int, j: int| 0 <= i < j < it_1.index@ ==> (#[trigger] self[i]).id != (#[trigger] self[j]).id,
                forall|i: int| 0 <= i < it_1.index@ ==> constraints@.contains_key(ConstraintID((#[trigger] self[i]).id)) && self[i].p_out((), constraints@[ConstraintID(self[i].id)]),
                forall|k: ConstraintID| #[trigger] constraints@.contains_key(k) ==> exists|i: int| 0 <= i < it_1.index@ && (#[trigger] self[i]).id == k.0,''')])


def removed_constraints_parse():
    return P('Parse for Vec<v1::RemovedConstraint>', 'constraint.rs', 'Vec<v1::RemovedConstraint>', 'HashMap<ConstraintID, RemovedConstraint>', 'HashMap<ConstraintID, Constraint>', '''
    // every removed constraint parses; ids distinct among removed ones and disjoint from the active constraints (the context)
    open spec fn p_ok(self, c: HashMap<ConstraintID, Constraint>) -> bool {
        &&& forall|i: int| 0 <= i < self.len() ==> (#[trigger] self[i]).p_ok(())
        &&& forall|i: int, j: int| 0 <= i < j < self.len() ==> rc_id(#[trigger] self[i]) != rc_id(#[trigger] self[j])
        &&& forall|i: int| 0 <= i < self.len() ==> !c@.contains_key(ConstraintID((#[trigger] self[i]).constraint->Some_0.id))
    }
    open spec fn p_out(self, c: HashMap<ConstraintID, Constraint>, o: HashMap<ConstraintID, RemovedConstraint>) -> bool {
        &&& forall|i: int| 0 <= i < self.len() ==> o@.contains_key(ConstraintID((#[trigger] self[i]).constraint->Some_0.id)) && self[i].p_out((), o@[ConstraintID(self[i].constraint->Some_0.id)])
        &&& forall|k: ConstraintID| #[trigger] o@.contains_key(k) ==> exists|i: int| 0 <= i < self.len() && rc_id(#[trigger] self[i]) == Some(k.0)
    }
    open spec fn p_err(self, c: HashMap<ConstraintID, Constraint>, e: ParseError) -> bool {
        ||| exists|i: int| 0 <= i < self.len() && !(#[trigger] self[i]).p_ok(()) && self[i].p_err((), e)
        ||| exists|i: int| 0 <= i < self.len() && (#[trigger] self[i]).constraint is Some
                && err_at(e, RawParseError::DuplicatedConstraintID { id: ConstraintID(self[i].constraint->Some_0.id) }, seq![])
                && (c@.contains_key(ConstraintID(self[i].constraint->Some_0.id)) || exists|j: int| 0 <= j < i && rc_id(#[trigger] self[j]) == rc_id(self[i]))
    }
''', sig='fn parse(self, constraints: &Self::Context) -> Result<Self::Output, ParseError>',
             header='fn parse(self, constraints: &Self::Context) -> (r: Result<Self::Output, ParseError>)',
             rsubs=[(r'let mut removed_constraints = HashMap::new\(\);', 'let mut removed_constraints: HashMap<ConstraintID, RemovedConstraint> = HashMap::new();', 1)],
             loops=[dict(kind='for', it='it_1', rebind='__e.vclone()', body_proof=' proof { assert(*__e == __h1[it_1.index@ as int]); }', inv='''invariant
                __h1@ == self@,
                forall|i: int| 0 <= i < it_1.index@ ==> (#[trigger] self[i]).p_ok(()),
                forall|i: int, j: int| 0 <= i < j < it_1.index@ ==> rc_id(#[trigger] self[i]) != rc_id(#[trigger] self[j]),
                forall|i: int| 0 <= i < it_1.index@ ==> !constraints@.contains_key(ConstraintID((#[trigger] self[i]).constraint->Some_0.id)),
                forall|i: int| 0 <= i < it_1.index@ ==> removed_constraints@.contains_key(ConstraintID((#[trigger] self[i]).constraint->Some_0.id))
                    && self[i].p_out((), removed_constraints@[ConstraintID(self[i].constraint->Some_0.id)]),
                forall|k: ConstraintID| #[trigger] removed_constraints@.contains_key(k) ==> exists|i: int| 0 <= i < it_1.index@ && rc_id(#[trigger] self[i]) == Some(k.0),''')])


def as_constraint_id():
    return Unit('as_constraint_id', 'instance.rs', 'as_constraint_id', impl=None, anyhow=False,
                sig='fn as_constraint_id( constraints: &HashMap<ConstraintID, Constraint>, id: u64, ) -> Result<ConstraintID, ParseError>',
                header='''pub fn as_constraint_id(constraints: &HashMap<ConstraintID, Constraint>, id: u64) -> (r: Result<ConstraintID, ParseError>)
    ensures r is Ok <==> constraints@.contains_key(ConstraintID(id)), r is Ok ==> r->Ok_0 == ConstraintID(id),
        r is Err ==> err_at(r->Err_0, RawParseError::UndefinedConstraintID { id: ConstraintID(id) }, seq![]),''')


def as_variable_id():
    return Unit('as_variable_id', 'instance.rs', 'as_variable_id', impl=None, anyhow=False,
                sig='fn as_variable_id( decision_variables: &HashMap<VariableID, DecisionVariable>, id: u64, ) -> Result<VariableID, ParseError>',
                header='''pub fn as_variable_id(decision_variables: &HashMap<VariableID, DecisionVariable>, id: u64) -> (r: Result<VariableID, ParseError>)
    ensures r is Ok <==> decision_variables@.contains_key(VariableID(id)), r is Ok ==> r->Ok_0 == VariableID(id),
        r is Err ==> err_at(r->Err_0, RawParseError::UndefinedVariableID { id: VariableID(id) }, seq![]),''')


HINT_CTX = '(HashMap<VariableID, DecisionVariable>, HashMap<ConstraintID, Constraint>)'
HINT_SIG = 'fn parse( self, (decision_variable, constraints): &Self::Context, ) -> Result<Self::Output, ParseError>'
HINT_HDR = '#[verifier::loop_isolation(false)]\nfn parse(self, context: &Self::Context) -> (r: Result<Self::Output, ParseError>)'
HINT_BIND = ' let decision_variable = &context.0; let constraints = &context.1;'
VAR_LOOP = '''invariant
                forall|i: int| 0 <= i < %(it)s.index@ ==> decision_variable@.contains_key(VariableID(#[trigger] self.decision_variables[i])),
                forall|i: int, j: int| 0 <= i < j < %(it)s.index@ ==> #[trigger] self.decision_variables[i] != #[trigger] self.decision_variables[j],
                forall|k: VariableID| #[trigger] variables@.contains(k) <==> exists|i: int| 0 <= i < %(it)s.index@ && #[trigger] self.decision_variables[i] == k.0,'''


def one_hot_parse():
    return P('Parse for v1::OneHot', 'instance.rs', 'v1::OneHot', 'OneHot', HINT_CTX, '''
    // the constraint id and every variable id are defined, variable ids are not repeated
    open spec fn p_ok(self, c: HintCtx) -> bool {
        c.1@.contains_key(ConstraintID(self.constraint_id)) && vars_defined(c, self.decision_variables@) && u64s_distinct(self.decision_variables@)
    }
    open spec fn p_out(self, c: HintCtx, o: OneHot) -> bool { o.id == ConstraintID(self.constraint_id) && var_set_of(o.variables@, self.decision_variables@) }
    open spec fn p_err(self, c: HintCtx, e: ParseError) -> bool {
        ||| (!c.1@.contains_key(ConstraintID(self.constraint_id))
                && err_at(e, RawParseError::UndefinedConstraintID { id: ConstraintID(self.constraint_id) }, seq![ctx(sl!("ommx.v1.OneHot"), sl!("constraint_id"))]))
        ||| undef_var_err(e, c, self.decision_variables@, sl!("ommx.v1.OneHot"), sl!("decision_variables"))
        ||| dup_var_err(e, self.decision_variables@, sl!("ommx.v1.OneHot"), sl!("decision_variables"))
    }
''', sig=HINT_SIG, header=HINT_HDR, proofs=[('start', HINT_BIND)],
             closures=[dict(params='e', typed='e: ParseError', ret='ParseError', ensures='wrapped(ret, e, message, sl!("constraint_id"))'),
                       dict(params='e', typed='e: ParseError', ret='ParseError', ensures='wrapped(ret, e, message, sl!("decision_variables"))')],
             rsubs=[(r'let mut variables = BTreeSet::new\(\);', 'let mut variables: BTreeSet<VariableID> = BTreeSet::new();', 1)],
             loops=[dict(kind='for', it='it_1', inv=VAR_LOOP % dict(it='it_1'), body_proof=' proof { assert(*v == self.decision_variables@[it_1.index@ as int]); }')])


def sos1_parse():
    return P('Parse for v1::Sos1', 'instance.rs', 'v1::Sos1', 'Sos1', HINT_CTX, '''
    open spec fn p_ok(self, c: HintCtx) -> bool {
        &&& c.1@.contains_key(ConstraintID(self.binary_constraint_id))
        &&& cons_defined(c, self.big_m_constraint_ids@) && u64s_distinct(self.big_m_constraint_ids@)
        &&& vars_defined(c, self.decision_variables@) && u64s_distinct(self.decision_variables@)
    }
    open spec fn p_out(self, c: HintCtx, o: Sos1) -> bool {
        o.binary_constraint_id == ConstraintID(self.binary_constraint_id) && con_set_of(o.big_m_constraint_ids@, self.big_m_constraint_ids@) && var_set_of(o.variables@, self.decision_variables@)
    }
    open spec fn p_err(self, c: HintCtx, e: ParseError) -> bool {
        ||| (!c.1@.contains_key(ConstraintID(self.binary_constraint_id))
                && err_at(e, RawParseError::UndefinedConstraintID { id: ConstraintID(self.binary_constraint_id) }, seq![ctx(sl!("ommx.v1.Sos1"), sl!("binary_constraint_id"))]))
        ||| undef_con_err(e, c, self.big_m_constraint_ids@, sl!("ommx.v1.Sos1"), sl!("big_m_constraint_ids"))
        ||| dup_con_err(e, self.big_m_constraint_ids@, sl!("ommx.v1.Sos1"), sl!("big_m_constraint_ids"))
        ||| undef_var_err(e, c, self.decision_variables@, sl!("ommx.v1.Sos1"), sl!("decision_variables"))
        ||| dup_var_err(e, self.decision_variables@, sl!("ommx.v1.Sos1"), sl!("decision_variables"))
    }
''', sig=HINT_SIG, header=HINT_HDR, proofs=[('start', HINT_BIND)],
             closures=[dict(params='e', typed='e: ParseError', ret='ParseError', ensures='wrapped(ret, e, message, sl!("binary_constraint_id"))'),
                       dict(params='e', typed='e: ParseError', ret='ParseError', ensures='wrapped(ret, e, message, sl!("big_m_constraint_ids"))'),
                       dict(params='e', typed='e: ParseError', ret='ParseError', ensures='wrapped(ret, e, message, sl!("decision_variables"))')],
             rsubs=[(r'let mut variables = BTreeSet::new\(\);', 'let mut variables: BTreeSet<VariableID> = BTreeSet::new();', 1),
                    (r'let mut big_m_constraint_ids = BTreeSet::new\(\);', 'let mut big_m_constraint_ids: BTreeSet<ConstraintID> = BTreeSet::new();', 1)],
             loops=[dict(kind='for', it='it_1', inv='''invariant
                forall|i: int| 0 <= i < it_1.index@ ==> constraints@.contains_key(ConstraintID(#[trigger] self.big_m_constraint_ids[i])),
                forall|i: int, j: int| 0 <= i < j < it_1.index@ ==> #[trigger] self.big_m_constraint_ids[i] != #[trigger] self.big_m_constraint_ids[j],
                forall|k: ConstraintID| #[trigger] big_m_constraint_ids@.contains(k) <==> exists|i: int| 0 <= i < it_1.index@ && #[trigger] self.big_m_constraint_ids[i] == k.0,''', body_proof=' proof { assert(*id == self.big_m_constraint_ids@[it_1.index@ as int]); }'),
                    dict(kind='for', it='it_2', inv=VAR_LOOP % dict(it='it_2'), body_proof=' proof { assert(*id == self.decision_variables@[it_2.index@ as int]); }')])


def hints_parse():
    PAS = '''(ret is Ok <==> c.p_ok(*context)) && (ret is Ok ==> c.p_out(*context, ret->Ok_0))
            && (ret is Err ==> exists|e: ParseError| #![trigger c.p_err(*context, e)] c.p_err(*context, e) && wrapped(ret->Err_0, e, message, sl!("%s")))'''
    return P('Parse for v1::ConstraintHints', 'instance.rs', 'v1::ConstraintHints', 'ConstraintHints', HINT_CTX, '''
    open spec fn p_ok(self, c: HintCtx) -> bool {
        (forall|i: int| 0 <= i < self.one_hot_constraints.len() ==> (#[trigger] self.one_hot_constraints[i]).p_ok(c))
        && (forall|i: int| 0 <= i < self.sos1_constraints.len() ==> (#[trigger] self.sos1_constraints[i]).p_ok(c))
    }
    open spec fn p_out(self, c: HintCtx, o: ConstraintHints) -> bool {
        &&& o.one_hot_constraints.len() == self.one_hot_constraints.len() && o.sos1_constraints.len() == self.sos1_constraints.len()
        &&& forall|i: int| 0 <= i < self.one_hot_constraints.len() ==> (#[trigger] self.one_hot_constraints[i]).p_out(c, o.one_hot_constraints[i])
        &&& forall|i: int| 0 <= i < self.sos1_constraints.len() ==> (#[trigger] self.sos1_constraints[i]).p_out(c, o.sos1_constraints[i])
    }
    open spec fn p_err(self, c: HintCtx, e: ParseError) -> bool {
        ||| exists|i: int, e0: ParseError| #![trigger self.one_hot_constraints[i].p_err(c, e0)] 0 <= i < self.one_hot_constraints.len() && !self.one_hot_constraints[i].p_ok(c)
                && self.one_hot_constraints[i].p_err(c, e0) && wrapped(e, e0, sl!("ommx.v1.ConstraintHints"), sl!("one_hot_constraints"))
        ||| exists|i: int, e0: ParseError| #![trigger self.sos1_constraints[i].p_err(c, e0)] 0 <= i < self.sos1_constraints.len() && !self.sos1_constraints[i].p_ok(c)
                && self.sos1_constraints[i].p_err(c, e0) && wrapped(e, e0, sl!("ommx.v1.ConstraintHints"), sl!("sos1_constraints"))
    }
''', sig='fn parse(self, context: &Self::Context) -> Result<Self::Output, ParseError>', header='fn parse(self, context: &Self::Context) -> (r: Result<Self::Output, ParseError>)',
             closures=[dict(params='c', typed='c: v1::OneHot', ret='Result<OneHot, ParseError>', ensures=PAS % 'one_hot_constraints'),
                       dict(params='c', typed='c: v1::Sos1', ret='Result<Sos1, ParseError>', ensures=PAS % 'sos1_constraints')],
             rsubs=[(r'self\.one_hot_constraints\.into_iter\(\)\.map\((\|c\| [^;]*?)\)\.collect::<Result<Vec<_>, ParseError>>\(\)', r'try_map_collect(self.one_hot_constraints, \1)', 1),
                    (r'self\.sos1_constraints\.into_iter\(\)\.map\((\|c\| [^;]*?)\)\.collect::<Result<_, ParseError>>\(\)', r'try_map_collect(self.sos1_constraints, \1)', 1)])


def instance_try_from():
    return Unit('TryFrom<v1::Instance> for Instance', 'instance.rs', 'try_from', impl=r'impl TryFrom<v1::Instance> for Instance \{', anyhow=False, strlit=True,
                sig='fn try_from(value: v1::Instance) -> Result<Self, Self::Error>',
                pre='impl vstd::std_specs::convert::TryFromSpecImpl<v1::Instance> for Instance { open spec fn obeys_try_from_spec() -> bool { false } open spec fn try_from_spec(v: v1::Instance) -> Result<Self, ParseError> { arbitrary() } }\n',
                wrap=('impl TryFrom<v1::Instance> for Instance { type Error = ParseError;', '}'),
                header='''#[verifier::loop_isolation(false)]
fn try_from(value: v1::Instance) -> (r: Result<Self, Self::Error>)
    ensures
        // accepted ==> every part is well-formed and the typed view carries the same content
        r is Ok ==> typed_parts_ok(value, r->Ok_0),
        // rejected ==> a violated rule, reported under ommx.v1.Instance[<field>] (never rejects a message whose parts are all well-formed)
        r is Err ==> typed_reject(value, r->Err_0),
        // the validation rule "every used variable is defined" must hold for accepted messages too
        r is Ok ==> typed_used_defined(value),''',
                closures=[dict(params='e', typed='e: ParseError', ret='ParseError', ensures='wrapped(ret, e, message, sl!("decision_variable_dependency"))')],
                rsubs=[(r'in value\.decision_variable_dependency \{', 'in hashmap_into_vec(value.decision_variable_dependency) {', 1),
                       (r'let mut decision_variable_dependency = HashMap::new\(\);', 'let mut decision_variable_dependency: HashMap<VariableID, Function> = HashMap::new();', 1)],
                loops=[dict(kind='for', it='it_1', rebind='(__e.0, __e.1.vclone())', body_proof=''' proof { let n = it_1.index@ as int; assert(*__e == __h1[n]);
                assert(deps0.contains_key(__h1[n].0) && deps0[__h1[n].0] == __h1[n].1);
                assert(value.decision_variables.p_out((), decision_variables));
                if !decision_variables@.contains_key(VariableID(__h1[n].0)) || !__h1[n].1.p_ok(()) { assert(!deps_ok(deps0, decision_variables@)); } }''', inv='''invariant
                forall|j: int| 0 <= j < it_1.index@ ==> decision_variables@.contains_key(VariableID((#[trigger] __h1[j]).0)) && __h1[j].1.p_ok(())
                    && decision_variable_dependency@.contains_key(VariableID(__h1[j].0)) && __h1[j].1.p_out((), decision_variable_dependency@[VariableID(__h1[j].0)]),
                forall|x: VariableID| #[trigger] decision_variable_dependency@.contains_key(x) ==> exists|j: int| 0 <= j < it_1.index@ && (#[trigger] __h1[j]).0 == x.0,''')],
                proofs=[(('before', r'let mut decision_variable_dependency'), 'let ghost deps0 = value.decision_variable_dependency@;\n        ')])
