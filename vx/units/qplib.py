"""Units for C19: conversion kernels of qplib/convert.rs (the text layer is not applicable)."""
from vx.core import Unit

F = 'qplib/convert.rs'


def to_quadratic():
    return Unit('qplib::convert::to_quadratic', F, 'to_quadratic', impl=None, anyhow=False,
                sig='fn to_quadratic(coeff_map: &HashMap<(usize, usize), f64>) -> v1::Quadratic',
                header='''pub fn to_quadratic(coeff_map: &HashMap<(usize, usize), F64>) -> (r: v1::Quadratic)
    requires forall|k: (usize, usize)| #[trigger] coeff_map@.contains_key(k) ==> coeff_map@[k]@ is Fin,
    ensures
        // one COO entry per listed lower-triangle entry (i,j,v) of the symmetric matrix Q (in SOME order, each exactly once) such that
        // 1/2 x'Qx = sum entries: an off-diagonal entry contributes v * x_i x_j, a DIAGONAL entry v/2 * x_i^2
        r.linear is None, r.rows.len() == r.columns.len(), r.rows.len() == r.values.len(),
        exists|e: Seq<((usize, usize), F64)>| #![trigger qp_enum(coeff_map@, e)] qp_enum(coeff_map@, e) && e.len() == r.rows.len()
            && forall|k: int| 0 <= k < e.len() ==> r.rows[k] == (#[trigger] e[k]).0.0 as u64 && r.columns[k] == e[k].0.1 as u64
                && r.values[k]@ == XR::Fin(if e[k].0.0 == e[k].0.1 { e[k].1@->Fin_0 / 2real } else { e[k].1@->Fin_0 }),''',
                subs=[('coeff_map.iter()', 'hashmap_iter_collect(coeff_map)')],
                rsubs=[(r'let mut (rows|columns) = ', r'let mut \1: Vec<u64> = ', 2), (r'let mut values = ', 'let mut values: Vec<F64> = ', 1)],
                loops=[dict(kind='for', it='it_1', rebind='((&__e.0.0, &__e.0.1), __e.1)', body_proof=' proof { assert(*__e == __h1[it_1.index@ as int]); }', inv='''invariant
                rows.len() == it_1.index@, columns.len() == it_1.index@, values.len() == it_1.index@,
                forall|k: (usize, usize)| #[trigger] coeff_map@.contains_key(k) ==> coeff_map@[k]@ is Fin,
                forall|j: int| 0 <= j < __h1.len() ==> coeff_map@.contains_key(*(#[trigger] __h1[j]).0) && coeff_map@[*__h1[j].0] == *__h1[j].1,
                forall|k: int| 0 <= k < it_1.index@ ==> rows[k] == (#[trigger] __h1[k]).0.0 as u64 && columns[k] == __h1[k].0.1 as u64
                    && values[k]@ == XR::Fin(if __h1[k].0.0 == __h1[k].0.1 { (*__h1[k].1)@->Fin_0 / 2real } else { (*__h1[k].1)@->Fin_0 }),''')],
                proofs=[(('before', r'v1::Quadratic \{'), '''proof {
        let e = Seq::new(__h1.len() as nat, |j: int| (*__h1[j].0, *__h1[j].1));
        assert forall|j: int| 0 <= j < e.len() implies coeff_map@.contains_key((#[trigger] e[j]).0) && coeff_map@[e[j].0] == e[j].1 by { assert(e[j] == (*__h1[j].0, *__h1[j].1)); }
        assert forall|k: (usize, usize)| coeff_map@.contains_key(k) implies exists|j: int| 0 <= j < e.len() && (#[trigger] e[j]).0 == k by {
            let j = choose|j: int| 0 <= j < __h1.len() && *(#[trigger] __h1[j]).0 == k; assert(e[j].0 == k); }
        assert forall|i: int, j: int| 0 <= i < j < e.len() implies (#[trigger] e[i]).0 != (#[trigger] e[j]).0 by { assert(*__h1[i].0 != *__h1[j].0); }
        assert(qp_enum(coeff_map@, e));
        assert forall|k: int| 0 <= k < e.len() implies rows[k] == (#[trigger] e[k]).0.0 as u64 && columns[k] == e[k].0.1 as u64
                && values[k]@ == XR::Fin(if e[k].0.0 == e[k].0.1 { e[k].1@->Fin_0 / 2real } else { e[k].1@->Fin_0 }) by { assert(e[k] == (*__h1[k].0, *__h1[k].1)); }
    }
    ''')])


def wrap_function():
    return Unit('qplib::convert::wrap_function', F, 'wrap_function', impl=None, anyhow=False,
                sig='fn wrap_function(mut quad: v1::Quadratic, mut linear: v1::Linear, constant: f64) -> v1::Function',
                header='''pub fn wrap_function(quad0: v1::Quadratic, linear0: v1::Linear, constant: F64) -> (r: v1::Function)
    requires quad0.linear is None,
    ensures
        // 1/2 x'Qx + b'x + q: the quadratic entries, the linear terms and the constant, in the smallest message kind that holds them
        r.function is Some,
        fn_ids(r).subset_of(quad_ids(quad0.rows@, quad0.columns@, quad_n(quad0)).union(linear_ids(linear0))),
        vals_fin(quad0.values@) && terms_fin(linear0.terms@) && fin(constant) ==> fn_fin(r)
            && forall|m: Map<u64, F64>| #![trigger fn_val(r, m)] fn_val(r, m) == quad_sum(quad0.rows@, quad0.columns@, quad0.values@, quad_n(quad0), m) + lin_all(linear0.terms@, m) + rv(constant),''',
                proofs=[('start', ' let mut quad = quad0; let mut linear = linear0;')])


def convert_sense():
    return Unit('qplib::convert::convert_sense', F, 'convert_sense', impl=None, anyhow=False, sig='fn convert_sense(sense: ObjSense) -> i32',
                header='''pub fn convert_sense(sense: ObjSense) -> (r: i32)
    ensures r == (if sense == ObjSense::Minimize { 1i32 } else { 2i32 }),''')


def to_linear():
    return Unit('qplib::convert::to_linear', F, 'to_linear', impl=None, anyhow=False,
                sig='fn to_linear(coeffs: &HashMap<usize, f64>) -> v1::Linear',
                header='''pub fn to_linear(coeffs: &HashMap<usize, F64>) -> (r: v1::Linear)
    ensures
        // one term per listed entry (i, v) of b (in SOME order, each exactly once), constant 0
        r.constant@ == XR::Fin(0real),
        exists|e: Seq<(usize, F64)>| #![trigger lp_enum(coeffs@, e)] lp_enum(coeffs@, e) && e.len() == r.terms.len()
            && forall|k: int| 0 <= k < e.len() ==> (#[trigger] r.terms[k]).id == e[k].0 as u64 && r.terms[k].coefficient == e[k].1,''',
                rsubs=[(r'(?s)coeffs\.iter\(\)\.map\((.*)\)\.collect\(\);', r'vec_map_collect(hashmap_iter_collect(coeffs), \1);', 1)],
                closures=[dict(params='(id, coeff)', typed='p: (&usize, &F64)', ret='v1::linear::Term', bind='let id = p.0; let coeff = p.1;',
                               ensures='ret.id == *p.0 as u64 && ret.coefficient == *p.1')],
                proofs=[(('before', r'v1::Linear \{'), '''proof {
        let e = Seq::new(terms.len() as nat, |j: int| (terms[j].id as usize, terms[j].coefficient));
        assert(exists|h: Seq<(&usize, &F64)>| #![trigger h.len()] h.len() == terms.len() && lp_enum_ref(coeffs@, h) && forall|k: int| 0 <= k < h.len() ==> (#[trigger] terms[k]).id == *h[k].0 as u64 && terms[k].coefficient == *h[k].1);
        let h = choose|h: Seq<(&usize, &F64)>| #![trigger h.len()] h.len() == terms.len() && lp_enum_ref(coeffs@, h) && forall|k: int| 0 <= k < h.len() ==> (#[trigger] terms[k]).id == *h[k].0 as u64 && terms[k].coefficient == *h[k].1;
        let e2 = Seq::new(h.len(), |j: int| (*h[j].0, *h[j].1));
        assert forall|j: int| 0 <= j < e2.len() implies coeffs@.contains_key((#[trigger] e2[j]).0) && coeffs@[e2[j].0] == e2[j].1 by { assert(e2[j] == (*h[j].0, *h[j].1)); }
        assert forall|k: usize| coeffs@.contains_key(k) implies exists|j: int| 0 <= j < e2.len() && (#[trigger] e2[j]).0 == k by {
            let j = choose|j: int| 0 <= j < h.len() && *(#[trigger] h[j]).0 == k; assert(e2[j].0 == k); }
        assert forall|i: int, j: int| 0 <= i < j < e2.len() implies (#[trigger] e2[i]).0 != (#[trigger] e2[j]).0 by { assert(*h[i].0 != *h[j].0); }
        assert(lp_enum(coeffs@, e2));
        assert forall|k: int| 0 <= k < e2.len() implies (#[trigger] terms[k]).id == e2[k].0 as u64 && terms[k].coefficient == e2[k].1 by { assert(e2[k] == (*h[k].0, *h[k].1)); }
    }
    ''')])


def convert_dvars():
    return Unit('qplib::convert::convert_dvars', F, 'convert_dvars', impl=None, anyhow=False,
                sig='fn convert_dvars(qplib: &QplibFile) -> Vec<v1::DecisionVariable>',
                header='''pub fn convert_dvars(qplib: &QplibFile) -> (r: Vec<v1::DecisionVariable>)
    ensures
        // one decision variable per declared variable, in file order: id = position, the declared kind, the file's bounds (as they are after the
        // infinity threshold was applied), the file's name if it has one; nothing else is set
        r.len() == min3(qplib.var_types.len() as int, qplib.lower_bounds.len() as int, qplib.upper_bounds.len() as int),
        forall|i: int| 0 <= i < r.len() ==> (#[trigger] r[i]).id == i as u64
            && r[i].kind == (match qplib.var_types[i] { VarType::Continuous => 3i32, VarType::Integer => 2i32, VarType::Binary => 1i32 })
            && r[i].bound is Some && r[i].bound->Some_0.lower == qplib.lower_bounds[i] && r[i].bound->Some_0.upper == qplib.upper_bounds[i]
            && r[i].name == (if qplib.var_names@.contains_key(i as usize) { Some(qplib.var_names@[i as usize]) } else { None::<String> })
            && r[i].substituted_value is None && r[i].subscripts.len() == 0 && r[i].description is None,''',
                rsubs=[(r'izip!\(var_types, lower_bounds, upper_bounds\)\.enumerate\(\)', 'enumerate_vec(zip3(var_types, lower_bounds, upper_bounds))', 1),
                       (r'var_names\.get\(&(\w+|\([^()]*\))\)\.cloned\(\)', r'opt_cloned(var_names.get(&\1))', 1),      # whatever key expression is looked up stays in the dialect
                       (r'let mut dvars = Vec::with_capacity\(var_types\.len\(\)\);', 'let mut dvars: Vec<v1::DecisionVariable> = Vec::new();', 1),
                       (r'\.\.Default::default\(\)', 'parameters: HashMap::new(), subscripts: Vec::new(), description: None, substituted_value: None', 1)],
                loops=[dict(kind='for', it='it_1', pat='(i, (t, lower, upper))', rebind='(__e.0, (&__e.1.0, __e.1.1, __e.1.2))', body_proof=' proof { assert(*__e == __h1[it_1.index@ as int]); }',
                            inv='''invariant
                __h1.len() == min3(qplib.var_types.len() as int, qplib.lower_bounds.len() as int, qplib.upper_bounds.len() as int),
                forall|j: int| 0 <= j < __h1.len() ==> (#[trigger] __h1[j]).0 == j && __h1[j].1.0 == qplib.var_types[j] && __h1[j].1.1 == qplib.lower_bounds[j] && __h1[j].1.2 == qplib.upper_bounds[j],
                *var_names == qplib.var_names,
                dvars.len() == it_1.index@,
                forall|i: int| 0 <= i < dvars.len() ==> (#[trigger] dvars[i]).id == i as u64
                    && dvars[i].kind == (match qplib.var_types[i] { VarType::Continuous => 3i32, VarType::Integer => 2i32, VarType::Binary => 1i32 })
                    && dvars[i].bound is Some && dvars[i].bound->Some_0.lower == qplib.lower_bounds[i] && dvars[i].bound->Some_0.upper == qplib.upper_bounds[i]
                    && dvars[i].name == (if qplib.var_names@.contains_key(i as usize) { Some(qplib.var_names@[i as usize]) } else { None::<String> })
                    && dvars[i].substituted_value is None && dvars[i].subscripts.len() == 0 && dvars[i].description is None,''')])


OBJ_SPEC = '''// ---- convert_objective: which linear part is built ----
// the dense coefficient vector b0: the listed value where there is one, else the default
pub open spec fn b0_at(q: QplibFile, i: int) -> F64 { if q.b0_non_defaults@.contains_key(i as usize) { q.b0_non_defaults@[i as usize] } else { q.default_b0 } }
pub open spec fn b0_dense(q: QplibFile) -> Seq<v1::linear::Term> { Seq::new(q.num_vars as nat, |i: int| v1::linear::Term { id: i as u64, coefficient: b0_at(q, i) }) }
pub open spec fn nzt(t: Seq<v1::linear::Term>) -> Seq<bool> { Seq::new(t.len(), |i: int| !(t[i].coefficient@ == XR::Fin(0real))) }
// the linear part of the objective: for a zero default, one term per listed entry (SOME order); otherwise one term per variable in index order, the listed value or the default,
// with the zero coefficients (and only those; a NaN is not zero) removed
pub open spec fn obj_linear_ok(l: v1::Linear, q: QplibFile) -> bool {
    &&& l.constant@ == XR::Fin(0real)
    &&& q.default_b0@ == XR::Fin(0real) ==> exists|e: Seq<(usize, F64)>| #![trigger lp_enum(q.b0_non_defaults@, e)] lp_enum(q.b0_non_defaults@, e) && e.len() == l.terms.len()
            && forall|k: int| 0 <= k < e.len() ==> (#[trigger] l.terms[k]).id == e[k].0 as u64 && l.terms[k].coefficient == e[k].1
    &&& !(q.default_b0@ == XR::Fin(0real)) ==> l.terms@ == sel(b0_dense(q), nzt(b0_dense(q)), q.num_vars as int)
}
'''


def convert_objective():
    return Unit('qplib::convert::convert_objective', F, 'convert_objective', impl=None, anyhow=False,
                sig='fn convert_objective(qplib: &QplibFile) -> v1::Function',
                header='''#[verifier::loop_isolation(false)]
pub fn convert_objective(qplib: &QplibFile) -> (r: v1::Function)
    requires forall|k: (usize, usize)| #[trigger] qplib.q0_non_zeroes@.contains_key(k) ==> qplib.q0_non_zeroes@[k]@ is Fin,
        // observation: with a non-zero default, a listed linear coefficient for a variable index >= num_vars is an index out of bounds (panic)
        forall|k: usize| #[trigger] qplib.b0_non_defaults@.contains_key(k) ==> k < qplib.num_vars,
    ensures
        // 1/2 x'Q0x + b0'x + q0: the function wrap_function builds from the COO form of Q0 (to_quadratic), the linear part obj_linear_ok and the constant
        r.function is Some,
        exists|quad: v1::Quadratic, lin: v1::Linear| #![trigger obj_linear_ok(lin, *qplib), quad_n(quad)] obj_linear_ok(lin, *qplib) && quad.linear is None
            && fn_ids(r).subset_of(quad_ids(quad.rows@, quad.columns@, quad_n(quad)).union(linear_ids(lin)))
            && (exists|e: Seq<((usize, usize), F64)>| #![trigger qp_enum(qplib.q0_non_zeroes@, e)] qp_enum(qplib.q0_non_zeroes@, e) && e.len() == quad.rows.len() && quad.rows.len() == quad.columns.len() && quad.rows.len() == quad.values.len()
                && forall|k: int| 0 <= k < e.len() ==> quad.rows[k] == (#[trigger] e[k]).0.0 as u64 && quad.columns[k] == e[k].0.1 as u64
                    && quad.values[k]@ == XR::Fin(if e[k].0.0 == e[k].0.1 { e[k].1@->Fin_0 / 2real } else { e[k].1@->Fin_0 }))
            && (vals_fin(quad.values@) && terms_fin(lin.terms@) && fin(qplib.obj_constant) ==> fn_fin(r)
                && forall|m: Map<u64, F64>| #![trigger fn_val(r, m)] fn_val(r, m) == quad_sum(quad.rows@, quad.columns@, quad.values@, quad_n(quad), m) + lin_all(lin.terms@, m) + rv(qplib.obj_constant)),''',
                subs=[('qplib.b0_non_defaults.iter()', 'hashmap_iter_collect(&qplib.b0_non_defaults)')],
                rsubs=[(r'terms\[i\]\.coefficient = coeff;', 'let mut __elt = terms[i].vclone(); __elt.coefficient = coeff; terms.set(i, __elt);', 1),   # R33: field assignment through a Vec index
                       (r'(?s)terms\.retain\((.*?)\);', r'let __c2 = \1; vec_retain(&mut terms, __c2);', 1),
                       (r'wrap_function\(quadratic, linear, qplib\.obj_constant\)\s*\}\s*$', 'let ghost gq = quadratic; let ghost gl = linear; let __r = wrap_function(quadratic, linear, qplib.obj_constant); proof { assert(obj_linear_ok(gl, *qplib)); } __r }', 1)],
                closures=[dict(params='i', typed='i: u64', ret='v1::linear::Term', ensures='ret.id == i && ret.coefficient == qplib.default_b0'),
                          dict(params='t', typed='t: &v1::linear::Term', ret='bool', ensures='ret == !(t.coefficient@ == XR::Fin(0real))')],
                loops=[dict(kind='for', it='it_1', pat='(i, coeff)', rebind='(*__e.0, *__e.1)', body_proof=' proof { assert(*__e == __h1[it_1.index@ as int]); }',
                            inv='''invariant
                terms.len() == qplib.num_vars,
                forall|j: int| 0 <= j < __h1.len() ==> qplib.b0_non_defaults@.contains_key(*(#[trigger] __h1[j]).0) && qplib.b0_non_defaults@[*__h1[j].0] == *__h1[j].1,
                forall|k: usize| qplib.b0_non_defaults@.contains_key(k) ==> exists|j: int| 0 <= j < __h1.len() && *(#[trigger] __h1[j]).0 == k,
                forall|a: int, b: int| 0 <= a < b < __h1.len() ==> *(#[trigger] __h1[a]).0 != *(#[trigger] __h1[b]).0,
                forall|k: int| 0 <= k < terms.len() ==> (#[trigger] terms[k]).id == k as u64
                    && terms[k].coefficient == (if exists|j: int| 0 <= j < it_1.index@ && *(#[trigger] __h1[j]).0 == k as usize { qplib.b0_non_defaults@[k as usize] } else { qplib.default_b0 }),''')],
                proofs=[(('before', r'let __c2 = '), '''proof {
            assert(terms@ =~= b0_dense(*qplib)) by {
                assert forall|k: int| 0 <= k < terms.len() implies #[trigger] terms@[k] == b0_dense(*qplib)[k] by {
                    if qplib.b0_non_defaults@.contains_key(k as usize) { let j = choose|j: int| 0 <= j < __h1.len() && *(#[trigger] __h1[j]).0 == k as usize; assert(*__h1[j].0 == k as usize); }
                }
            }
        }
        let ghost dense = terms@;
        '''),
                        (('before', r'v1::Linear \{\s*terms,'), '''proof {
            let b = choose|b: Seq<bool>| b.len() == dense.len() && (forall|i: int| 0 <= i < dense.len() ==> __c2.ensures((&dense[i],), #[trigger] b[i])) && terms@ == sel(dense, b, dense.len() as int);
            assert forall|i: int| 0 <= i < dense.len() implies b[i] == nzt(dense)[i] by { assert(__c2.ensures((&dense[i],), b[i])); }
            lemma_sel_ext(dense, b, nzt(dense), dense.len() as int);
        }
            ''')],
                post_subs=[])
