"""Units for C08 part A: validation on raw messages (v1_ext/instance.rs, linear.rs, v1_ext/function.rs)."""
from vx.core import Unit

F = 'v1_ext/instance.rs'
I = r'impl Instance \{'
W = ('impl Instance {', '}')

USED_STUBS = '''impl Quadratic {
    // iterator chain over linear part, columns and rows (T5, assumed)
    #[verifier::external_body] pub fn used_decision_variable_ids(&self) -> (r: BTreeSet<u64>) ensures r@ == quadratic_used(*self) { unimplemented!() }
}
impl Polynomial {
    // flat_map over the monomials (T5, assumed)
    #[verifier::external_body] pub fn used_decision_variable_ids(&self) -> (r: BTreeSet<u64>) ensures r@ == polynomial_ids(*self) { unimplemented!() }
}
'''


def linear_used_ids():
    return Unit('Linear::used_decision_variable_ids', 'linear.rs', 'used_decision_variable_ids', impl=r'impl Linear \{', wrap=('impl Linear {', '}'),
                sig='pub fn used_decision_variable_ids(&self) -> BTreeSet<u64>',
                header='''pub fn used_decision_variable_ids(&self) -> (r: BTreeSet<u64>)
        ensures r@ =~= linear_ids(*self),''',
                closures=[dict(params='term', typed='term: &LinearTerm', ret='u64', ensures='ret == term.id')],
                rsubs=[(r'self\.terms\.iter\(\)\.map\((\|term\| term\.id)\)\.collect\(\)', r'iter_map_collect_set(&self.terms, \1)', 1)],
                proofs=[(('after', r'iter_map_collect_set\(&self\.terms, [^;]*\)\s*$'), '')] if False else [],
                )


def function_used_ids():
    return Unit('Function::used_decision_variable_ids', 'v1_ext/function.rs', 'used_decision_variable_ids', impl=r'impl Function \{', wrap=('impl Function {', '}'),
                sig='pub fn used_decision_variable_ids(&self) -> BTreeSet<u64>',
                header='''pub fn used_decision_variable_ids(&self) -> (r: BTreeSet<u64>)
        ensures r@ =~= fn_used(*self),''')


def defined_ids():
    return Unit('Instance::defined_ids', F, 'defined_ids', impl=I, wrap=W, sig='pub fn defined_ids(&self) -> BTreeSet<u64>',
                header='''pub fn defined_ids(&self) -> (r: BTreeSet<u64>)
        ensures r@ =~= dv_ids(self.decision_variables@, self.decision_variables.len() as int),''',
                closures=[dict(params='dv', typed='dv: &DecisionVariable', ret='u64', ensures='ret == dv.id')],
                rsubs=[(r'self\.decision_variables\.iter\(\)\.map\((\|dv\| dv\.id)\)\.collect::<BTreeSet<_>>\(\)', r'iter_map_collect_set(&self.decision_variables, \1)', 1)])


def used_decision_variable_ids():
    return Unit('Instance::used_decision_variable_ids', F, 'used_decision_variable_ids', impl=I, wrap=W,
                sig='pub fn used_decision_variable_ids(&self) -> BTreeSet<u64>',
                header='''pub fn used_decision_variable_ids(&self) -> (r: BTreeSet<u64>)
        ensures r@ =~= inst_used(*self),''',
                rsubs=[(r'used_ids\.extend\((c\.function\(\)\.used_decision_variable_ids\(\))\);', r'btreeset_extend(&mut used_ids, \1);', None)],
                loops=[dict(kind='for', it='it_1', inv='''invariant used_ids@ =~= fn_used(ofun(*self)).union(cs_used(self.constraints@, it_1.index@ as int)),'''),
                       dict(kind='for', it='it_2', inv='''invariant used_ids@ =~= fn_used(ofun(*self)).union(cs_used(self.constraints@, self.constraints.len() as int)).union(rcs_used(self.removed_constraints@, it_2.index@ as int)),''')])


def validate_decision_variable_ids():
    return Unit('Instance::validate_decision_variable_ids', F, 'validate_decision_variable_ids', impl=I, wrap=W,
                sig='pub fn validate_decision_variable_ids(&self) -> Result<()>',
                header='''pub fn validate_decision_variable_ids(&self) -> (r: Result<(), VErr>)
        // succeeds EXACTLY when the decision-variable ids are pairwise distinct and every used id is defined
        ensures r is Ok <==> (dv_ids_distinct(self.decision_variables@)
            && inst_used(*self).subset_of(dv_ids(self.decision_variables@, self.decision_variables.len() as int))),''',
                rsubs=[(r'let undefined_ids = used_ids\.difference\(&defined_ids\)\.collect::<Vec<_>>\(\);', '', 1)],
                loops=[dict(kind='for', it='it_1', inv='''invariant
                defined_ids@ =~= dv_ids(self.decision_variables@, it_1.index@ as int),
                forall|i: int, j: int| 0 <= i < j < it_1.index@ ==> (#[trigger] self.decision_variables[i]).id != (#[trigger] self.decision_variables[j]).id,''',
                            body_proof=' proof { lemma_dv_ids_mem(self.decision_variables@, it_1.index@ as int, dv.id); }')])


def validate_constraint_ids():
    return Unit('Instance::validate_constraint_ids', F, 'validate_constraint_ids', impl=I, wrap=W,
                sig='pub fn validate_constraint_ids(&self) -> Result<()>',
                header='''pub fn validate_constraint_ids(&self) -> (r: Result<(), VErr>)
        // succeeds EXACTLY when constraint ids are pairwise distinct across active and removed constraints
        ensures r is Ok <==> c_ids_distinct(self.constraints@, self.removed_constraints@),''',
                rsubs=[(r'let mut map = HashSet::new\(\);', 'let mut map: HashSet<u64> = HashSet::new();', 1)],
                loops=[dict(kind='for', it='it_1', inv='''invariant
                map@ =~= c_id_set(self.constraints@, it_1.index@ as int),
                forall|i: int, j: int| 0 <= i < j < it_1.index@ ==> (#[trigger] self.constraints[i]).id != (#[trigger] self.constraints[j]).id,''',
                            body_proof=' proof { lemma_c_id_set_mem(self.constraints@, it_1.index@ as int, c.id); }'),
                       dict(kind='for', it='it_2', inv='''invariant
                map@ =~= c_id_set(self.constraints@, self.constraints.len() as int).union(rc_id_set(self.removed_constraints@, it_2.index@ as int)),
                forall|i: int, j: int| 0 <= i < j < self.constraints.len() ==> (#[trigger] self.constraints[i]).id != (#[trigger] self.constraints[j]).id,
                forall|i: int, j: int| 0 <= i < j < it_2.index@ && rc_id(self.removed_constraints[i]) is Some ==> rc_id(#[trigger] self.removed_constraints[i]) != rc_id(#[trigger] self.removed_constraints[j]),
                forall|i: int, j: int| 0 <= i < self.constraints.len() && 0 <= j < it_2.index@ ==> Some((#[trigger] self.constraints[i]).id) != rc_id(#[trigger] self.removed_constraints[j]),''',
                            body_proof=''' proof { if c.constraint is Some { let k = c.constraint->Some_0.id;
                lemma_c_id_set_mem(self.constraints@, self.constraints.len() as int, k); lemma_rc_id_set_mem(self.removed_constraints@, it_2.index@ as int, k); } }''')])


def validate():
    return Unit('Instance::validate', F, 'validate', impl=I, wrap=W, sig='pub fn validate(&self) -> Result<()>',
                header='''pub fn validate(&self) -> (r: Result<(), VErr>)
        // Instance validation succeeds exactly when variable ids are unique, constraint ids are unique across active and removed
        // constraints, and every variable used in the objective, constraints or removed constraints is defined
        ensures r is Ok <==> (dv_ids_distinct(self.decision_variables@) && c_ids_distinct(self.constraints@, self.removed_constraints@)
            && inst_used(*self).subset_of(dv_ids(self.decision_variables@, self.decision_variables.len() as int))),''')


# ---- parametric instance ----
P = 'parametric_instance.rs'
PI = r'impl ParametricInstance \{'
PW = ('impl ParametricInstance {', '}')


def p_objective():
    return Unit('ParametricInstance::objective', P, 'objective', impl=PI, wrap=PW, sig='pub fn objective(&self) -> Cow<Function>',
                header='''pub fn objective(&self) -> (r: Function)
    ensures r == pfun(*self),''',
                subs=[('Cow::Borrowed(f)', 'f.vclone()'), ('Cow::Owned(Function::default())', 'Function::default()')],
                proofs=[])


def p_used_ids():
    return Unit('ParametricInstance::used_ids', P, 'used_ids', impl=PI, wrap=PW, sig='pub fn used_ids(&self) -> Result<BTreeSet<u64>>',
                header='''pub fn used_ids(&self) -> (r: Result<BTreeSet<u64>, VErr>)
        ensures r is Ok, r->Ok_0@ =~= pinst_used(*self),''',
                rsubs=[(r'used_ids\.extend\((c\.function\(\)\.used_decision_variable_ids\(\))\);', r'btreeset_extend(&mut used_ids, \1);', None)],
                loops=[dict(kind='for', it='it_1', inv='''invariant used_ids@ =~= fn_used(pfun(*self)).union(cs_used(self.constraints@, it_1.index@ as int)),''')])


def p_validate_ids():
    return Unit('ParametricInstance::validate_ids', P, 'validate_ids', impl=PI, wrap=PW, sig='pub fn validate_ids(&self) -> Result<()>',
                header='''pub fn validate_ids(&self) -> (r: Result<(), VErr>)
        // succeeds EXACTLY when decision-variable and parameter ids are jointly unique and cover every id used by the objective and the active constraints
        ensures r is Ok <==> (joint_ids_distinct(self.decision_variables@, self.parameters@)
            && pinst_used(*self).subset_of(dv_ids(self.decision_variables@, self.decision_variables.len() as int).union(p_ids(self.parameters@, self.parameters.len() as int)))),''',
                rsubs=[(r'let sub = used_ids\.difference\(&ids\)\.collect::<BTreeSet<_>>\(\);', '', 1),
                       (r'let mut ids = BTreeSet::new\(\);', 'let mut ids: BTreeSet<u64> = BTreeSet::new();', 1)],
                loops=[dict(kind='for', it='it_1', inv='''invariant
                ids@ =~= dv_ids(self.decision_variables@, it_1.index@ as int),
                forall|i: int, j: int| 0 <= i < j < it_1.index@ ==> (#[trigger] self.decision_variables[i]).id != (#[trigger] self.decision_variables[j]).id,''',
                            body_proof=' proof { lemma_dv_ids_mem(self.decision_variables@, it_1.index@ as int, dv.id); }'),
                       dict(kind='for', it='it_2', inv='''invariant
                ids@ =~= dv_ids(self.decision_variables@, self.decision_variables.len() as int).union(p_ids(self.parameters@, it_2.index@ as int)),
                dv_ids_distinct(self.decision_variables@),
                forall|i: int, j: int| 0 <= i < j < it_2.index@ ==> (#[trigger] self.parameters[i]).id != (#[trigger] self.parameters[j]).id,
                forall|i: int, j: int| 0 <= i < self.decision_variables.len() && 0 <= j < it_2.index@ ==> (#[trigger] self.decision_variables[i]).id != (#[trigger] self.parameters[j]).id,''',
                            body_proof=' proof { lemma_dv_ids_mem(self.decision_variables@, self.decision_variables.len() as int, p.id); lemma_p_ids_mem(self.parameters@, it_2.index@ as int, p.id); }')])


def p_validate_constraint_ids():
    return Unit('ParametricInstance::validate_constraint_ids', P, 'validate_constraint_ids', impl=PI, wrap=PW, sig='pub fn validate_constraint_ids(&self) -> Result<()>',
                header='''pub fn validate_constraint_ids(&self) -> (r: Result<(), VErr>)
        ensures r is Ok <==> c_ids_distinct(self.constraints@, self.removed_constraints@),''',
                rsubs=[(r'let mut ids = BTreeSet::new\(\);', 'let mut ids: BTreeSet<u64> = BTreeSet::new();', 1)],
                loops=[dict(kind='for', it='it_1', inv='''invariant
                ids@ =~= c_id_set(self.constraints@, it_1.index@ as int),
                forall|i: int, j: int| 0 <= i < j < it_1.index@ ==> (#[trigger] self.constraints[i]).id != (#[trigger] self.constraints[j]).id,''',
                            body_proof=' proof { lemma_c_id_set_mem(self.constraints@, it_1.index@ as int, c.id); }'),
                       dict(kind='for', it='it_2', inv='''invariant
                ids@ =~= c_id_set(self.constraints@, self.constraints.len() as int).union(rc_id_set(self.removed_constraints@, it_2.index@ as int)),
                forall|i: int, j: int| 0 <= i < j < self.constraints.len() ==> (#[trigger] self.constraints[i]).id != (#[trigger] self.constraints[j]).id,
                forall|i: int, j: int| 0 <= i < j < it_2.index@ && rc_id(self.removed_constraints[i]) is Some ==> rc_id(#[trigger] self.removed_constraints[i]) != rc_id(#[trigger] self.removed_constraints[j]),
                forall|i: int, j: int| 0 <= i < self.constraints.len() && 0 <= j < it_2.index@ ==> Some((#[trigger] self.constraints[i]).id) != rc_id(#[trigger] self.removed_constraints[j]),''',
                            body_proof=''' proof { if c.constraint is Some { let k = c.constraint->Some_0.id;
                lemma_c_id_set_mem(self.constraints@, self.constraints.len() as int, k); lemma_rc_id_set_mem(self.removed_constraints@, it_2.index@ as int, k); } }''')])


def p_validate():
    return Unit('ParametricInstance::validate', P, 'validate', impl=PI, wrap=PW, sig='pub fn validate(&self) -> Result<()>',
                header='''pub fn validate(&self) -> (r: Result<(), VErr>)
        ensures r is Ok <==> (joint_ids_distinct(self.decision_variables@, self.parameters@) && c_ids_distinct(self.constraints@, self.removed_constraints@)
            && pinst_used(*self).subset_of(dv_ids(self.decision_variables@, self.decision_variables.len() as int).union(p_ids(self.parameters@, self.parameters.len() as int)))),''')
